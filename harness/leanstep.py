"""Proof-obligation step of a check run: build the Lean project, audit sources and axioms.

The Lean sources do not read /repo: they are tied to the code by the correspondence suites.
A failure here on a clean /verif is therefore a failure of the machinery (exit 2), never a
verdict about the repository.
"""
import json
import os
import re
import subprocess
import time

from crlib import VERIF

LEAN_DIR = os.path.join(VERIF, "lean")
ALLOWED_AXIOMS = {"propext", "Classical.choice", "Quot.sound"}
FORBIDDEN = re.compile(r"\bsorry\b|\badmit\b|^\s*axiom\s|native_decide|bv_decide|implemented_by|"
                       r"\bunsafe\s|maxHeartbeats\s+0\b|@\[extern", re.M)

TRUSTED_BASE = [
    "Lean 4.33.0 kernel (thorough tier: re-checked with leanchecker)",
    "axioms allowed in property theorems: propext, Classical.choice, Quot.sound (audited with #print axioms on every run); no sorry/admit/axiom/native_decide/bv_decide/implemented_by/unsafe (source grep on every run)",
    "Mathlib v4.33.0 single modules imported by proof files only",
    "hand-written executable Lean model of the Python code (CR/Model/*.lean); tied to /repo's working tree by the correspondence suites run by this check (deciding tie) and, for the pure functions listed under proof.translator_tie, by tie theorems re-checked against a fresh mechanical translation of the working tree (harness/py2lean.py + CR/Extracted/Prelude.lean are the trusted base of that second tie: parameter-type annotations, UnboundLocalError/IndexError/ZeroDivisionError/TypeError not modelled, ints in float positions read as floats, file writes dropped, struct-of-arrays view of state_list)",
    "Python harness, generators and exact-Fraction oracles: trusted for the failing-input search and the direct oracle pass, not for the theorems",
    "exact-arithmetic theorems vs IEEE doubles: the Float instantiation of the same model is compared with CPython bit-for-bit / within 1e-12; nothing is proved about rounding error",
    "CPython random/repr/eval/argparse/filesystem/deepcopy: not modelled",
]


# which hand-proved tie modules (translation of the code == hand-written model) concern which property
TIE_MODULES = {
    "C01": ["Tad", "Rdfs", "RdfsLoop"], "C02": ["Tad"], "C03": ["Tad", "TransferTad", "PruneStates"], "C04": ["Tad", "TransferTad"],
    "C05": ["Tad", "TransferTad"], "C06": ["Tad", "Rdfs", "RdfsLoop"], "C07": ["Rdfs", "RdfsLoop"],
    "C08": ["Gen", "Gen2", "TransferGen"], "C11": ["Gen", "Gen2", "TransferGen"], "C13": ["Tad", "Rdfs", "RdfsLoop"],
    "C09": ["Check"], "C14": ["Tad"], "C15": ["Gen2", "TransferGen"], "C17": ["Gen2", "TransferGen"],
}
TIE_SOURCES = {"Gen": ["roberta_generator.py"], "Gen2": ["roberta_generator.py", "stochastic_game_from_roborta_board.py"],
               "TransferGen": ["roberta_generator.py", "stochastic_game_from_roborta_board.py"],
               "Rdfs": ["reverse_dfs.py"], "RdfsLoop": ["reverse_dfs.py"], "Tad": ["tad.py"], "TransferTad": ["tad.py"], "Check": ["tad.py"], "PruneStates": ["tad.py"]}


def translator_tie(prop, env, tier="quick"):
    """Second tie (DESIGN.md 12): re-translate the pure functions of /repo's working tree into
    lean/CR/Extracted/*.lean and re-check the tie theorems (translation == hand model, all arguments) that concern
    this property.  Never fatal: a tie that no longer checks is reported, makes the check look harder (failing-input
    search), and is not a violation by itself — the correspondence suites remain the deciding tie."""
    import py2lean
    out = {"modules": [], "status": "not-applicable", "units": {}, "theorems": [], "axioms_ok": None}
    mods = [m for m in TIE_MODULES.get(prop, []) if os.path.exists(os.path.join(LEAN_DIR, "CR", "Tie", m + ".lean"))]
    try:
        rep = py2lean.run()
    except Exception as e:  # noqa
        out.update(status="translator-failed", detail=f"{type(e).__name__}: {e}"[:500])
        return out
    srcs = {f for m in mods for f in TIE_SOURCES[m]}
    out["units"] = {k: v for k, v in rep["units"].items() if k.split(":")[0] in srcs}
    out["regenerated_files_differ_from_last_run"] = rep["changed_files"]
    if not mods:
        return out
    out["modules"] = ["CR.Tie." + m for m in mods]
    t0 = time.time()
    p = subprocess.run(["lake", "build"] + out["modules"], cwd=LEAN_DIR, capture_output=True, text=True, env=env)
    out["wall_s"] = round(time.time() - t0, 2)
    if p.returncode != 0:
        errs = [l for l in (p.stdout + p.stderr).split("\n") if l.startswith("error:")]
        out.update(status="broken", detail="\n".join(errs[:8])[:1500])
        return out
    # axioms of the tie theorems
    names = []
    for m in mods:
        src = strip_comments(open(os.path.join(LEAN_DIR, "CR", "Tie", m + ".lean")).read())
        if FORBIDDEN.search(src):
            out.update(status="broken", detail=f"forbidden construct in CR/Tie/{m}.lean")
            return out
        for mm in re.finditer(r"^\s*theorem\s+([^\s:({\[]+)", src, re.M):
            names.append("CR.Tie." + mm.group(1))
    audit = os.path.join(LEAN_DIR, ".lake", f"audit_tie_{prop}.lean")
    with open(audit, "w") as f:
        for m in mods:
            f.write(f"import CR.Tie.{m}\n")
        for n in names:
            f.write(f"#print axioms {n}\n")
    q = subprocess.run(["lake", "env", "lean", audit], cwd=LEAN_DIR, capture_output=True, text=True, env=env)
    txt = q.stdout + q.stderr
    bad = []
    for n in names:
        mm = re.search(r"'" + re.escape(n) + r"' (does not depend on any axioms|depends on axioms: \[([^\]]*)\])", txt)
        if not mm:
            bad.append(n + " (not found)")
            continue
        axs = set(a.strip() for a in (mm.group(2) or "").replace("\n", " ").split(",") if a.strip())
        if not axs <= ALLOWED_AXIOMS:
            bad.append(n + " (axioms " + ",".join(sorted(axs - ALLOWED_AXIOMS)) + ")")
    out["theorems"] = names
    out["axioms_ok"] = not bad
    # translation validation: the emitted definitions evaluated against the Python functions on sampled arguments
    try:
        import exval
        tv = exval.run(mods, seed=int(os.environ.get("VERIF_SEED", "0") or 0), n=8 if tier == "quick" else 150)
    except Exception as e:  # noqa
        tv = {"error": f"{type(e).__name__}: {e}"[:400], "cases": 0, "n_mismatches": 0}
    out["translation_validation"] = tv
    if bad or q.returncode != 0:
        out.update(status="broken", detail=("axiom audit: " + "; ".join(bad))[:1500])
    elif tv.get("n_mismatches") or tv.get("error"):
        out.update(status="broken", detail=("translation validation: the emitted Lean definition and the Python function differ: "
                                            + json.dumps(tv.get("mismatches") or tv.get("error"))[:1200]))
    else:
        untr = [k for k, v in out["units"].items() if v != "translated"]
        out["status"] = "checked"
        out["not_translated"] = untr
        if tier == "thorough":
            # independent re-check of the compiled tie modules
            c = subprocess.run(["lake", "env", "leanchecker"] + out["modules"], cwd=LEAN_DIR, capture_output=True, text=True, env=env)
            out["leanchecker"] = "ok" if c.returncode == 0 else (c.stdout + c.stderr)[-800:]
            if c.returncode != 0:
                out.update(status="broken", detail="leanchecker rejected a tie module: " + out["leanchecker"])
    return out


def strip_comments(src):
    src = re.sub(r"/-.*?-/", "", src, flags=re.S)
    src = re.sub(r"--[^\n]*", "", src)
    return src


def cone_files():
    out = []
    for root, _, files in os.walk(os.path.join(LEAN_DIR, "CR")):
        for f in files:
            if f.endswith(".lean"):
                out.append(os.path.join(root, f))
    out.append(os.path.join(LEAN_DIR, "Driver.lean"))
    return sorted(out)


def prop_modules(prop):
    """the property's theorem modules: CR/Props/<id>.lean plus companions <id><Suffix>.lean, restricted to
    the modules listed in lean/READY (files still under construction are not part of any check)"""
    ready = open(os.path.join(LEAN_DIR, "READY")).read().split()
    return [m for m in ready if re.match(re.escape(prop) + r"([A-Z][A-Za-z]*)?$", m)
            and os.path.exists(os.path.join(LEAN_DIR, "CR", "Props", m + ".lean"))]


def theorem_names(prop):
    """fully qualified names of the public theorems of the property's modules (namespaces tracked line
    by line: a file may open several) and the number of `example`s"""
    names, n_examples = [], 0
    for mod in prop_modules(prop):
        src = strip_comments(open(os.path.join(LEAN_DIR, "CR", "Props", mod + ".lean")).read())
        stack = []
        for line in src.split("\n"):
            m = re.match(r"^namespace\s+(\S+)", line)
            if m:
                stack.append(m.group(1))
                continue
            m = re.match(r"^end\s+(\S+)", line)
            if m and stack and stack[-1] == m.group(1):
                stack.pop()
                continue
            m = re.match(r"^\s*(?:protected\s+)?theorem\s+([^\s:({\[]+)", line)
            if m:
                names.append(".".join(stack + [m.group(1)]))
            elif re.match(r"^\s*example\b", line):
                n_examples += 1
    return names, n_examples


def run(prop, tier):
    t0 = time.time()
    res = {"obligations": 0, "discharged": 0, "theorems": [], "axioms": {}, "failed": [],
           "trusted_base": TRUSTED_BASE,
           "checker_cmd": f"cd lean && lake build crmodel CR.Props.{prop} && lake env lean .lake/audit_{prop}.lean  (generated: #print axioms of every theorem of CR/Props/{prop}*.lean)"
                          + (" && lake env leanchecker CR.Props." + prop if tier == "thorough" else "")}
    env = dict(os.environ)
    mods = prop_modules(prop)
    if not mods:
        res["fatal"] = f"no property theorem file CR/Props/{prop}.lean"
        return res
    p = subprocess.run(["lake", "build", "crmodel"] + ["CR.Props." + m for m in mods], cwd=LEAN_DIR,
                       capture_output=True, text=True, env=env)
    if p.returncode != 0:
        res["fatal"] = "lake build failed:\n" + (p.stdout + p.stderr)[-3000:]
        return res
    # source audit of the whole cone (cheap)
    bad = []
    for f in cone_files():
        m = FORBIDDEN.search(strip_comments(open(f).read()))
        if m:
            bad.append(f"{os.path.relpath(f, LEAN_DIR)}: {m.group(0).strip()}")
    if bad:
        res["fatal"] = "forbidden construct in Lean sources: " + "; ".join(bad)
        return res
    names, n_examples = theorem_names(prop)
    if not names:
        res["fatal"] = f"no theorem in CR/Props/{prop}*.lean"
        return res
    res["obligations"] = len(names) + n_examples
    audit = os.path.join(LEAN_DIR, ".lake", f"audit_{prop}.lean")
    with open(audit, "w") as f:
        for m in mods:
            f.write(f"import CR.Props.{m}\n")
        for n in names:
            f.write(f"#print axioms {n}\n")
    p = subprocess.run(["lake", "env", "lean", audit], cwd=LEAN_DIR, capture_output=True, text=True, env=env)
    out = p.stdout + p.stderr
    ok = 0
    for n in names:
        m = re.search(r"'" + re.escape(n) + r"' (does not depend on any axioms|depends on axioms: \[([^\]]*)\])", out)
        if not m:
            res["failed"].append(n + " (not found)")
            continue
        axs = set(a.strip() for a in (m.group(2) or "").replace("\n", " ").split(",") if a.strip())
        res["axioms"][n] = sorted(axs)
        if axs <= ALLOWED_AXIOMS:
            ok += 1
        else:
            res["failed"].append(n + " (axioms " + ",".join(sorted(axs - ALLOWED_AXIOMS)) + ")")
    res["theorems"] = names
    # the examples (non-vacuity) compiled as part of the module build
    res["discharged"] = ok + (n_examples if p.returncode == 0 else 0)
    if p.returncode != 0:
        res["fatal"] = "axiom audit failed to run:\n" + out[-2000:]
        return res
    if res["failed"]:
        res["fatal"] = "axiom audit: " + "; ".join(res["failed"])
        return res
    if tier == "thorough":
        p = subprocess.run(["lake", "env", "leanchecker"] + ["CR.Props." + m for m in mods], cwd=LEAN_DIR,
                           capture_output=True, text=True, env=env)
        res["leanchecker"] = "ok" if p.returncode == 0 else (p.stdout + p.stderr)[-1500:]
        if p.returncode != 0:
            res["fatal"] = "leanchecker rejected CR.Props." + prop + ": " + res["leanchecker"]
            return res
    res["translator_tie"] = translator_tie(prop, env, tier)
    res["lean_wall_s"] = round(time.time() - t0, 2)
    return res
