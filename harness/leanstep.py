"""placeholder, replaced below"""
def run(prop, tier):
    return {"fatal": "lean project not built"}
