"""Seeded generators of game descriptions.

A generated game is a dict  {rewards, players, transition_list, final_states}  in the
repository's own format plus, under key "_x", the exact rational probabilities that were
intended (a parallel transition list with Fractions).  `desc(g)` strips the private key and
returns a fresh deep copy to hand to the code under test.
"""
import copy
import itertools
from fractions import Fraction as Fr

P1, P2, PR = "Player 1", "Player 2", "Probabilistic"

DENOMS_DYADIC = [2, 4, 8, 16]
DENOMS_DEC = [5, 10, 20, 100]


def desc(g):
    return {k: copy.deepcopy(v) for k, v in g.items() if not k.startswith("_")}


def exact_tl(g):
    """transition list with exact probabilities (Fractions)"""
    if "_x" in g:
        return g["_x"]
    out = []
    for pl, tr in zip(g["players"], g["transition_list"]):
        if pl == PR:
            out.append([(Fr(p), t) for p, t in tr])
        else:
            out.append(list(tr))
    return out


def split_probs(rng, k, dyadic=None):
    """k positive rationals summing to 1 with a small common denominator."""
    if dyadic is None:
        dyadic = rng.random() < 0.7
    ds = [d for d in (DENOMS_DYADIC if dyadic else DENOMS_DEC) if d >= k]
    D = rng.choice(ds) if ds else k
    cuts = sorted(rng.sample(range(1, D), k - 1)) if k > 1 else []
    parts = [b - a for a, b in zip([0] + cuts, cuts + [D])]
    return [Fr(a, D) for a in parts]


def finish(rewards, players, xtl, finals, meta=None):
    tl = []
    for pl, tr in zip(players, xtl):
        if pl == PR:
            row = []
            for p, t in tr:
                fp = float(p)
                row.append((1 if p == 1 else fp, t))
            tl.append(row)
        else:
            tl.append(list(tr))
    g = {"rewards": list(rewards), "players": list(players), "transition_list": tl,
         "final_states": list(finals), "_x": [list(r) for r in xtl]}
    if meta:
        g["_meta"] = meta
    return g


ACTIONS = ["a", "b", "c", "d", "e", "f"]


def stopping_game(rng, n_inner=None, dead_frac=None, max_deg=4, reward_max=4, extra_finals=0.0):
    """Stopping game by construction.

    Inner states 0..m-1, then `lose` = m (absorbing, reward 0), `win` = m+1 (the only final,
    absorbing, reward 0).  Player states only move to strictly larger indices; probabilistic
    states may move anywhere but put positive probability on a strictly larger index.  Hence
    under all strategies the index increases with probability bounded below within a bounded
    number of steps and every play is absorbed in lose/win.  A random subset of inner states
    is made *dead* (can only continue into dead states or lose) so that zero-probability
    successors occur in every position.
    """
    m = n_inner if n_inner is not None else rng.randint(1, 9)
    lose, win = m, m + 1
    n = m + 2
    if dead_frac is None:
        dead_frac = rng.choice([0.0, 0.2, 0.35, 0.5])
    dead = set(i for i in range(1, m) if rng.random() < dead_frac)
    if m >= 1 and rng.random() < 0.04:
        dead.add(0)
    players, xtl, rewards = [], [], []
    for i in range(m):
        pl = rng.choice([P1, P2, PR, PR])
        players.append(pl)
        rewards.append(rng.choice([0, 0, 1, 2, 3, reward_max]) if rng.random() < 0.7 else 0)
        higher_all = list(range(i + 1, n))
        if i in dead:
            higher = [j for j in higher_all if j in dead or j == lose]
            anyw = [j for j in range(n) if j in dead or j == lose]
        else:
            higher, anyw = higher_all, list(range(n))
        if pl == PR:
            k = rng.randint(1, max_deg)
            tg = [rng.choice(higher)] + [rng.choice(anyw) for _ in range(k - 1)]
            rng.shuffle(tg)
            if rng.random() < 0.85:
                # distinct targets most of the time; duplicates are legal and kept sometimes
                seen, tg2 = set(), []
                for t in tg:
                    if t not in seen:
                        seen.add(t)
                        tg2.append(t)
                tg = tg2
            ps = split_probs(rng, len(tg))
            xtl.append(list(zip(ps, tg)))
        else:
            k = rng.randint(1, min(max_deg, 3))
            tg = [rng.choice(higher) for _ in range(k)]
            xtl.append([(ACTIONS[j], t) for j, t in enumerate(tg)])
    players += [PR, PR]
    rewards += [0, 0]
    xtl += [[(Fr(1), lose)], [(Fr(1), win)]]
    finals = [win]
    if m >= 2 and rng.random() < extra_finals:
        # additional final states of any owner, NOT absorbing (legal; outside the "stopping" quantifier
        # of C02/C14, inside the one of C01/C03/C04/C05/C06/C13)
        finals += rng.sample(range(0 if rng.random() < 0.2 else 1, m), rng.randint(1, min(2, m - 1)))
        rng.shuffle(finals)
    return finish(rewards, players, xtl, finals, {"family": "stopping", "m": m, "extra_finals": len(finals) - 1})


def dead_shape_game(rng, kind, pattern, front=None, dead_reward=None, selfloop=None):
    """State with successors in a given live/dead pattern.

    pattern: tuple of 0/1 (1 = dead successor).  kind: P1 or PR for the shaped state.
    Layout: [front?] S, one state per successor, lose, win.  Dead successors are distinct
    probabilistic states leading to lose (optionally via a self-loop and with a reward);
    live successors are probabilistic states reaching win with positive probability.
    """
    k = len(pattern)
    front = front if front is not None else rng.choice([None, P1, P2, PR])
    dead_reward = dead_reward if dead_reward is not None else rng.choice([0, 0, 2])
    selfloop = selfloop if selfloop is not None else rng.random() < 0.3
    players, xtl, rewards = [], [], []
    base = 0
    if front is not None:
        players.append(front)
        rewards.append(rng.choice([0, 1]))
        xtl.append(None)
        base = 1
    S = base
    succ0 = S + 1
    lose, win = succ0 + k, succ0 + k + 1
    n = win + 1
    if front is not None:
        xtl[0] = [(Fr(1), S)] if front == PR else [("go", S)]
    players.append(kind)
    rewards.append(rng.choice([0, 1, 3]))
    tg = [succ0 + j for j in range(k)]
    if kind == PR:
        xtl.append(list(zip(split_probs(rng, k), tg)))
    else:
        xtl.append([(ACTIONS[j], t) for j, t in enumerate(tg)])
    for j, d in enumerate(pattern):
        players.append(PR)
        me = succ0 + j
        if d:
            rewards.append(dead_reward)
            if selfloop:
                xtl.append([(Fr(1, 2), lose), (Fr(1, 2), me)])
            else:
                xtl.append([(Fr(1), lose)])
        else:
            rewards.append(rng.choice([0, 1, 2]))
            q = rng.choice([Fr(1), Fr(1, 2), Fr(3, 4), Fr(1, 4)]) if rng.random() < 0.8 else \
                rng.choice([Fr(1, 2 ** 31), Fr(1, 2 ** 40), Fr(1, 2 ** 50), Fr(1, 2 ** 20)])   # tiny but positive
            if q == 1:
                xtl.append([(Fr(1), win)])
            else:
                xtl.append([(q, win), (1 - q, lose)])
    players += [PR, PR]
    rewards += [0, 0]
    xtl += [[(Fr(1), lose)], [(Fr(1), win)]]
    return finish(rewards, players, xtl, [win],
                  {"family": "dead_shape", "kind": kind, "pattern": list(pattern),
                   "front": front, "selfloop": selfloop, "dead_reward": dead_reward})


def all_patterns(kmax):
    for k in range(1, kmax + 1):
        for pat in itertools.product((0, 1), repeat=k):
            yield pat


def free_game(rng, n=None, n_finals=None, absorbing_finals=None):
    """Arbitrary topology: player cycles, several finals (absorbing or not), unreachable
    parts, parallel edges and duplicate transitions.  Not necessarily stopping."""
    n = n if n is not None else rng.randint(3, 10)
    nf = n_finals if n_finals is not None else rng.choice([1, 1, 2, 3])
    nf = min(nf, n - 1)
    finals = rng.sample(range(1, n), nf) if rng.random() < 0.95 else rng.sample(range(n), nf)
    if absorbing_finals is None:
        absorbing_finals = rng.random() < 0.6
    players, xtl, rewards = [], [], []
    sparse = rng.random() < 0.5
    for i in range(n):
        pl = rng.choice([P1, P2, PR])
        if i in finals and absorbing_finals:
            players.append(PR)
            rewards.append(0)
            xtl.append([(Fr(1), i)])
            continue
        players.append(pl)
        rewards.append(rng.choice([0, 0, 1, 2, 5]))
        k = rng.randint(1, 2 if sparse else 4)
        pool = list(range(n))
        if rng.random() < 0.3:
            pool = list(range(max(0, i - 2), min(n, i + 3)))
        tg = [rng.choice(pool) for _ in range(k)]
        if pl == PR:
            xtl.append(list(zip(split_probs(rng, k), tg)))
        else:
            xtl.append([(ACTIONS[j], t) for j, t in enumerate(tg)])
    if rng.random() < 0.5:
        # repeat finals / permute them: legal for the code
        finals = finals + [finals[0]] if rng.random() < 0.3 else finals
        rng.shuffle(finals)
    return finish(rewards, players, xtl, finals, {"family": "free", "n": n})


def slow_cycle_game(rng):
    """Probabilistic self-loops / cycles with large stay probability: value iteration needs
    many sweeps; exercises the residual-stop behaviour and rounded ties."""
    gam = rng.choice([Fr(1, 2), Fr(3, 4), Fr(7, 8), Fr(15, 16), Fr(9, 10), Fr(99, 100)])
    r = (1 - gam) / 2
    kind = rng.choice([P1, P2])
    # 0: player a->1, b->2 ; 1 = [(1/2,win),(1/2,lose)] ; 2 = [(gam,2),(r,win),(r,lose)]
    players = [kind, PR, PR, PR, PR]
    rewards = [rng.choice([0, 1]), rng.choice([0, 2]), rng.choice([0, 1]), 0, 0]
    lose, win = 3, 4
    xtl = [[("a", 1), ("b", 2)],
           [(Fr(1, 2), win), (Fr(1, 2), lose)],
           [(gam, 2), (r, win), (r, lose)],
           [(Fr(1), lose)], [(Fr(1), win)]]
    if rng.random() < 0.5:
        xtl[0].reverse()
    return finish(rewards, players, xtl, [win], {"family": "slow_cycle", "gamma": str(gam)})


def _order_sensitive_rows():
    """probability rows (hundredths) whose FLOATING-POINT sum depends on the order of the terms"""
    import itertools
    import random as _r
    r = _r.Random(12345)
    out = []
    while len(out) < 40:
        k = r.choice([3, 3, 4])
        cuts = sorted(r.sample(range(1, 100), k - 1))
        parts = [b - a for a, b in zip([0] + cuts, cuts + [100])]
        sums = set()
        for perm in itertools.permutations(parts):
            s = 0
            for x in perm:
                s += x / 100
            sums.add(s)
        if len(sums) > 1 and max(sums) > 1:
            out.append(parts)
    return out


def _non_idempotent_rows():
    """rows (hundredths, in a fixed order) whose float sum is not 1 and for which dividing by the sum
    does not yet give a row that sums to 1 (normalising twice differs from normalising once)"""
    import random as _r
    r = _r.Random(54321)
    out = [[57, 13, 1, 29]]
    tries = 0
    while len(out) < 25 and tries < 200000:
        tries += 1
        k = r.choice([3, 4, 4, 5])
        cuts = sorted(r.sample(range(1, 100), k - 1))
        parts = [b - a for a, b in zip([0] + cuts, cuts + [100])]
        r.shuffle(parts)
        row = [x / 100 for x in parts]
        tot = sum(row)
        if tot == 1:
            continue
        row1 = [x / tot for x in row]
        tot1 = sum(row1)
        if tot1 != 1 and [x / tot1 for x in row1] != row1:
            out.append(parts)
    return out


ORDER_SENSITIVE_ROWS = _order_sensitive_rows()
NON_IDEMPOTENT_ROWS = _non_idempotent_rows()


def decimal_sum_game(rng):
    """a probabilistic state whose probabilities are hundredths with an order-dependent float sum
    (e.g. 0.1/0.34/0.56: some orders add up to 1.0000000000000002)"""
    if rng.random() < 0.5:
        parts = list(rng.choice(ORDER_SENSITIVE_ROWS))
        rng.shuffle(parts)
    else:
        parts = list(rng.choice(NON_IDEMPOTENT_ROWS))      # order matters: keep it
    k = len(parts)
    kind = rng.choice([None, P1, P2])
    players, xtl, rewards = [], [], []
    base = 0
    if kind is not None:
        players.append(kind)
        rewards.append(0)
        xtl.append([("a", 1)])
        base = 1
    S = base
    succ = [S + 1 + j for j in range(k)]
    lose, win = S + 1 + k, S + 2 + k
    players.append(PR)
    rewards.append(rng.choice([0, 2]))
    xtl.append([(Fr(a, 100), t_) for a, t_ in zip(parts, succ)])
    for j in range(k):
        players.append(PR)
        rewards.append(rng.choice([0, 1, 3]))
        q = rng.choice([Fr(1), Fr(1, 2), Fr(0)])
        xtl.append([(Fr(1), win)] if q == 1 else [(Fr(1), lose)] if q == 0 else [(q, win), (1 - q, lose)])
    players += [PR, PR]
    rewards += [0, 0]
    xtl += [[(Fr(1), lose)], [(Fr(1), win)]]
    return finish(rewards, players, xtl, [win], {"family": "decimal_sum"})


def corridor_choice_game(rng, k=None):
    """a player at state 0 chooses between a CERTAIN corridor of k probabilistic states (indices
    increasing towards the goal: one more state settles per sweep) and a coin flip"""
    k = k or rng.choice([33, 45, 60])
    kind = rng.choice([P1, P2])
    coin, lose, win = k + 1, k + 2, k + 3
    players = [kind] + [PR] * k + [PR, PR, PR]
    rewards = [0] * (k + 4)
    row0 = [("a", 1), ("b", coin)]
    if rng.random() < 0.5:
        row0.reverse()
    xtl = [row0] + [[(Fr(1), i + 1 if i < k else win)] for i in range(1, k + 1)] + \
        [[(Fr(1, 2), win), (Fr(1, 2), lose)], [(Fr(1), lose)], [(Fr(1), win)]]
    return finish(rewards, players, xtl, [win], {"family": "corridor_choice", "k": k})


def close_values_game(rng):
    """acyclic: successors whose exact values differ by a few 1e-6 (more than the solver's tolerance,
    less than ten times it) — they must NOT be reported as tied"""
    kind = rng.choice([P1, P2])
    d = rng.choice([Fr(3, 10 ** 6), Fr(4, 10 ** 6), Fr(8, 10 ** 6)])
    base = rng.choice([Fr(1, 2), Fr(1, 4), Fr(3, 4)])
    lose, win = 4, 5
    players = [kind, PR, PR, PR, PR, PR]
    rows = [[(base, win), (1 - base, lose)], [(base + d, win), (1 - base - d, lose)], [(base, win), (1 - base, lose)]]
    order = [1, 2, 3]
    rng.shuffle(order)
    xtl = [[(ACTIONS[j], s) for j, s in enumerate(order)]] + rows + [[(Fr(1), lose)], [(Fr(1), win)]]
    return finish([0] * 6, players, xtl, [win], {"family": "close_values"})


def with_empty_action(g, rng):
    """the same game with one action name replaced by the empty string (a legal str)"""
    names = sorted({a for pl, row in zip(g["players"], g["transition_list"]) if pl != PR for a, _ in row})
    if not names:
        return g
    victim = rng.choice(names)
    xt = [[(("" if (isinstance(l, str) and l == victim) else l), t_) for l, t_ in row] for row in exact_tl(g)]
    return finish(g["rewards"], g["players"], xt, g["final_states"], dict(g.get("_meta", {}), empty_action=True))


def all_dead_game(rng):
    """no non-final state can reach the final state (the backward search returns nothing)"""
    n = rng.randint(2, 5)
    lose, win = n, n + 1
    players = [rng.choice([P1, P2, PR]) for _ in range(n)] + [PR, PR]
    xtl = []
    for i in range(n):
        t1, t2 = rng.choice([j for j in range(n + 1)]), lose
        xtl.append([(Fr(1, 2), t1), (Fr(1, 2), t2)] if players[i] == PR else [("a", t1), ("b", t2)])
    xtl += [[(Fr(1), lose)], [(Fr(1), win)]]
    return finish([0] * (n + 2), players, xtl, [win], {"family": "all_dead"})


def big_dead_corridor(n=2100, rng=None):
    """a long corridor solved in ONE sweep (state i leads to i-1, state 1 to the winning state), every
    state with an extra branch into the dead sink: Player-1 states (a 'bad' action) and probabilistic
    states (probability 2^-12) alternate; indices 1000, 2000, ... are ordinary corridor states"""
    import random as _r
    rng = rng or _r.Random(n)
    m = n - 2
    lose, win = n - 2, n - 1
    players, xtl, rewards = [], [], []
    for i in range(m):
        nxt = (m - 1) if i == 0 else (i - 1 if i > 1 else win)
        if i == 0:
            players.append(PR)
            rewards.append(0)
            xtl.append([(Fr(1), nxt)])
        elif i % 2 == 0 and i % 500 != 0:
            players.append(P1)
            rewards.append(i % 3)
            row = [("go", nxt), ("bad", lose)]
            if i % 4 == 0:
                row.reverse()
            xtl.append(row)
        else:
            players.append(PR)
            rewards.append(0)
            xtl.append([(1 - Fr(1, 2 ** 12), nxt), (Fr(1, 2 ** 12), lose)] if i % 3 else
                       [(Fr(1, 2 ** 12), lose), (1 - Fr(1, 2 ** 12), nxt)])
    players += [PR, PR]
    rewards += [0, 0]
    xtl += [[(Fr(1), lose)], [(Fr(1), win)]]
    return finish(rewards, players, xtl, [win], {"family": "big_dead_corridor", "n": n})


def cascade_game(k=1050):
    """pruning cascade: Player 1 at state 0 prefers 'a' (straight to the goal) to 'b' (into a chain of k
    probabilistic states that ends in the dead sink); after conditioning the chain head has no
    predecessor, and clearing it orphans the next state, and so on: k rounds of prune_states"""
    lose, win = k + 1, k + 2
    players = [P1] + [PR] * k + [PR, PR]
    rewards = [0] + [1] * k + [0, 0]
    # the chain reaches the goal with probability 1/2 (< 1 = value of action 'a'), so its states are
    # alive but unreachable once 'b' is dropped
    xtl = [[("a", win), ("b", 1)]] + [[(Fr(1), i + 1)] for i in range(1, k)] + [[(Fr(1, 2), win), (Fr(1, 2), lose)]] + \
        [[(Fr(1), lose)], [(Fr(1), win)]]
    return finish(rewards, players, xtl, [win], {"family": "cascade", "k": k})


def tiny_dead_mass_game(rng):
    """a probabilistic state whose DEAD successors carry a probability so small that 1 - p rounds to 1
    (2^-60, 1e-17): they must be removed all the same"""
    q = rng.choice([Fr(1, 2 ** 60), Fr(1, 10 ** 17), Fr(1, 2 ** 80)])
    front = rng.choice([None, P1, P2])
    players, xtl, rewards = [], [], []
    base = 0
    if front:
        players.append(front)
        rewards.append(0)
        xtl.append([("go", 1)])
        base = 1
    S, live, dead, lose, win = base, base + 1, base + 2, base + 3, base + 4
    row = [(q, dead), (Fr(1), live)]
    if rng.random() < 0.5:
        row.reverse()
    players += [PR, PR, PR, PR, PR]
    rewards += [1, 2, 7, 0, 0]
    xtl += [row, [(Fr(1, 2), win), (Fr(1, 2), lose)], [(Fr(1), lose)], [(Fr(1), lose)], [(Fr(1), win)]]
    g = finish(rewards, players, xtl, [win], {"family": "tiny_dead_mass"})
    # the float description: probability 1.0 for the live branch (1 - q rounds to 1)
    return g


def descending_ladder_game(k=20, p=Fr(1, 10 ** 9), q=Fr(1, 10 ** 150)):
    """reach probabilities far below the smallest normal double: a ladder of k events of probability p
    numbered DOWNWARDS (one sweep propagates everything), entered from state 0 through a branch of
    probability q; every one of these states has a positive reachability value and must survive"""
    # states: 0 = entry, 1..k = ladder (state i -> i-1 with prob p, state 1 -> win), k+1 = lose, k+2 = win
    lose, win = k + 1, k + 2
    players = [PR] * (k + 3)
    rewards = [1] + [1] * k + [0, 0]
    xtl = [[(q, k), (1 - q, win)]]
    for i in range(1, k + 1):
        nxt = win if i == 1 else i - 1
        xtl.append([(p, nxt), (1 - p, lose)])
    xtl += [[(Fr(1), lose)], [(Fr(1), win)]]
    return finish(rewards, players, xtl, [win], {"family": "ladder", "k": k})


def parallel_dead_game(rng):
    """a probabilistic state with two or more PARALLEL transitions into one and the same dead state
    (and into one live state), below a player state that has a competing action; conditioning must
    remove the whole parallel mass"""
    k = rng.choice([P1, P2])
    # 0: k  a->1 , b->2 ; 1: chance with parallel dead edges ; 2: competitor ; 3: live target ; 4: dead ; 5: lose ; 6: win
    parts = rng.choice([[Fr(1, 4), Fr(1, 4), Fr(1, 2)], [Fr(1, 8), Fr(1, 8), Fr(1, 4), Fr(1, 2)], [Fr(1, 5), Fr(2, 5), Fr(2, 5)],
                        [Fr(3, 10), Fr(3, 10), Fr(2, 5)]])
    row1 = [(p, 4) for p in parts[:-1]] + [(parts[-1], 3)]
    if rng.random() < 0.5:
        row1.insert(rng.randrange(len(row1)), row1.pop())       # survivor not last
    r3 = rng.choice([6, 9, 10])
    players = [k, PR, PR, PR, PR, PR, PR]
    rewards = [0, 0, 0, r3, rng.choice([0, 5]), 0, 0]
    xtl = [[("a", 1), ("b", 2)], row1,
           [(Fr(1), 6)] if rng.random() < 0.5 else [(Fr(1, 2), 6), (Fr(1, 2), 6)],
           [(Fr(1), 6)], [(Fr(1), 5)], [(Fr(1), 5)], [(Fr(1), 6)]]
    rewards[2] = rng.choice([r3 - 1, r3 + 1, 0])
    if rng.random() < 0.5:
        xtl[0].reverse()
    return finish(rewards, players, xtl, [6], {"family": "parallel_dead"})


def multi_final_game(rng):
    """several final states, one of them NOT absorbing, owned by any kind of state, with a path to
    another final state and an exit to a dead sink; the initial state is that final state or leads
    to it.  Finals listed in either order, possibly repeated."""
    k = rng.choice([P1, P2, PR])
    first_is_final = rng.random() < 0.4
    players, xtl, rewards = [], [], []
    # layout: [0 = entry (unless first_is_final)] f1, mid, f2 (absorbing), sink
    base = 0
    if not first_is_final:
        e = rng.choice([P1, P2, PR])
        players.append(e)
        rewards.append(rng.choice([0, 1]))
        xtl.append([(Fr(1), 1)] if e == PR else [("go", 1)])
        base = 1
    f1, mid, f2, sink = base, base + 1, base + 2, base + 3
    players.append(k)
    rewards.append(rng.choice([0, 2]))
    if k == PR:
        xtl.append([(Fr(1, 2), mid), (Fr(1, 2), sink)])
    else:
        row = [("stay", mid), ("leave", sink)]
        if rng.random() < 0.5:
            row.reverse()
        xtl.append(row)
    players.append(rng.choice([P1, P2, PR]))
    rewards.append(1)
    xtl.append([(Fr(1), f2)] if players[-1] == PR else [("on", f2)])
    players += [PR, PR]
    rewards += [0, 0]
    xtl += [[(Fr(1), f2)], [(Fr(1), sink)]]
    finals = [f1, f2] if rng.random() < 0.5 else [f2, f1]
    if rng.random() < 0.2:
        finals.append(finals[0])
    return finish(rewards, players, xtl, finals, {"family": "multi_final", "extra_finals": 1})


def layered_tie_game(rng):
    """acyclic layered game rich in reachability TIES and reward DIFFERENCES: player states in
    layers 0..1 (or 0..2) choose among 2-3 successors; the last layer consists of probabilistic
    states [(q, win), (1-q, lose)] with q from a 3-element set (ties likely) and rewards 0..9
    (reward ties unlikely).  Nested Player-2 states whose reachability-minimising and
    reward-minimising actions differ occur often."""
    depth = rng.choice([2, 3])
    widths = [1] + [rng.randint(2, 3) for _ in range(depth - 1)] + [rng.randint(3, 4)]
    idx, layers = 0, []
    for w in widths:
        layers.append(list(range(idx, idx + w)))
        idx += w
    lose, win = idx, idx + 1
    players, xtl, rewards = [], [], []
    for li, layer in enumerate(layers):
        for s in layer:
            if li == len(layers) - 1:
                q = rng.choice([Fr(1, 2), Fr(1, 4), Fr(3, 4)])
                players.append(PR)
                rewards.append(rng.randint(0, 9))
                xtl.append([(q, win), (1 - q, lose)])
            else:
                players.append(rng.choice([P1, P2, P2]))
                rewards.append(rng.choice([0, 0, 1, 2]))
                nxt = layers[li + 1]
                k = rng.randint(2, min(3, len(nxt)))
                tg = rng.sample(nxt, k)
                xtl.append([(ACTIONS[j], t_) for j, t_ in enumerate(tg)])
    players += [PR, PR]
    rewards += [0, 0]
    xtl += [[(Fr(1), lose)], [(Fr(1), win)]]
    return finish(rewards, players, xtl, [win], {"family": "layered_tie"})


def tiny_reach_game(rng):
    """a Player-1 or probabilistic state with a normal live successor, a live successor whose reach
    probability is positive but tiny (2^-20 .. 2^-50) and carries reward, and a dead successor"""
    kind = rng.choice([P1, PR])
    front = rng.choice([None, P1, P2, PR])
    q = rng.choice([Fr(1, 2 ** 31), Fr(1, 2 ** 40), Fr(1, 2 ** 50), Fr(1, 2 ** 20)])
    players, xtl, rewards = [], [], []
    base = 0
    if front is not None:
        players.append(front)
        rewards.append(0)
        xtl.append([(Fr(1), 1)] if front == PR else [("go", 1)])
        base = 1
    S = base
    a, b, c = S + 1, S + 2, S + 3
    lose, win = S + 4, S + 5
    order = [a, b, c]
    rng.shuffle(order)
    players.append(kind)
    rewards.append(rng.choice([0, 1]))
    if kind == PR:
        xtl.append(list(zip(split_probs(rng, 3), order)))
    else:
        xtl.append([(ACTIONS[j], t_) for j, t_ in enumerate(order)])
    players += [PR, PR, PR, PR, PR]
    rewards += [rng.choice([0, 1]), rng.choice([2, 5]), rng.choice([0, 3]), 0, 0]
    xtl += [[(Fr(1, 2), win), (Fr(1, 2), lose)], [(q, win), (1 - q, lose)], [(Fr(1), lose)],
            [(Fr(1), lose)], [(Fr(1), win)]]
    return finish(rewards, players, xtl, [win], {"family": "tiny_reach", "q": str(q)})


def slow_reward_game(rng):
    """rewarded retry loop with a continue-probability very close to 1: thousands of sweeps"""
    gam = rng.choice([Fr(999, 1000), Fr(9995, 10000), Fr(9999, 10000)])
    kind = rng.choice([P1, P2, PR])
    players = [kind, PR, PR, PR]
    rewards = [0, rng.choice([1, 4]), 0, 0]
    xtl = [[(Fr(1), 1)] if kind == PR else [("a", 1)], [(gam, 1), (1 - gam, 3)], [(Fr(1), 2)], [(Fr(1), 3)]]
    return finish(rewards, players, xtl, [3], {"family": "slow_reward", "gamma": str(gam)})


def case_rename_map(g):
    """injective renaming under which different actions differ ONLY in letter case"""
    names = sorted({a for pl, row in zip(g["players"], g["transition_list"]) if pl != PR for a, _ in row})
    return {a: ("mv%d" % (i // 2)) if i % 2 == 0 else ("MV%d" % (i // 2)) for i, a in enumerate(names)}


def permute_game(g, perm, tperm_rng=None, rename=None):
    """Apply a state permutation (perm[old] = new, perm[0] == 0), optional per-state
    transition shuffles and an injective action renaming to a generated game."""
    n = len(g["players"])
    inv = [0] * n
    for o, nw in enumerate(perm):
        inv[nw] = o
    xt = exact_tl(g)
    players = [g["players"][inv[i]] for i in range(n)]
    rewards = [g["rewards"][inv[i]] for i in range(n)]
    xtl = []
    for i in range(n):
        row = [(rename(l) if (rename and isinstance(l, str)) else l, perm[t]) for l, t in xt[inv[i]]]
        if tperm_rng is not None:
            tperm_rng.shuffle(row)
        xtl.append(row)
    finals = [perm[f] for f in g["final_states"]]
    if tperm_rng is not None and len(finals) > 1:
        # the order in which the final states are listed is part of "how the game is written down" too
        if tperm_rng.random() < 0.5:
            finals = sorted(finals)
        else:
            tperm_rng.shuffle(finals)
    return finish(rewards, players, xtl, finals, dict(g.get("_meta", {}), permuted=True))


def random_perm_fixing0(rng, n):
    rest = list(range(1, n))
    rng.shuffle(rest)
    return [0] + rest


# ------------------------------------------------------------------------------------------
# plain digraphs for the backward search
# ------------------------------------------------------------------------------------------
def random_digraph(rng, n=None):
    n = n if n is not None else rng.randint(1, 12)
    dens = rng.choice([0.5, 1.0, 1.5, 2.5])
    tl = []
    for i in range(n):
        k = max(0, int(rng.expovariate(1.0 / dens))) if rng.random() < 0.9 else 0
        k = min(k, 6)
        row = []
        for _ in range(k):
            t = rng.randrange(n) if rng.random() < 0.8 else i   # self loops
            row.append((rng.choice(["x", 0.5, "y", 0, 0.0, "", 1]), t))
        if row and rng.random() < 0.2:
            row.append(row[0])                                   # parallel edge
        tl.append(row)
    nf = rng.randint(1, max(1, min(3, n)))
    finals = [rng.randrange(n) for _ in range(nf)]
    if rng.random() < 0.3:
        finals = finals + [finals[0]]
    return tl, finals


def chain_graph(n, back_edges=False):
    tl = [[(1, i + 1)] for i in range(n - 1)] + [[(1, n - 1)]]
    if back_edges:
        for i in range(0, n - 1, 7):
            tl[i].append((0.5, max(0, i - 3)))
    return tl, [n - 1]


def with_huge_rewards(g, factor=2 ** 64):
    """the same game with every reward multiplied by a power of two above sys.maxsize (rewards are
    unbounded non-negative integers); on games with dyadic probabilities all arithmetic stays exact"""
    return finish([r * factor for r in g["rewards"]], g["players"], exact_tl(g), g["final_states"],
                  dict(g.get("_meta", {}), huge_rewards=factor))


def integer_game(rng):
    """acyclic layered game WITHOUT any float: player states over deterministic 'probabilistic' states
    [(1, next)] (probability the integer 1) with odd integer rewards between 2^53 and 2^60: every value the
    solver computes is an exact Python integer"""
    depth = rng.choice([2, 3])
    widths = [1] + [rng.randint(2, 3) for _ in range(depth - 1)] + [rng.randint(3, 4)]
    idx, layers = 0, []
    for w in widths:
        layers.append(list(range(idx, idx + w)))
        idx += w
    lose, win = idx, idx + 1
    players, xtl, rewards = [], [], []
    for li, layer in enumerate(layers):
        for s in layer:
            if li == len(layers) - 1:
                players.append(PR)
                rewards.append(rng.randrange(2 ** 53 + 1, 2 ** 60, 2))
                xtl.append([(Fr(1), win if rng.random() < 0.8 else lose)])
            else:
                players.append(rng.choice([P1, P2, PR]))
                rewards.append(rng.choice([0, 1, 2, 3]))
                nxt = layers[li + 1]
                if players[-1] == PR:
                    xtl.append([(Fr(1), rng.choice(nxt))])
                else:
                    tg = rng.sample(nxt, rng.randint(2, min(3, len(nxt))))
                    xtl.append([(ACTIONS[j], t_) for j, t_ in enumerate(tg)])
    players += [PR, PR]
    rewards += [0, 0]
    xtl += [[(Fr(1), lose)], [(Fr(1), win)]]
    return finish(rewards, players, xtl, [win], {"family": "integer"})


def slow_corridor(n, rng):
    """deterministic corridor 0 -> 1 -> ... -> n-1 -> win numbered TOWARDS the goal: exactly one more state
    settles per sweep and every sweep reports the same change (1); n + 1 sweeps"""
    players, xtl = [], []
    for i in range(n):
        k = rng.choice([P1, P2, PR])
        players.append(k)
        xtl.append([(Fr(1), i + 1)] if k == PR else [("go", i + 1)])
    players.append(PR)
    xtl.append([(Fr(1), n)])
    return finish([0] * (n + 1), players, xtl, [n], {"family": "slow_corridor", "n": n})


def tiny_best_game(rng):
    """a Player-1 state whose BEST successor has a tiny positive reach probability (2^-21 .. 2^-30, below half
    the 6-digit rounding unit) next to a dead successor carrying a larger reward: the two are reported as
    tied for reachability, and conditioning must still remove the dead one.  An unrelated state keeps the
    first sweep's change large, so the tiny value does propagate to state 0."""
    q = rng.choice([Fr(1, 2 ** 21), Fr(1, 2 ** 22), Fr(1, 2 ** 26), Fr(1, 2 ** 30)])
    order = [1, 2]
    rng.shuffle(order)
    lose, win = 4, 5
    dead_kind = rng.choice([P2, P2, PR])     # a dead PLAYER state keeps its transition and hence its reward
    players = [P1, PR, dead_kind, PR, PR, PR]
    rows = {1: [(q, win), (1 - q, lose)], 2: [(Fr(1), lose)] if dead_kind == PR else [("x", lose)]}
    rew = {1: rng.choice([0, 1]), 2: rng.choice([5, 9])}
    xtl = [[(ACTIONS[j], s) for j, s in enumerate(order)], rows[1], rows[2],
           [(Fr(1, 2), win), (Fr(1, 2), lose)], [(Fr(1), lose)], [(Fr(1), win)]]
    return finish([rng.choice([0, 1]), rew[1], rew[2], 0, 0, 0], players, xtl, [win], {"family": "tiny_best", "q": str(q)})


def big_slow_reward_game(rng):
    """Player 1 (or 2) chooses between a slowly mixing rewarded loop worth about 10^9 and a direct branch
    worth 100 less (or more): the values differ by far more than the tolerance but only in the 8th digit"""
    kind = rng.choice([P1, P2])
    gam = rng.choice([Fr(999, 1000), Fr(99, 100)])
    per_step = rng.choice([10 ** 6, 3 * 10 ** 5]) if gam == Fr(999, 1000) else rng.choice([10 ** 7, 3 * 10 ** 6])
    total = per_step / (1 - gam)          # exact value of the loop state
    direct = int(total) + rng.choice([-100, 100])
    order = [1, 2]
    rng.shuffle(order)
    win = 3
    xtl = [[(ACTIONS[j], s) for j, s in enumerate(order)], [(gam, 1), (1 - gam, win)], [(Fr(1), win)], [(Fr(1), win)]]
    return finish([0, per_step, direct, 0], [kind, PR, PR, PR], xtl, [win], {"family": "big_slow_reward"})


def close_rewards_game(rng):
    """acyclic: successors whose exact reward values differ by a few 1e-6 (more than the tolerance, less
    than ten times it) -- they must NOT be reported as tied"""
    kind = rng.choice([P1, P2])
    base = rng.choice([1, 3])
    d = rng.choice([3e-6, 4e-6, 8e-6])
    order = [1, 2, 3]
    rng.shuffle(order)
    win = 4
    xtl = [[(ACTIONS[j], s) for j, s in enumerate(order)], [(Fr(1), win)], [(Fr(1), win)], [(Fr(1), win)], [(Fr(1), win)]]
    return finish([0, base, base + d, base, 0], [kind, PR, PR, PR, PR], xtl, [win], {"family": "close_rewards"})


def fan_game(n, rng):
    """wide and shallow: state 0 (Player 1 or 2) chooses among about sqrt(n) group states (Player 1 or 2 each),
    every group chooses among about sqrt(n) children; a child is a probabilistic state [(q, mid), (1-q, lose)]
    or a dead state, q dyadic; `mid` is a rewarded state before `win`.  Every numbering needs at most 4 sweeps.
    The exact reach values are known in closed form (returned as _fan: expected vector)."""
    import math
    kind = rng.choice([P1, P2])
    G = max(2, math.isqrt(n))
    m = n - 4 - G
    mid, lose, win = n - 3, n - 2, n - 1
    qs = [Fr(1, 2), Fr(1, 4), Fr(3, 4), Fr(1, 8), Fr(0)]
    gkinds = [rng.choice([P1, P2]) for _ in range(G)]
    players = [kind] + gkinds + [PR] * (m + 3)
    rewards = [0] + [rng.randint(0, 2) for _ in range(G)] + [rng.randint(0, 9) for _ in range(m)] + [rng.randint(1, 5), 0, 0]
    child_q = [rng.choice(qs) for _ in range(m)]
    members = [[] for _ in range(G)]
    for j in range(m):
        members[j % G].append(1 + G + j)
    xtl = [[(f"g{k}", 1 + k) for k in range(G)]]
    for k in range(G):
        xtl.append([(f"c{i}", c) for i, c in enumerate(members[k])])
    for j in range(m):
        q = child_q[j]
        xtl.append([(Fr(1), lose)] if q == 0 else [(q, mid), (1 - q, lose)])
    xtl += [[(Fr(1), win)], [(Fr(1), lose)], [(Fr(1), win)]]
    g = finish(rewards, players, xtl, [win], {"family": "fan", "n": n})
    want = [None] * n
    for j in range(m):
        want[1 + G + j] = float(child_q[j])
    for k in range(G):
        vs = [want[c] for c in members[k]]
        want[1 + k] = max(vs) if gkinds[k] == P1 else min(vs)
    gv = [want[1 + k] for k in range(G)]
    want[0] = max(gv) if kind == P1 else min(gv)
    want[mid], want[lose], want[win] = 1, 0, 1
    g["_fan"] = {"kind": kind, "expected_reach": want}
    return g


def tiny_dead_decimal_game(rng):
    """a probabilistic row of decimal probabilities whose floating-point sum is exactly 1.0 in one order
    and 0.9999999999999999 in another, plus a dead branch of probability 1e-20 (or 1e-18): the dead branch
    has to go whatever the order of the row"""
    base = rng.choice([[0.1, 0.2, 0.7], [0.7, 0.2, 0.1], [0.3, 0.6, 0.1], [0.1, 0.6, 0.3], [0.2, 0.1, 0.7], [0.7, 0.1, 0.2]])
    tiny = rng.choice([1e-20, 1e-18, 1e-25])
    pos = rng.randint(0, 3)
    front = rng.choice([P1, P2, PR])
    # 0 front -> 1 ; 1 = row over a,b,c (live) + dead ; a,b,c = coin states with rewards ; dead: Player 2 state with reward
    a, b, c, dead, lose, win = 2, 3, 4, 5, 6, 7
    row = [(Fr(base[0]), a), (Fr(base[1]), b), (Fr(base[2]), c)]
    row.insert(pos, (Fr(tiny), dead))
    xtl = [[(Fr(1), 1)] if front == PR else [("go", 1)], row,
           [(Fr(1, 2), win), (Fr(1, 2), lose)], [(Fr(1, 4), win), (Fr(3, 4), lose)], [(Fr(1), win)],
           [("x", lose)], [(Fr(1), lose)], [(Fr(1), win)]]
    players = [front, PR, PR, PR, PR, P2, PR, PR]
    return finish([0, 1, 2, 0, 3, 5, 0, 0], players, xtl, [win], {"family": "tiny_dead_decimal"})


def zero_prob_dead_game(rng):
    """a probabilistic row with a transition of probability exactly 0.0 into a dead state, next to live
    successors whose decimal probabilities do not sum to 1.0 in floating point (0.01 + 0.29 + 0.7): the dead
    transition has to go and the survivors are divided by their own total"""
    base = rng.choice([[0.01, 0.29, 0.7], [0.7, 0.29, 0.01], [0.1, 0.2, 0.7], [0.3, 0.6, 0.1], [0.58, 0.41, 0.01]])
    pos = rng.randint(0, 3)
    front = rng.choice([P1, P2, PR])
    a, b, c, dead, lose, win = 2, 3, 4, 5, 6, 7
    row = [(Fr(base[0]), a), (Fr(base[1]), b), (Fr(base[2]), c)]
    row.insert(pos, (Fr(0), dead))
    if rng.random() < 0.4:
        row.insert(rng.randint(0, 4), (Fr(0), lose))
    xtl = [[(Fr(1), 1)] if front == PR else [("go", 1)], row,
           [(Fr(1, 2), win), (Fr(1, 2), lose)], [(Fr(1, 4), win), (Fr(3, 4), lose)], [(Fr(1), win)],
           [("x", lose)], [(Fr(1), lose)], [(Fr(1), win)]]
    players = [front, PR, PR, PR, PR, P2, PR, PR]
    return finish([0, 1, 2, 0, 3, 5, 0, 0], players, xtl, [win], {"family": "zero_prob_dead"})


def subnormal_reach_game(rng):
    """a live branch whose reach probability is a SUBNORMAL double (1e-155 * 1e-155 = 1e-310 > 0) next to a dead
    branch: positive is positive, the live branch stays.  An unrelated state keeps the first sweep's change
    large so that the tiny value is propagated to the front."""
    kind = rng.choice([P1, PR])
    e = rng.choice([Fr(10) ** -155, Fr(10) ** -160, Fr(2) ** -520])
    # 0: kind -> {3 (tiny live), 2 (dead)} ; 3 = [(e, 1), (1-e, lose)] ; 1 = [(e, win), (1-e, lose)] ; 4 unrelated coin
    # (the deeper state has the smaller index: its value is there when the shallower one is swept)
    lose, win = 5, 6
    first = [("a", 3), ("b", 2)] if kind == P1 else [(Fr(1, 2), 3), (Fr(1, 2), 2)]
    if rng.random() < 0.5:
        first.reverse()
    xtl = [first, [(e, win), (1 - e, lose)], [(Fr(1), lose)] if rng.random() < 0.5 else [(Fr(1, 2), lose), (Fr(1, 2), 2)],
           [(e, 1), (1 - e, lose)], [(Fr(1, 2), win), (Fr(1, 2), lose)], [(Fr(1), lose)], [(Fr(1), win)]]
    return finish([0, 1, 7, 2, 0, 0, 0], [kind, PR, PR, PR, PR, PR, PR], xtl, [win], {"family": "subnormal_reach"})


def duplicate_label_game(rng):
    """a player state in which ONE action label sits on two transitions with different values (a legal
    description: labels need not be unique), next to other actions; both transitions belong to that action"""
    kind = rng.choice([P1, P2])
    qs = [Fr(1, 2), Fr(1, 4), Fr(3, 4), Fr(1, 2)]
    rng.shuffle(qs)
    labels = rng.choice([["left", "right", "left"], ["a", "a", "b"], ["x", "y", "y"], ["left", "left", "right", "right"]])
    k = len(labels)
    lose, win = 1 + k, 2 + k
    xtl = [[(lab, 1 + j) for j, lab in enumerate(labels)]]
    rewards = [0]
    for j in range(k):
        xtl.append([(qs[j % 4], win), (1 - qs[j % 4], lose)])
        rewards.append(rng.choice([0, 1, 3, 5, 9]))
    xtl += [[(Fr(1), lose)], [(Fr(1), win)]]
    return finish(rewards + [0, 0], [kind] + [PR] * (k + 2), xtl, [win], {"family": "duplicate_label"})


def mixed_int_float_game(rng):
    """Player 1 / Player 2 choosing between an exact integer value 2^53 + 1 (all-integer branch) and the float
    2^53 (a branch with a float probability 1.0): they differ by 1 and must not be reported as tied"""
    kind = rng.choice([P1, P2])
    big = 2 ** 53
    win = 3
    order = [1, 2]
    rng.shuffle(order)
    g = finish([0, big + 1, big, 0], [kind, PR, PR, PR],
               [[(ACTIONS[j], s) for j, s in enumerate(order)], [(Fr(1), win)], [(Fr(1), win)], [(Fr(1), win)]], [win],
               {"family": "mixed_int_float"})
    g["transition_list"][2] = [(1.0, win)]          # float probability: this branch is computed in floating point
    g["rewards"][2] = float(big)
    return g


def final_player_game(rng):
    """a Player-1 (or Player-2) state that is ITSELF a final state but not absorbing: its actions lead to
    successors with different positive reach probabilities, the worse one carrying the larger reward.  The state
    is the initial state or its only successor."""
    kind = rng.choice([P1, P1, P2])
    first = rng.random() < 0.5
    qa, qb = rng.sample([Fr(1, 4), Fr(1, 2), Fr(3, 4)], 2)
    hi, lo = (qa, qb) if qa > qb else (qb, qa)
    base = 0 if first else 1
    s, a, b, lose, win = base, base + 1, base + 2, base + 3, base + 4
    players, xtl, rewards = ([], [], []) if first else ([rng.choice([P1, P2, PR])], [None], [rng.choice([0, 1])])
    if not first:
        xtl[0] = [(Fr(1), s)] if players[0] == PR else [("go", s)]
    order = [(ACTIONS[0], a), (ACTIONS[1], b)]
    if rng.random() < 0.5:
        order = [(ACTIONS[0], b), (ACTIONS[1], a)]
    players += [kind, PR, PR, PR, PR]
    rewards += [rng.choice([0, 2]), rng.choice([0, 1]), rng.choice([5, 9]), 0, 0]      # b: worse reach, larger reward
    xtl += [order, [(hi, win), (1 - hi, lose)], [(lo, win), (1 - lo, lose)], [(Fr(1), lose)], [(Fr(1), win)]]
    finals = [win, s] if rng.random() < 0.5 else [s, win]
    return finish(rewards, players, xtl, finals, {"family": "final_player"})


ODD_LABELS = ["{north}", "turn{90}", "{", "}", "{0}", "{}", "%s", "%(x)s", "100%", "a\\b", "it's", 'say "x"', "a\nb", "a,b", "[x]", "$HOME"]
# labels that are DIFFERENT strings but look alike to code that strips, case-folds or Unicode-normalises them;
# the members of a group are handed out together so that they meet inside one state
ODD_GROUPS = [[" left", "left", "left "], ["\tup", "up"], ["se\u00f1al", "sen\u0303al"], ["\u00e9t\u00e9", "e\u0301te\u0301"],
              ["\u212b", "\u00c5"], ["stra\u00dfe", "strasse"], ["\uff41", "a"], ["x\u200b", "x"], ["None", "none"], ["0", "00"],
              # one label CONTAINED in another (a list handed over as a bare string turns `in` into a substring test)
              ["true", "True"], ["false", "False"], ["null", "NULL", "nil"], ["nan", "inf"], ["go", "go_fast", "no_go"], ["a1", "a10", "ba1"], ["l", "left_l", "ll"]]


def odd_label_map(g, rng):
    """injective map from the game's action names to odd legal strings; look-alike groups stay together"""
    names = sorted({a for pl, row in zip(g["players"], g["transition_list"]) if pl != PR for a, _ in row})
    groups = [list(x) for x in ODD_GROUPS] + [[x] for x in ODD_LABELS]
    rng.shuffle(groups)
    # look-alike groups first half of the time
    if rng.random() < 0.6:
        groups.sort(key=lambda x: -len(x))
        k = rng.randrange(1, 6)
        groups = groups[k:] + groups[:k] if rng.random() < 0.3 else groups
    pool = [x for grp in groups for x in grp]
    if len(names) > len(pool):
        pool += [f"{{k{i}}}" for i in range(len(names) - len(pool))]
    return dict(zip(names, pool))


def with_odd_labels(g, rng):
    """the same game with its action names consistently (injectively) replaced by legal strings that contain
    format / template / quoting characters, surrounding whitespace, or that are canonically equivalent to another
    label without being equal to it"""
    m = odd_label_map(g, rng)
    xt = [[((m[l] if isinstance(l, str) else l), t_) for l, t_ in row] for row in exact_tl(g)]
    return finish(g["rewards"], g["players"], xt, g["final_states"], dict(g.get("_meta", {}), odd_labels=True)), m


def decimal_tie_game(rng, kind=None):
    """successor values that are equal (or one unit in the last place apart) but sit on different sides of a
    6-digit boundary for a rounding mode other than half-even: 0.3 vs 0.1+0.2, 1/128 vs its predecessor"""
    import math
    kind = kind or rng.choice([P1, P2])
    lose, win = 3, 4
    r_ = rng.random()
    if r_ < 0.35:
        rows = [[(Fr(3, 10), win), (Fr(7, 10), lose)], [(Fr(1, 10), win), (Fr(2, 10), win), (Fr(7, 10), lose)]]
    elif r_ < 0.7:
        # an exact tie at an odd multiple of half a unit of the sixth decimal, reached through different float sums
        k1, k2 = rng.choice([(14, 21), (6, 9), (22, 33), (10, 25)])
        t = Fr(k1 + k2, 10 ** 7)
        rows = [[(t, win), (1 - t, lose)], [(Fr(k1, 10 ** 7), win), (Fr(k2, 10 ** 7), win), (1 - t, lose)]]
    else:
        a = Fr(1, 128)
        b = Fr(math.nextafter(1 / 128, 0))
        rows = [[(a, win), (1 - a, lose)], [(b, win), (1 - b, lose)]]
    xtl = [[("a", 1), ("b", 2)]] + rows + [[(Fr(1), lose)], [(Fr(1), win)]]
    return finish([0] * 5, [kind, PR, PR, PR, PR], xtl, [win], {"family": "decimal_tie"})


def with_orphan_state(g, rng):
    """the same game plus one rewarded probabilistic state that NO state moves to (appended last): an ordinary state
    of the game without pruning, cut off from the initial state (and emptied) with pruning"""
    xt = exact_tl(g)
    n = len(g["players"])
    tgts = [s for s in range(n)]
    a, b = rng.choice(tgts), rng.choice(tgts)
    row = [(Fr(1), a)] if a == b or rng.random() < 0.4 else [(Fr(1, 4), a), (Fr(3, 4), b)]
    return finish(list(g["rewards"]) + [rng.randint(1, 5)], list(g["players"]) + [PR], xt + [row], g["final_states"],
                  dict(g.get("_meta", {}), orphan=True))


def no_zero_game(rng):
    """a stopping game WITHOUT a losing sink: every failure returns to the initial state, so every state reaches the
    final state with positive probability (nothing for the conditioning to remove); one player state with
    alternatives of different value and reward, plus an orphan state nobody moves to"""
    k = rng.randint(2, 4)
    kinds = [rng.choice([P1, P2]) for _ in range(2)]
    # 0: player -> 1: player with k alternatives -> prob states 2..k+1 -> final (k+2) or back to 0
    fin = k + 2
    ps = rng.sample([Fr(1, 4), Fr(1, 2), Fr(3, 4), Fr(1, 8), Fr(7, 8), Fr(3, 8)], k)
    xtl = [[("go", 1)], [(ACTIONS[j], 2 + j) for j in range(k)]]
    for j in range(k):
        xtl.append([(ps[j], fin), (1 - ps[j], 0)])
    xtl.append([(Fr(1), fin)])
    rewards = [0, rng.randint(0, 3)] + [rng.randint(0, 6) for _ in range(k)] + [0]
    players = [kinds[0], kinds[1]] + [PR] * k + [PR]
    g = finish(rewards, players, xtl, [fin], {"family": "no_zero"})
    return with_orphan_state(g, rng)


def close_costs_game(rng):
    """acyclic; Player 2 has two reachability-tied actions whose continuation costs (under Player 2's own
    reachability strategies further down) differ by a few 1e-7 — less than the solver's threshold, more than any
    rounding error of an acyclic game — with the dearer one listed first; the total rewards themselves are far
    apart, so every final strategy is a single action"""
    d = Fr(rng.randint(2, 8), 10 ** 7)
    c = rng.randint(3, 9)
    lo1, lo2 = rng.randint(1, 2), rng.randint(1, 2) + 2
    first_dear = rng.random() < 0.7
    r3, r5 = (c + d, Fr(c)) if first_dear else (Fr(c), c + d)
    q = rng.choice([Fr(1, 2), Fr(1, 4), Fr(3, 4)])
    rewards = [0, 0, 0, float(r3) if r3 != int(r3) else int(r3), lo1, float(r5) if r5 != int(r5) else int(r5), lo2, 0, 0]
    players = [P2, P2, P2, PR, PR, PR, PR, PR, PR]
    xtl = [[("a", 1), ("b", 2)], [("x", 3), ("y", 4)], [("x", 5), ("y", 6)],
           [(q, 8), (1 - q, 7)], [(Fr(1), 8)], [(q, 8), (1 - q, 7)], [(Fr(1), 8)], [(Fr(1), 7)], [(Fr(1), 8)]]
    return finish(rewards, players, xtl, [8], {"family": "close_costs"})


def zero_prob_live_game(rng):
    """a probabilistic row that lists a transition of probability exactly 0.0 into a LIVE rewarded state which no
    other state moves to, next to entries that already sum to 1, plus a dead branch elsewhere so that conditioning
    has something to do: the zero-weight transition is a transition between positive-probability states and stays,
    so its target stays referenced (and keeps its values) wherever it is written in the row"""
    pos = rng.randint(0, 2)
    front = rng.choice([P1, P2, PR])
    a, b, c, lose, win = 2, 3, 4, 5, 6
    row = [(Fr(1, 2), a), (Fr(1, 2), b)]
    row.insert(pos, (Fr(0), c))
    xtl = [[(Fr(1), 1)] if front == PR else [("go", 1)], row,
           [(Fr(1, 2), win), (Fr(1, 2), lose)], [(Fr(1), win)], [(Fr(3, 4), win), (Fr(1, 4), 0)],
           [(Fr(1), lose)], [(Fr(1), win)]]
    players = [front, PR, PR, PR, PR, PR, PR]
    return finish([0, 1, 2, 1, rng.randint(3, 9), 0, 0], players, xtl, [win], {"family": "zero_prob_live"})
