"""Shared infrastructure of the /verif harness: repo loading, time limits, case bookkeeping,
evidence / replay / known-findings handling.

Everything here is harness-side; nothing touches /repo.  The repository under test is the
*working tree* at $CR_REPO (default /repo), imported in-process.
"""
import contextlib
import hashlib
import importlib
import io
import json
import os
import signal
import sys
import time

VERIF = os.path.dirname(os.path.dirname(os.path.abspath(__file__)))
REPO = os.environ.get("CR_REPO", "/repo")

THR = 10 ** (-6)


# ------------------------------------------------------------------------------------------
# repository modules (always the current working tree)
# ------------------------------------------------------------------------------------------
_mods = {}


def repo(name):
    """Import module `name` from the repository working tree (cached per process)."""
    if name not in _mods:
        if REPO not in sys.path:
            sys.path.insert(0, REPO)
        sys.dont_write_bytecode = True
        m = importlib.import_module(name)
        f = os.path.abspath(getattr(m, "__file__", ""))
        if not f.startswith(os.path.abspath(REPO) + os.sep):
            raise RuntimeError(f"module {name} was not loaded from {REPO}: {f}")
        _mods[name] = m
    return _mods[name]


# ------------------------------------------------------------------------------------------
# wall-clock limits for implementation calls (pure-Python loops: SIGALRM is enough)
# ------------------------------------------------------------------------------------------
class StopRun(BaseException):
    """enough violations collected: stop exploring, go to the verdict"""


class Timeout(BaseException):
    """BaseException on purpose: `except Exception` in the code under test must not eat it."""


TIMEOUTS = {"n": 0, "seconds": 0.0}     # wall-clock bounds that fired in this process (see Ctx.case)
TIMED_OUT_INPUTS = []                     # the first few inputs on which a runner of harness/impl.py did not return


@contextlib.contextmanager
def time_limit(seconds):
    def handler(signum, frame):
        TIMEOUTS["n"] += 1
        TIMEOUTS["seconds"] += seconds
        raise Timeout()
    old = signal.signal(signal.SIGALRM, handler)
    signal.setitimer(signal.ITIMER_REAL, seconds)
    try:
        yield
    finally:
        signal.setitimer(signal.ITIMER_REAL, 0)
        signal.signal(signal.SIGALRM, old)


@contextlib.contextmanager
def quiet():
    """Silence stdout/stderr/logging of the code under test."""
    import logging
    # records are swallowed by a NullHandler instead of logging.disable(): isEnabledFor(DEBUG) must be
    # TRUE during the DEBUG-level passes (impl.maybe_debug), otherwise code guarded by it is never run
    root = logging.getLogger()
    saved = root.handlers[:]
    root.handlers = [logging.NullHandler()]
    so, se = sys.stdout, sys.stderr
    sys.stdout, sys.stderr = io.StringIO(), io.StringIO()
    try:
        yield
    finally:
        sys.stdout, sys.stderr = so, se
        root.handlers = saved


# ------------------------------------------------------------------------------------------
# JSON helpers (Fractions, tuples, floats as exact values)
# ------------------------------------------------------------------------------------------
def jsonable(x):
    from fractions import Fraction
    if isinstance(x, Fraction):
        return f"{x.numerator}/{x.denominator}"
    if isinstance(x, float):
        if x != x:
            return "nan"
        if x in (float("inf"), float("-inf")):
            return "inf" if x > 0 else "-inf"
        return x
    if isinstance(x, (list, tuple)):
        return [jsonable(y) for y in x]
    if isinstance(x, dict):
        return {str(k): jsonable(v) for k, v in x.items()}
    if isinstance(x, (set, frozenset)):
        return sorted(jsonable(y) for y in x)
    if isinstance(x, (str, int, bool)) or x is None:
        return x
    return repr(x)


def canon_hash(x):
    return hashlib.sha1(json.dumps(jsonable(x), sort_keys=True).encode()).hexdigest()[:16]


# ------------------------------------------------------------------------------------------
# known findings
# ------------------------------------------------------------------------------------------
class Finding:
    def __init__(self, kind, prop, key, witness, text):
        self.kind, self.prop, self.key, self.witness, self.text = kind, prop, key, witness, text


def load_findings():
    """Parse /verif/known-findings.txt (never written at run time)."""
    out = []
    p = os.path.join(VERIF, "known-findings.txt")
    if not os.path.exists(p):
        return out
    for line in open(p):
        line = line.strip()
        if not line or line.startswith("#"):
            continue
        kind, _, rest = line.partition(":")
        kind = kind.strip()
        fields = {}
        toks = rest.strip().split(" ")
        text = []
        for i, t in enumerate(toks):
            if "=" in t and not text and t.split("=", 1)[0] in ("property", "key", "witness", "commit"):
                k, v = t.split("=", 1)
                fields[k] = v
            else:
                text.append(t)
        out.append(Finding(kind, fields.get("property"), fields.get("key"),
                           fields.get("witness"), " ".join(text)))
    return out


# ------------------------------------------------------------------------------------------
# per-run context
# ------------------------------------------------------------------------------------------
class Ctx:
    def __init__(self, prop, tier, seed):
        self.prop, self.tier, self.seed = prop, tier, seed
        self.t0 = time.time()
        self.evaluations = 0
        self.nontrivial = set()
        self.samples = []
        self.dist = {}
        self.violations = []       # dicts: clause, input, detail
        self.known = {}            # key -> count of occurrences classified as listed findings
        self.known_witness = {}    # key -> True when the committed witness reproduced
        self.disagreements = []    # correspondence: dicts suite, input, impl, model
        self.corr = {}             # suite -> number of cases compared
        self.notes = []
        self.assumptions = []
        self.proof = None          # filled by lean step
        self.extra = {}
        self.findings = [f for f in load_findings() if f.prop == prop]
        self.open_keys = {f.key for f in self.findings if f.kind == "finding"}
        self.deadline = None

    # --- bookkeeping -------------------------------------------------------------------
    def quick(self):
        return self.tier == "quick"

    def count(self, name, k=1):
        self.dist[name] = self.dist.get(name, 0) + k

    def case(self, inp, nontrivial=True, sample_every=0):
        if self.deadline is not None and time.time() > self.deadline:
            raise StopRun()                    # only the failing-input search sets a deadline
        self.evaluations += 1
        self.extra["time_limits_fired"] = dict(TIMEOUTS)
        # the unchanged tree lets at most a few (known slow) cases run into their wall-clock bound (<= 20 s in
        # total in the quick tier); when the bounds that fired add up to minutes the implementation has
        # stopped returning on ordinary inputs: stop exploring instead of waiting for every single bound
        if TIMEOUTS["seconds"] > (180 if self.tier == "quick" else 1800) and self.deadline is None:
            if not self.extra.get("stopped_on_time_limits"):
                self.extra["stopped_on_time_limits"] = True
                raise StopRun()
        if nontrivial:
            self.nontrivial.add(canon_hash(inp))
        if len(self.samples) < 3 or (sample_every and self.evaluations % sample_every == 0
                                     and len(self.samples) < 8):
            self.samples.append(jsonable(inp))

    def time_left(self):
        if self.deadline is None:
            return 1e9
        return self.deadline - time.time()

    # --- verdict pieces ----------------------------------------------------------------
    def violation(self, clause, inp, detail, key=None):
        """Record an oracle failure.  If `key` names an open listed finding it is a known
        finding; otherwise a violation."""
        if key is not None and key in self.open_keys:
            self.known[key] = self.known.get(key, 0) + 1
            return False
        if len(self.violations) < 50:
            self.violations.append({"clause": clause, "input": jsonable(inp),
                                    "detail": jsonable(detail), "signature": key})
        else:
            self.count("violations_not_stored")
        if len(self.violations) >= 25 and not getattr(self, "no_stop", False):
            raise StopRun()
        return True

    def disagree(self, suite, inp, impl, model):
        if len(self.disagreements) < 50:
            self.disagreements.append({"suite": suite, "input": jsonable(inp),
                                       "impl": jsonable(impl), "model": jsonable(model)})
        else:
            self.count("disagreements_not_stored")

    def compared(self, suite, k=1):
        self.corr[suite] = self.corr.get(suite, 0) + k


def write_replay(ctx, payload, tag):
    d = os.path.join(VERIF, "replays")
    os.makedirs(d, exist_ok=True)
    name = f"{ctx.prop}-{tag}-{ctx.tier}-seed{ctx.seed}.json"
    path = os.path.join(d, name)
    with open(path, "w") as f:
        json.dump(jsonable(payload), f, indent=1)
    return os.path.relpath(path, VERIF)


def write_evidence(ctx, proof, n_viol):
    cov = {
        "evaluations": ctx.evaluations,
        "distinct_nontrivial": len(ctx.nontrivial),
        "rule": ctx.extra.get("rule", ""),
        "samples": ctx.samples[:8],
        "distribution": ctx.dist,
        "correspondence_cases": ctx.corr,
        "correspondence_disagreements": len(ctx.disagreements),
        "known_findings_reproduced": ctx.known,
    }
    if proof:
        cov.update({
            "obligations": proof["obligations"],
            "discharged": proof["discharged"],
            "checker_cmd": proof["checker_cmd"],
            "trusted_base": proof["trusted_base"],
            "theorems": proof.get("theorems", []),
            "axioms": proof.get("axioms", {}),
            # second tie: tie theorems (translation of the working tree == hand model) re-checked on this run;
            # reported apart from obligations/discharged, which count the property theorems only
            "translator_tie": proof.get("translator_tie", {}),
        })
    for k, v in ctx.extra.items():
        if k != "rule":
            cov[k] = v
    ev = {
        "property_id": ctx.prop,
        "tier": ctx.tier,
        "seed": ctx.seed,
        "level": "proof",
        "coverage": cov,
        "assumptions": ctx.assumptions,
        "wall_s": round(time.time() - ctx.t0, 3),
        "violations": n_viol,
        "notes": ctx.notes,
    }
    # runs against another tree than /repo (CR_REPO: evaluation of seeded changes) never touch the committed evidence
    d = os.path.join(VERIF, "evidence") if REPO == "/repo" else os.path.join(VERIF, "replays", "evidence-other-tree")
    os.makedirs(d, exist_ok=True)
    with open(os.path.join(d, f"{ctx.prop}.json"), "w") as f:
        json.dump(jsonable(ev), f, indent=1)


# ------------------------------------------------------------------------------------------
# line coverage of the code under test (sys.monitoring, Python 3.12: a line event is disabled after
# its first hit, so the overhead is negligible).  Reported in the evidence: which lines of the
# repository's modules the run executed at all.
# ------------------------------------------------------------------------------------------
_cov = {"on": False, "hits": set()}


def start_coverage():
    mon = getattr(sys, "monitoring", None)
    if mon is None or _cov["on"]:
        return
    tool = mon.COVERAGE_ID
    try:
        mon.use_tool_id(tool, "crverif")
    except Exception:  # noqa
        return
    root = os.path.abspath(REPO) + os.sep

    def on_line(code, line):
        f = code.co_filename
        if f.startswith(root) and os.sep + "tests" + os.sep not in f:
            _cov["hits"].add((os.path.basename(f), line))
        return mon.DISABLE
    mon.register_callback(tool, mon.events.LINE, on_line)
    mon.set_events(tool, mon.events.LINE)
    _cov["on"] = True


def coverage_report():
    if not _cov["on"]:
        return None
    out = {}
    for name in ("tad.py", "reverse_dfs.py", "conditionalrewards.py", "roberta_generator.py",
                 "stochastic_game_from_roborta_board.py"):
        p = os.path.join(REPO, name)
        if not os.path.exists(p):
            continue
        try:
            code = compile(open(p).read(), p, "exec")
        except Exception:  # noqa
            continue
        lines = set()
        stack = [code]
        while stack:
            c = stack.pop()
            for _, _, ln in c.co_lines():
                if ln is not None:
                    lines.add(ln)
            stack.extend(k for k in c.co_consts if hasattr(k, "co_lines"))
        hit = {ln for f, ln in _cov["hits"] if f == name}
        if hit:
            missed = sorted(lines - hit)
            out[name] = {"executable_lines": len(lines), "executed": len(lines & hit),
                         "not_executed": missed[:60]}
    return out
