"""Which source the model was last validated against.

The Lean model is written by hand; what ties it to /repo is the correspondence check of every run.
This module adds the bookkeeping around that tie: a normalised fingerprint (AST without docstrings,
comments and formatting) of every function the properties are anchored in, compared with the committed
baseline `source-baseline.json` (the tree on which the proofs and the correspondence were last
validated by the author).  A difference is NOT a violation: it is reported in the evidence and on
stdout, and the quick tier then runs a second, independently seeded exploration + correspondence pass
for that property, so that a changed function is looked at twice as hard as an unchanged one.
"""
import ast
import hashlib
import json
import os

from crlib import REPO, VERIF

BASELINE = os.path.join(VERIF, "source-baseline.json")

SOLVER = ["tad.py:*"]
ANCHORS = {
    "C01": ["tad.py:*", "reverse_dfs.py:*"],
    "C02": SOLVER, "C03": SOLVER, "C04": SOLVER, "C05": SOLVER,
    "C06": ["tad.py:*", "reverse_dfs.py:*"],
    "C07": ["reverse_dfs.py:*"],
    "C08": ["roberta_generator.py:*", "stochastic_game_from_roborta_board.py:*"],
    "C09": ["tad.py:*", "conditionalrewards.py:run_games", "conditionalrewards.py:count_transitions"],
    "C10": ["tad.py:*", "reverse_dfs.py:*", "conditionalrewards.py:run_games"],
    "C11": ["roberta_generator.py:*", "stochastic_game_from_roborta_board.py:*", "conditionalrewards.py:read_dict_from_file", "tad.py:*"],
    "C12": ["conditionalrewards.py:*", "tad.py:*"],
    "C13": ["tad.py:*", "reverse_dfs.py:*"],
    "C14": SOLVER,
    "C15": ["roberta_generator.py:*"],
    "C16": ["conditionalrewards.py:*"],
    "C17": ["roberta_generator.py:*", "stochastic_game_from_roborta_board.py:*"],
}
FILES = ["tad.py", "reverse_dfs.py", "conditionalrewards.py", "roberta_generator.py", "stochastic_game_from_roborta_board.py"]


def _strip_docstrings(node):
    for n in ast.walk(node):
        if isinstance(n, (ast.FunctionDef, ast.AsyncFunctionDef, ast.ClassDef, ast.Module)):
            if n.body and isinstance(n.body[0], ast.Expr) and isinstance(getattr(n.body[0], "value", None), ast.Constant) \
                    and isinstance(n.body[0].value.value, str):
                n.body = n.body[1:] or [ast.Pass()]
    return node


def fingerprint(repo=None):
    """{'file.py:Class.func' | 'file.py:func' | 'file.py:<module>': sha1 of the normalised AST}"""
    repo = repo or REPO
    out = {}
    for fn in FILES:
        path = os.path.join(repo, fn)
        try:
            tree = _strip_docstrings(ast.parse(open(path, encoding="utf-8").read()))
        except (OSError, SyntaxError) as e:
            out[f"{fn}:<unreadable>"] = type(e).__name__
            continue
        top = []
        for node in tree.body:
            if isinstance(node, (ast.FunctionDef, ast.AsyncFunctionDef)):
                out[f"{fn}:{node.name}"] = hashlib.sha1(ast.dump(node).encode()).hexdigest()[:16]
            elif isinstance(node, ast.ClassDef):
                rest = []
                for sub in node.body:
                    if isinstance(sub, (ast.FunctionDef, ast.AsyncFunctionDef)):
                        out[f"{fn}:{node.name}.{sub.name}"] = hashlib.sha1(ast.dump(sub).encode()).hexdigest()[:16]
                    else:
                        rest.append(ast.dump(sub))
                out[f"{fn}:{node.name}.<class body>"] = hashlib.sha1(("|".join(rest) + ast.dump(ast.Tuple(elts=node.bases, ctx=ast.Load()))).encode()).hexdigest()[:16]
            else:
                top.append(ast.dump(node))
        out[f"{fn}:<module>"] = hashlib.sha1("|".join(top).encode()).hexdigest()[:16]
    return out


def relevant(prop, key):
    fn, name = key.split(":", 1)
    for a in ANCHORS.get(prop, []):
        afn, aname = a.split(":", 1)
        if afn == fn and (aname == "*" or aname == name or name.startswith(aname + ".")):
            return True
    return False


def compare(prop, repo=None):
    """-> dict for the evidence; 'changed' lists anchored functions whose normalised source differs from the baseline"""
    try:
        base = json.load(open(BASELINE))
    except (OSError, ValueError):
        return {"baseline": None, "changed": [], "note": "no baseline recorded"}
    now = fingerprint(repo)
    keys = sorted(k for k in set(now) | set(base["functions"]) if relevant(prop, k))
    changed = [k for k in keys if now.get(k) != base["functions"].get(k)]
    return {"baseline_commit": base.get("commit"), "anchored_units": len(keys), "changed": changed}


if __name__ == "__main__":
    import subprocess
    commit = subprocess.run(["git", "-C", REPO, "rev-parse", "HEAD"], capture_output=True, text=True).stdout.strip()
    dirty = subprocess.run(["git", "-C", REPO, "status", "--porcelain"], capture_output=True, text=True).stdout.strip()
    json.dump({"commit": commit + ("+dirty" if dirty else ""), "functions": fingerprint()}, open(BASELINE, "w"), indent=1, sort_keys=True)
    print("baseline written for", commit, len(fingerprint()), "units")
