"""Runners that call the real code of the repository working tree in-process."""
import copy

from crlib import repo, time_limit, quiet, Timeout

THR = 10 ** (-6)

# every DEBUG_EVERY-th call of a runner below is made with the root logger at DEBUG level (output still
# suppressed): code guarded by "if the log level is DEBUG" and the arguments of logging.debug(...) calls are
# then exercised, and the usual oracles judge the result — the log level must not change behaviour
DEBUG_EVERY = 3
_calls = {"n": 0}
FORCE_DEBUG = {"on": None}


class forced_debug:
    """with impl.forced_debug(): ... — every runner call inside runs at DEBUG log level"""

    def __init__(self, on=True):
        self.on = on          # False: no DEBUG pass inside (very long runs, where the log records dominate the time)

    def __enter__(self):
        self.old = FORCE_DEBUG["on"]
        FORCE_DEBUG["on"] = self.on

    def __exit__(self, *a):
        FORCE_DEBUG["on"] = self.old


import contextlib as _ctxlib
import logging as _logging


@_ctxlib.contextmanager
def maybe_debug():
    _calls["n"] += 1
    root = _logging.getLogger()
    old = root.level
    dbg = FORCE_DEBUG["on"] is True or (FORCE_DEBUG["on"] is not False and DEBUG_EVERY and _calls["n"] % DEBUG_EVERY == 0)
    if dbg:
        root.setLevel(_logging.DEBUG)
    try:
        yield dbg
    finally:
        root.setLevel(old)


@_ctxlib.contextmanager
def coarse_clock():
    """the wall clock does not advance inside the block (coarse timers, virtual clocks): the elapsed time a
    batch run measures is then exactly 0.0; results must not depend on it"""
    import time as _time
    real = _time.time
    frozen = real()
    _time.time = lambda: frozen
    try:
        yield
    finally:
        _time.time = real


@_ctxlib.contextmanager
def racing_clock(step=1.0):
    """every reading of a clock is `step` seconds later than the previous one (a machine that is that much
    slower): what a solve returns must not depend on how long it took"""
    import time as _time
    saved = {n: getattr(_time, n) for n in ("time", "monotonic", "perf_counter", "process_time")}
    state = {"t": saved["time"]()}

    def tick():
        state["t"] += step
        return state["t"]
    for n in saved:
        setattr(_time, n, tick)
    try:
        yield
    finally:
        for n, f in saved.items():
            setattr(_time, n, f)


def _note_timeout(runner, g, prune, limit):
    import crlib
    if len(crlib.TIMED_OUT_INPUTS) < 3 and len(g.get("players", [])) <= 60:
        crlib.TIMED_OUT_INPUTS.append({"runner": runner, "prune": prune, "limit_s": limit,
                                       "game": {k: v for k, v in g.items() if not k.startswith("_") and k != "prune_states"}})


def err_kind(e):
    """Map an exception to a small enum; messages are never compared as text."""
    cls = type(e).__name__
    msg = str(e)
    if isinstance(e, ValueError):
        low = msg.lower()
        if "no solution" in low:
            return "ValueError:nosolution"
        if "not in list" in low:
            return "ValueError:listremove"
        if "empty" in low and ("min()" in low or "max()" in low or "arg is an empty" in low):
            return "ValueError:emptyseq"
        return "ValueError:malformed"
    return cls


def snapshot_nodes(state_list):
    return [list(s.next_states) for s in state_list]


def solve(game, prune=True, limit=10.0, want_nodes=True):
    """Run StochasticGame(**game, prune_states=prune).solve() on a deep copy of `game`
    (unless the caller wants aliasing effects: see solve_inplace).  Returns a dict:
      outcome: 'ok' | error kind | 'Timeout'
      res: the 8-tuple as lists (when ok)
      nodes: per-state transition lists right before the reward phase (recording Solver)
    """
    g = copy.deepcopy({k: v for k, v in game.items() if not k.startswith("_")})
    return solve_inplace(g, prune, limit, want_nodes)


def solve_inplace(g, prune=True, limit=10.0, want_nodes=True, sg=None):
    tad = repo("tad")
    rec = {}
    orig_solver = tad.Solver

    class RecordingSolver(orig_solver):
        def solve_total_rewards(self, *a, **k):
            rec["nodes"] = snapshot_nodes(self.state_list)
            rec["reach"] = [s.reach_probability for s in self.state_list]
            return super().solve_total_rewards(*a, **k)

    out = {"outcome": None}
    try:
        if want_nodes:
            tad.Solver = RecordingSolver
        with quiet(), time_limit(limit), maybe_debug():
            if sg is None:
                sg = tad.StochasticGame(**g, prune_states=prune) if "prune_states" not in g \
                    else tad.StochasticGame(**g)
            res = sg.solve()
        out["outcome"] = "ok"
        out["res"] = [list(x) if isinstance(x, (list, tuple)) else x for x in res]
    except Timeout:
        out["outcome"] = "Timeout"
        _note_timeout("solve", g, prune, limit)
    except RecursionError as e:
        out["outcome"] = "RecursionError"
    except Exception as e:  # noqa
        out["outcome"] = err_kind(e)
        out["msg"] = str(e)[:200]
    finally:
        tad.Solver = orig_solver
    out["nodes"] = rec.get("nodes")
    out["reach_at_prune"] = rec.get("reach")
    out["sg"] = sg
    return out


def reach_only(game, prune=False, thr=THR, limit=10.0):
    """check_game + init_states + Solver.solve_reachability; returns probabilities,
    strategies, iterations or an error kind."""
    tad = repo("tad")
    g = copy.deepcopy({k: v for k, v in game.items() if not k.startswith("_")})
    out = {}
    try:
        with quiet(), time_limit(limit), maybe_debug():
            sg = tad.StochasticGame(**g, prune_states=prune)
            sg.check_game()
            sl = sg.init_states()
            solver = tad.Solver(threshold=thr, state_list=sl)
            strat, it = solver.solve_reachability(sg.transition_list, sg.final_states, prune)
        out.update(outcome="ok", probs=[s.reach_probability for s in sl], strats=strat, iters=it,
                   floor=solver.floor)
    except Timeout:
        out["outcome"] = "Timeout"
        _note_timeout("reach_only", g, prune, limit)
    except RecursionError:
        out["outcome"] = "RecursionError"
    except Exception as e:  # noqa
        out["outcome"] = err_kind(e)
        out["msg"] = str(e)[:200]
    return out


def prune_only(game, limit=10.0):
    """solve pipeline up to and including conditioning; returns node lists + probabilities"""
    tad = repo("tad")
    g = copy.deepcopy({k: v for k, v in game.items() if not k.startswith("_")})
    out = {}
    try:
        with quiet(), time_limit(limit), maybe_debug():
            sg = tad.StochasticGame(**g, prune_states=False)
            sg.check_game()
            sl = sg.init_states()
            solver = tad.Solver(threshold=THR, state_list=sl)
            strat, it = solver.solve_reachability(sg.transition_list, sg.final_states, False)
            solver.prune_reachability(strat)
            after_restrict = snapshot_nodes(sl)
            solver.prune_stochastich_game()
        out.update(outcome="ok", probs=[s.reach_probability for s in sl], strats=strat,
                   nodes=snapshot_nodes(sl), after_restrict=after_restrict)
    except Timeout:
        out["outcome"] = "Timeout"
    except RecursionError:
        out["outcome"] = "RecursionError"
    except Exception as e:  # noqa
        out["outcome"] = err_kind(e)
        out["msg"] = str(e)[:200]
    return out


def rdfs(tl, finals, limit=20.0):
    m = repo("reverse_dfs")
    try:
        with quiet(), time_limit(limit), maybe_debug():
            r = m.reverse_dfs(copy.deepcopy(tl), list(finals))
        return {"outcome": "ok", "res": r}
    except Timeout:
        return {"outcome": "Timeout"}
    except RecursionError:
        return {"outcome": "RecursionError"}
    except Exception as e:  # noqa
        return {"outcome": type(e).__name__, "msg": str(e)[:200]}


def rev_table(tl, limit=20.0):
    m = repo("reverse_dfs")
    try:
        with quiet(), time_limit(limit), maybe_debug():
            r = m.reverse_transition_list(copy.deepcopy(tl))
        return {"outcome": "ok", "res": r}
    except Timeout:
        return {"outcome": "Timeout"}
    except Exception as e:  # noqa
        return {"outcome": type(e).__name__, "msg": str(e)[:200]}
