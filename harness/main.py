"""./check <id> --tier quick|thorough | --replay <file>

Exit codes: 0 = property held on everything explored (KNOWN-FINDING lines allowed),
1 = violation (a VIOLATION line was printed), 2 = the machinery itself failed / timed out.
"""
import argparse
import importlib
import json
import os
import sys
import time
import traceback

sys.path.insert(0, os.path.dirname(os.path.abspath(__file__)))

import crlib  # noqa: E402
import leanstep  # noqa: E402
from crlib import Ctx, VERIF, write_evidence, write_replay  # noqa: E402
from modelclient import ModelClient  # noqa: E402

PROPS = [f"C{i:02d}" for i in range(1, 18)]


def load_module(prop):
    return importlib.import_module(f"props.{prop.lower()}")


def do_replay(prop, path):
    mod = load_module(prop)
    payload = json.load(open(path if os.path.isabs(path) else os.path.join(VERIF, path)))
    ctx = Ctx(prop, "quick", int(payload.get("seed", 0)))
    entries = payload.get("violations") or []
    if not entries and payload.get("disagreements"):
        print(f"replay file names a broken correspondence/theorem, no failing input: "
              f"{payload.get('broken')}")
        # re-run the correspondence on the recorded disagreeing inputs
        entries = []
    if not hasattr(mod, "replay"):
        print("this property module has no replay support")
        return 2
    for e in entries:
        if e.get("clause") == "does-not-return":
            import impl
            g = e["input"]["game"]
            g["transition_list"] = [[tuple(t) for t in row] if isinstance(row, list) else row for row in g["transition_list"]]
            o = impl.solve(g, bool(e["input"].get("prune")), limit=max(60.0, 3 * float(e["input"].get("limit_s", 10))), want_nodes=False)
            if o["outcome"] == "Timeout":
                ctx.violations.append({"clause": "does-not-return", "input": e["input"], "detail": {"outcome": "Timeout"}})
            continue
        mod.replay(ctx, e)
    if ctx.violations:
        for v in ctx.violations:
            print(f"still fails: clause={v['clause']} detail={json.dumps(v['detail'])[:300]}")
        print(f"VIOLATION property={prop} replay={path}")
        return 1
    print(f"replay: no recorded input fails any more ({len(entries)} re-evaluated)")
    return 0


def main():
    ap = argparse.ArgumentParser()
    ap.add_argument("prop")
    ap.add_argument("--tier", default=os.environ.get("VERIF_TIER", "quick"), choices=["quick", "thorough"])
    ap.add_argument("--replay", default=None)
    ap.add_argument("--no-lean", action="store_true", help="development only: skip the Lean step")
    ap.add_argument("--dev", action="store_true", help="development only: skip build/audit, keep model")
    args = ap.parse_args()
    prop = args.prop.upper()
    if prop not in PROPS:
        print(f"unknown property {prop}")
        return 2
    if args.replay:
        return do_replay(prop, args.replay)
    seed = int(os.environ.get("VERIF_SEED", "0") or 0)
    ctx = Ctx(prop, args.tier, seed)
    mod = load_module(prop)

    # 1. proof obligations ---------------------------------------------------------------
    proof = None
    if not args.no_lean and not args.dev:
        proof = leanstep.run(prop, args.tier)
        if proof.get("fatal"):
            print(f"INTERNAL: Lean step failed: {proof['fatal']}")
            return 2
    ctx.proof = proof
    tie2 = (proof or {}).get("translator_tie") or {}
    if tie2.get("status") in ("broken", "translator-failed"):
        print(f"NOTE: translator tie not checked ({tie2.get('status')}): {str(tie2.get('detail'))[:300]}")
    elif tie2.get("status") == "checked":
        changed_units = [k for k, v in tie2.get("units", {}).items() if v != "translated"]
        ctx.notes.append(f"translator tie checked: {len(tie2.get('theorems', []))} tie theorems against the fresh translation of "
                         f"{len(tie2.get('units', {}))} units ({len(changed_units)} not translatable)")

    # 2+3. correspondence and direct oracle pass -----------------------------------------
    crlib.start_coverage()
    model = ModelClient(ctx)
    use_model = model.available() and not args.no_lean
    if not use_model and not args.no_lean:
        print("INTERNAL: model driver not built (run MANIFEST.setup_cmd)")
        return 2
    harness_exc = None
    try:
        mod.run(ctx, model if use_model else None)
    except crlib.StopRun:
        ctx.notes.append("exploration stopped early: 25 violations collected")
    except Exception as e:  # noqa
        # The harness itself stumbled.  On the validated source that is a bug of the harness (exit 2).  On CHANGED
        # source it means the implementation behaved in a way the harness never met on the validated tree: the
        # property is no longer shown to hold, reported as such (with the traceback in the replay).
        import srcmap as _sm
        if not _sm.compare(prop).get("changed"):
            raise
        harness_exc = traceback.format_exc()
    if use_model:
        try:
            model.flush()
        except Exception:  # noqa
            if harness_exc is None:
                raise

    # 2b. which source was the model last validated against?  Anchored functions that changed since the
    # committed baseline get a second, independently seeded exploration + correspondence pass (quick tier).
    import srcmap
    tie = srcmap.compare(prop)
    ctx.extra["source_tie"] = tie
    if tie.get("changed"):
        print(f"NOTE: {len(tie['changed'])} anchored source unit(s) differ from the validated baseline "
              f"{str(tie.get('baseline_commit'))[:12]}: {', '.join(tie['changed'][:6])}{' ...' if len(tie['changed']) > 6 else ''}")
        if args.tier == "quick" and not ctx.violations:
            sub = Ctx(prop, args.tier, seed + 500)
            m2 = ModelClient(sub)
            try:
                mod.run(sub, m2 if use_model else None)
                if use_model:
                    m2.flush()
            except crlib.StopRun:
                pass
            except Exception:  # noqa  (changed source: see above)
                harness_exc = harness_exc or traceback.format_exc()
            ctx.evaluations += sub.evaluations
            ctx.nontrivial |= sub.nontrivial
            ctx.violations.extend(sub.violations)
            ctx.disagreements.extend(sub.disagreements)
            for kk, vv in sub.corr.items():
                ctx.corr[kk] = ctx.corr.get(kk, 0) + vv
            for kk, vv in sub.known.items():
                ctx.known[kk] = ctx.known.get(kk, 0) + vv
            ctx.notes.append("changed source: second exploration + correspondence pass with seed+500")

    # known-finding witnesses are replayed on every run
    witness_lines = []
    if hasattr(mod, "known_findings"):
        witness_lines = mod.known_findings(ctx) or []

    broken = []
    if proof and proof["discharged"] != proof["obligations"]:
        broken.append({"kind": "theorem", "names": proof.get("failed", [])})
    if ctx.disagreements:
        suites = sorted({d["suite"] for d in ctx.disagreements})
        broken.append({"kind": "correspondence", "suites": suites})

    if harness_exc is not None and not ctx.violations:
        broken.append({"kind": "harness-could-not-continue", "traceback": harness_exc[-1500:],
                       "note": "on source that differs from the validated baseline the harness met behaviour of the "
                               "implementation it cannot handle (e.g. a caller's list emptied under its feet)"})
    if ctx.extra.get("stopped_on_time_limits") and not ctx.violations and crlib.TIMED_OUT_INPUTS:
        first = crlib.TIMED_OUT_INPUTS[0]
        ctx.violations.append({"clause": "does-not-return", "input": first,
                               "detail": {"bounds_fired": crlib.TIMEOUTS["n"], "seconds": crlib.TIMEOUTS["seconds"],
                                          "note": "the solver did not return within the bound on this input and on "
                                                  "many others; the model returns at once"},
                               "signature": None})
    if ctx.extra.get("stopped_on_time_limits") and not ctx.violations:
        broken.append({"kind": "time-limits", "fired": dict(crlib.TIMEOUTS),
                       "note": "the implementation ran into the wall-clock bound of case after case (the model "
                               "returns at once on the same inputs); exploration stopped"})

    # an EARLIER stage of the pipeline disagrees with the model (another property's business, not reported
    # here): the code upstream of this property changed, so its own oracle looks harder before it says "holds"
    upstream = sum(v for k, v in ctx.dist.items() if k.startswith("upstream_stage_differs_not_this_property"))
    ctx.extra["upstream_stage_disagreements"] = upstream
    # the second tie (translation == model) no longer checks: not a violation by itself (the correspondence is the
    # deciding tie), but the code changed in a way the proofs do not follow, so the oracle looks harder
    tie_broken = tie2.get("status") in ("broken", "translator-failed")
    ctx.extra["translator_tie_status"] = tie2.get("status")
    search = bool(broken) or upstream > 0 or tie_broken

    # 4. failing-input search when a proof obligation or the correspondence broke ---------
    if search and not ctx.violations and not ctx.extra.get("stopped_on_time_limits"):
        budget = 120 if args.tier == "quick" else 900
        t_end = time.time() + budget
        k = 0
        # first: the disagreeing inputs themselves were already judged by the oracle in
        # run(); now widen: fresh seeds, thorough sizes.
        while time.time() < t_end and not ctx.violations and k < 6:
            k += 1
            sub = Ctx(prop, "thorough" if k > 1 else args.tier, seed + 1000 * k)
            sub.deadline = t_end
            try:
                mod.run(sub, None)
            except (crlib.Timeout, crlib.StopRun):
                pass
            except Exception:  # noqa
                import srcmap as _sm2
                if not _sm2.compare(prop).get("changed"):
                    raise
                ctx.notes.append("failing-input search round stopped by a harness exception on changed source")
                break
            ctx.evaluations += sub.evaluations
            ctx.nontrivial |= sub.nontrivial
            ctx.violations.extend(sub.violations)
            for kk, vv in sub.known.items():
                ctx.known[kk] = ctx.known.get(kk, 0) + vv
        ctx.notes.append(f"failing-input search: {k} extra rounds")

    # 5. verdict -------------------------------------------------------------------------
    rc = 0
    for line in witness_lines:
        print(line)
    if ctx.violations:
        payload = {"property": prop, "seed": seed, "tier": args.tier,
                   "violations": ctx.violations[:10], "broken": broken,
                   "disagreements": ctx.disagreements[:5]}
        path = write_replay(ctx, payload, ctx.violations[0]["clause"].replace("/", "_")[:40])
        v = ctx.violations[0]
        print(f"first failing input: clause={v['clause']} detail={json.dumps(v['detail'])[:400]}")
        print(f"VIOLATION property={prop} replay={path}")
        rc = 1
    elif broken:
        payload = {"property": prop, "seed": seed, "tier": args.tier, "violations": [],
                   "broken": broken, "disagreements": ctx.disagreements[:10],
                   "note": "model and implementation disagree (or a theorem no longer checks); "
                           "the oracle found no input on which the property itself fails"}
        path = write_replay(ctx, payload, "unshown")
        d = ctx.disagreements[0] if ctx.disagreements else None
        if ctx.extra.get("stopped_on_time_limits"):
            print(f"implementation stopped returning: {crlib.TIMEOUTS['n']} wall-clock bounds fired ({crlib.TIMEOUTS['seconds']:.0f} s in total)")
        if d:
            print(f"first disagreement: suite={d['suite']} diff={json.dumps(d['impl'].get('diff'))[:300]}")
        print(f"VIOLATION property={prop} replay={path} no-failing-input-found")
        rc = 1
    cov = crlib.coverage_report()
    if cov:
        ctx.extra["impl_line_coverage"] = cov
    write_evidence(ctx, proof, len(ctx.violations) if ctx.violations else (1 if broken else 0))
    nk = sum(ctx.known.values())
    print(f"{prop} {args.tier}: evaluations={ctx.evaluations} distinct_nontrivial={len(ctx.nontrivial)} "
          f"correspondence={sum(ctx.corr.values())} disagreements={len(ctx.disagreements)} "
          f"theorems={proof['discharged'] if proof else 'n/a'}/{proof['obligations'] if proof else 'n/a'} "
          f"known-finding-hits={nk} violations={len(ctx.violations)} wall={time.time()-ctx.t0:.1f}s")
    return rc


if __name__ == "__main__":
    try:
        rc = main()
    except crlib.Timeout:
        print("INTERNAL: timeout")
        rc = 2
    except SystemExit as e:
        rc = e.code if isinstance(e.code, int) else 2
    except BaseException:  # noqa
        traceback.print_exc()
        print("INTERNAL: harness error")
        rc = 2
    sys.stdout.flush()
    os._exit(rc)
