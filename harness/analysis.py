"""Shared analysis of one solved game: conditioned game, exact values, residuals.

Everything is computed with Fractions from the *description* and from what the solver
*reported* — independently of the Lean model.
"""
from fractions import Fraction as Fr

import gen
import oracles

P1, P2, PR = gen.P1, gen.P2, gen.PR


def guarded(fn):
    """the history / environment passes added in rounds 5-6 are auxiliary explorations: a harness-side exception in
    one of them (a timing-dependent hiccup of the instrumentation itself) is counted and skipped, it does not take
    the whole check down; violations, time limits and the 25-violation stop propagate as usual"""
    import functools

    @functools.wraps(fn)
    def wrapper(ctx, *a, **k):
        import crlib
        try:
            return fn(ctx, *a, **k)
        except (crlib.StopRun, crlib.Timeout):
            raise
        except Exception as e:  # noqa
            ctx.count("auxiliary-pass-skipped:" + fn.__name__ + ":" + type(e).__name__)
            ctx.notes.append(f"auxiliary pass {fn.__name__} skipped after {type(e).__name__}: {str(e)[:150]}")
            return None
    return wrapper
THR = Fr(1, 10 ** 6)
MAX_PROFILES = 400


class Solved:
    """one implementation run (impl.solve result `o`) of game g in mode `prune`"""

    def __init__(self, g, prune, o):
        self.g, self.prune, self.o = g, prune, o
        self.players = g["players"]
        self.n = len(self.players)
        self.xtl = gen.exact_tl(g)
        self.finals = g["final_states"]
        r = o["res"]
        self.final_strat, self.reach_strat = r[0], r[1]
        self.rewards, self.probs = r[2], r[3]
        self.prob_min_rew, self.rew_min_reach = r[6], r[7]
        self._cond = None
        self._reach0 = None
        self._rv = None
        self._wv = None

    # conditioned game as the property defines it, from the reported strategies/probabilities
    @property
    def cond(self):
        if self._cond is None:
            c = oracles.conditioned(self.players, self.xtl, self.reach_strat, self.probs, self.prune)
            if self.prune:
                r0 = oracles.reachable_from(c, 0)
                # states not reachable from the initial state may be emptied by the solver
                self._reach0 = r0
            else:
                self._reach0 = set(range(self.n))
            self._cond = c
        return self._cond

    @property
    def reach0(self):
        self.cond
        return self._reach0

    def cond_as_solved(self):
        """conditioned lists with the states the solver may empty (not reachable from 0,
        not Player 1) emptied — the game the reward phase actually runs on"""
        c = [list(r) for r in self.cond]
        if self.prune:
            for s in range(self.n):
                if s not in self.reach0 and self.players[s] != P1:
                    c[s] = []
        return c

    def small(self):
        return oracles.count_profiles(self.players, self.xtl) <= MAX_PROFILES and self.n <= 14

    def reach_value(self):
        if self._rv is None:
            self._rv = oracles.game_reach_value(self.players, self.xtl, self.finals)
        return self._rv

    def reward_value(self):
        """exact max-min total reward of the conditioned game (None where infinite)"""
        if self._wv is None:
            self._wv = oracles.game_reward_value(self.players, self.cond_as_solved(), self.g["rewards"])
        return self._wv

    def reach_residual(self):
        fx = [Fr(v) for v in self.probs]
        b = oracles.bellman_reach(self.players, self.xtl, self.finals, fx)
        return max(abs(a - c) for a, c in zip(b, fx))

    def reward_residual(self, nodes=None):
        """residual of the reported rewards under the reward equations of the conditioned game;
        `nodes` (the solver's own lists) may be given to evaluate consistency with what the
        solver actually iterated on"""
        fx = [Fr(v) for v in self.rewards]
        c = self.cond_as_solved() if nodes is None else \
            [[(Fr(l) if not isinstance(l, str) else l, t) for l, t in row] for row in nodes]
        b = oracles.bellman_reward(self.players, c, self.g["rewards"], fx)
        states = self.reach0 if self.prune else range(self.n)
        return max((abs(b[s] - fx[s]) for s in states), default=Fr(0))


def separated(vals, tol):
    """pairwise: equal (exactly) or further apart than tol"""
    vs = list(vals)
    for i in range(len(vs)):
        for j in range(i + 1, len(vs)):
            d = abs(vs[i] - vs[j])
            if d != 0 and d <= tol:
                return False
    return True


def near_rounding_boundary(x, digits=6, eps=Fr(1, 10 ** 9)):
    q = Fr(x) * 10 ** digits
    frac = q - (q.numerator // q.denominator)
    return abs(frac - Fr(1, 2)) * Fr(1, 10 ** digits) <= eps


def batch_vs_alone(ctx, games, fields, label):
    """observe_at 'run_games()[name][...]': the entries of a batch must be what running each game
    alone through run_games gives (a failing or unsolvable game must not leak into its neighbours)"""
    import copy
    from crlib import repo, quiet, time_limit
    cr = repo("conditionalrewards")
    d = {f"g{i}": gen.desc(g) for i, g in enumerate(games)}
    try:
        with quiet(), time_limit(120.0):
            res = cr.run_games(copy.deepcopy(d))
            alone = [cr.run_games({f"g{i}": copy.deepcopy(d[f"g{i}"])}) for i in range(len(games))]
    except BaseException as e:  # noqa
        ctx.count("batch_vs_alone_skipped:" + type(e).__name__)
        return
    for i in range(len(games)):
        for key in (f"g{i}", f"g{i}_no_prune"):
            for fld in fields + ["msg"]:
                if res[key].get(fld) != alone[i][key].get(fld):
                    ctx.violation(label, {"games": [gen.desc(g) for g in games], "index": i},
                                  {"entry": key, "field": fld, "in_batch": res[key].get(fld), "alone": alone[i][key].get(fld)})
                    return
    ctx.count("batch_vs_alone")


def optimized_interpreter(ctx, games, clause, fields=None, label="python -O"):
    """The results must not depend on the interpreter's optimisation level: `python -O` (PYTHONOPTIMIZE) strips
    assert statements and sets __debug__ to False; work done inside an assert, or guarded by __debug__, silently
    disappears.  Solves `games` (both modes) in a fresh `python -O` and compares the repr of every result with
    the one of a fresh normal interpreter.  fields: indices of the result tuple to compare (None = all)."""
    import json
    import os
    import subprocess
    import sys
    import tempfile
    from crlib import REPO
    prog = ("import json,sys\nsys.path.insert(0, %r)\nimport logging\nlogging.disable(logging.CRITICAL)\n"
            "from tad import StochasticGame\nout=[]\n"
            "for g in json.load(open(sys.argv[1])):\n"
            "    g['transition_list']=[[tuple(t) for t in r] for r in g['transition_list']]\n"
            "    for p in (True, False):\n"
            "        try:\n            r = StochasticGame(**g, prune_states=p).solve()\n"
            "            out.append([repr(x) for x in r])\n"
            "        except Exception as e:\n            out.append([type(e).__name__])\n"
            "print(json.dumps(out))\n") % REPO
    with tempfile.NamedTemporaryFile("w", suffix=".json", delete=False) as f:
        json.dump([gen.desc(g) for g in games], f)
        path = f.name
    try:
        res = []
        for flags in ((), ("-O",)):
            try:
                p = subprocess.run([sys.executable, *flags, "-c", prog, path], capture_output=True, text=True, timeout=120,
                                   env={k: v for k, v in dict(os.environ, PYTHONDONTWRITEBYTECODE="1").items() if k != "PYTHONOPTIMIZE"})
            except subprocess.TimeoutExpired:
                ctx.count("timeout")          # termination is judged by C06/C11
                return
            res.append(json.loads(p.stdout.strip().split("\n")[-1]) if p.returncode == 0 and p.stdout.strip() else
                       [["rc=%d %s" % (p.returncode, p.stderr[-200:])]] * (2 * len(games)))
    finally:
        os.unlink(path)
    ctx.case({"interpreter": label, "games": len(games)}, True)
    for i, (a, b) in enumerate(zip(*res)):
        if fields is not None and len(a) > 1 and len(b) > 1:
            a, b = [a[k] for k in fields], [b[k] for k in fields]
        if a != b:
            ctx.violation(clause, {"game": gen.desc(games[i // 2]), "prune": i % 2 == 0, "interpreter": label},
                          {"normal_interpreter": [x[:200] for x in a], label: [x[:200] for x in b]})
            return


class _RecordingEnviron(dict):
    pass


@guarded
def environment_independence(ctx, games, clause, fields=None):
    """The result of a solve must not depend on the process environment: (a) the ambient `decimal` context (a host
    application may have set ROUND_DOWN / ROUND_HALF_UP / a small precision), (b) environment variables.  For (b)
    the variables the implementation READS while solving are recorded (os.environ is replaced by a recording
    mapping for the duration of the call — the unchanged solver reads none); every variable read is then set to a
    range of plausible values and the solve repeated.  Any difference from the plain run is a violation.
    fields: indices of the result tuple to compare (None = all)."""
    import decimal
    import os
    import impl

    def pick(o):
        if o["outcome"] != "ok":
            return [o["outcome"]]
        r = o["res"]
        return [repr(r[k]) for k in (fields if fields is not None else range(len(r)))]

    for g in games:
        for prune in (True, False):
            base = pick(impl.solve(g, prune, want_nodes=False))
            ctx.case({"environment": "decimal contexts + environment variables read", "game": gen.desc(g), "prune": prune}, True)
            # (a) decimal context
            for label, kw in (("decimal ROUND_DOWN", dict(rounding=decimal.ROUND_DOWN)),
                              ("decimal ROUND_HALF_UP", dict(rounding=decimal.ROUND_HALF_UP)),
                              ("decimal ROUND_CEILING prec=9", dict(rounding=decimal.ROUND_CEILING, prec=9))):
                saved = decimal.getcontext().copy()
                try:
                    c = decimal.getcontext()
                    for k, v in kw.items():
                        setattr(c, k, v)
                    got = pick(impl.solve(g, prune, want_nodes=False))
                finally:
                    decimal.setcontext(saved)
                if got != base:
                    ctx.violation(clause, {"game": gen.desc(g), "prune": prune, "environment": label},
                                  {"plain": [x[:200] for x in base], label: [x[:200] for x in got]})
                    return
            # (a2) warnings turned into errors (python -W error / PYTHONWARNINGS=error / pytest filterwarnings=error)
            import warnings
            with warnings.catch_warnings():
                warnings.simplefilter("error")
                got = pick(impl.solve(g, prune, want_nodes=False))
            if got != base:
                ctx.violation(clause, {"game": gen.desc(g), "prune": prune, "environment": "warnings are errors (-W error)"},
                              {"plain": [x[:200] for x in base], "-W error": [x[:200] for x in got]})
                return
            # (a3) a solve started from another thread than the main one (a server / GUI worker)
            import threading
            from crlib import repo, quiet
            box = {}

            def work():
                try:
                    tad = repo("tad")
                    d = {k: v for k, v in gen.desc(g).items()}
                    r = tad.StochasticGame(**d, prune_states=prune).solve()
                    box["r"] = {"outcome": "ok", "res": [list(x) if isinstance(x, (list, tuple)) else x for x in r]}
                except Exception as e:  # noqa
                    box["r"] = {"outcome": impl.err_kind(e), "msg": str(e)[:200]}
            with quiet():
                th = threading.Thread(target=work, daemon=True)
                th.start()
                th.join(30)
            if "r" in box:
                got = pick(box["r"])
                if got != base:
                    ctx.violation(clause, {"game": gen.desc(g), "prune": prune, "environment": "solve() called from a non-main thread"},
                                  {"plain": [x[:200] for x in base], "worker thread": [x[:200] for x in got], "msg": box["r"].get("msg")})
                    return
            # (b) environment variables
            reads = []
            real = os.environ

            class Rec(type(real)):
                pass
            class Probe(dict):
                def __getitem__(self, k):
                    reads.append(k)
                    return real[k]
                def get(self, k, d=None):
                    reads.append(k)
                    return real.get(k, d)
                def __contains__(self, k):
                    reads.append(k)
                    return k in real
                def keys(self):
                    return real.keys()
                def items(self):
                    return real.items()
                def __iter__(self):
                    return iter(real)
                def __len__(self):
                    return len(real)
                def copy(self):
                    return dict(real)
            os.environ = Probe()
            try:
                impl.solve(g, prune, want_nodes=False)
            finally:
                os.environ = real
            keys = sorted({k for k in reads if isinstance(k, str) and not k.startswith(("PYTHON", "LC_", "LANG", "TZ"))})
            ctx.count("environment_variables_read=%d" % len(keys))
            for k in keys:
                old = real.get(k)
                for val in ("1e-2", "0.5", "0", "1", "3", "true", "DEBUG", ""):
                    real[k] = val
                    try:
                        got = pick(impl.solve(g, prune, want_nodes=False))
                    finally:
                        if old is None:
                            real.pop(k, None)
                        else:
                            real[k] = old
                    if got != base:
                        ctx.violation(clause, {"game": gen.desc(g), "prune": prune, "environment": f"{k}={val!r}"},
                                      {"plain": [x[:200] for x in base], f"{k}={val}": [x[:200] for x in got]})
                        return


@guarded
def described_at_solve_time(ctx, games, clause, fields=None):
    """The game that is solved is the description the object holds WHEN solve() is called: the caller may build the
    object first and complete / correct its final states afterwards — by editing the list it passed in, or by
    assigning the attribute.  The result must equal the one of a fresh object built from the final description."""
    import copy
    import impl
    from crlib import repo, quiet
    tad = repo("tad")

    def pick(r):
        return [repr(r[k]) for k in (fields if fields is not None else range(len(r)))]

    for g in games:
        d = {k: v for k, v in g.items() if not k.startswith("_")}
        n = len(d["players"])
        finals = list(d["final_states"])
        others = [s for s in range(n) if s not in finals]
        for prune in (True, False):
            ref = impl.solve(g, prune, want_nodes=False)
            if ref["outcome"] != "ok":
                continue
            want = pick(ref["res"])
            # the pruning mode, like the rest of the description, is what the object holds when solve() is called;
            # it is used by truth value (1 / 0 from a CLI or JSON caller)
            dd = copy.deepcopy(d)
            ctx.case({"edit": "pruning flag assigned after construction", "game": gen.desc(g), "prune": prune}, True)
            try:
                with quiet():
                    sg = tad.StochasticGame(**dd, prune_states=not prune)
                    sg.prune_states = 1 if prune else 0
                    got = pick([list(x) if isinstance(x, (list, tuple)) else x for x in sg.solve()])
            except Exception as e:  # noqa
                got = [type(e).__name__ + ": " + str(e)[:100]]
            if got != want:
                ctx.violation(clause, {"game": gen.desc(g), "prune": prune, "edit": "prune_states assigned after construction: " + repr(1 if prune else 0)},
                              {"fresh_object": [x[:200] for x in want], "edited_object": [x[:200] for x in got]})
                return
            for how in ("list edited in place after construction", "attribute assigned after construction"):
                dd = copy.deepcopy(d)
                # a different, valid first guess of the final states
                first = [others[0]] if others and how.startswith("attribute") else finals[:1] + ([others[-1]] if others else [])
                dd["final_states"] = list(first)
                ctx.case({"edit": how, "game": gen.desc(g), "prune": prune}, True)
                try:
                    with quiet():
                        sg = tad.StochasticGame(**dd, prune_states=prune)
                        if how.startswith("list"):
                            dd["final_states"][:] = finals
                        else:
                            sg.final_states = list(finals)
                        got = pick([list(x) if isinstance(x, (list, tuple)) else x for x in sg.solve()])
                except Exception as e:  # noqa
                    got = [type(e).__name__ + ": " + str(e)[:100]]
                if got != want:
                    ctx.violation(clause, {"game": gen.desc(g), "prune": prune, "edit": how, "first_final_states": first},
                                  {"fresh_object": [x[:200] for x in want], "edited_object": [x[:200] for x in got]})
                    return


@guarded
def odd_label_invariance(ctx, games, clause, rng, fields=None):
    """Action names are arbitrary strings: renaming them consistently to strings that contain format / template /
    quoting characters ({north}, %s, quotes, backslash, newline) changes the strategies only by the renaming and
    nothing else."""
    import impl
    for g in games:
        g2, m = gen.with_odd_labels(g, rng)
        for prune in (True, False):
            a = impl.solve(g, prune, want_nodes=False)
            b = impl.solve(g2, prune, want_nodes=False)
            ctx.case({"renaming": {k: v for k, v in m.items()}, "game": gen.desc(g), "prune": prune}, True)
            if a["outcome"] != "ok":
                if b["outcome"] != a["outcome"]:
                    ctx.violation(clause, {"game": gen.desc(g2), "prune": prune, "renaming": m}, {"original": a["outcome"], "renamed": b["outcome"], "msg": b.get("msg")})
                    return
                continue
            if b["outcome"] != "ok":
                ctx.violation(clause, {"game": gen.desc(g2), "prune": prune, "renaming": m}, {"original": "ok", "renamed": b["outcome"], "msg": b.get("msg")})
                return
            ra, rb = a["res"], b["res"]
            ren = lambda st: [None if x is None else [m.get(y, y) for y in x] for x in st]
            exp = [ren(ra[0]), ren(ra[1])] + list(ra[2:])
            idx = fields if fields is not None else range(len(exp))
            if [repr(exp[k]) for k in idx] != [repr(rb[k]) for k in idx]:
                bad = [k for k in idx if repr(exp[k]) != repr(rb[k])]
                ctx.violation(clause, {"game": gen.desc(g2), "prune": prune, "renaming": m},
                              {"differing_result_fields": bad, "expected": [repr(exp[k])[:200] for k in bad], "got": [repr(rb[k])[:200] for k in bad]})
                return


@guarded
def shared_rows_invariance(ctx, games, clause, rng, fields=None):
    """A description may use ONE list object as the transition row of several states (`row = [...]` placed at two
    indices, `[row] * 2`): that is the same game as the description with equal but separate rows, and the result
    must be the same — whatever the solver does with its own working copies."""
    import copy
    import impl
    for g in games:
        d = gen.desc(g)
        players, tl, finals = d["players"], d["transition_list"], set(d["final_states"])
        cands = [i for i, p in enumerate(players) if p != PR and len(tl[i]) >= 2]
        others = [i for i, p in enumerate(players) if p != PR and i not in finals]
        if not cands or len(others) < 2:
            continue
        s_ = rng.choice(cands)
        t_ = rng.choice([i for i in others if i != s_])
        players[t_] = P2 if players[s_] == P1 else P1
        sep = copy.deepcopy(d)
        sep["transition_list"][t_] = list(sep["transition_list"][s_])           # equal, separate objects
        sha = copy.deepcopy(d)
        sha["transition_list"][t_] = sha["transition_list"][s_]                 # one object, two states
        for prune in (True, False):
            a = impl.solve(sep, prune, limit=5.0, want_nodes=False)
            b = impl.solve(sha, prune, limit=5.0, want_nodes=False)
            if "Timeout" in (a["outcome"], b["outcome"]):
                continue
            ctx.case({"shared_row": [s_, t_], "game": sep, "prune": prune}, True)
            pa = [a["outcome"]] if a["outcome"] != "ok" else [repr(a["res"][k]) for k in (fields if fields is not None else range(len(a["res"])))]
            pb = [b["outcome"]] if b["outcome"] != "ok" else [repr(b["res"][k]) for k in (fields if fields is not None else range(len(b["res"])))]
            if pa != pb:
                ctx.violation(clause, {"game": sep, "prune": prune, "shared_row": [s_, t_]},
                              {"separate_rows": [x[:200] for x in pa], "one_row_object_for_both_states": [x[:200] for x in pb]})
                return


def round5_passes(ctx, rng, games, prefix, fields=None):
    """the history / environment / naming passes every solver property gets (DESIGN.md 12.6)"""
    environment_independence(ctx, list(games) + [gen.all_dead_game(rng)], prefix + "-independent-of-process-environment", fields)
    described_at_solve_time(ctx, games, prefix + "-of-the-description-at-solve-time", fields)
    odd_label_invariance(ctx, list(games) + [gen.stopping_game(rng, n_inner=rng.randint(2, 5)) for _ in range(14)] +
                         [gen.layered_tie_game(rng) for _ in range(4)], prefix + "-unchanged-by-odd-action-names", rng, fields)
    shared_rows_invariance(ctx, list(games) + [gen.stopping_game(rng) for _ in range(12)], prefix + "-unchanged-by-row-sharing", rng, fields)


def replay_round5(ctx, viol, fields=None):
    """replay of a violation recorded by round5_passes; returns True when the clause was one of them"""
    c = viol.get("clause", "")
    g = viol["input"].get("game")
    if g is None:
        return False
    g["transition_list"] = [[tuple(t) for t in row] for row in g["transition_list"]]
    if c.endswith("-independent-of-process-environment"):
        environment_independence(ctx, [g], c, fields)
        return True
    if c.endswith("-of-the-description-at-solve-time"):
        described_at_solve_time(ctx, [g], c, fields)
        return True
    if c.endswith("-unchanged-by-row-sharing"):
        import copy
        import impl
        s_, t_ = viol["input"]["shared_row"]
        prune = viol["input"].get("prune", True)
        sha = copy.deepcopy(g)
        sha["transition_list"][t_] = sha["transition_list"][s_]
        a, b = impl.solve(g, prune, want_nodes=False), impl.solve(sha, prune, want_nodes=False)
        if a["outcome"] != b["outcome"] or repr(a.get("res")) != repr(b.get("res")):
            ctx.violation(c, viol["input"], {"separate_rows": a["outcome"], "one_row_object_for_both_states": b["outcome"]})
        return True
    if c.endswith("-unchanged-by-odd-action-names"):
        # the recorded game is the renamed one: it must at least be solved like its un-renamed twin
        import impl
        m = viol["input"].get("renaming", {})
        inv = {v: k for k, v in m.items()}
        g0 = dict(g, transition_list=[[((inv.get(l, l) if isinstance(l, str) else l), t) for l, t in row] for row in g["transition_list"]])
        prune = viol["input"].get("prune", True)
        a, b = impl.solve(g0, prune, want_nodes=False), impl.solve(g, prune, want_nodes=False)
        ok = a["outcome"] == b["outcome"] and (a["outcome"] != "ok" or [repr(x) for x in a["res"][2:]] == [repr(x) for x in b["res"][2:]])
        if not ok:
            ctx.violation(c, viol["input"], {"original": a["outcome"], "renamed": b["outcome"], "msg": b.get("msg")})
        return True
    return False
