"""py2lean — a translator from the Python subset used by the repository's pure functions to Lean 4.

Second tie between the Lean development and /repo (the first is the correspondence check): on every run the
functions listed in UNITS are re-translated FROM THE WORKING TREE into `lean/CR/Extracted/*.lean`, and the
hand-proved theorems of `lean/CR/Tie/*.lean` ("the translation of the code equals the hand-written model, for
all arguments") are re-checked by the Lean kernel against the fresh translation.

The translation is syntax-directed and deliberately dumb (DESIGN.md 12):
  * ints are `Int`, floats `Float`, strings `String`, lists `List`, tuples products, `None`-or-int `Option Int`,
    dicts association lists in insertion order;
  * `x = e`, `x.append(e)`, `x += e`, `d[k] = e`, `d[k].append(e)` become `let x : T := ...` (shadowing);
  * `for v in range(e)` / `for v in xs` / `for a, b in xs` / `enumerate` become `List.foldl` over the variables
    the loop body assigns (the loop-carried state: every variable assigned in the body that is defined before
    the loop, read after it, or possibly read in the body before it is assigned there);
  * `if / elif / else` become `if then else` over the variables the branches assign; a branch that ends in
    `return` / `raise` takes the rest of the block into the other branch;
  * `raise ValueError(msg)` becomes `Except.error msg` (functions that raise return `Except String T`);
  * list comprehensions become `map` / `flatMap`; `+` on lists and strings is `++`; `[x] * n` is replication;
  * calls to other translated functions are resolved positionally (keywords and defaults filled in).
What it does NOT model (listed as the translator's trusted base): reading a local before assignment yields
`default` (Python: UnboundLocalError), an index out of range yields `default` (IndexError), `%` and `//` by 0,
`round` is the model's `pyRoundNonneg`, file writes (`my_file.write`) are dropped, parameter types are the
annotations in UNITS.  Anything outside the subset raises `Untranslatable`; the tie for that unit is then
reported as not checked (never a violation by itself, see main.py).
"""
import ast
import json
import os
import sys

HERE = os.path.dirname(os.path.abspath(__file__))
VERIF = os.path.dirname(HERE)
REPO = os.environ.get("CR_REPO", "/repo")
OUT_DIR = os.path.join(VERIF, "lean", "CR", "Extracted")

# ---------------------------------------------------------------------------------------------------
# types
INT, FLOAT, STR, BOOL, UNIT, SLOT = "Int", "Float", "Str", "Bool", "Unit", "Slot"


def TList(t):
    return ("List", t)


def TTup(*ts):
    return ("Tup", tuple(ts))


def TOpt(t):
    return ("Opt", t)


def TDict(k, v):
    return ("Dict", k, v)


def TVar(n):
    return ("Var", n)


class Untranslatable(Exception):
    pass


def lean_type(t):
    if t is None:
        raise Untranslatable("type not inferred")
    if t == INT:
        return "Int"
    if t == FLOAT:
        return "Float"
    if t == STR:
        return "String"
    if t == BOOL:
        return "Bool"
    if t == UNIT:
        return "Unit"
    if t == SLOT:
        return "Py.Slot"
    if t[0] == "List":
        return f"List ({lean_type(t[1])})"
    if t[0] == "Tup":
        return "(" + " × ".join(lean_type(x) for x in t[1]) + ")"
    if t[0] == "Opt":
        return f"Option ({lean_type(t[1])})"
    if t[0] == "Dict":
        return f"List ({lean_type(t[1])} × {lean_type(t[2])})"
    if t[0] == "Var":
        return t[1]
    raise Untranslatable(f"type {t!r}")


def join(a, b):
    """least upper bound of two inferred types (None = unknown); Int joins Float to Float"""
    if a is None:
        return b
    if b is None:
        return a
    if a == b:
        return a
    if {a, b} == {INT, FLOAT}:
        return FLOAT
    # the first slot of a transition: an action name on player rows, a probability on probabilistic rows
    if {a, b} <= {INT, FLOAT, STR, SLOT} and (STR in (a, b) or SLOT in (a, b)):
        return SLOT
    if isinstance(a, tuple) and isinstance(b, tuple) and a[0] == b[0]:
        if a[0] == "List":
            return TList(join(a[1], b[1]))
        if a[0] == "Tup" and len(a[1]) == len(b[1]):
            return TTup(*[join(x, y) for x, y in zip(a[1], b[1])])
        if a[0] == "Opt":
            return TOpt(join(a[1], b[1]))
        if a[0] == "Dict":
            return TDict(join(a[1], b[1]), join(a[2], b[2]))
    # a None-or-T value next to a plain T: `None` literal makes the slot optional, a None-or-T VARIABLE used
    # as a value is read as its T (`Py.unopt`; None used as a number is a TypeError in Python — not modelled)
    if isinstance(a, tuple) and a[0] == "Opt" and not (isinstance(b, tuple) and b[0] == "Opt"):
        return TOpt(b) if a[1] is None else join(a[1], b)
    if isinstance(b, tuple) and b[0] == "Opt" and not (isinstance(a, tuple) and a[0] == "Opt"):
        return TOpt(a) if b[1] is None else join(b[1], a)
    raise Untranslatable(f"cannot join types {a!r} and {b!r}")


KEYWORDS = {"end", "at", "from", "in", "do", "then", "fun", "let", "have", "show", "open", "section", "local",
            "match", "with", "if", "else", "where", "by", "def", "theorem", "instance", "structure", "class",
            "namespace", "import", "variable", "universe", "mutual", "private", "protected", "prefix", "infix",
            "notation", "macro", "syntax", "deriving", "extends", "return", "for", "unless", "try", "catch",
            "finally", "mut", "Type", "Prop", "Sort", "total", "light", "prob"}


def ident(n):
    return f"«{n}»" if n in KEYWORDS else n


# ---------------------------------------------------------------------------------------------------
class FuncTranslator:
    def __init__(self, modtr, fdef, cfg):
        self.m = modtr
        self.f = fdef
        self.cfg = cfg
        self.name = fdef.name
        self.params = [a.arg for a in fdef.args.args]
        self.ptypes = dict(cfg.get("params", {}))
        self.drop = set(cfg.get("drop_calls_on", []))      # receivers whose method calls are IO and dropped
        self.drop_funcs = set(cfg.get("drop_funcs", []))   # functions whose call statements are IO and dropped
        self.result_var = cfg.get("result_var")
        self.env = {}
        self.fresh = 0
        self.raises = self._has_raise(fdef)
        self.uses_rnd = False
        self.loop_k = []
        self.has_while = any(isinstance(n, ast.While) for n in ast.walk(fdef))   # own loops: result is an Option
        self.uses_fuel = self.has_while                                          # takes a `fuel` parameter

    @staticmethod
    def _has_raise(fdef):
        return any(isinstance(n, ast.Raise) for n in ast.walk(fdef))

    # ---- type inference -------------------------------------------------------------------------
    def infer(self):
        for p in self.params:
            if p in self.drop:
                continue
            if p not in self.ptypes:
                raise Untranslatable(f"{self.name}: no type annotation for parameter {p}")
            self.env[p] = self.ptypes[p]
        for _ in range(8):
            before = json.dumps(self.env, sort_keys=True, default=str)
            self._infer_block(self.f.body)
            if json.dumps(self.env, sort_keys=True, default=str) == before:
                break

    def _bind(self, name, t):
        if name == "_":
            return
        self.env[name] = join(self.env.get(name), t)

    def _bind_target(self, tgt, t):
        if isinstance(tgt, ast.Name):
            self._bind(tgt.id, t)
        elif isinstance(tgt, ast.Tuple):
            if t is None:
                return
            if t[0] != "Tup" or len(t[1]) != len(tgt.elts):
                raise Untranslatable(f"{self.name}: tuple target does not match {t!r}")
            for e, et in zip(tgt.elts, t[1]):
                self._bind_target(e, et)
        else:
            raise Untranslatable(f"{self.name}: assignment target {ast.dump(tgt)[:60]}")

    def _elem_type(self, it):
        """element type of an iterable expression"""
        if isinstance(it, ast.Call) and isinstance(it.func, ast.Name) and it.func.id == "range":
            return INT
        if isinstance(it, ast.Call) and isinstance(it.func, ast.Name) and it.func.id == "enumerate":
            t = self.etype(it.args[0])
            return None if t is None or t[1] is None else TTup(INT, t[1])
        t = self.etype(it)
        if t is None:
            return None
        if t[0] == "List":
            return t[1]
        raise Untranslatable(f"{self.name}: iteration over {t!r}")

    def _infer_block(self, stmts):
        for s in stmts:
            if isinstance(s, ast.Assign):
                if len(s.targets) != 1:
                    raise Untranslatable("multiple assignment targets")
                tgt = s.targets[0]
                if isinstance(tgt, ast.Subscript):
                    # d[k] = e
                    if isinstance(tgt.value, ast.Name):
                        d = tgt.value.id
                        self._bind(d, TDict(self.etype(tgt.slice), self.etype(s.value)))
                    continue
                self._bind_target(tgt, self.etype(s.value))
            elif isinstance(s, ast.AugAssign):
                if isinstance(s.target, ast.Name):
                    self._bind(s.target.id, self.etype(ast.BinOp(left=s.target, op=s.op, right=s.value)))
            elif isinstance(s, ast.Expr):
                c = s.value
                if isinstance(c, ast.Call) and isinstance(c.func, ast.Attribute) and c.func.attr == "extend" \
                        and isinstance(c.func.value, ast.Name):
                    self._bind(c.func.value.id, self.etype(c.args[0]))
                if isinstance(c, ast.Call) and isinstance(c.func, ast.Attribute) and c.func.attr in ("append", "add"):
                    recv = c.func.value
                    et = self.etype(c.args[0])
                    if isinstance(recv, ast.Name):
                        self._bind(recv.id, TList(et))
                    elif isinstance(recv, ast.Subscript) and isinstance(recv.value, ast.Name):
                        self._bind(recv.value.id, TDict(self.etype(recv.slice), TList(et)))
            elif isinstance(s, ast.For):
                self._bind_target(s.target, self._elem_type(s.iter))
                self._infer_block(s.body)
            elif isinstance(s, ast.If):
                self._infer_block(s.body)
                self._infer_block(s.orelse)
            elif isinstance(s, ast.While):
                self._infer_block(s.body)

    def etype(self, e):
        """type of an expression under the current environment (None = not known yet)"""
        if isinstance(e, ast.Constant):
            v = e.value
            if isinstance(v, bool):
                return BOOL
            if isinstance(v, int):
                return INT
            if isinstance(v, float):
                return FLOAT
            if isinstance(v, str):
                return STR
            if v is None:
                return TOpt(None)
            raise Untranslatable(f"constant {v!r}")
        if isinstance(e, ast.JoinedStr):
            return STR
        if isinstance(e, ast.Name):
            if e.id in self.m.consts:
                return self.m.consts[e.id][1]
            return self.env.get(e.id)
        if isinstance(e, ast.Tuple):
            return TTup(*[self.etype(x) for x in e.elts])
        if isinstance(e, ast.List):
            t = None
            for x in e.elts:
                t = join(t, self.etype(x))
            return TList(t)
        if isinstance(e, ast.Dict):
            if not e.keys:
                return TDict(None, None)
            return TTup(*[self.etype(v) for v in e.values])
        if isinstance(e, ast.BinOp):
            lt, rt = self.etype(e.left), self.etype(e.right)
            if isinstance(e.op, ast.Mult) and lt is not None and lt[0] == "List":
                return lt
            if isinstance(e.op, ast.Pow):
                return FLOAT if FLOAT in (lt, rt) else INT
            if isinstance(e.op, ast.Div):
                return FLOAT
            if lt is None or rt is None:
                return lt if rt is None else rt
            return join(lt, rt)
        if isinstance(e, ast.UnaryOp):
            if isinstance(e.op, ast.Not):
                return BOOL
            return self.etype(e.operand)
        if isinstance(e, (ast.Compare, ast.BoolOp)):
            return BOOL
        if isinstance(e, ast.IfExp):
            return join(self.etype(e.body), self.etype(e.orelse))
        if isinstance(e, ast.Subscript):
            t = self.etype(e.value)
            if t is None:
                return None
            if t[0] == "List":
                return t[1]
            if t[0] == "Dict":
                return t[2]
            if t[0] == "Tup":
                if isinstance(e.slice, ast.Constant) and isinstance(e.slice.value, int):
                    return t[1][e.slice.value]
                if isinstance(e.slice, ast.Name) and e.slice.id in self.m.consts:
                    return t[1][self.m.consts[e.slice.id][2]]
            raise Untranslatable(f"{self.name}: subscript of {t!r}")
        if isinstance(e, (ast.ListComp, ast.GeneratorExp)):
            saved = dict(self.env)
            for g in e.generators:
                self._bind_target(g.target, self._elem_type(g.iter))
            t = self.etype(e.elt)
            self.env = saved
            return TList(t)
        if isinstance(e, ast.Call):
            fn = e.func
            if isinstance(fn, ast.Attribute) and fn.attr == "copy" and not e.args:
                return self.etype(fn.value)
            if isinstance(fn, ast.Attribute) and fn.attr == "pop" and not e.args:
                t = self.etype(fn.value)
                return None if t is None else t[1]
            if isinstance(fn, ast.Name) and fn.id in ("set", "reversed", "list", "sorted") and len(e.args) == 1:
                return self.etype(e.args[0])
            if isinstance(fn, ast.Name) and fn.id == "__setidx":
                return self.etype(e.args[0])
            if isinstance(fn, ast.Name):
                if fn.id == "round" and len(e.args) == 2:
                    return FLOAT
                if fn.id == "sum":
                    t = self.etype(e.args[0])
                    return None if t is None else join(INT, t[1])
                if fn.id in ("len", "int", "round"):
                    return INT
                if fn.id == "str":
                    return STR
                if fn.id in ("max", "min"):
                    if len(e.args) == 1:
                        t = self.etype(e.args[0])
                        return None if t is None else t[1]
                    t = None
                    for a in e.args:
                        t = join(t, self.etype(a))
                    return t
                if fn.id in self.m.units:
                    return self.m.return_type(fn.id)
            raise Untranslatable(f"{self.name}: call {ast.dump(fn)[:80]}")
        raise Untranslatable(f"{self.name}: expression {type(e).__name__}")

    # ---- expressions ----------------------------------------------------------------------------
    def coerce(self, s, frm, to):
        if to is None or frm is None or frm == to:
            return s
        if frm == INT and to == FLOAT:
            body = s.strip()
            if body.startswith("(") and body.endswith(": Int)") and body[1:-7].strip().lstrip("-").isdigit():
                return f"({body[1:-7].strip()} : Float)"
            if body.lstrip("-").isdigit():
                return f"({body} : Float)"
            return f"(Float.ofInt {s})"
        if to == SLOT:
            if frm == STR:
                return f"(Py.Slot.act {s})"
            if frm == FLOAT:
                return f"(Py.Slot.prob {s})"
            if frm == INT:
                return f"(Py.Slot.prob {self.coerce(s, INT, FLOAT)})"
        if isinstance(to, tuple) and to[0] == "Opt":
            if isinstance(frm, tuple) and frm[0] == "Opt":
                return s
            return f"(some {self.coerce(s, frm, to[1])})"
        if isinstance(frm, tuple) and frm[0] == "Opt" and not (isinstance(to, tuple) and to[0] == "Opt"):
            return self.coerce(f"(Py.unopt {s})", frm[1], to)
        if isinstance(frm, tuple) and isinstance(to, tuple) and frm[0] == to[0] == "List":
            if frm[1] is None or to[1] is None or frm[1] == to[1]:
                return s
            v = self.new("c")
            return f"(List.map (fun {v} => {self.coerce(v, frm[1], to[1])}) {s})"
        if isinstance(frm, tuple) and isinstance(to, tuple) and frm[0] == to[0] == "Tup" and len(frm[1]) == len(to[1]):
            n = len(frm[1])
            parts = []
            for k in range(n):
                proj = ".2" * k + (".1" if k < n - 1 else "")
                parts.append(self.coerce(f"{s}{proj}", frm[1][k], to[1][k]))
            return "(" + ", ".join(parts) + ")"
        return s

    def expr(self, e, expected=None):
        """Lean term for a Python expression, coerced to `expected` when given"""
        t = self.etype(e)
        if isinstance(e, ast.Constant):
            v = e.value
            if isinstance(v, bool):
                return "true" if v else "false"
            if isinstance(v, int):
                if expected == SLOT:
                    return f"(Py.Slot.prob ({v} : Float))"
                if expected == FLOAT:
                    return f"({v} : Float)"
                if expected is not None and expected[0] == "Opt":
                    return f"(some ({v} : Int))"
                return f"({v} : Int)" if v >= 0 else f"(-{-v} : Int)"
            if isinstance(v, float):
                return self.coerce(f"({v!r} : Float)", FLOAT, expected)
            if isinstance(v, str):
                return self.coerce(json.dumps(v, ensure_ascii=False), STR, expected)
            if v is None:
                return "none"
        if isinstance(e, ast.JoinedStr):
            return json.dumps(self.fold_fstring(e), ensure_ascii=False)
        if isinstance(e, ast.Name):
            if e.id in self.m.consts:
                return self.coerce(self.m.consts[e.id][0], self.m.consts[e.id][1], expected)
            if e.id not in self.env:
                raise Untranslatable(f"{self.name}: unknown name {e.id}")
            return self.coerce(ident(e.id), self.env[e.id], expected)
        if isinstance(e, ast.Tuple):
            ets = expected[1] if isinstance(expected, tuple) and expected[0] == "Tup" else [None] * len(e.elts)
            return "(" + ", ".join(self.expr(x, et) for x, et in zip(e.elts, ets)) + ")"
        if isinstance(e, ast.List):
            et = expected[1] if isinstance(expected, tuple) and expected[0] == "List" else (t[1] if t else None)
            inner = ", ".join(self.expr(x, et) for x in e.elts)
            if et is None:
                raise Untranslatable(f"{self.name}: element type of a list literal not inferred")
            return f"([{inner}] : List ({lean_type(et)}))"
        if isinstance(e, ast.Dict) and not e.keys:
            dt = expected if isinstance(expected, tuple) and expected[0] == "Dict" else t
            return f"([] : {lean_type(dt)})"
        if isinstance(e, ast.Dict):
            if not all(isinstance(k, ast.Constant) and isinstance(k.value, str) for k in e.keys):
                raise Untranslatable("dict literal with non-constant keys")
            self.m.dict_keys[self.name] = [k.value for k in e.keys]
            return "(" + ", ".join(self.expr(v) for v in e.values) + ")"
        if isinstance(e, ast.BinOp):
            lt, rt = self.etype(e.left), self.etype(e.right)
            if isinstance(e.op, ast.Mult) and lt is not None and lt[0] == "List":
                return f"(Py.listMul {self.expr(e.left, expected)} {self.expr(e.right, INT)})"
            if isinstance(e.op, ast.Add) and t is not None and (t == STR or t[0] == "List"):
                tt = expected if isinstance(expected, tuple) and expected[0] == "List" else t
                return f"({self.expr(e.left, tt)} ++ {self.expr(e.right, tt)})"
            want = t if t in (INT, FLOAT) else None
            a, b = self.expr(e.left, want), self.expr(e.right, want)
            if isinstance(e.op, ast.Add):
                s = f"({a} + {b})"
            elif isinstance(e.op, ast.Sub):
                s = f"({a} - {b})"
            elif isinstance(e.op, ast.Mult):
                s = f"({a} * {b})"
            elif isinstance(e.op, ast.Mod) and t == INT:
                s = f"(Int.fmod {a} {b})"
            elif isinstance(e.op, ast.FloorDiv) and t == INT:
                s = f"(Int.fdiv {a} {b})"
            elif isinstance(e.op, ast.Div):
                s = f"({self.expr(e.left, FLOAT)} / {self.expr(e.right, FLOAT)})"
            else:
                raise Untranslatable(f"{self.name}: operator {type(e.op).__name__} on {t!r}")
            return self.coerce(s, t, expected)
        if isinstance(e, ast.UnaryOp) and isinstance(e.op, ast.USub):
            return self.coerce(f"(-{self.expr(e.operand)})", t, expected)
        if isinstance(e, (ast.Compare, ast.BoolOp)) or (isinstance(e, ast.UnaryOp) and isinstance(e.op, ast.Not)):
            return f"(decide {self.cond(e)})"
        if isinstance(e, ast.IfExp):
            return f"(if {self.cond(e.test)} then {self.expr(e.body, expected or t)} else {self.expr(e.orelse, expected or t)})"
        if isinstance(e, ast.Subscript):
            vt = self.etype(e.value)
            if vt is None:
                raise Untranslatable(f"{self.name}: subscript of a value of unknown type")
            if vt[0] == "List":
                return self.coerce(f"(Py.idx {self.expr(e.value)} {self.expr(e.slice, INT)})", t, expected)
            if vt[0] == "Dict":
                return self.coerce(f"(Py.dictGet {self.expr(e.value)} {self.expr(e.slice, vt[1])})", t, expected)
            if vt[0] == "Tup":
                if isinstance(e.slice, ast.Constant):
                    k = e.slice.value
                elif isinstance(e.slice, ast.Name) and e.slice.id in self.m.consts:
                    k = self.m.consts[e.slice.id][2]
                else:
                    raise Untranslatable("tuple index not constant")
                n = len(vt[1])
                proj = ".2" * k + (".1" if k < n - 1 else "")
                return self.coerce(f"{self.expr(e.value)}{proj}", t, expected)
        if isinstance(e, (ast.ListComp, ast.GeneratorExp)):
            return self.listcomp(e, expected)
        if isinstance(e, ast.Call):
            return self.call(e, expected)
        raise Untranslatable(f"{self.name}: expression {type(e).__name__}")

    def fold_fstring(self, e):
        """an f-string whose fields are module-level string / int constants is a literal"""
        out = ""
        for v in e.values:
            if isinstance(v, ast.Constant) and isinstance(v.value, str):
                out += v.value
            elif isinstance(v, ast.FormattedValue) and isinstance(v.value, ast.Name) and v.value.id in self.m.consts \
                    and v.conversion == -1 and v.format_spec is None:
                out += str(self.m.consts[v.value.id][2])
            else:
                raise Untranslatable("f-string with a non-constant field")
        return out

    def listcomp(self, e, expected):
        saved = dict(self.env)
        for g in e.generators:
            self._bind_target(g.target, self._elem_type(g.iter))
        et = expected[1] if isinstance(expected, tuple) and expected[0] == "List" else None
        body = self.expr(e.elt, et)
        for k, g in enumerate(reversed(e.generators)):
            it = self.iterable(g.iter)
            if isinstance(g.target, ast.Name):
                v = ident(g.target.id) if g.target.id != "_" else "_"
                binder, lets = v, ""
            elif isinstance(g.target, ast.Tuple) and all(isinstance(x, ast.Name) for x in g.target.elts):
                binder = self.new("c")
                n = len(g.target.elts)
                lets = ""
                for i, x in enumerate(g.target.elts):
                    if x.id == "_":
                        continue
                    proj = ".2" * i + (".1" if i < n - 1 else "")
                    lets += f"let {ident(x.id)} := {binder}{proj}; "
            else:
                raise Untranslatable("comprehension target")
            for c in g.ifs:
                it = f"(List.filter (fun {binder} => {lets}decide {self.cond(c)}) {it})"
            body = (f"(List.map (fun {binder} => {lets}{body}) {it})" if k == 0
                    else f"(List.flatMap (fun {binder} => {lets}{body}) {it})")
        self.env = saved
        return body

    def iterable(self, it):
        if isinstance(it, ast.Call) and isinstance(it.func, ast.Name) and it.func.id == "range":
            if len(it.args) != 1:
                raise Untranslatable("range with more than one argument")
            return f"(Py.range {self.expr(it.args[0], INT)})"
        if isinstance(it, ast.Call) and isinstance(it.func, ast.Name) and it.func.id == "enumerate":
            return f"(Py.enumerate {self.expr(it.args[0])})"
        return self.expr(it)

    def call(self, e, expected):
        fn = e.func
        t = self.etype(e)
        if isinstance(fn, ast.Attribute) and fn.attr == "copy" and not e.args:
            return self.expr(fn.value, expected)          # values are immutable here: a copy is the value
        if isinstance(fn, ast.Name) and fn.id in ("set", "list") and len(e.args) == 1:
            # a set used for membership tests and `.add` only: the list of its elements (order of insertion)
            return self.expr(e.args[0], expected)
        if isinstance(fn, ast.Name) and fn.id == "__setidx":
            vt = self.etype(e.args[0])
            return f"(Py.setIdx {self.expr(e.args[0], vt)} {self.expr(e.args[1], INT)} {self.expr(e.args[2], vt[1])})"
        if isinstance(fn, ast.Name) and fn.id == "reversed" and len(e.args) == 1:
            return f"(List.reverse {self.expr(e.args[0], expected)})"
        if isinstance(fn, ast.Name):
            if fn.id == "len":
                return self.coerce(f"(Py.len {self.expr(e.args[0])})", INT, expected)
            if fn.id == "str":
                at = self.etype(e.args[0])
                if at != INT:
                    raise Untranslatable(f"str() of {at!r}")
                return f"(toString {self.expr(e.args[0])})"
            if fn.id == "int":
                at = self.etype(e.args[0])
                if at != INT:
                    raise Untranslatable(f"int() of {at!r}")
                return self.coerce(self.expr(e.args[0]), INT, expected)
            if fn.id == "round" and len(e.args) == 2:
                # Python's two-argument round returns a float; it is a PARAMETER of the translated unit
                # (`rnd : Float → Int → Float`): nothing about decimal rounding is assumed here
                self.uses_rnd = True
                return self.coerce(f"(rnd {self.expr(e.args[0], FLOAT)} {self.expr(e.args[1], INT)})", FLOAT, expected)
            if fn.id == "sum" and len(e.args) == 1:
                # sum(xs): starts from the int 0 and adds left to right
                return self.coerce(f"(List.foldl (fun acc x => acc + x) ({'0 : Float' if t == FLOAT else '0 : Int'}) "
                                   f"{self.expr(e.args[0], TList(t))})", t, expected)
            if fn.id == "round" and len(e.args) == 1:
                return self.coerce(f"(Py.round {self.expr(e.args[0], FLOAT)})", INT, expected)
            if fn.id in ("max", "min") and len(e.args) == 1:
                suffix = "F" if t == FLOAT else ""
                return self.coerce(f"(Py.{fn.id}List{suffix} {self.expr(e.args[0])})", t, expected)
            if fn.id in self.m.units:
                callee = self.m.units[fn.id]
                cdef = callee.f
                names = [a.arg for a in cdef.args.args if a.arg not in callee.drop]
                defaults = cdef.args.defaults
                dmap = {}
                allnames = [a.arg for a in cdef.args.args]
                for a, d in zip(allnames[len(allnames) - len(defaults):], defaults):
                    dmap[a] = d
                given = {}
                pos = [a for a in allnames]
                if "cls" in callee.cfg:
                    pseudo = self.m.pseudo_of.get(fn.id, [])
                    for a in pseudo:
                        given[a] = ast.Name(id=a, ctx=ast.Load())
                    pos = [a for a in allnames if a not in pseudo]
                for a, v in zip(pos, e.args):
                    given[a] = v
                for kw in e.keywords:
                    given[kw.arg] = kw.value
                args = []
                for a in names:
                    pt = callee.ptypes[a]
                    if a in given:
                        args.append(self.expr(given[a], pt))
                    elif a in dmap:
                        args.append(callee_default(dmap[a], pt))
                    else:
                        raise Untranslatable(f"{self.name}: call of {fn.id} without argument {a}")
                if callee.uses_rnd:
                    self.uses_rnd = True
                    args = ["rnd"] + args
                if callee.uses_fuel:
                    # the callee iterates a `while` loop at most `fuel` times; should it run out, its value here is
                    # `default` (the tie theorems state the fuel above which that cannot happen)
                    self.uses_fuel = True
                    args = ["fuel"] + args
                    if callee.has_while:
                        return self.coerce(f"(Py.orDefault ({fn.id} " + " ".join(args) + "))", t, expected)
                return self.coerce(f"({fn.id} " + " ".join(args) + ")", t, expected)
        raise Untranslatable(f"{self.name}: call {ast.dump(fn)[:80]}")

    def cond(self, e):
        """Lean Prop (decidable) for a Python condition"""
        if isinstance(e, ast.BoolOp):
            op = " ∧ " if isinstance(e.op, ast.And) else " ∨ "
            return "(" + op.join(self.cond(v) for v in e.values) + ")"
        if isinstance(e, ast.UnaryOp) and isinstance(e.op, ast.Not):
            return f"(¬ {self.cond(e.operand)})"
        if isinstance(e, ast.Compare):
            if len(e.ops) != 1:
                raise Untranslatable("chained comparison")
            op, l, r = e.ops[0], e.left, e.comparators[0]
            if isinstance(op, (ast.Eq, ast.NotEq)) and all(isinstance(x, ast.Call) and isinstance(x.func, ast.Name) and x.func.id == "set"
                                                           and len(x.args) == 1 for x in (l, r)):
                # set(a) == set(b): the same elements, whatever the order and the repetitions
                sset = f"(Py.sameSet {self.expr(l.args[0])} {self.expr(r.args[0])} = true)"
                return sset if isinstance(op, ast.Eq) else f"(¬ {sset})"
            lt, rt = self.etype(l), self.etype(r)
            if isinstance(op, (ast.In, ast.NotIn)):
                if rt is None:
                    raise Untranslatable("membership in a value of unknown type")
                if rt[0] == "Dict":
                    s = f"(Py.dictHas {self.expr(r)} {self.expr(l, rt[1])} = true)"
                elif rt[0] == "List":
                    s = f"({self.expr(l, rt[1])} ∈ {self.expr(r)})"
                else:
                    raise Untranslatable(f"membership in {rt!r}")
                return s if isinstance(op, ast.In) else f"(¬ {s})"
            want = join(lt, rt) if lt is not None and rt is not None else (lt or rt)
            a, b = self.expr(l, want), self.expr(r, want)
            if want == FLOAT and isinstance(op, (ast.Eq, ast.NotEq)):
                # IEEE comparison (NaN != NaN, -0.0 == 0.0), not structural equality
                return f"(({a} == {b}) = {'true' if isinstance(op, ast.Eq) else 'false'})"
            sym = {ast.Eq: "=", ast.NotEq: "≠", ast.Lt: "<", ast.LtE: "≤", ast.Gt: ">", ast.GtE: "≥"}.get(type(op))
            if sym is None:
                raise Untranslatable(f"comparison {type(op).__name__}")
            return f"({a} {sym} {b})"
        t = self.etype(e)
        if t == BOOL:
            return f"({self.expr(e)} = true)"
        if t == INT:
            return f"({self.expr(e)} ≠ 0)"
        if t is not None and t[0] == "Opt":
            return f"(Py.truthyOpt {self.expr(e)} = true)"
        if t is not None and t[0] == "List":
            return f"({self.expr(e)} ≠ [])"
        raise Untranslatable(f"{self.name}: truthiness of {t!r}")

    # ---- statements -----------------------------------------------------------------------------
    @staticmethod
    def assigned(stmts):
        out = []

        def add(n):
            if n != "_" and n not in out:
                out.append(n)

        def tgt(t):
            if isinstance(t, ast.Name):
                add(t.id)
            elif isinstance(t, ast.Tuple):
                for x in t.elts:
                    tgt(x)
            elif isinstance(t, ast.Subscript) and isinstance(t.value, ast.Name):
                add(t.value.id)

        for s in stmts:
            if isinstance(s, ast.Assign):
                for t in s.targets:
                    tgt(t)
                v = s.value
                if isinstance(v, ast.Call) and isinstance(v.func, ast.Attribute) and v.func.attr == "pop" \
                        and isinstance(v.func.value, ast.Name):
                    add(v.func.value.id)
            elif isinstance(s, ast.While):
                for n in FuncTranslator.assigned(s.body):
                    add(n)
            elif isinstance(s, ast.AugAssign):
                tgt(s.target)
            elif isinstance(s, ast.Expr) and isinstance(s.value, ast.Call) and isinstance(s.value.func, ast.Attribute) \
                    and s.value.func.attr in ("append", "add", "extend", "sort"):
                r = s.value.func.value
                if isinstance(r, ast.Name):
                    add(r.id)
                elif isinstance(r, ast.Subscript) and isinstance(r.value, ast.Name):
                    add(r.value.id)
            elif isinstance(s, ast.For):
                for n in FuncTranslator.assigned(s.body):
                    add(n)
            elif isinstance(s, ast.If):
                for n in FuncTranslator.assigned(s.body) + FuncTranslator.assigned(s.orelse):
                    add(n)
        return out

    @staticmethod
    def loop_targets(stmts):
        out = set()
        for s in stmts:
            for n in ast.walk(s):
                if isinstance(n, ast.For):
                    for x in ast.walk(n.target):
                        if isinstance(x, ast.Name):
                            out.add(x.id)
        return out

    @staticmethod
    def reads(node, name):
        for n in ast.walk(node):
            if isinstance(n, ast.Name) and n.id == name and isinstance(n.ctx, ast.Load):
                return True
        return False

    def safe_local(self, name, stmts, assigned_in=None):
        """True when `name` is never read in `stmts` before it has definitely been assigned there"""
        ok = set() if assigned_in is None else assigned_in

        def block(ss, have):
            for s in ss:
                if isinstance(s, ast.Assign):
                    if name not in have and self.reads(s.value, name):
                        return None
                    for t in s.targets:
                        if isinstance(t, ast.Subscript):
                            if name not in have and self.reads(t, name):
                                return None
                        elif any(isinstance(x, ast.Name) and x.id == name for x in ast.walk(t)):
                            have = have | {name}
                elif isinstance(s, ast.If):
                    if name not in have and self.reads(s.test, name):
                        return None
                    a = block(s.body, have)
                    b = block(s.orelse, have)
                    if a is None or b is None:
                        return None
                    have = a & b
                elif isinstance(s, ast.For):
                    if name not in have and self.reads(s.iter, name):
                        return None
                    if block(s.body, set(have)) is None:
                        return None
                else:
                    if name not in have and self.reads(s, name):
                        return None
            return have

        return block(stmts, set(ok)) is not None

    def new(self, base):
        self.fresh += 1
        return f"{base}{self.fresh}"

    def pack(self, names):
        if not names:
            return "()"
        if len(names) == 1:
            return ident(names[0])
        return "(" + ", ".join(ident(n) for n in names) + ")"

    def pack_type(self, names):
        if not names:
            return "Unit"
        return " × ".join(f"({lean_type(self.env.get(n))})" for n in names)

    def unpack(self, names, st, ind):
        """lines re-binding `names` from the packed state `st`"""
        if not names:
            return []
        if len(names) == 1:
            return [f"{ind}let {ident(names[0])} : {lean_type(self.env[names[0]])} := {st}"]
        out = []
        for k, n in enumerate(names):
            proj = ".2" * k + (".1" if k < len(names) - 1 else "")
            out.append(f"{ind}let {ident(n)} : {lean_type(self.env[n])} := {st}{proj}")
        return out

    def terminates(self, stmts):
        """does the block always end in return / raise?"""
        if not stmts:
            return False
        s = stmts[-1]
        if isinstance(s, (ast.Return, ast.Raise, ast.Continue)):
            return True
        if isinstance(s, ast.If):
            return self.terminates(s.body) and self.terminates(s.orelse)
        return False

    def block(self, stmts, k, defined, ind, after_reads):
        """Lean lines for `stmts` followed by the continuation lines `k(defined)`; `defined` = names bound so
        far; `after_reads(name)` says whether the code after this block reads `name`"""
        if not stmts:
            return k(defined)
        s, rest = stmts[0], stmts[1:]

        def later_reads(name):
            return any(self.reads(x, name) for x in rest) or after_reads(name)

        def cont(d):
            return self.block(rest, k, d, ind, after_reads)

        if isinstance(s, ast.Expr) and isinstance(s.value, ast.Constant):
            return cont(defined)                      # docstring
        if isinstance(s, ast.Pass):
            return cont(defined)
        if isinstance(s, ast.Continue):
            if not self.loop_k:
                raise Untranslatable("continue outside a translated loop")
            return self.loop_k[-1](defined)
        if isinstance(s, ast.While):
            return self.while_loop(s, rest, k, defined, ind, after_reads)
        if isinstance(s, ast.Assign) and isinstance(s.targets[0], ast.Name) and isinstance(s.value, ast.Call) \
                and isinstance(s.value.func, ast.Attribute) and s.value.func.attr == "pop" and not s.value.args \
                and isinstance(s.value.func.value, ast.Name):
            src = s.value.func.value.id
            st_ = self.env.get(src)
            x = s.targets[0].id
            return [f"{ind}let {ident(x)} : {lean_type(st_[1])} := Py.last {ident(src)}",
                    f"{ind}let {ident(src)} : {lean_type(st_)} := List.dropLast {ident(src)}"] + cont(defined | {x})
        if isinstance(s, ast.Assign):
            tgt = s.targets[0]
            if isinstance(tgt, ast.Name):
                t = self.env.get(tgt.id)
                return [f"{ind}let {ident(tgt.id)} : {lean_type(t)} := {self.expr(s.value, t)}"] + cont(defined | {tgt.id})
            if isinstance(tgt, ast.Subscript) and isinstance(tgt.value, ast.Name):
                d = tgt.value.id
                dt = self.env.get(d)
                if dt is None or dt[0] != "Dict":
                    raise Untranslatable(f"{self.name}: item assignment on {dt!r}")
                return [f"{ind}let {ident(d)} : {lean_type(dt)} := Py.dictSet {ident(d)} {self.expr(tgt.slice, dt[1])} "
                        f"{self.expr(s.value, dt[2])}"] + cont(defined)
            if isinstance(tgt, ast.Tuple) and all(isinstance(x, ast.Name) for x in tgt.elts):
                tmp = self.new("tup")
                vt = self.etype(s.value)
                lines = [f"{ind}let {tmp} : {lean_type(vt)} := {self.expr(s.value, vt)}"]
                n = len(tgt.elts)
                d2 = set(defined)
                for i, x in enumerate(tgt.elts):
                    if x.id == "_":
                        continue
                    proj = ".2" * i + (".1" if i < n - 1 else "")
                    lines.append(f"{ind}let {ident(x.id)} : {lean_type(self.env[x.id])} := {tmp}{proj}")
                    d2.add(x.id)
                return lines + cont(d2)
            raise Untranslatable(f"{self.name}: assignment target")
        if isinstance(s, ast.AugAssign) and isinstance(s.target, ast.Name):
            n = s.target.id
            t = self.env.get(n)
            e = ast.BinOp(left=ast.Name(id=n, ctx=ast.Load()), op=s.op, right=s.value)
            return [f"{ind}let {ident(n)} : {lean_type(t)} := {self.expr(e, t)}"] + cont(defined)
        if isinstance(s, ast.Expr) and isinstance(s.value, ast.Call):
            c = s.value
            if isinstance(c.func, ast.Attribute):
                recv = c.func.value
                if isinstance(recv, ast.Name) and recv.id in self.drop:
                    return cont(defined)              # IO on a dropped receiver (my_file.write)
                if c.func.attr in ("append", "add") and isinstance(recv, ast.Name):
                    n = recv.id
                    t = self.env.get(n)
                    return [f"{ind}let {ident(n)} : {lean_type(t)} := {ident(n)} ++ [{self.expr(c.args[0], t[1])}]"] + cont(defined)
                if c.func.attr == "extend" and isinstance(recv, ast.Name):
                    n = recv.id
                    t = self.env.get(n)
                    return [f"{ind}let {ident(n)} : {lean_type(t)} := {ident(n)} ++ {self.expr(c.args[0], t)}"] + cont(defined)
                if c.func.attr == "sort" and isinstance(recv, ast.Name) and not c.args and not c.keywords \
                        and self.env.get(recv.id) == TList(INT):
                    n = recv.id
                    return [f"{ind}let {ident(n)} : List (Int) := Py.sortInts {ident(n)}"] + cont(defined)
                if c.func.attr == "append" and isinstance(recv, ast.Subscript) and isinstance(recv.value, ast.Name):
                    d = recv.value.id
                    dt = self.env.get(d)
                    key = self.expr(recv.slice, dt[1])
                    return [f"{ind}let {ident(d)} : {lean_type(dt)} := Py.dictSet {ident(d)} {key} "
                            f"(Py.dictGet {ident(d)} {key} ++ [{self.expr(c.args[0], dt[2][1])}])"] + cont(defined)
            if isinstance(c.func, ast.Name) and c.func.id in self.drop_funcs:
                return cont(defined)
            raise Untranslatable(f"{self.name}: statement call {ast.dump(c.func)[:80]}")
        if isinstance(s, ast.Return):
            if rest:
                raise Untranslatable("code after return")
            return self.ret(self.expr(s.value, self.m.return_type(self.name)) if s.value is not None else "()", ind)
        if isinstance(s, ast.Raise):
            exc = s.exc
            if not (isinstance(exc, ast.Call) and isinstance(exc.func, ast.Name) and exc.func.id == "ValueError"
                    and len(exc.args) == 1 and isinstance(exc.args[0], (ast.Constant, ast.JoinedStr))):
                raise Untranslatable("raise of something other than ValueError(<literal>)")
            msg = exc.args[0].value if isinstance(exc.args[0], ast.Constant) else self.fold_fstring(exc.args[0])
            return [f"{ind}(Except.error {json.dumps(msg, ensure_ascii=False)})"]
        if isinstance(s, ast.If):
            tb, eb = self.terminates(s.body), self.terminates(s.orelse)
            c = self.cond(s.test)
            if tb or eb:
                # one branch leaves the function: the rest of the block continues in the other one
                lines = [f"{ind}(if {c} then"]
                lines += self.block(s.body + ([] if tb else rest), k if not tb else (lambda d: []), defined, ind + "  ", after_reads)
                lines += [f"{ind} else"]
                lines += self.block(s.orelse + ([] if eb else rest), k if not eb else (lambda d: []), defined, ind + "  ", after_reads)
                lines += [f"{ind})"]
                return lines
            mod = [n for n in self.assigned([s]) if n not in self.loop_targets([s])]
            # variables first bound inside the branches and never read afterwards stay branch-local
            mod = [n for n in mod if n in defined or later_reads(n)]
            st = self.new("st")
            lines = []
            for n in mod:
                if n not in defined:
                    lines.append(f"{ind}let {ident(n)} : {lean_type(self.env[n])} := default")
            d0 = defined | set(mod)
            lines += [f"{ind}let {st} : {self.pack_type(mod)} := (if {c} then ("]
            lines += self.block(s.body, lambda d: [f"{ind}    {self.pack(mod)}"], d0, ind + "    ", lambda n: n in mod or later_reads(n))
            lines += [f"{ind}  ) else ("]
            lines += self.block(s.orelse, lambda d: [f"{ind}    {self.pack(mod)}"], d0, ind + "    ", lambda n: n in mod or later_reads(n))
            lines += [f"{ind}  ))"]
            lines += self.unpack(mod, st, ind)
            return lines + cont(d0)
        if isinstance(s, ast.For):
            if s.orelse:
                raise Untranslatable("for-else")
            if any(isinstance(n, (ast.Return, ast.Break, ast.Continue)) for b in s.body for n in ast.walk(b)):
                raise Untranslatable(f"{self.name}: return/break/continue inside a loop")
            raising = any(isinstance(n, ast.Raise) for b in s.body for n in ast.walk(b))
            if raising and any(isinstance(n, (ast.For, ast.While)) for b in s.body for n in ast.walk(b)):
                raise Untranslatable(f"{self.name}: raise inside nested loops")
            tnames = [x.id for x in ast.walk(s.target) if isinstance(x, ast.Name)]
            for tn in tnames:
                if tn != "_" and later_reads(tn):
                    raise Untranslatable(f"{self.name}: loop variable {tn} is read after its loop")
            inner_targets = self.loop_targets(s.body)
            cand = [n for n in self.assigned(s.body) if n not in tnames and n not in inner_targets]
            carried = [n for n in cand if n in defined or later_reads(n) or not self.safe_local(n, s.body)]
            lines = []
            for n in carried:
                if n not in defined:
                    lines.append(f"{ind}let {ident(n)} : {lean_type(self.env[n])} := default")
            d0 = defined | set(carried)
            st, it = self.new("st"), self.new("it")
            et = self._elem_type(s.iter)
            if raising:
                # a loop that may raise: the fold runs in `Except String`; once an iteration has raised, the rest are skipped
                pt = self.pack_type(carried)
                ex = self.new("ex")
                lines += [f"{ind}match (List.foldl (fun ({ex} : Except String ({pt})) ({it} : {lean_type(et)}) => (match {ex} with",
                          f"{ind}    | Except.error e => Except.error e",
                          f"{ind}    | Except.ok {st} => ("]
                body_ind = ind + "      "
                lines += self.unpack(carried, st, body_ind)
                if isinstance(s.target, ast.Name):
                    if s.target.id != "_":
                        lines.append(f"{body_ind}let {ident(s.target.id)} : {lean_type(et)} := {it}")
                else:
                    n_ = len(s.target.elts)
                    for i, x in enumerate(s.target.elts):
                        if x.id == "_":
                            continue
                        proj = ".2" * i + (".1" if i < n_ - 1 else "")
                        lines.append(f"{body_ind}let {ident(x.id)} : {lean_type(et[1][i])} := {it}{proj}")
                lines += self.block(s.body, lambda d: [f"{body_ind}(Except.ok {self.pack(carried)})"], d0 | set(tnames), body_ind,
                                    lambda n: n in carried)
                lines += [f"{ind}    ))) (Except.ok {self.pack(carried)}) {self.iterable(s.iter)} : Except String ({pt})) with",
                          f"{ind}| Except.error e => Except.error e",
                          f"{ind}| Except.ok {st} => ("]
                lines += self.unpack(carried, st, ind + "  ")
                return lines + self.block(rest, k, d0, ind + "  ", after_reads) + [f"{ind}  )"]
            lines += [f"{ind}let {st} : {self.pack_type(carried)} := List.foldl (fun ({st} : {self.pack_type(carried)}) ({it} : {lean_type(et)}) => ("]
            body_ind = ind + "    "
            lines += self.unpack(carried, st, body_ind)
            if isinstance(s.target, ast.Name):
                if s.target.id != "_":
                    lines.append(f"{body_ind}let {ident(s.target.id)} : {lean_type(et)} := {it}")
            else:
                n = len(s.target.elts)
                for i, x in enumerate(s.target.elts):
                    if not isinstance(x, ast.Name):
                        raise Untranslatable("nested tuple loop target")
                    if x.id == "_":
                        continue
                    proj = ".2" * i + (".1" if i < n - 1 else "")
                    lines.append(f"{body_ind}let {ident(x.id)} : {lean_type(et[1][i])} := {it}{proj}")
            lines += self.block(s.body, lambda d: [f"{body_ind}{self.pack(carried)}"], d0 | set(tnames), body_ind,
                                lambda n: n in carried)
            lines += [f"{ind}  )) {self.pack(carried)} {self.iterable(s.iter)}"]
            lines += self.unpack(carried, st, ind)
            return lines + cont(d0)
        raise Untranslatable(f"{self.name}: statement {type(s).__name__}")

    def while_loop(self, s, rest, k, defined, ind, after_reads):
        """`while c: body` — iterated at most `fuel` times (`Py.whileFuel`); running out of fuel makes the whole
        function return `none`.  `continue` ends the current iteration.  Supported only at the top level of a
        function that neither raises nor returns from inside the loop."""
        if s.orelse or any(isinstance(n, (ast.Return, ast.Raise, ast.Break)) for b in s.body for n in ast.walk(b)):
            raise Untranslatable(f"{self.name}: return/raise/break inside a while loop")
        if self.raises:
            raise Untranslatable(f"{self.name}: while loop in a function that raises")

        def later_reads(name):
            return any(self.reads(x, name) for x in rest) or after_reads(name)
        cand = self.assigned(s.body)
        carried = [n for n in cand if n in defined or later_reads(n) or not self.safe_local(n, s.body)]
        lines = []
        for n in carried:
            if n not in defined:
                lines.append(f"{ind}let {ident(n)} : {lean_type(self.env[n])} := default")
        d0 = defined | set(carried)
        st = self.new("st")
        pt = self.pack_type(carried)
        body_ind = ind + "      "
        cond_lines = self.unpack(carried, st, ind + "      ")
        lines += [f"{ind}match Py.whileFuel fuel (fun ({st} : {pt}) => ("]
        lines += cond_lines + [f"{ind}      decide {self.cond(s.test)}"]
        lines += [f"{ind}    )) (fun ({st} : {pt}) => ("]
        lines += self.unpack(carried, st, body_ind)
        end = (lambda d: [f"{body_ind}{self.pack(carried)}"])
        self.loop_k.append(end)
        lines += self.block(s.body, end, d0, body_ind, lambda n: n in carried)
        self.loop_k.pop()
        lines += [f"{ind}    )) {self.pack(carried)} with"]
        lines += [f"{ind}| none => none"]
        lines += [f"{ind}| some {st} => ("]
        lines += self.unpack(carried, st, ind + "  ")
        return lines + self.block(rest, k, d0, ind + "  ", after_reads) + [f"{ind}  )"]

    def ret(self, val, ind):
        if self.has_while:
            return [f"{ind}(some {val})"]
        if self.raises:
            return [f"{ind}(Except.ok {val})"]
        return [f"{ind}{val}"]

    def translate_assign_expr(self):
        """`mode: assign_expr` — the expression assigned to `var` at the top level of the function, as a
        function of the names listed in `params` (locals bound from argparse etc. become parameters)"""
        var = self.cfg["var"]
        hits = [s for s in self.f.body if isinstance(s, ast.Assign) and len(s.targets) == 1
                and isinstance(s.targets[0], ast.Name) and s.targets[0].id == var]
        if len(hits) != 1:
            raise Untranslatable(f"{self.name}: expected exactly one top-level assignment to {var}")
        self.env = dict(self.ptypes)
        rt = self.cfg["returns"]
        body = self.expr(hits[0].value, rt)
        params = " ".join(f"({ident(p)} : {lean_type(t)})" for p, t in self.ptypes.items())
        return f"def {self.cfg['as']} {params} : {lean_type(rt)} :=\n  {body}\n"

    def translate(self):
        if self.cfg.get("mode") == "assign_expr":
            return self.translate_assign_expr()
        self.infer()
        rt = self.m.return_type(self.name)

        def k(defined):
            if self.result_var:
                if self.result_var not in defined:
                    raise Untranslatable(f"{self.name}: result variable {self.result_var} is not assigned")
                return self.ret(ident(self.result_var), "  ")
            if rt == UNIT:
                return self.ret("()", "  ")
            raise Untranslatable(f"{self.name}: falls off the end without a value")

        body = list(self.f.body)
        if self.result_var:
            # the value of `result_var` after its (single, top-level) assignment; later statements must be IO only
            idx = max(i for i, s in enumerate(body) if self.result_var in self.assigned([s]))
            for s in body[idx + 1:]:
                if isinstance(s, ast.Expr) and isinstance(s.value, ast.Call) and isinstance(s.value.func, ast.Name) \
                        and s.value.func.id in self.drop_funcs:
                    continue
                if not (isinstance(s, ast.Expr) and isinstance(s.value, ast.Call) and isinstance(s.value.func, ast.Attribute)
                        and isinstance(s.value.func.value, ast.Name) and s.value.func.value.id in self.drop):
                    raise Untranslatable(f"{self.name}: statement after the result that is not a dropped IO call")
            body = body[:idx + 1]
        lines = self.block(body, k, set(p for p in self.params if p not in self.drop), "  ",
                           lambda n: n == self.result_var)
        params = " ".join(f"({ident(p)} : {lean_type(self.ptypes[p])})" for p in self.params if p not in self.drop)
        if self.uses_rnd:
            params = "(rnd : Float → Int → Float) " + params
        if self.uses_fuel:
            params = "(fuel : Nat) " + params
        tvars = sorted({x[1] for x in _walk_types(list(self.ptypes.values()) + [rt]) if x[0] == "Var"})
        tv = "".join(f" {{{v} : Type}} [Inhabited {v}]" for v in tvars)
        rts = lean_type(rt)
        if self.has_while:
            rts = f"Option ({rts})"
        if self.raises:
            rts = f"Except String ({rts})"
        return f"def {self.name}{tv} {params} : {rts} :=\n" + "\n".join(lines) + "\n"


def _walk_types(ts):
    for t in ts:
        if isinstance(t, tuple):
            yield t
            for x in t[1:]:
                if isinstance(x, tuple) and x and isinstance(x[0], str) and x[0] in ("List", "Tup", "Opt", "Dict", "Var"):
                    yield from _walk_types([x])
                elif isinstance(x, tuple):
                    yield from _walk_types(list(x))


def callee_default(d, pt):
    if isinstance(d, ast.Constant):
        if d.value is None:
            return "none"
        if isinstance(d.value, bool):
            return "true" if d.value else "false"
        if isinstance(d.value, int):
            return f"({d.value} : {'Float' if pt == FLOAT else 'Int'})"
    raise Untranslatable("default value")


FIELDS = {"reach_probability": "reach", "expected_rewards": "er", "expected_rewards_min_reach": "ermr",
          "expected_reach_min_rewards": "pmr"}
PSEUDO = ["next_states", "reward", "reach", "er", "ermr", "pmr"]


class SelfRewriter(ast.NodeTransformer):
    """methods of the node classes as functions of the data they read: `self.next_states` / `self.reward` become
    the parameters `next_states` / `reward`; `state_list[k].<field>` becomes `<vector>[k]` with one vector per
    field (reach, er, ermr, pmr): the struct-of-arrays view the hand model uses; `self.m(state_list, a…)`
    becomes a call of the unit `<Class>_m`"""

    def __init__(self, cls, fdef=None):
        self.cls = cls
        self.alias = {}
        if fdef is not None:
            # `x = state_list[k]` ... `x.<field>`: x is an alias of the k-th state object, provided nothing k is
            # made of is re-assigned by an assignment statement of the function (loop variables are fine)
            assigned = set()
            for n in ast.walk(fdef):
                if isinstance(n, (ast.Assign, ast.AugAssign)):
                    for t in (n.targets if isinstance(n, ast.Assign) else [n.target]):
                        for x in ast.walk(t):
                            if isinstance(x, ast.Name):
                                assigned.add(x.id)
            for n in ast.walk(fdef):
                if isinstance(n, ast.Assign) and len(n.targets) == 1 and isinstance(n.targets[0], ast.Name) \
                        and isinstance(n.value, ast.Subscript) and isinstance(n.value.value, ast.Name) \
                        and n.value.value.id == "state_list":
                    free = {x.id for x in ast.walk(n.value.slice) if isinstance(x, ast.Name)}
                    if not (free & assigned) and n.targets[0].id not in self.alias:
                        self.alias[n.targets[0].id] = n.value.slice
                    else:
                        self.alias[n.targets[0].id] = None

    def visit_Assign(self, node):
        if len(node.targets) == 1 and isinstance(node.targets[0], ast.Name) and self.alias.get(node.targets[0].id) is not None:
            return ast.copy_location(ast.Pass(), node)
        self.generic_visit(node)
        return node

    def visit_Attribute(self, node):
        self.generic_visit(node)
        if isinstance(node.value, ast.Name) and self.alias.get(node.value.id) is not None and node.attr in FIELDS:
            import copy as _copy
            return ast.copy_location(ast.Subscript(value=ast.Name(id=FIELDS[node.attr], ctx=ast.Load()),
                                                   slice=_copy.deepcopy(self.alias[node.value.id]), ctx=node.ctx), node)
        if isinstance(node.value, ast.Name) and node.value.id == "self":
            return ast.copy_location(ast.Name(id=node.attr, ctx=node.ctx), node)
        if isinstance(node.value, ast.Subscript) and isinstance(node.value.value, ast.Name) \
                and node.value.value.id == "state_list" and node.attr in FIELDS:
            return ast.copy_location(ast.Subscript(value=ast.Name(id=FIELDS[node.attr], ctx=ast.Load()),
                                                   slice=node.value.slice, ctx=node.ctx), node)
        return node

    def visit_Call(self, node):
        if isinstance(node.func, ast.Attribute) and isinstance(node.func.value, ast.Name) and node.func.value.id == "self":
            args = [self.visit(a) for a in node.args if not (isinstance(a, ast.Name) and a.id == "state_list")]
            return ast.copy_location(ast.Call(func=ast.Name(id=f"{self.cls}_{node.func.attr}", ctx=ast.Load()),
                                              args=args, keywords=[]), node)
        self.generic_visit(node)
        return node


OBJ_FIELDS = {"player": "owners", "next_states": "rows"}


class ObjListRewriter(ast.NodeTransformer):
    """methods of `Solver` that walk `self.state_list`: the list of node objects becomes one vector per attribute
    (`owners` for `.player`, `rows` for `.next_states`); a loop over the objects becomes a loop over their indices;
    `obj.attr` becomes `vector[index]`, `obj.attr = e` becomes `vector = __setidx(vector, index, e)`"""

    def __init__(self):
        self.alias = {}

    def _is_state_list(self, n):
        return isinstance(n, ast.Attribute) and isinstance(n.value, ast.Name) and n.value.id == "self" and n.attr == "state_list"

    def visit_For(self, node):
        it = node.iter
        if self._is_state_list(it) and isinstance(node.target, ast.Name):
            idx = node.target.id + "__i"
            self.alias[node.target.id] = idx
            node.target = ast.Name(id=idx, ctx=ast.Store())
            node.iter = ast.Call(func=ast.Name(id="range", ctx=ast.Load()),
                                 args=[ast.Call(func=ast.Name(id="len", ctx=ast.Load()), args=[ast.Name(id="owners", ctx=ast.Load())], keywords=[])], keywords=[])
        elif isinstance(it, ast.Call) and isinstance(it.func, ast.Name) and it.func.id == "enumerate" and self._is_state_list(it.args[0]) \
                and isinstance(node.target, ast.Tuple) and len(node.target.elts) == 2 and all(isinstance(x, ast.Name) for x in node.target.elts):
            idx, obj = node.target.elts[0].id, node.target.elts[1].id
            if idx == "_":
                idx = obj + "__i"
            self.alias[obj] = idx
            node.target = ast.Name(id=idx, ctx=ast.Store())
            node.iter = ast.Call(func=ast.Name(id="range", ctx=ast.Load()),
                                 args=[ast.Call(func=ast.Name(id="len", ctx=ast.Load()), args=[ast.Name(id="owners", ctx=ast.Load())], keywords=[])], keywords=[])
        self.generic_visit(node)
        return node

    def _index_of(self, obj):
        """index expression of an object expression (`state` alias or `self.state_list[e]`), or None"""
        if isinstance(obj, ast.Name) and obj.id in self.alias:
            return ast.Name(id=self.alias[obj.id], ctx=ast.Load())
        if isinstance(obj, ast.Subscript) and self._is_state_list(obj.value):
            return self.visit(obj.slice)
        return None

    def visit_Assign(self, node):
        if len(node.targets) == 1 and isinstance(node.targets[0], ast.Attribute) and node.targets[0].attr in OBJ_FIELDS:
            i = self._index_of(node.targets[0].value)
            if i is not None:
                vec = OBJ_FIELDS[node.targets[0].attr]
                val = self.visit(node.value)
                return ast.copy_location(ast.Assign(
                    targets=[ast.Name(id=vec, ctx=ast.Store())],
                    value=ast.Call(func=ast.Name(id="__setidx", ctx=ast.Load()), args=[ast.Name(id=vec, ctx=ast.Load()), i, val], keywords=[])), node)
        self.generic_visit(node)
        return node

    def visit_Attribute(self, node):
        if node.attr in OBJ_FIELDS and isinstance(node.ctx, ast.Load):
            i = self._index_of(node.value)
            if i is not None:
                return ast.copy_location(ast.Subscript(value=ast.Name(id=OBJ_FIELDS[node.attr], ctx=ast.Load()), slice=i, ctx=ast.Load()), node)
        self.generic_visit(node)
        return node


def solver_method_as_function(tree, cls, meth, lean_name):
    import copy
    for node in tree.body:
        if isinstance(node, ast.ClassDef) and node.name == cls:
            for sub in node.body:
                if isinstance(sub, ast.FunctionDef) and sub.name == meth:
                    f = ObjListRewriter().visit(copy.deepcopy(sub))
                    used = {n.id for n in ast.walk(f) if isinstance(n, ast.Name)}
                    f.args.args = [ast.arg(arg=a) for a in ("owners", "rows") if a in used]
                    f.args.defaults = []
                    f.name = lean_name
                    ast.fix_missing_locations(f)
                    return f
    return None


def method_as_function(tree, cls, meth, lean_name, pseudo_of, self_fields=None):
    import copy
    for node in tree.body:
        if isinstance(node, ast.ClassDef) and node.name == cls:
            for sub in node.body:
                if isinstance(sub, ast.FunctionDef) and sub.name == meth:
                    f = SelfRewriter(cls, sub).visit(copy.deepcopy(sub))
                    ast.fix_missing_locations(f)
                    used = {n.id for n in ast.walk(f) if isinstance(n, ast.Name)}
                    for n in ast.walk(f):
                        if isinstance(n, ast.Call) and isinstance(n.func, ast.Name) and n.func.id in pseudo_of:
                            used |= set(pseudo_of[n.func.id])
                    pseudo = [p for p in (self_fields or PSEUDO) if p in used]
                    explicit = [a.arg for a in f.args.args if a.arg not in ("self", "state_list")]
                    f.args.args = [ast.arg(arg=a) for a in pseudo + explicit]
                    f.args.defaults = []
                    f.name = lean_name
                    pseudo_of[lean_name] = pseudo
                    return f
    return None


class ModuleTranslator:
    def __init__(self, path, units, namespace, imports_from=None):
        self.path = path
        self.src = open(path, encoding="utf-8").read()
        self.tree = ast.parse(self.src)
        self.namespace = namespace
        self.cfgs = units
        self.units = {}
        self.consts = {}           # module-level constants: name -> (lean, type, python value)
        self.dict_keys = {}
        self.rtypes = {}
        for node in self.tree.body:
            if isinstance(node, ast.Assign) and len(node.targets) == 1 and isinstance(node.targets[0], ast.Name) \
                    and isinstance(node.value, ast.Constant):
                v = node.value.value
                if isinstance(v, bool) or not isinstance(v, (int, str)):
                    continue
                if isinstance(v, int):
                    self.consts[node.targets[0].id] = (f"({v} : Int)", INT, v)
                else:
                    self.consts[node.targets[0].id] = (json.dumps(v), STR, v)
        fdefs = {n.name: n for n in self.tree.body if isinstance(n, ast.FunctionDef)}
        if imports_from is not None:
            for n, u in imports_from.units.items():
                self.units[n] = u
                self.rtypes[n] = imports_from.rtypes[n]
        self.pseudo_of = {}
        for name, cfg in units.items():
            if cfg.get("objlist"):
                f = solver_method_as_function(self.tree, cfg["cls"], cfg["of"], name)
                if f is not None:
                    fdefs[name] = f
            elif "cls" in cfg:
                f = method_as_function(self.tree, cfg["cls"], cfg["of"], name, self.pseudo_of, cfg.get("self_fields"))
                if f is not None:
                    fdefs[name] = f
        for name, cfg in units.items():
            src_name = cfg.get("of", name) if "cls" not in cfg else name
            if src_name not in fdefs:
                continue
            self.units[name] = FuncTranslator(self, fdefs[src_name], cfg)
            self.units[name].name = name if cfg.get("mode") != "assign_expr" else src_name
            self.rtypes[name] = cfg["returns"]
        self.own = [n for n in units if n in self.units and (imports_from is None or n not in imports_from.units)]
        self.missing = [n for n in units if n not in self.units]

    def return_type(self, name):
        return self.rtypes[name]

    def translate(self):
        """{unit: lean text} and {unit: reason} for the units that could not be translated"""
        ok, bad = {}, {}
        for name in self.missing:
            bad[name] = "function not found in the source file"
        for name in self.own:
            try:
                ok[name] = self.units[name].translate()
            except Untranslatable as e:
                bad[name] = str(e)
            except Exception as e:  # noqa  (a translator bug must not take the check down)
                bad[name] = f"translator error: {type(e).__name__}: {e}"
        return ok, bad


# ---------------------------------------------------------------------------------------------------
# what is translated, with the parameter types (trusted annotations)
BOARD = TList(TList(INT))
GEN_COMMON = {"length": INT, "width": INT, "moves": BOARD, "rewards": BOARD, "loose_tiles": BOARD}
ACT_ROWS = TList(TList(TTup(STR, INT)))
PROB_ROWS = TList(TList(TTup(FLOAT, INT)))
# a game's transition list mixes action rows and probability rows: the first slot is a tagged value
GAME = TTup(TList(INT), TList(STR), TList(TList(TTup(SLOT, INT))), TList(INT))

GEN_UNITS = {
    "player_two_transitions": {"params": {**GEN_COMMON, "offset_r": INT, "offset_y": INT}, "returns": ACT_ROWS},
    "player_one_down_transitions": {"params": {**GEN_COMMON, "offset": INT, "winning_state": TOpt(INT)}, "returns": ACT_ROWS},
    "player_one_left_right_transitions": {"params": {**GEN_COMMON, "offset_l": INT, "offset_r": INT}, "returns": ACT_ROWS},
    "prob_tile_break_transitions": {"params": {**GEN_COMMON, "prob_tile_break": FLOAT, "offset": INT, "loosing_state": INT}, "returns": PROB_ROWS},
    "prob_robot_down_break_transitions": {"params": {**GEN_COMMON, "prob_robot_break": FLOAT, "offset": INT, "winning_state": INT}, "returns": PROB_ROWS},
    "prob_robot_left_break_transitions": {"params": {**GEN_COMMON, "prob_robot_break": FLOAT, "offset": INT}, "returns": PROB_ROWS},
    "prob_robot_right_break_transitions": {"params": {**GEN_COMMON, "prob_robot_break": FLOAT, "offset": INT}, "returns": PROB_ROWS},
    "player_one_down_left_right_transitions": {"params": {**GEN_COMMON, "offset_d": INT, "offset_l": INT, "offset_r": INT}, "returns": ACT_ROWS},
    "prob_light_break_transitions": {"params": {**GEN_COMMON, "prob_light_break": FLOAT, "offset_ok": INT, "offset_break": INT}, "returns": PROB_ROWS},
    "check_input": {"params": {"seed": INT, "width": INT, "length": INT, "prob_robot_break": FLOAT, "prob_light_break": FLOAT,
                               "prob_loose_tile": FLOAT, "prob_tile_break": FLOAT, "max_reward": INT}, "returns": UNIT},
    "prob_to_str": {"params": {"prob": FLOAT}, "returns": STR},
}


WR = {"drop_calls_on": ["my_file"], "result_var": "game", "returns": GAME}
GEN_UNITS.update({
    "write_robot_A": {**WR, "params": {**GEN_COMMON, "prob_tile_break": FLOAT}},
    "write_robot_B": {**WR, "params": {**GEN_COMMON, "prob_tile_break": FLOAT, "prob_robot_break": FLOAT}},
    "write_robot_C": {**WR, "params": {**GEN_COMMON, "prob_tile_break": FLOAT, "prob_robot_break": FLOAT, "prob_light_break": FLOAT}},
    "main_file_name": {"of": "main", "mode": "assign_expr", "var": "file_name", "as": "main_file_name", "returns": STR,
                       "params": {"seed": INT, "width": INT, "length": INT, "max_reward": INT, "prob_robot_break": FLOAT,
                                  "prob_light_break": FLOAT, "prob_tile_break": FLOAT, "prob_loose_tile": FLOAT, "force_down": BOOL}},
})

SG_UNITS = {
    "get_max_from_matrix": {"params": {"matrix": BOARD}, "returns": INT},
    "create_sg_from_board": {"params": {"moves": BOARD, "rewards": BOARD, "loose_tiles": BOARD, "prob_robot_break": FLOAT,
                                        "prob_light_break": FLOAT, "prob_tile_break": FLOAT},
                             "result_var": "file_name", "drop_funcs": ["write_robots"], "returns": STR},
}

A = TVar("A")
RDFS_UNITS = {
    "reverse_transition_list_core": {"params": {"transition_list": TList(TList(TTup(A, INT)))}, "returns": TList(TTup(INT, INT))},
    "list_of_tuples_to_dict_of_lists": {"params": {"list_of_tuples": TList(TTup(INT, INT))}, "returns": TDict(INT, TList(INT))},
    "add_missing_states": {"params": {"transition_dict": TDict(INT, TList(INT)), "number_of_states": INT}, "returns": TDict(INT, TList(INT))},
    "reverse_transition_list": {"params": {"transition_list": TList(TList(TTup(A, INT)))}, "returns": TDict(INT, TList(INT))},
    "reverse_dfs_recursive": {"params": {"state": INT, "reversed_transitions": TDict(INT, TList(INT)), "reaching_states": TList(INT)}, "returns": TList(INT)},
    "reverse_dfs": {"params": {"transition_list": TList(TList(TTup(A, INT))), "final_states": TList(INT)}, "returns": TList(INT)},
}


ACT_ROW, PROB_ROW, VEC = TList(TTup(STR, INT)), TList(TTup(FLOAT, INT)), TList(FLOAT)
NODE = {"reward": FLOAT, "reach": VEC, "er": VEC, "ermr": VEC, "pmr": VEC, "floor": INT}
TRIPLE = TTup(FLOAT, FLOAT, FLOAT)


def _m(cls, meth, row, returns, **kw):
    return {"cls": cls, "of": meth, "params": {**NODE, "next_states": row, **kw.pop("params", {})}, "returns": returns, **kw}


TAD_UNITS = {
    "ProbabilisticNode_value_iteration_reach": _m("ProbabilisticNode", "value_iteration_reach", PROB_ROW, FLOAT),
    "ProbabilisticNode_value_iteration_rewards": _m("ProbabilisticNode", "value_iteration_rewards", PROB_ROW, TRIPLE),
    "ProbabilisticNode_prune_paths": _m("ProbabilisticNode", "prune_paths", PROB_ROW, PROB_ROW, result_var="next_states"),
    "PlayerOne_value_iteration_reach": _m("PlayerOne", "value_iteration_reach", ACT_ROW, FLOAT),
    "PlayerOne_value_iteration_rewards": _m("PlayerOne", "value_iteration_rewards", ACT_ROW, TRIPLE),
    "PlayerOne_get_best_strategies_reachability": _m("PlayerOne", "get_best_strategies_reachability", ACT_ROW, TList(STR)),
    "PlayerOne_prune_paths_reachability": _m("PlayerOne", "prune_paths_reachability", ACT_ROW, ACT_ROW, result_var="next_states",
                                             params={"best_strategies": TList(STR)}),
    "PlayerOne_prune_paths": _m("PlayerOne", "prune_paths", ACT_ROW, ACT_ROW, result_var="next_states"),
    "PlayerOne_get_best_strategies_total_rewards": _m("PlayerOne", "get_best_strategies_total_rewards", ACT_ROW, TList(STR)),
    "PlayerTwo_value_iteration_reach": _m("PlayerTwo", "value_iteration_reach", ACT_ROW, FLOAT),
    "PlayerTwo_get_worst_strategies_reachability": _m("PlayerTwo", "get_worst_strategies_reachability", ACT_ROW, TList(STR)),
    "PlayerTwo__expected_rewards_min_reach": _m("PlayerTwo", "_expected_rewards_min_reach", ACT_ROW, FLOAT,
                                                params={"strategies": TList(STR)}),
    "PlayerTwo_value_iteration_rewards": _m("PlayerTwo", "value_iteration_rewards", ACT_ROW, TRIPLE),
    "PlayerTwo_get_worst_strategies_total_rewards": _m("PlayerTwo", "get_worst_strategies_total_rewards", ACT_ROW, TList(STR)),
}


TAD_UNITS["StochasticGame_check_game"] = {
    "cls": "StochasticGame", "of": "check_game", "returns": UNIT,
    "self_fields": ["transition_list", "num_states", "rewards", "final_states", "players"],
    "params": {"transition_list": TList(TVar("A")), "num_states": INT, "rewards": TList(FLOAT), "final_states": TList(INT),
               "players": TList(STR)}}


TAD_UNITS["Solver_prune_states"] = {
    "cls": "Solver", "of": "prune_states", "objlist": True, "result_var": "rows", "returns": TList(TList(TTup(SLOT, INT))),
    "params": {"owners": TList(STR), "rows": TList(TList(TTup(SLOT, INT)))}}


def write_if_changed(path, text):
    old = None
    if os.path.exists(path):
        old = open(path, encoding="utf-8").read()
    if old != text:
        os.makedirs(os.path.dirname(path), exist_ok=True)
        with open(path, "w", encoding="utf-8") as f:
            f.write(text)
        return True
    return False


HEADER = """/-
GENERATED by harness/py2lean.py from {src} — do not edit.
Re-generated from /repo's working tree on every check run; the theorems of CR/Tie/*.lean are about THESE
definitions.  A unit the translator could not handle is replaced by a comment (its tie theorems then fail to
compile and the tie is reported as not checked).
-/
import CR.Extracted.Prelude

set_option linter.unusedVariables false

namespace {ns}
open CR

"""


def emit(modtr, ok, bad, order, out_path, extra_import=""):
    parts = [HEADER.format(src=os.path.basename(modtr.path), ns=modtr.namespace).replace(
        "import CR.Extracted.Prelude\n", "import CR.Extracted.Prelude\n" + extra_import)]
    for name in order:
        if name in ok:
            parts.append(ok[name])
        elif name in bad:
            parts.append(f"-- UNTRANSLATABLE {name}: {bad[name]}\n")
        parts.append("\n")
    for fn, keys in sorted(modtr.dict_keys.items()):
        parts.append(f"def {fn}_keys : List String := {json.dumps(keys)}\n\n")
    parts.append(f"end {modtr.namespace}\n")
    return write_if_changed(out_path, "".join(parts))


def run(repo=None, out_dir=None):
    repo = repo or REPO
    out_dir = out_dir or OUT_DIR
    report = {"units": {}, "changed_files": []}
    gen = None
    for fn, units, ns, out, imp in (("roberta_generator.py", GEN_UNITS, "CR.Ex.Gen", "Gen.lean", None),
                                    ("stochastic_game_from_roborta_board.py", SG_UNITS, "CR.Ex.Gen", "Manual.lean", "gen"),
                                    ("reverse_dfs.py", RDFS_UNITS, "CR.Ex.Rdfs", "Rdfs.lean", None),
                                    ("tad.py", TAD_UNITS, "CR.Ex.Tad", "Tad.lean", None)):
        try:
            mt = ModuleTranslator(os.path.join(repo, fn), units, ns, imports_from=gen if imp else None)
        except (OSError, SyntaxError) as e:
            for n in units:
                report["units"][f"{fn}:{n}"] = f"untranslatable: source unreadable ({type(e).__name__})"
            continue
        ok, bad = mt.translate()
        extra_import = "import CR.Extracted.Gen\n" if imp else ""
        if emit(mt, ok, bad, list(units), os.path.join(out_dir, out), extra_import):
            report["changed_files"].append(out)
        for n in units:
            report["units"][f"{fn}:{n}"] = "translated" if n in ok else "untranslatable: " + bad.get(n, "?")
        if fn == "roberta_generator.py":
            gen = mt
    return report


if __name__ == "__main__":
    r = run()
    json.dump(r, sys.stdout, indent=1)
    print()
