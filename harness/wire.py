"""Wire format of games / results between the harness and the Lean driver."""
from fractions import Fraction as Fr

import gen
from modelclient import fbits, bits_to_float, close, vec_close

P1, P2, PR = gen.P1, gen.P2, gen.PR
OWN = {P1: 1, P2: 2, PR: 0}


def rat(x):
    x = Fr(x)
    return f"{x.numerator}/{x.denominator}"


def game_payload(g, exact=False, thr=10 ** (-6), intended=True):
    """exact=False: doubles by bit pattern.  exact=True: rationals — the intended ones
    (`_x`) when intended, else the exact values of the doubles."""
    tl = []
    xt = gen.exact_tl(g) if intended else None
    for i, row in enumerate(g["transition_list"]):
        if g["players"][i] == PR:
            if exact:
                src = xt[i] if xt is not None else row
                tl.append([["", rat(p), t] for p, t in src])
            else:
                tl.append([["", fbits(p), t] for p, t in row])
        else:
            tl.append([[a, "0/1" if exact else "0", t] for a, t in row])
    rew = [(rat(x) if exact else fbits(x)) for x in g["rewards"]]
    return {"num": "rat" if exact else "float", "rewards": rew,
            "players": [OWN[p] for p in g["players"]], "tl": tl,
            "finals": list(g["final_states"]),
            "thr": rat(Fr(1, 10 ** 6) if thr == 10 ** (-6) else Fr(thr)) if exact else fbits(thr)}


def dec_vec(v, exact=False):
    if v is None:
        return None
    if exact:
        return [Fr(s) for s in v]
    return [bits_to_float(s) for s in v]


def nodes_diff(impl_nodes, model_nodes, exact=False):
    if impl_nodes is None or model_nodes is None:
        return None if impl_nodes is model_nodes else "nodes missing on one side"
    if len(impl_nodes) != len(model_nodes):
        return "number of states differs"
    for i, (a, b) in enumerate(zip(impl_nodes, model_nodes)):
        if len(a) != len(b):
            return f"state {i}: {len(a)} transitions vs model {len(b)}"
        for (l, t), (act, p, t2) in zip(a, b):
            if t != t2:
                return f"state {i}: target {t} vs model {t2}"
            if isinstance(l, str):
                if l != act:
                    return f"state {i}: action {l!r} vs model {act!r}"
            else:
                mp = Fr(p) if exact else bits_to_float(p)
                if not close(l, float(mp)):
                    return f"state {i}: probability {l!r} vs model {float(mp)!r}"
    return None


def cmp_prune(expect, r):
    if expect["outcome"] == "Timeout":
        return None
    if expect["outcome"] != r.get("outcome"):
        return f"outcome {expect['outcome']} vs model {r.get('outcome')}"
    if expect["outcome"] != "ok":
        return None
    if not vec_close(expect["probs"], dec_vec(r["probs"])):
        return "probabilities differ"
    if expect["strats"] != r["strats"]:
        return "reachability strategies differ"
    return nodes_diff(expect["nodes"], r["nodes"])


def cmp_reach(expect, r):
    if expect["outcome"] == "Timeout":
        return None
    if expect["outcome"] != r.get("outcome"):
        return f"outcome {expect['outcome']} vs model {r.get('outcome')}"
    if expect["outcome"] != "ok":
        return None
    if not vec_close(expect["probs"], dec_vec(r["probs"])):
        return "probabilities differ"
    if expect["strats"] != r["strats"]:
        return "reachability strategies differ"
    return None


def cmp_solve(expect, r):
    """expect: impl.solve() dict"""
    eo = expect["outcome"]
    mo = r.get("outcome")
    if eo == "Timeout":
        return None            # wall-clock dependent: judged by the oracle of C06/C11, never by the correspondence
    if eo != mo:
        return f"outcome {eo} vs model {mo}"
    if eo != "ok":
        return None
    res = expect["res"]
    if res[0] != r["final"]:
        return "final strategies differ"
    if res[1] != r["reachstrat"]:
        return "reachability strategies differ"
    if not vec_close(res[2], dec_vec(r["rewards"])):
        return "rewards differ"
    if not vec_close(res[3], dec_vec(r["probs"])):
        return "probabilities differ"
    if not vec_close(res[6], dec_vec(r["probminrew"])):
        return "'probabilities under minimal reward' differ"
    if not vec_close(res[7], dec_vec(r["rewminreach"])):
        return "'rewards under minimal reachability' differ"
    if expect.get("nodes") is not None:
        d = nodes_diff(expect["nodes"], r["nodes"])
        if d:
            return "conditioned lists: " + d
    return None


# ------------------------------------------------------------------------------------------
# staged comparison: every property compares the stage of the pipeline it is about, and only on cases where
# the stages before it (its inputs) agree with the model -- a difference upstream is another property's
# business and is reported by that property's check, not by this one
#   outcome -> probs -> reachstrat -> nodes -> rewards -> final -> diag
# ------------------------------------------------------------------------------------------
STAGES = ("outcome", "probs", "reachstrat", "nodes", "rewards", "final", "diag")


def stage_diffs(expect, r):
    """{stage: message} for every stage on which implementation and model differ; works for the answers of the
    driver ops reach, prune and solve"""
    d = {}
    eo, mo = expect["outcome"], r.get("outcome")
    if eo != mo:
        d["outcome"] = f"outcome {eo} vs model {mo}"
        return d
    if eo != "ok":
        return d
    if "res" in expect:                                   # impl.solve
        res = expect["res"]
        probs, rstrat = res[3], res[1]
        mstrat = r.get("reachstrat")
        if "rewards" in r and not vec_close(res[2], dec_vec(r["rewards"])):
            d["rewards"] = "rewards differ"
        if "final" in r and res[0] != r["final"]:
            d["final"] = "final strategies differ"
        if "probminrew" in r and not vec_close(res[6], dec_vec(r["probminrew"])):
            d["diag"] = "'probabilities under minimal reward' differ"
        elif "rewminreach" in r and not vec_close(res[7], dec_vec(r["rewminreach"])):
            d["diag"] = "'rewards under minimal reachability' differ"
    else:                                                 # impl.reach_only / impl.prune_only
        probs, rstrat = expect["probs"], expect["strats"]
        mstrat = r.get("strats")
    if not vec_close(probs, dec_vec(r["probs"])):
        d["probs"] = "probabilities differ"
    if mstrat is not None and rstrat != mstrat:
        d["reachstrat"] = "reachability strategies differ"
    if expect.get("nodes") is not None and r.get("nodes") is not None:
        nd = nodes_diff(expect["nodes"], r["nodes"])
        if nd:
            d["nodes"] = "conditioned lists: " + nd
    return d


def staged(ctx, own, upstream=()):
    """comparator for ModelClient.add: report a difference in one of the `own` stages unless a stage in
    `upstream` already differs (counted, not reported)"""
    def cmp(expect, r):
        if expect["outcome"] == "Timeout":
            return None            # wall-clock dependent: judged by the oracles of C06/C11, never by the correspondence
        d = stage_diffs(expect, r)
        for s in upstream:
            if s in d:
                ctx.count("upstream_stage_differs_not_this_property:" + s)
                return None
        for s in STAGES:
            if s in own and s in d:
                return d[s]
        return None
    return cmp


def soft_iters(expect, r):
    """iteration counts: informational only (a harmless re-ordering of a sweep changes them)"""
    if expect["outcome"] == "ok" and r.get("outcome") == "ok":
        return (expect["res"][4], expect["res"][5]) == (r["itreach"], r["itrew"])
    return True


# ------------------------------------------------------------------------------------------
# dynamically typed descriptions (C09 / C12)
# ------------------------------------------------------------------------------------------
def to_pyval(x):
    if x is None:
        return {"t": "none"}
    if isinstance(x, bool):
        return {"t": "bool", "v": x}
    if isinstance(x, int):
        return {"t": "int", "v": x}
    if isinstance(x, float):
        return {"t": "float", "v": fbits(x)}
    if isinstance(x, str):
        return {"t": "str", "v": x}
    if isinstance(x, tuple):
        return {"t": "tuple", "v": [to_pyval(y) for y in x]}
    if isinstance(x, list):
        return {"t": "list", "v": [to_pyval(y) for y in x]}
    if isinstance(x, dict):
        return {"t": "dict", "v": len(x)}
    raise TypeError(type(x))


def pygame_payload(g):
    """game in the domain of C09: rewards numbers, players strings, finals ints, transition list
    entries arbitrary values"""
    return {"rewards": [to_pyval(r) for r in g["rewards"]], "players": list(g["players"]),
            "tl": [to_pyval(v) for v in g["transition_list"]], "finals": list(g["final_states"])}


def in_c09_domain(g):
    try:
        return (isinstance(g["rewards"], list) and all(isinstance(r, (int, float)) and r == r for r in g["rewards"])
                and isinstance(g["players"], list) and all(isinstance(p, str) for p in g["players"])
                and isinstance(g["final_states"], list) and all(isinstance(f, int) and not isinstance(f, bool) for f in g["final_states"])
                and isinstance(g["transition_list"], list))
    except Exception:  # noqa
        return False


def measure_dev(ctx, key, field_impl, field_model):
    """comparator factory for the EXACT (rational) instantiation of the model: never a
    disagreement, only measures |float run - exact run| and records the maximum in the evidence"""
    def f(expect, r):
        try:
            if expect.get("outcome") == "ok" and r.get("outcome") == "ok":
                a = expect[field_impl] if not isinstance(field_impl, int) else expect["res"][field_impl]
                b = [Fr(s) for s in r[field_model]]
                d = max((abs(Fr(x) - y) for x, y in zip(a, b)), default=Fr(0))
                ctx.extra[key] = max(ctx.extra.get(key, 0.0), float(d))
                ctx.extra[key + "_cases"] = ctx.extra.get(key + "_cases", 0) + 1
            elif expect.get("outcome") != r.get("outcome"):
                ctx.extra[key + "_outcome_differs"] = ctx.extra.get(key + "_outcome_differs", 0) + 1
        except Exception:  # noqa
            pass
        return None
    return f
