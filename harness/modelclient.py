"""Client of the Lean model driver (line protocol, one JSON object per line).

Requests are queued by the property modules together with what the implementation did on
the same input; `flush` runs the compiled driver once over all queued requests and compares.
"""
import json
import math
import os
import struct
import subprocess
import tempfile

from crlib import VERIF, jsonable

LEAN_DIR = os.path.join(VERIF, "lean")
DRIVER = os.path.join(LEAN_DIR, ".lake", "build", "bin", "crmodel")


def fbits(x):
    """float -> decimal string of its IEEE-754 bit pattern (ints are converted exactly)."""
    return str(struct.unpack("<Q", struct.pack("<d", float(x)))[0])


def bits_to_float(s):
    return struct.unpack("<d", struct.pack("<Q", int(s)))[0]


def close(a, b, rel=1e-12, abs_=1e-300):
    if a is None or b is None:
        return a is b
    a, b = float(a), float(b)
    if a == b:
        return True
    if math.isnan(a) or math.isnan(b):
        return math.isnan(a) and math.isnan(b)
    return abs(a - b) <= max(rel * max(abs(a), abs(b)), abs_)


def vec_close(a, b, rel=1e-12):
    if a is None or b is None:
        return a is b
    return len(a) == len(b) and all(close(x, y, rel) for x, y in zip(a, b))


class ModelClient:
    def __init__(self, ctx):
        self.ctx = ctx
        self.queue = []      # (op, payload, expect, inp, suite, cmp)

    def add(self, op, payload, expect, inp, suite, cmp=None):
        self.queue.append((op, payload, expect, inp, suite, cmp))

    def available(self):
        return os.path.exists(DRIVER)

    def run_requests(self, reqs):
        """reqs: list of dicts.  Returns list of decoded responses (dicts)."""
        if not reqs:
            return []
        with tempfile.NamedTemporaryFile("w", suffix=".jsonl", delete=False) as f:
            for r in reqs:
                f.write(json.dumps(r) + "\n")
            path = f.name
        try:
            with open(path) as fin:
                p = subprocess.run([DRIVER], stdin=fin, capture_output=True, text=True,
                                   timeout=3600)
        finally:
            os.unlink(path)
        if p.returncode != 0:
            raise RuntimeError(f"model driver failed rc={p.returncode}: {p.stderr[:500]}")
        lines = [l for l in p.stdout.split("\n") if l.strip()]
        if len(lines) != len(reqs):
            raise RuntimeError(f"model driver answered {len(lines)} lines for {len(reqs)} requests; "
                               f"stderr={p.stderr[:300]}")
        return [json.loads(l) for l in lines]

    def flush(self):
        if not self.queue:
            return
        _late()
        reqs = [dict(payload, op=op) for op, payload, _, _, _, _ in self.queue]
        resp = self.run_requests(reqs)
        for (op, payload, expect, inp, suite, cmp), r in zip(self.queue, resp):
            self.ctx.compared(suite)
            fn = cmp or COMPARATORS.get(op)
            diff = fn(expect, r)
            if diff:
                self.ctx.disagree(suite, inp, {"impl": expect, "diff": diff}, r)
        self.queue = []


# ------------------------------------------------------------------------------------------
# comparators: return None when implementation and model agree, else a short description
# ------------------------------------------------------------------------------------------
def cmp_rdfs(expect, r):
    if expect["outcome"] != "ok":
        return f"impl outcome {expect['outcome']} but model is total"
    if r.get("res") != expect["res"]:
        return "result list differs"
    if expect.get("table") is not None:
        mt = sorted((int(k), v) for k, v in r.get("table", []))
        et = [(k, v) for k, v in expect["table"]]
        if [list(x) for x in mt] != [list(x) for x in jsonable(et)]:
            return "reversed table differs"
    return None


COMPARATORS = {"rdfs": cmp_rdfs}


def _late():
    import wire
    COMPARATORS.update({"prune": wire.cmp_prune, "reach": wire.cmp_reach, "solve": wire.cmp_solve})
