"""C11 — every accepted parameter set yields a loadable, proper three-game file."""
import json
import os
import random
import shutil
import tempfile
from fractions import Fraction as Fr

import boards
import gen
import impl
import wire
from crlib import repo, quiet, time_limit, Timeout, VERIF
from modelclient import fbits
from props.c08 import cmp_gen

P1, P2, PR = gen.P1, gen.P2, gen.PR
KEY_DIV = "C11.terminates@tad.Solver.value_iteration_total_rewards:diagnostic-diverges"

RULE = ("accepted parameter sets: seeds x sizes 1..4 x 1..4 exhaustively for a few seeds (quick) / more "
        "seeds and sizes up to 10x40 (thorough), max reward in {1,2,6}, probabilities from a grid incl. "
        "values close to 0 and 1, force-down on/off; the file is produced by roberta_generator.main() in a "
        "scratch directory, loaded with the repository's reader, validated, checked for properness, then "
        "solved through run_games with a wall-clock bound; hand-made boards through the manual entry "
        "point.  Non-trivial = more than one tile.")


def load_text(text):
    cr = repo("conditionalrewards")
    d = tempfile.mkdtemp(prefix="crv_")
    try:
        p = os.path.join(d, "f.py")
        open(p, "w").write(text)
        with quiet():
            return cr.read_dict_from_file(p)
    finally:
        shutil.rmtree(d, ignore_errors=True)


def game_sections(text):
    """the three formatted game texts as written between the fixed framing strings"""
    out = {}
    try:
        a = text.index("{\n 'game_a': ") + len("{\n 'game_a': ")
        b = text.index(",\n 'game_b': ")
        c = text.index(",\n 'game_c': ")
        e = text.rindex("\n}\n")
        out["game_a"] = text[a:b]
        out["game_b"] = text[b + len(",\n 'game_b': "):c]
        out["game_c"] = text[c + len(",\n 'game_c': "):e]
    except ValueError:
        pass
    return out


def text_payload(g):
    def lab(l):
        if isinstance(l, str):
            return {"a": l}
        if isinstance(l, bool) or isinstance(l, int):
            return {"i": int(l)}
        return {"n": repr(l)}
    return {"rewards": [int(r) for r in g["rewards"]], "players": list(g["players"]),
            "tl": [[[lab(l), t_] for l, t_ in row] for row in g["transition_list"]],
            "finals": list(g["final_states"])}


def proper(ctx, inp, name, g):
    tad = repo("tad")
    try:
        with quiet():
            sg = tad.StochasticGame(**{k: v for k, v in g.items()})
            sg.check_game()
            sg.init_states()
    except Exception as e:  # noqa
        ctx.violation("passes-validation", dict(inp, game=name), {"error": type(e).__name__, "msg": str(e)[:200]})
        return False
    n = len(g["players"])
    tl = g["transition_list"]
    for s in range(n):
        if not tl[s]:
            ctx.violation("state-has-transition", dict(inp, game=name), {"state": s})
            return False
        if g["players"][s] == PR:
            ps = [p for p, _ in tl[s]]
            if any(not (p > 0) for p in ps) or abs(sum(Fr(p) for p in ps) - 1) > Fr(1, 10 ** 12):
                ctx.violation("probabilities-positive-sum-1", dict(inp, game=name), {"state": s, "row": tl[s]})
                return False
    fin = g["final_states"]
    if len(fin) != 1 or fin[0] != n - 1 or [t for _, t in tl[n - 1]] != [n - 1] or [t for _, t in tl[n - 2]] != [n - 2] \
            or g["players"][n - 1] != PR or g["players"][n - 2] != PR:
        ctx.violation("winning-and-losing-absorbing", dict(inp, game=name), {"finals": fin, "win_row": tl[n - 1], "lose_row": tl[n - 2]})
        return False
    return True


def diverging_diagnostic(g, prune, sweeps=4000):
    """signature of the listed finding: the expected rewards and the 'probabilities under minimal
    reward' settle, the 'rewards under minimal reachability' diagnostic keeps growing"""
    tad = repo("tad")
    found = {}
    orig = tad.Solver

    class Probe(orig):
        def value_iteration_total_rewards(self):
            last = None
            for i in range(sweeps):
                d_e = d_m = d_p = 0
                for st in self.state_list:
                    e, m, p = st.value_iteration_rewards(self.state_list)
                    d_e = max(d_e, abs(e - st.expected_rewards))
                    d_m = max(d_m, abs(m - st.expected_rewards_min_reach))
                    d_p = max(d_p, abs(p - st.expected_reach_min_rewards))
                    st.expected_rewards, st.expected_rewards_min_reach, st.expected_reach_min_rewards = e, m, p
                last = (d_e, d_m, d_p)
                if max(last) <= self.threshold:
                    found["exit"] = i + 1
                    return i + 1
            found["last"] = last
            found["maxdiag"] = max(st.expected_rewards_min_reach for st in self.state_list)
            raise Timeout()
    try:
        tad.Solver = Probe
        with quiet():
            tad.StochasticGame(**{k: v for k, v in g.items() if not k.startswith("_")}, prune_states=prune).solve()
    except Timeout:
        pass
    except Exception:  # noqa
        return False
    finally:
        tad.Solver = orig
    if "last" not in found:
        return False
    d_e, d_m, d_p = found["last"]
    return d_e <= 1e-6 and d_p <= 1e-6 and d_m > 1e-6 and found["maxdiag"] > 100


def solve_games(ctx, inp, games, model, limit):
    cr = repo("conditionalrewards")
    for name, g in games.items():
        try:
            with quiet(), time_limit(limit):
                res = cr.run_games({name: {k: (list(v) if isinstance(v, list) else v) for k, v in gen.desc(g).items()}})
        except Timeout:
            which = None
            for prune in (True, False):
                o = impl.solve(g, prune, limit=limit, want_nodes=False)
                if o["outcome"] == "Timeout":
                    which = prune
                    break
            sig = KEY_DIV if which is not None and diverging_diagnostic(g, which) else None
            if sig is None:
                # slow but terminating (extreme probabilities): give it a long bound before judging
                long = 90.0 if ctx.quick() else 900.0
                if all(impl.solve(g, pr_, limit=long, want_nodes=False)["outcome"] != "Timeout" for pr_ in (True, False)):
                    ctx.count("slow_but_terminating")
                    continue
            ctx.violation("solved-or-no-solution", dict(inp, game=name), {"outcome": "does not terminate within bound", "bound_s": limit,
                                                                       "mode": "pruned" if which else "unpruned"}, key=sig)
            if model is not None:
                model.add("solve", dict(wire.game_payload(g), prune=bool(which), fuel=3000), expect={"outcome": "Timeout"},
                          inp=dict(inp, game=name), suite="corr.genfile.solve")
            continue
        except Exception as e:  # noqa
            ctx.violation("solved-or-no-solution", dict(inp, game=name), {"outcome": type(e).__name__, "msg": str(e)[:200]})
            continue
        for key in (name, name + "_no_prune"):
            msg = res.get(key, {}).get("msg")
            ok = msg == "Game solved" or (isinstance(msg, str) and "no solution" in msg.lower()) or \
                (key.endswith("_no_prune") and msg == "Game not solved" and "no solution" in str(res[name]["msg"]).lower())
            if not ok:
                ctx.violation("solved-or-no-solution", dict(inp, game=name), {"entry": key, "msg": msg})
        if model is not None and len(g["players"]) <= 300:
            for prune, key in ((True, name), (False, name + "_no_prune")):
                e = res[key]
                if e["msg"] == "Game solved":
                    exp = {"outcome": "ok", "res": [e["final_strategies"], e["reachability_strategies"], e["rewards"],
                                                    e["probabilities"], e["n_iterations_reach"], e["n_iterations_rew"],
                                                    e["prob_min_rew"], e["rew_min_reach"]]}
                    model.add("solve", dict(wire.game_payload(g), prune=prune, fuel=e["n_iterations_rew"] + e["n_iterations_reach"] + 50),
                              expect=exp, inp=dict(inp, game=name, prune=prune), suite="corr.genfile.solve",
                              cmp=wire.staged(ctx, {"outcome"}))


def check_params(ctx, p, model=None, limit=4.0, solve=True):
    inp = dict(p)
    argv = [f"--seed={p['seed']}", f"--width={p['w']}", f"--length={p['l']}", f"--max_reward={p['m']}",
            f"--prob_robot_break={p['pr']!r}", f"--prob_light_break={p['pl']!r}", f"--prob_tile_break={p['pt']!r}",
            f"--prob_loose_tile={p['plo']!r}"] + (["-f"] if p["fd"] else [])
    ctx.case(inp, p["w"] * p["l"] > 1)
    r = boards.run_generator(argv)
    if r["outcome"] != "ok" or len(r["files"]) != 1:
        ctx.violation("writes-one-file", inp, {"outcome": r["outcome"], "msg": r.get("msg"), "files": list(r["files"])})
        return
    text = list(r["files"].values())[0]
    try:
        d = load_text(text)
    except Exception as e:  # noqa
        ctx.violation("loadable", inp, {"error": type(e).__name__, "msg": str(e)[:200]})
        return
    if not isinstance(d, dict) or list(d.keys()) != ["game_a", "game_b", "game_c"]:
        ctx.violation("exactly-three-games", inp, {"keys": list(d.keys()) if isinstance(d, dict) else str(type(d))})
        return
    good = all([proper(ctx, inp, k, g) for k, g in d.items()])
    if model is not None:
        # the TEXT of each game section of the file vs the text model: surgery(renderLit(gameLit game))
        secs = game_sections(text)
        for k, g in d.items():
            if secs.get(k) is None:
                continue
            model.add("gametext", text_payload(g), expect=secs[k], inp=dict(inp, game=k), suite="corr.gentext",
                      cmp=lambda e, r: None if (r.get("text") == e and r.get("game_ok") is True) else
                      ("file section differs from surgery(renderLit(game))" if r.get("text") != e else "game outside the text theorem's domain"))
    if model is not None:
        # the board the generator drew, from the recorded draws
        log = r["log"]
        us = [e[1] for e in log if e[0] == "random"]
        L, W = p["l"], p["w"]
        rg = repo("roberta_generator")
        import random as rr
        state = rr.getstate()
        try:
            with quiet():
                mv, rw, ls = rg.gen_rnd_board(p["seed"], L, W, p["plo"], p["m"], p["fd"])
        finally:
            rr.setstate(state)
        model.add("gen", {"num": "float", "L": L, "W": W, "board": {"moves": mv, "rewards": rw, "loose": ls},
                          "ptile": fbits(p["pt"]), "probot": fbits(p["pr"]), "plight": fbits(p["pl"])},
                  expect=d, inp=inp, suite="corr.genfile", cmp=cmp_gen)
    if good and solve:
        games = {k: dict(g, _meta={"family": "board"}) for k, g in d.items()}
        solve_games(ctx, inp, games, model, limit)


PGRID = [0.1, 0.05, 0.5, 0.9, 0.3, 0.01, 0.99, 1e-6, 1 - 1e-6]


def run(ctx, model=None):
    ctx.extra["rule"] = RULE
    rng = random.Random(ctx.seed * 472882027 + 11)
    seeds = [0, 7] if ctx.quick() else [0, 1, 2, 7, 8, 47]
    sizes = [(l, w) for l in range(1, 4 if ctx.quick() else 5) for w in range(1, 4 if ctx.quick() else 5)]
    for seed in seeds:
        for (l, w) in sizes:
            for fd in ((False, True) if (not ctx.quick() or (l + w + seed) % 2 == 0) else (rng.random() < 0.5,)):
                p = {"seed": seed, "w": w, "l": l, "m": rng.choice([1, 2, 6]), "pr": 0.1, "pl": 0.1, "pt": 0.1,
                     "plo": 0.3, "fd": fd}
                if rng.random() < 0.4:
                    p.update(pr=rng.choice(PGRID[:7]), pl=rng.choice(PGRID[:7]), pt=rng.choice(PGRID[:7]), plo=rng.choice(PGRID))
                check_params(ctx, p, model, limit=3.0 if ctx.quick() else 20.0)
            if ctx.time_left() < 0:
                return
    big = [(5, 5)] if ctx.quick() else [(5, 5), (10, 5), (5, 10), (10, 20), (10, 40)]
    for (l, w) in big:
        p = {"seed": 47, "w": w, "l": l, "m": 6, "pr": 0.1, "pl": 0.1, "pt": 0.1, "plo": 0.3, "fd": False}
        check_params(ctx, p, model if l * w <= 50 else None, limit=10.0 if ctx.quick() else 120.0)
    # extreme but accepted probabilities and wide / long boards: load + validation + properness only
    # (value iteration on them is slow but irrelevant to these clauses)
    EXT = [1e-7, 1 - 1e-7, 5e-324, 1 - 2 ** -53, 1 / 3, 2 / 3]
    for k in range(8 if ctx.quick() else 60):
        p = {"seed": rng.randrange(50), "w": rng.randint(1, 3), "l": rng.randint(1, 3), "m": rng.choice([1, 6]),
             "pr": rng.choice(EXT), "pl": rng.choice(EXT), "pt": rng.choice(EXT), "plo": rng.choice(EXT + [0.5]),
             "fd": rng.random() < 0.5}
        check_params(ctx, p, model, solve=False)
    # ... up to files above 1 MiB and games above 4096 states
    for (l, w) in ([(1, 14), (2, 13), (14, 1), (19, 9), (1, 180), (30, 30)] if ctx.quick() else
                   [(1, 14), (2, 13), (14, 1), (19, 9), (1, 180), (1, 40), (3, 25), (60, 2), (20, 20), (10, 40), (30, 30), (21, 20), (1, 1000), (45, 45)]):
        for fd in (False, True):
            if ctx.quick() and l * w >= 900 and fd:
                continue
            p = {"seed": 7, "w": w, "l": l, "m": 6, "pr": 0.1, "pl": 0.1, "pt": 0.1, "plo": 0.3, "fd": fd}
            check_params(ctx, p, model if l * w <= 30 else None, solve=False)
    whatever_is_written_is_proper(ctx)
    boards.generator_environment(ctx, "loadable", [["--seed=2", "--width=2", "--length=2", "--prob_robot_break=0.1043"],
                                                   ["--seed=6", "--width=1", "--length=3", "-f"]])
    # manual entry point
    sg = repo("stochastic_game_from_roborta_board")
    for _ in range(3 if ctx.quick() else 40):
        L, W = rng.randint(1, 3), rng.randint(1, 3)
        mv, rw, ls = boards.random_board(rng, L, W, rng.random() < 0.5)
        if _ % 2 == 1:
            # a hand-written board whose rows are tuples (e.g. list(zip(*columns)))
            mv, rw, ls = [tuple(r) for r in mv], [tuple(r) for r in rw], [tuple(r) for r in ls]
        check_manual(ctx, mv, rw, ls, model, L * W > 1)


def whatever_is_written_is_proper(ctx):
    """parameter sets OUTSIDE the documented ranges (non-positive sizes in every sign combination, zero / negative
    maximum reward): the generator refuses them — and if it ever accepts one, the file it writes must still be a
    loadable, proper three-game file"""
    for w, l, m in ((-2, -3, 6), (-1, -1, 6), (-1, 2, 6), (2, -1, 6), (0, 0, 6), (2, 2, 0), (2, 2, -3), (-2, -2, -2)):
        argv = ["--seed=1", f"--width={w}", f"--length={l}", f"--max_reward={m}"]
        r = boards.run_generator(argv)
        inp = {"seed": 1, "w": w, "l": l, "m": m, "outside_documented_ranges": True}
        ctx.case(inp, True)
        for name, text in r["files"].items():
            try:
                d = load_text(text)
                ok = isinstance(d, dict) and list(d.keys()) == ["game_a", "game_b", "game_c"] and all([proper(ctx, inp, k, g) for k, g in d.items()])
            except Exception as e:  # noqa
                ok = False
            if not ok:
                ctx.violation("accepted-implies-proper", inp, {"outcome": r["outcome"], "file": name})
                return


def check_manual(ctx, mv, rw, ls, model=None, nontrivial=True):
    """the manual entry point create_sg_from_board(moves, rewards, loose, ...) on a hand-written board"""
    sg = repo("stochastic_game_from_roborta_board")
    r = boards.run_generator(call=lambda _rg: sg.create_sg_from_board(mv, rw, ls, 0.1, 0.05, 0.2))
    inp = {"manual": True, "moves": mv, "rewards": rw, "loose": ls}
    ctx.case(inp, nontrivial)
    if r["outcome"] != "ok" or len(r["files"]) != 1:
        ctx.violation("writes-one-file", inp, {"outcome": r["outcome"], "files": list(r["files"])})
        return
    try:
        d = load_text(list(r["files"].values())[0])
    except Exception as e:  # noqa
        ctx.violation("loadable", inp, {"error": type(e).__name__})
        return
    if list(d.keys()) != ["game_a", "game_b", "game_c"]:
        ctx.violation("exactly-three-games", inp, {"keys": list(d.keys())})
        return
    if all([proper(ctx, inp, k, g) for k, g in d.items()]):
        solve_games(ctx, inp, {k: dict(g, _meta={"family": "board"}) for k, g in d.items()}, model, 3.0)


def known_findings(ctx):
    if KEY_DIV not in ctx.open_keys:
        return []
    w = json.load(open(os.path.join(VERIF, "findings", "C11-diagnostic-diverges.json")))
    r = boards.run_generator(w["argv"])
    if r["outcome"] != "ok" or len(r["files"]) != 1:
        return []
    d = load_text(list(r["files"].values())[0])
    g = d[w["game"]]
    o = impl.solve(g, w["prune"], limit=3.0, want_nodes=False)
    if o["outcome"] == "Timeout" and diverging_diagnostic(g, w["prune"]):
        return [f"KNOWN-FINDING: property=C11 generated board game never returns: roberta_generator {' '.join(w['argv'])} "
                f"{w['game']} ({'pruned' if w['prune'] else 'unpruned'}): the 'rewards under minimal reachability' diagnostic "
                f"diverges (non-stopping game) and the loop's exit test waits for it [{KEY_DIV}]"]
    return []


def replay(ctx, viol):
    i = viol["input"]
    if i.get("outside_documented_ranges"):
        whatever_is_written_is_proper(ctx)
        return
    if "argv" in i:
        boards.generator_environment(ctx, viol["clause"], [i["argv"]])
        return
    if i.get("manual"):
        tup = isinstance(viol.get("detail"), dict)
        check_manual(ctx, i["moves"], i["rewards"], i["loose"])
        check_manual(ctx, [tuple(r) for r in i["moves"]], [tuple(r) for r in i["rewards"]], [tuple(r) for r in i["loose"]])
        return
    if "seed" in i:
        check_params(ctx, {k: i[k] for k in ("seed", "w", "l", "m", "pr", "pl", "pt", "plo", "fd")})
