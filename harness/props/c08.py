"""C08 — generated games encode the Roborta board rules faithfully."""
import itertools
import random
from fractions import Fraction as Fr

import boards
import gen
from crlib import repo
from modelclient import fbits, bits_to_float

P1, P2, PR = gen.P1, gen.P2, gen.PR

RULE = ("boards: exhaustively all boards with <= 2 tiles (quick) / <= 4 tiles (thorough) over arrows "
        "{0,1,2,3} x loose {0,1} x rewards {0,1,2} (rewards sampled beyond 2 tiles), plus sampled boards up "
        "to 6x6 (quick) / 40x10 (thorough), one-column and one-row shapes included; break probabilities "
        "from a grid in (0,1); all three variants.  Oracle: independent rendering of the rules + "
        "partition-refinement (probabilistic) bisimulation from the initial states.  Non-trivial = the "
        "board has a loose tile or a down-only tile or more than one column.")


# ------------------------------------------------------------------------------------------
# independent rendering of the rules (from the property text)
# ------------------------------------------------------------------------------------------
def spec_lts(variant, mv, rw, ls, pt, pr, pl):
    """returns (init, dict state -> (owner, reward, is_final, [(label, target)]))"""
    L, W = len(mv), len(mv[0])
    lts = {}

    def below(i, j):
        return ("land", i + 1, j) if i + 1 < L else ("win",)

    def attempt(kind, i, j):
        # game A: moves always succeed; B and C: the robot may fail
        tgt = below(i, j) if kind == "D" else ("land", i, (j - 1) % W) if kind == "L" else ("land", i, (j + 1) % W)
        return tgt if variant == "a" else ("try", kind, i, j)

    def arrows(i, j):
        m = mv[i][j]
        return (["Left"] if m in (0, 1) else []) + (["Right"] if m in (1, 2) else [])

    def succ(s):
        k = s[0]
        if k == "win":
            return (PR, 0, True, [(1, s)])
        if k == "lose":
            return (PR, 0, False, [(1, s)])
        if k == "light":
            _, i, j = s
            g_t = ("lightfail", "G", i, j) if variant == "c" else ("down", i, j)
            y_t = ("lightfail", "Y", i, j) if variant == "c" else ("lr", i, j)
            tr = [("Green", g_t)] + ([("Yellow", y_t)] if mv[i][j] != 3 else [])
            return (P2, rw[i][j], False, tr)
        if k == "down":
            _, i, j = s
            return (P1, 0, False, [("Down", attempt("D", i, j))])
        if k == "lr":
            _, i, j = s
            return (P1, 0, False, [(a, attempt(a[0], i, j)) for a in arrows(i, j)])
        if k == "free":
            _, i, j = s
            return (P1, 0, False, [("Down", attempt("D", i, j))] + [(a, attempt(a[0], i, j)) for a in arrows(i, j)])
        if k == "lightfail":
            _, c, i, j = s
            ok = ("down", i, j) if c == "G" else ("lr", i, j)
            return (PR, 0, False, [(pl, ("free", i, j)), (1 - pl, ok)])
        if k == "try":
            _, kind, i, j = s
            tgt = below(i, j) if kind == "D" else ("land", i, (j - 1) % W) if kind == "L" else ("land", i, (j + 1) % W)
            return (PR, 0, False, [(pr, ("land", i, j)), (1 - pr, tgt)])
        if k == "land":
            _, i, j = s
            if ls[i][j] == 1:
                return (PR, 0, False, [(pt, ("lose",)), (1 - pt, ("light", i, j))])
            return (PR, 0, False, [(1, ("light", i, j))])
        raise AssertionError(s)
    init = ("light", 0, 0)
    todo, seen = [init], {init}
    while todo:
        s = todo.pop()
        o, r, f, tr = succ(s)
        lts[s] = (o, r, f, tr)
        for _, t in tr:
            if t not in seen:
                seen.add(t)
                todo.append(t)
    return init, lts


def game_lts(g):
    n = len(g["players"])
    fin = set(g["final_states"])
    lts = {}
    todo, seen = [0], {0}
    while todo:
        s = todo.pop()
        tr = [(l, t) for l, t in g["transition_list"][s]]
        lts[s] = (g["players"][s], g["rewards"][s], s in fin, tr)
        for _, t in tr:
            if not (isinstance(t, int) and 0 <= t < n):
                return None
            if t not in seen:
                seen.add(t)
                todo.append(t)
    return lts


def bisimilar(init1, lts1, init2, lts2):
    """coarsest (probabilistic) bisimulation on the disjoint union; labels, rewards, owners and
    final flags observable; returns (bool, info)"""
    states = [("s", k) for k in lts1] + [("g", k) for k in lts2]

    def get(x):
        return lts1[x[1]] if x[0] == "s" else lts2[x[1]]
    block = {x: (get(x)[0], Fr(get(x)[1]), get(x)[2]) for x in states}
    ids = {}
    for x in states:
        block[x] = ids.setdefault(block[x], len(ids))
    while True:
        sig = {}
        for x in states:
            o, r, f, tr = get(x)
            tag = x[0]
            if o == PR:
                acc = {}
                for p, t in tr:
                    b = block[(tag, t)]
                    acc[b] = acc.get(b, Fr(0)) + Fr(p)
                s = tuple(sorted(acc.items()))
            else:
                s = tuple(sorted(set((a, block[(tag, t)]) for a, t in tr)))
            sig[x] = (block[x], s)
        ids = {}
        new = {x: ids.setdefault(sig[x], len(ids)) for x in states}
        if len(ids) == len(set(block.values())):
            block = new
            break
        block = new
    return block[("s", init1)] == block[("g", init2)], block


def check_board(ctx, mv, rw, ls, pt, pr, pl, model=None):
    L, W = len(mv), len(mv[0])
    inp = {"L": L, "W": W, "moves": mv, "rewards": rw, "loose": ls, "pt": pt, "pr": pr, "pl": pl}
    nontriv = W > 1 or any(3 in r for r in mv) or any(1 in r for r in ls)
    ctx.case(inp if L * W <= 16 else {"L": L, "W": W}, nontriv)
    ctx.count(f"tiles={'1' if L*W==1 else '2' if L*W==2 else '3-4' if L*W<=4 else '5-36' if L*W<=36 else '>36'}")
    if W == 1:
        ctx.count("one_column")
    try:
        games, _ = boards.games_of_board(mv, rw, ls, pt, pr, pl)
    except Exception as e:  # noqa
        ctx.violation("generator-fails", inp, {"error": type(e).__name__, "msg": str(e)[:200]})
        return
    for v in ("a", "b", "c"):
        g = games.get("game_" + v)
        if not isinstance(g, dict):
            ctx.violation("game-missing", inp, {"variant": v})
            continue
        init, spec = spec_lts(v, mv, rw, ls, pt, pr, pl)
        gl = game_lts(g)
        if gl is None:
            ctx.violation("bisimilar", dict(inp, variant=v), {"reason": "transition target out of range"})
            continue
        ok, _ = bisimilar(init, spec, 0, gl)
        if not ok:
            ctx.violation("bisimilar", dict(inp, variant=v),
                          {"reason": "initial states not bisimilar",
                           "game_rows_of_reachable_states": {str(k): gl[k][3] for k in sorted(gl)[:12]}})
    # the same board handed over as tuples of tuples (e.g. list(zip(*columns))), and a file named without a
    # directory part: the games must be the same
    if ctx.evaluations % 7 == 0 or L * W <= 2:
        try:
            tup = lambda m: tuple(tuple(r) for r in m)     # noqa: E731
            g_t, _ = boards.games_of_board(tup(mv), tup(rw), tup(ls), pt, pr, pl)
            g_l, _ = boards.games_of_board([tuple(r) for r in mv], [tuple(r) for r in rw], [tuple(r) for r in ls], pt, pr, pl, bare_name=True)
            if g_t != games or g_l != games:
                ctx.violation("same-board-same-games", inp, {"variant": "rows given as tuples / bare file name",
                                                             "tuples_equal": g_t == games, "bare_name_equal": g_l == games})
        except Exception as e:  # noqa
            ctx.violation("same-board-same-games", inp, {"variant": "rows given as tuples / bare file name",
                                                         "error": type(e).__name__, "msg": str(e)[:200]})
    if model is not None:
        model.add("gen", {"num": "float", "L": L, "W": W, "board": {"moves": mv, "rewards": rw, "loose": ls},
                          "ptile": fbits(pt), "probot": fbits(pr), "plight": fbits(pl)},
                  expect=games, inp=inp if L * W <= 16 else {"L": L, "W": W}, suite="corr.gen", cmp=cmp_gen)


OWN = {0: PR, 1: P1, 2: P2}


def cmp_gen(expect, r):
    if r.get("outcome") != "ok":
        return f"model outcome {r.get('outcome')}"
    for k in ("game_a", "game_b", "game_c"):
        e, m = expect.get(k), r.get(k)
        if not isinstance(e, dict):
            return f"{k} missing in the file"
        if list(e.get("rewards")) != m["rewards"]:
            return f"{k}: rewards differ"
        if list(e.get("players")) != [OWN[x] for x in m["players"]]:
            return f"{k}: players differ"
        if list(e.get("final_states")) != m["finals"]:
            return f"{k}: final states differ"
        tl = e.get("transition_list")
        if len(tl) != len(m["tl"]):
            return f"{k}: number of states differs ({len(tl)} vs model {len(m['tl'])})"
        for s, (a, b) in enumerate(zip(tl, m["tl"])):
            if len(a) != len(b):
                return f"{k}: state {s}: {len(a)} transitions vs model {len(b)}"
            for (l, t), (act, p, t2) in zip(a, b):
                if t != t2:
                    return f"{k}: state {s}: target {t} vs model {t2}"
                if isinstance(l, str):
                    if l != act:
                        return f"{k}: state {s}: action {l!r} vs model {act!r}"
                elif float(l) != bits_to_float(p):
                    return f"{k}: state {s}: probability {l!r} vs model {bits_to_float(p)!r}"
    return None


PGRID = [0.1, 0.05, 0.5, 0.25, 0.9, 0.01, 0.3, 0.99]


def all_boards(L, W, rewards=(0, 1, 2)):
    for mvs in itertools.product(range(4), repeat=L * W):
        for lss in itertools.product((0, 1), repeat=L * W):
            mv = [list(mvs[i * W:(i + 1) * W]) for i in range(L)]
            ls = [list(lss[i * W:(i + 1) * W]) for i in range(L)]
            yield mv, ls


def run(ctx, model=None):
    ctx.extra["rule"] = RULE
    rng = random.Random(ctx.seed * 32452843 + 8)
    shapes = [(1, 1), (2, 1), (1, 2)] if ctx.quick() else [(1, 1), (2, 1), (1, 2), (3, 1), (1, 3), (2, 2), (4, 1), (1, 4)]
    for (L, W) in shapes:
        for mv, ls in all_boards(L, W):
            if L * W <= 2:
                rws = list(itertools.product((0, 1, 2), repeat=L * W)) if not ctx.quick() else [tuple(rng.choice((0, 1, 2)) for _ in range(L * W))]
            else:
                rws = [tuple(rng.choice((0, 1, 2)) for _ in range(L * W))]
            for rwf in rws:
                rw = [list(rwf[i * W:(i + 1) * W]) for i in range(L)]
                pt, pr, pl = rng.choice(PGRID), rng.choice(PGRID), rng.choice(PGRID)
                check_board(ctx, mv, rw, ls, pt, pr, pl, model)
            if ctx.time_left() < 0:
                return
    ctx.extra["exhaustive_small"] = f"all arrow x loose layouts for shapes {shapes}"
    rerun_same_directory(ctx, rng)
    manual_rerun_same_directory(ctx, rng)
    fractional_rewards(ctx, rng)
    boards.generator_environment(ctx, "file-independent-of-environment",
                                 [["--seed=4", "--width=2", "--length=3"], ["--seed=9", "--width=3", "--length=2", "-f", "--prob_robot_break=0.104"]])
    big = [(3, 3), (5, 1), (1, 5), (4, 2), (6, 6), (10, 9), (2, 49), (12, 11), (21, 20)] if ctx.quick() else \
        [(3, 3), (5, 1), (1, 5), (4, 2), (6, 6), (10, 9), (2, 49), (12, 11), (10, 5), (5, 10), (40, 10), (10, 40), (30, 1),
         (1, 30), (21, 20), (3, 103), (13, 12), (2, 98), (2, 107)]
    for (L, W) in big:
        for rep in range((3 if L * W <= 40 else 1) if ctx.quick() else (10 if L * W <= 100 else 2)):
            mv, rw, ls = boards.random_board(rng, L, W, fd=rep % 2 == 1, max_reward=6)
            check_board(ctx, mv, rw, ls, rng.choice(PGRID), rng.choice(PGRID), rng.choice(PGRID), model)


def rerun_same_directory(ctx, rng):
    """main() run twice in one directory with probabilities that round to the same file name: the file
    must hold the games of the SECOND run"""
    for k in range(2 if ctx.quick() else 10):
        s, w, l = rng.randrange(50), rng.randint(1, 3), rng.randint(1, 3)
        a1 = [f"--seed={s}", f"--width={w}", f"--length={l}", "--prob_robot_break=0.1", "--prob_light_break=0.1", "--prob_tile_break=0.1"]
        a2 = [f"--seed={s}", f"--width={w}", f"--length={l}", "--prob_robot_break=0.104", "--prob_light_break=0.096", "--prob_tile_break=0.1049"]
        r1 = boards.run_generator(a1)
        fresh = boards.run_generator(a2)
        again = boards.run_generator(a2, pre_files=r1["files"])
        inp = {"first_run": a1, "second_run": a2}
        ctx.case(inp, True)
        if list(r1["files"]) != list(fresh["files"]):
            continue                           # names differ: nothing to overwrite
        if again["outcome"] != "ok" or again["files"] != fresh["files"]:
            ctx.violation("second-run-rewrites-the-file", inp, {"outcome": again["outcome"], "same_as_first_run": again["files"] == r1["files"]})


def manual_rerun_same_directory(ctx, rng):
    """create_sg_from_board called twice in one directory with two DIFFERENT boards whose file name is the same
    (the name states sizes, maximum reward, force-down and whole-percent probabilities, not the layout): the file
    must hold the games of the second board.  Also: a first call that fails half-way (invalid arrow) leaves a
    partial file that the corrected board must replace."""
    sg = repo("stochastic_game_from_roborta_board")
    cr = repo("conditionalrewards")
    for k in range(3 if ctx.quick() else 30):
        L, W = rng.randint(1, 3), rng.randint(2, 3)
        mv1, rw1, ls1 = boards.random_board(rng, L, W, False, max_reward=3)
        mv2 = [[(x + 1) % 3 for x in row] for row in mv1]                  # another layout, same maximum arrow
        for row in (mv1, mv2):
            row[0][0] = 2
        rw2 = [list(reversed(r)) for r in rw1]
        rw1[0][0] = rw2[0][0] = 3
        first = (mv1, rw1, ls1) if k % 3 else ([[4] + r[1:] for r in mv1], rw1, ls1)   # k % 3 == 0: invalid arrow 4
        r1 = boards.run_generator(call=lambda _rg: sg.create_sg_from_board(first[0], first[1], first[2], 0.1, 0.1, 0.1))
        fresh = boards.run_generator(call=lambda _rg: sg.create_sg_from_board(mv2, rw2, ls1, 0.1, 0.1, 0.1))
        again = boards.run_generator(call=lambda _rg: sg.create_sg_from_board(mv2, rw2, ls1, 0.1, 0.1, 0.1), pre_files=r1["files"])
        inp = {"first_board": [first[0], first[1], ls1], "second_board": [mv2, rw2, ls1], "entry": "create_sg_from_board"}
        ctx.case(inp, True)
        if fresh["outcome"] != "ok":
            continue
        new = {k_: v for k_, v in again["files"].items() if k_ in fresh["files"]}
        if again["outcome"] != "ok" or new != fresh["files"]:
            ctx.violation("second-run-rewrites-the-file", inp, {"outcome": again["outcome"], "first_outcome": r1["outcome"],
                                                                "same_as_first_run": new == {k_: v for k_, v in r1["files"].items() if k_ in fresh["files"]}})
            return


def fractional_rewards(ctx, rng):
    """rewards are numbers, not necessarily whole: the light state of a tile carries the tile's reward as given"""
    for k in range(2 if ctx.quick() else 20):
        L, W = rng.randint(1, 2), rng.randint(1, 3)
        mv, rw, ls = boards.random_board(rng, L, W, False)
        rw = [[rng.choice([2.5, 0.75, 1, 0, 3.25]) for _ in range(W)] for _ in range(L)]
        try:
            games, _ = boards.games_of_board(mv, rw, ls, 0.1, 0.1, 0.1)
        except Exception as e:  # noqa
            ctx.violation("tile-rewards", {"moves": mv, "rewards": rw, "loose": ls, "pt": 0.1, "pr": 0.1, "pl": 0.1}, {"error": type(e).__name__, "msg": str(e)[:200]})
            return
        ctx.case({"moves": mv, "rewards": rw, "loose": ls, "fractional_rewards": True}, True)
        flat = [x for row in rw for x in row]
        for name in ("game_a", "game_b", "game_c"):
            got = games[name]["rewards"][:L * W]
            if got != flat or any(x != 0 for x in games[name]["rewards"][L * W:]):
                ctx.violation("tile-rewards", {"moves": mv, "rewards": rw, "loose": ls, "pt": 0.1, "pr": 0.1, "pl": 0.1, "fractional_rewards": True},
                              {"game": name, "light_state_rewards": got, "board": flat})
                return


def replay(ctx, viol):
    i = viol["input"]
    if i.get("entry") == "create_sg_from_board":
        manual_rerun_same_directory(ctx, random.Random(1))
        return
    if i.get("fractional_rewards"):
        fractional_rewards(ctx, random.Random(1))
        return
    if "argv" in i:
        boards.generator_environment(ctx, viol["clause"], [i["argv"]])
        return
    if "first_run" in i:
        rerun_same_directory(ctx, random.Random(1))
        return
    ctx.evaluations = 6          # so that the tuple-row / bare-name variant of check_board is exercised as well
    check_board(ctx, i["moves"], i["rewards"], i["loose"], i["pt"], i["pr"], i["pl"], None)
