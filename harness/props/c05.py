"""C05 — final strategies are reward-optimal among reachability-optimal actions."""
import random
from fractions import Fraction as Fr

import gen
import impl
import wire
from analysis import Solved, separated, near_rounding_boundary, THR

P1, P2, PR = gen.P1, gen.P2, gen.PR
TOL = 10 * THR

RULE = ("stopping games (random, dead-successor patterns, slow cycles), reward-tie games, example inputs "
        "and small boards; both pruning modes.  Inclusion (final strategy subset of reachability strategy for "
        "every Player-1 state) is checked on EVERY solved case; exact optimal sets from the exact "
        "conditioned reward values (strategy enumeration) when successors' values are equal or "
        "separated by > 10 thresholds.  Non-trivial = some Player-1 state has >= 2 reachability-optimal "
        "actions, or a Player-2 state has successors with different conditioned rewards.")


def judge(ctx, g, prune, o, stopping):
    inp = {"game": gen.desc(g), "prune": prune}
    if o["outcome"] not in ("ok", "ValueError:nosolution", "Timeout"):
        ctx.violation("no-result", inp, {"outcome": o["outcome"], "msg": o.get("msg")})
        return True
    if o["outcome"] != "ok":
        return False
    S = Solved(g, prune, o)
    nontriv = False
    # inclusion: without exception
    for s in range(S.n):
        fs, rs = S.final_strat[s], S.reach_strat[s]
        if S.players[s] == PR:
            if fs is not None:
                ctx.violation("probabilistic-has-none", inp, {"state": s, "final": fs})
                return True
            continue
        if not isinstance(fs, list):
            ctx.violation("final-strategy-is-list", inp, {"state": s, "final": fs})
            return True
        if S.players[s] == P1:
            if any(a not in (rs or []) for a in fs):
                ctx.violation("final-subset-of-reachability", inp, {"state": s, "final": fs, "reachability": rs})
                return True
            if len(rs or []) >= 2:
                nontriv = True
    if not stopping or not S.small():
        return nontriv
    w = S.reward_value()
    cond = S.cond_as_solved()
    states = sorted(S.reach0) if prune else range(S.n)
    ctx.count("exact_sets_checked")
    for s in states:
        if S.players[s] == PR:
            continue
        row = cond[s]
        acts = [a for a, _ in row]
        fs = S.final_strat[s]
        # transition order, only permitted actions
        it = iter(acts)
        if not all(any(a == b for b in it) for a in fs):
            ctx.violation("permitted-actions-in-order", inp, {"state": s, "final": fs, "permitted": acts})
            return True
        vals = [w[t] for _, t in row]
        if any(v is None for v in vals):
            continue
        if len(set(vals)) >= 2 and S.players[s] == P2:
            nontriv = True
        # values of an acyclic conditioned game are computed exactly (no residual-stop error): there only
        # differences within two rounding units are left to the rounded comparison
        if not separated(vals, 2 * THR if acyclic(S, s) else TOL) or any(near_rounding_boundary(v) for v in vals):
            ctx.count("skipped_close_values")
            continue
        if not row:
            exp = []
        else:
            best = max(vals) if S.players[s] == P1 else min(vals)
            exp = [a for (a, _), v in zip(row, vals) if v == best]
        if fs != exp:
            # a tie between a cyclic and an acyclic branch that is not "both 0" is outside the
            # property's quantifier only if the values differ by <= tolerance; here they are equal
            # or separated, so this is a violation unless it is an exact non-zero tie in a cyclic game
            cyclic_tie = len(exp) > len(fs) and all(a in exp for a in fs) and max(vals) != 0 \
                and g.get("_meta", {}).get("family") in ("slow_cycle", "stopping")
            if cyclic_tie and not acyclic(S, s):
                ctx.count("cyclic_nonzero_tie_outside_quantifier")
                continue
            ctx.violation("exact-optimal-set", inp, {"state": s, "final": fs, "expected": exp,
                                                     "successor_values": vals, "permitted": row})
            return True
    return nontriv


def acyclic(S, start=0):
    """no cycle among the states reachable from `start` in the conditioned game except absorbing loops"""
    cond = S.cond_as_solved()
    color = {}

    def dfs(u):
        color[u] = 1
        for _, t in cond[u]:
            if t == u and len(cond[u]) == 1:
                continue
            if color.get(t) == 1:
                return False
            if t not in color and not dfs(t):
                return False
        color[u] = 2
        return True
    return dfs(start)


def check_case(ctx, g, model=None, stopping=True, limit=5.0):
    nt = False
    for prune in (True, False):
        o = impl.solve(g, prune, limit=limit)
        if o["outcome"] == "Timeout":
            ctx.count("timeout")
            continue
        nt = bool(judge(ctx, g, prune, o, stopping)) or nt
        if model is not None and len(g["players"]) <= 400:
            model.add("solve", dict(wire.game_payload(g), prune=prune), expect=o,
                      inp={"game": gen.desc(g), "prune": prune}, suite="corr.rewards",
                      cmp=wire.staged(ctx, {"final"}, ("outcome", "probs", "reachstrat", "nodes", "rewards")))
    ctx.case({"game": gen.desc(g)} if len(g["players"]) <= 30 else {"meta": g.get("_meta")}, nt)
    ctx.count("family=" + str(g.get("_meta", {}).get("family", "?")).split(":")[0])


def reward_tie_game(rng):
    """acyclic game with exact reward ties and a Player-2 choice between different rewards"""
    k1, k2 = rng.choice([P1, P2]), rng.choice([P1, P2])
    r = rng.choice([1, 2, 3])
    # 0:k1 -> a:1, b:2, c:3 ; 1,2 reward r each -> win ; 3: k2 -> x:4 (reward r) , y:5 (reward 2r) ; 4,5 -> win
    players = [k1, PR, PR, k2, PR, PR, PR, PR]
    lose, win = 6, 7
    rewards = [0, r, r, 0, r, rng.choice([r, 2 * r]), 0, 0]
    xtl = [[("a", 1), ("b", 2), ("c", 3)],
           [(Fr(1), win)], [(Fr(1, 2), win), (Fr(1, 2), win)],
           [("x", 4), ("y", 5)], [(Fr(1), win)], [(Fr(1), win)],
           [(Fr(1), lose)], [(Fr(1), win)]]
    rng.shuffle(xtl[0])
    return gen.finish(rewards, players, xtl, [win], {"family": "reward_tie"})


def run(ctx, model=None):
    ctx.extra["rule"] = RULE
    rng = random.Random(ctx.seed * 7368787 + 5)
    import analysis as _r5
    _r5rng = random.Random(ctx.seed + 555)
    _r5.round5_passes(ctx, _r5rng, [gen.stopping_game(_r5rng, extra_finals=0.25) for _ in range(3 if ctx.quick() else 40)] +
                      [gen.slow_cycle_game(_r5rng), gen.decimal_tie_game(_r5rng)], "final-strategies", fields=[0, 1])
    from props.c10 import example_games
    from boards import board_games
    for g in example_games():
        check_case(ctx, g, model, stopping=False)
    for kind in (PR, P1):
        for pat in gen.all_patterns(3 if ctx.quick() else 4):
            check_case(ctx, gen.dead_shape_game(rng, kind, pat, front=rng.choice([P1, P2])), model)
    for k in range(12 if ctx.quick() else 200):
        check_case(ctx, gen.tiny_reach_game(rng), model)
        check_case(ctx, gen.parallel_dead_game(rng), model)
    for k in range(20 if ctx.quick() else 300):
        check_case(ctx, gen.with_huge_rewards(gen.layered_tie_game(rng)), model)
        check_case(ctx, gen.with_empty_action(gen.layered_tie_game(rng), rng), model)
        check_case(ctx, gen.integer_game(rng), None)
        check_case(ctx, gen.close_rewards_game(rng), model)
        check_case(ctx, gen.final_player_game(rng), model)
        check_case(ctx, gen.duplicate_label_game(rng), model)
        check_case(ctx, gen.mixed_int_float_game(rng), None)
        if k % 2 == 0:
            check_case(ctx, gen.tiny_best_game(rng), model)
            check_case(ctx, gen.big_slow_reward_game(rng), model, limit=60.0)
    import analysis as _an0
    _an0.optimized_interpreter(ctx, [gen.layered_tie_game(rng) for _ in range(6)] + [gen.stopping_game(rng, dead_frac=0.5) for _ in range(6)],
                               "exact-optimal-set", fields=[0, 1])
    N = 200 if ctx.quick() else 5000
    for k in range(N):
        r = k % 5
        g = reward_tie_game(rng) if r == 0 else gen.slow_cycle_game(rng) if r == 1 else \
            gen.layered_tie_game(rng) if r == 2 else gen.stopping_game(rng, extra_finals=0.25)
        check_case(ctx, g, model)
        if ctx.time_left() < 0:
            return
    import analysis as _an
    _pool = []
    _r2 = random.Random(ctx.seed + 4242)
    while len(_pool) < 14:
        _pool.append(gen.stopping_game(_r2, n_inner=_r2.randint(2, 5), dead_frac=_r2.choice([0.0, 0.6])))
    for _k in range(4 if ctx.quick() else 40):
        _an.batch_vs_alone(ctx, _r2.sample(_pool, _r2.randint(2, 5)), ['final_strategies', 'reachability_strategies'], 'run_games-strategies-equal-solo-run')
    shapes = [(1, 1), (2, 1), (1, 2), (2, 2)] if ctx.quick() else [(1, 1), (2, 1), (1, 2), (2, 2), (3, 3), (4, 4)]
    for (L, W) in shapes:
        for g in board_games(rng, L, W, rng.random() < 0.5):
            check_case(ctx, g, model, stopping=False, limit=3.0)


def replay(ctx, viol):
    import analysis as _r5
    if _r5.replay_round5(ctx, viol, fields=[0, 1]):
        return
    g = viol["input"]["game"]
    g["transition_list"] = [[tuple(t) for t in row] for row in g["transition_list"]]
    check_case(ctx, g, None)
