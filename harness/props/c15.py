"""C15 — random boards are reproducible, in range and honour their parameters."""
import math
import os
import random
import subprocess
import sys

import boards
from crlib import repo, REPO, quiet
from modelclient import fbits

RULE = ("gen_rnd_board under a recording proxy of the `random` module for sampled (seed, length, width, "
        "max reward, loose probability, force-down) — every draw is recorded and the model is fed the same "
        "draws; API-boundary draws (0.0, values next to 1.0) injected; check_input / main() on the full "
        "boundary grid of the eight range checks (-1, 0, 1; 0.0, tiny, 1-eps, 1.0, NaN, +-inf); regeneration "
        "of committed inputs; fresh-interpreter reproducibility.  Non-trivial = a board with >= 2 tiles "
        "or a refused parameter set.")


FIRST = {}


def call_board(seed, L, W, pl, m, fd, force_random=None):
    import random as real_random
    rg = repo("roberta_generator")
    log = []
    try:
        rg.random = boards.RandomProxy(real_random, log, force_random)
        with quiet():
            res = rg.gen_rnd_board(seed, L, W, pl, m, fd)
        return {"outcome": "ok", "board": res, "log": log}
    except Exception as e:  # noqa
        return {"outcome": type(e).__name__, "msg": str(e)[:200], "log": log}
    finally:
        rg.random = real_random


def caller_mutation(ctx):
    """a caller that edits the board it received must not influence what the next call returns"""
    for params in ((11, 3, 4, 0.3, 6, False), (12, 2, 5, 0.5, 2, True)):
        a = call_board(*params)
        if a["outcome"] != "ok":
            continue
        ref = repr(a["board"])
        moves, rewards, loose = a["board"]
        try:
            moves[0][0] = 9
            rewards.append([99])
            loose[0].clear()
        except Exception:  # noqa
            pass
        b = call_board(*params)
        ctx.case({"caller_mutation": list(params)}, True)
        if repr(b.get("board")) != ref:
            seed, L, W, pl, m, fd = params
            ctx.violation("reproducible-after-caller-edits", {"seed": seed, "length": L, "width": W, "prob_loose": pl,
                                                              "max_reward": m, "force_down": fd}, {"again": repr(b.get("board"))[:200]})


def documented_defaults(ctx):
    """gen_rnd_board(seed, length, width, prob_loose_tile) without the two optional parameters: the documented
    defaults are a maximum reward of 6 and no forced down-only tiles"""
    import random as real_random
    rg = repo("roberta_generator")
    for (seed, L, W, pl) in ((3, 3, 3, 0.3), (8, 2, 5, 0.5), (21, 6, 2, 0.1)):
        try:
            with quiet():
                short = rg.gen_rnd_board(seed, L, W, pl)
                full = rg.gen_rnd_board(seed, L, W, pl, 6, False)
                kw = rg.gen_rnd_board(seed=seed, length=L, width=W, prob_loose_tile=pl, max_reward=6, force_down=False)
        except Exception as e:  # noqa
            ctx.violation("honours-parameters", {"seed": seed, "length": L, "width": W, "prob_loose": pl, "defaults": True},
                          {"error": type(e).__name__, "msg": str(e)[:200]})
            return
        ctx.case({"defaults": [seed, L, W, pl]}, True)
        if repr(short) != repr(full) or repr(kw) != repr(full):
            ctx.violation("honours-parameters", {"seed": seed, "length": L, "width": W, "prob_loose": pl, "defaults": True},
                          {"with_defaults": repr(short)[:200], "max_reward=6, force_down=False": repr(full)[:200]})
            return


def judge_board(ctx, params, r):
    seed, L, W, pl, m, fd = params
    inp = {"seed": seed, "length": L, "width": W, "prob_loose": pl, "max_reward": m, "force_down": fd}
    if r["outcome"] != "ok":
        ctx.violation("board-generation-fails", inp, {"outcome": r["outcome"], "msg": r.get("msg")})
        return
    moves, rewards, loose = r["board"]
    log = r["log"]
    instrumented = bool(log)
    if not instrumented:
        # the module no longer draws through the module-level `random` functions (e.g. a private
        # random.Random): the draw-level clauses cannot be observed; ranges, force-down and
        # reproducibility are still checked black-box
        ctx.count("draws_not_observable")
    elif log[0][0] != "seed" or log[0][1] != seed or any(e[0] == "seed" for e in log[1:]):
        ctx.violation("seeded-first", inp, {"first_effects": log[:3]})
        return
    for name, mat in (("moves", moves), ("rewards", rewards), ("loose", loose)):
        if len(mat) != L or any(len(row) != W for row in mat):
            ctx.violation("dimensions", inp, {"which": name, "shape": [len(mat)] + [len(x) for x in mat][:5]})
            return
    us = [e[1] for e in log if e[0] == "random"]
    for i in range(L):
        for j in range(W):
            x = rewards[i][j]
            if not (isinstance(x, int) and not isinstance(x, bool) and 0 <= x <= m):
                ctx.violation("reward-range", inp, {"tile": [i, j], "reward": x, "draw": us[2 * (i * W + j)] if len(us) > 2 * (i * W + j) else None})
                return
            f = loose[i][j]
            u = us[2 * (i * W + j) + 1] if len(us) > 2 * (i * W + j) + 1 else None
            if f not in (0, 1) or (instrumented and (u is None or (f == 1) != (u < pl))):
                ctx.violation("loose-flag", inp, {"tile": [i, j], "flag": f, "draw": u})
                return
            a = moves[i][j]
            if a not in ((0, 1, 2, 3) if fd else (0, 1, 2)):
                ctx.violation("arrow-set", inp, {"tile": [i, j], "arrow": a})
                return
        if fd and 3 not in moves[i]:
            ctx.violation("down-only-tile-per-row", inp, {"row": i, "arrows": moves[i]})
            return
    n = L * W
    if n >= 900:
        freq = sum(map(sum, loose)) / n
        if abs(freq - pl) > 6 * math.sqrt(pl * (1 - pl) / n):
            ctx.violation("loose-frequency", inp, {"frequency": freq, "requested": pl, "tiles": n})
        ctx.count("frequency_checked")


def check_board(ctx, params, model=None, force_random=None, tag=""):
    seed, L, W, pl, m, fd = params
    r = call_board(*params, force_random=force_random)
    ctx.case({"seed": seed, "length": L, "width": W, "prob_loose": pl, "max_reward": m, "force_down": fd, "tag": tag}, L * W >= 2)
    judge_board(ctx, params, r)
    if force_random is None and r["outcome"] == "ok":
        FIRST.setdefault(tuple(params), repr(r["board"]))
    if force_random is None:
        r2 = call_board(*params)
        if r2.get("board") != r.get("board"):
            ctx.violation("reproducible", {"seed": seed, "length": L, "width": W, "prob_loose": pl, "max_reward": m, "force_down": fd}, {})
    if model is not None and r["outcome"] == "ok":
        log = r["log"]
        model.add("board", {"length": L, "width": W, "ploose": fbits(pl), "maxreward": m, "forcedown": fd,
                            "us": [fbits(e[1]) for e in log if e[0] == "random"],
                            "rows": [e[1] for e in log if e[0] == "choices"],
                            "downs": [e[1] for e in log if e[0] == "randrange"]},
                  expect=r["board"], inp={"params": list(params), "tag": tag}, suite="corr.board", cmp=cmp_board)


def cmp_board(expect, r):
    moves, rewards, loose = expect
    if r.get("outcome") != "ok":
        return f"model outcome {r.get('outcome')}"
    for name, a in (("moves", moves), ("rewards", rewards), ("loose", loose)):
        if [list(x) for x in a] != r[name]:
            return f"{name} differ"
    return None


# ------------------------------------------------------------------------------------------
# the board that main() actually writes (preamble comment of the generated file)
# ------------------------------------------------------------------------------------------
import re as _re
TILE = _re.compile(r"\[(\d+)\|(<-|<>|->|v)\((X| )\)\]")
MOVE = {"<-": 0, "<>": 1, "->": 2, "v": 3}


def check_main_board(ctx, seed, L, W, pl, m, fd):
    """run main() with these parameters; the board depicted in the written file must be the board
    gen_rnd_board gives for exactly these parameters, and honour the requested loose probability"""
    inp = {"seed": seed, "length": L, "width": W, "prob_loose": pl, "max_reward": m, "force_down": fd, "via": "main()"}
    ctx.case(inp, True)
    argv = [f"--seed={seed}", f"--width={W}", f"--length={L}", f"--max_reward={m}", f"--prob_loose_tile={pl!r}"] + (["-f"] if fd else [])
    r = boards.run_generator(argv)
    if r["outcome"] != "ok" or len(r["files"]) != 1:
        ctx.violation("accepted-parameters-run", inp, {"outcome": r["outcome"], "msg": r.get("msg")})
        return
    text = list(r["files"].values())[0]
    rows = [TILE.findall(ln) for ln in text.split("\n") if ln.startswith("#  ")]
    rows = [x for x in rows if x]
    if len(rows) != L or any(len(x) != W for x in rows):
        ctx.violation("dimensions", inp, {"depicted_rows": [len(x) for x in rows]})
        return
    rewards = [[int(a) for a, _, _ in row] for row in rows]
    moves = [[MOVE[b] for _, b, _ in row] for row in rows]
    loose = [[1 if c == "X" else 0 for _, _, c in row] for row in rows]
    ref = call_board(seed, L, W, pl, m, fd)
    if ref["outcome"] == "ok" and (moves, rewards, loose) != tuple([list(map(list, x)) for x in ref["board"]]):
        ctx.violation("main-writes-the-requested-board", inp, {"written_loose": loose, "requested_loose": ref["board"][2],
                                                              "written_moves": moves, "requested_moves": ref["board"][0]})
        return
    us = [e[1] for e in r["log"] if e[0] == "random"]
    if us:
        for i in range(L):
            for j in range(W):
                u = us[2 * (i * W + j) + 1]
                if (loose[i][j] == 1) != (u < pl):
                    ctx.violation("loose-flag", inp, {"tile": [i, j], "flag": loose[i][j], "draw": u})
                    return


# ------------------------------------------------------------------------------------------
# parameter checks
# ------------------------------------------------------------------------------------------
INTS = [-1, 0, 1, 3]
PROBS = [0.0, 5e-324, 1e-9, 0.5, 1 - 2 ** -53, 1.0, -0.1, 1.5, float("nan"), float("inf"), float("-inf")]


def documented_ok(seed, w, l, pr, pl, plo, pti, m):
    def pok(p):
        return 0 < p < 1
    return seed >= 0 and w > 0 and l > 0 and m > 0 and pok(pr) and pok(pl) and pok(plo) and pok(pti)


def check_params(ctx, vals, model=None):
    seed, w, l, pr, pl, plo, pti, m = vals
    rg = repo("roberta_generator")
    inp = {"seed": seed, "width": w, "length": l, "prob_robot": pr, "prob_light": pl, "prob_loose": plo,
           "prob_tile": pti, "max_reward": m}
    ok_doc = documented_ok(*vals)
    ctx.case(inp, not ok_doc)
    try:
        rg.check_input(seed, w, l, pr, pl, plo, pti, m)
        ci = "accepted"
    except ValueError:
        ci = "ValueError"
    except Exception as e:  # noqa
        ci = type(e).__name__
    argv = [f"--seed={seed}", f"--width={w}", f"--length={l}", f"--prob_robot_break={pr!r}",
            f"--prob_light_break={pl!r}", f"--prob_loose_tile={plo!r}", f"--prob_tile_break={pti!r}", f"--max_reward={m}"]
    r = boards.run_generator(argv)
    wrote = [e for e in r["log"] if e[0] == "open"] or list(r["files"])
    if not ok_doc:
        if r["outcome"] != "ValueError":
            ctx.violation("refused-with-ValueError", inp, {"main_outcome": r["outcome"], "check_input": ci})
        if wrote:
            ctx.violation("nothing-written-when-refused", inp, {"written": wrote})
        # "before anything is written" includes directories: the same refused set started in a working directory
        # WITHOUT inputs/ must leave that directory empty
        r0 = boards.run_generator(argv, inputs_dir=False)
        if r0["files"] or r0.get("dirs"):
            ctx.violation("nothing-written-when-refused", dict(inp, cwd="no inputs/ directory"),
                          {"files": sorted(r0["files"]), "directories_created": r0.get("dirs"), "main_outcome": r0["outcome"]})
        nan_case = any(isinstance(x, float) and x != x for x in vals)
        if ci != "ValueError" and not nan_case:
            ctx.violation("check_input-refuses", inp, {"check_input": ci})
    else:
        if r["outcome"] != "ok" or len(r["files"]) != 1:
            ctx.violation("accepted-parameters-run", inp, {"main_outcome": r["outcome"], "msg": r.get("msg")})
        else:
            eff = [e[0] for e in r["log"]]
            if eff[0] != "seed" or "open" not in eff or eff.index("open") < max(i for i, e in enumerate(eff) if e != "open"):
                ctx.violation("effect-order", inp, {"effects": eff[:6] + ["..."] + eff[-3:]})
    if model is not None:
        model.add("checkinput", {"seed": seed, "width": w, "length": l, "probot": fbits(pr), "plight": fbits(pl),
                                 "ploose": fbits(plo), "ptile": fbits(pti), "maxreward": m},
                  expect=ci, inp=inp, suite="corr.checkinput",
                  cmp=lambda e, rr: None if (rr.get("res") is None) == (e == "accepted") else
                  f"check_input {e} vs model {rr.get('res')}")


def run(ctx, model=None):
    ctx.extra["rule"] = RULE
    rng = random.Random(ctx.seed * 275604541 + 15)
    seeds = [0, 1, 47, 999132423, 2 ** 32, 2 ** 32 + 47, 2 ** 64 + 5, 10 ** 30] + \
        [rng.randrange(10 ** 6) for _ in range(10 if ctx.quick() else 20000)]
    caller_mutation(ctx)
    documented_defaults(ctx)
    shapes = [(1, 1), (1, 2), (2, 1), (3, 3), (5, 5), (2, 7)] if ctx.quick() else \
        [(1, 1), (1, 2), (2, 1), (3, 3), (5, 5), (2, 7), (10, 20), (40, 10), (1, 50), (50, 1)]
    for seed in seeds:
        for (L, W) in (shapes if seed in (0, 47) else [rng.choice(shapes)]):
            for fd in (False, True):
                pl = rng.choice([0.3, 0.01, 0.99, 0.5])
                m = rng.choice([6, 1, 2, 12])
                check_board(ctx, (seed, L, W, pl, m, fd), model)
        if ctx.time_left() < 0:
            return
    # frequency on large boards
    for seed in ([5] if ctx.quick() else [5, 6, 7, 8]):
        check_board(ctx, (seed, 30, 30, 0.3, 6, False), model)
        check_board(ctx, (seed, 40, 40, 0.1, 6, True), None)
    # through main(): probabilities with more than two decimals, close to 0 and to 1
    for pl_ in ([0.304, 0.004, 0.996, 0.3] if ctx.quick() else [0.304, 0.004, 0.996, 0.3, 0.125, 0.0049, 0.9951, 1e-9, 0.555]):
        for fd in (False, True):
            check_main_board(ctx, rng.randrange(100), rng.randint(2, 6), rng.randint(2, 6), pl_, rng.choice([1, 6]), fd)
    # API boundary: random() may return exactly 0.0 or the largest double below 1.0
    for m in (1, 2, 6, 10):
        check_board(ctx, (0, 1, 3, 0.3, m, False), model, force_random=lambda k, r: 0.0, tag="u=0.0")
        check_board(ctx, (0, 1, 3, 0.3, m, False), model, force_random=lambda k, r: 1 - 2 ** -53, tag="u=1-eps")
        check_board(ctx, (0, 2, 2, 0.3, m, True), model, force_random=lambda k, r: 5e-324 if k % 3 == 0 else r, tag="u=tiny")
    # maximum rewards beyond the exponent range of a double (2.0**1024 overflows): accepted parameter sets all the same
    for m in (1022, 1023, 1024, 1080, 5000):
        check_board(ctx, (3, 2, 2, 0.3, m, False), model)
        check_main_board(ctx, 3, 2, 2, 0.3, m, True)
    # parameter checks: every boundary value of every check, one at a time, plus pairs
    good = [3, 2, 2, 0.1, 0.1, 0.3, 0.1, 6]
    for pos in range(8):
        pool = (INTS + ([-10 ** 6, -1076, -1075, 1023, 1024, 10 ** 6] if pos == 7 else [-10 ** 6, 10 ** 6] if pos == 0 else [-10 ** 6])) \
            if pos in (0, 1, 2, 7) else PROBS
        for v in pool:
            vals = list(good)
            vals[pos] = v
            check_params(ctx, vals, model)
    for combo in ([-2, -3], [-1, -1], [0, -5], [-4, 0]):
        vals = list(good)
        vals[1], vals[2] = combo
        check_params(ctx, vals, model)
    for _ in range(10 if ctx.quick() else 200):
        vals = list(good)
        for pos in rng.sample(range(8), 2):
            vals[pos] = rng.choice(INTS if pos in (0, 1, 2, 7) else PROBS)
        check_params(ctx, vals, model)
    # call-order independence: boards recorded at the beginning must come out the same again after
    # all the other calls of this run (module-level state leaking between calls)
    for params, board in list(FIRST.items())[:40 if ctx.quick() else 400]:
        r = call_board(*params)
        if r.get("board") is not None and repr(r["board"]) != board:
            seed, L, W, pl, m, fd = params
            ctx.violation("reproducible-after-other-calls", {"seed": seed, "length": L, "width": W, "prob_loose": pl,
                                                             "max_reward": m, "force_down": fd}, {"first": board[:200], "again": repr(r["board"])[:200]})
            break
    regen_committed(ctx)
    fresh_interpreters(ctx, rng, 2 if ctx.quick() else 6)


def regen_committed(ctx):
    """committed inputs/robot_*.py whose names are unambiguous must be reproduced byte for byte"""
    import re
    d = os.path.join(REPO, "inputs")
    pat = re.compile(r"^robot_(\d+)_w(\d+)_l(\d+)_r(\d+)_rb(\d+)_lb(\d+)_tb(\d+)_lt(\d+)(_force_down)?\.py$")
    names = sorted(f for f in os.listdir(d) if pat.match(f)) if os.path.isdir(d) else []
    done = 0
    for f in names:
        m = pat.match(f)
        s, w, l, r, rb, lb, tb, lt = map(int, m.groups()[:8])
        if w * l > 120 and ctx.quick():
            continue
        if 0 in (rb, lb, tb, lt):
            continue                      # "lt0" is not an accepted parameter: name produced by an older tool
        argv = ["-s", s, "-w", w, "-l", l, "-m", r, "-p", rb / 100, "-q", lb / 100, "-r", tb / 100, "-t", lt / 100] + \
            (["-f"] if m.group(9) else [])
        out = boards.run_generator(argv)
        txt = out["files"].get("inputs/" + f)
        ref = open(os.path.join(d, f)).read()
        ctx.case({"regenerate": f}, True)
        done += 1
        if txt is None:
            ctx.violation("committed-input-regenerated", {"file": f}, {"outcome": out["outcome"], "files": list(out["files"])})
        elif txt != ref:
            ctx.count("committed_input_differs")
            # committed files may predate a generator change; only record, the byte-identity of two
            # runs today is what reproducibility means
            ctx.notes.append(f"committed input {f} is not reproduced byte for byte by the current generator")
    ctx.count("committed_inputs_regenerated", done)


def fresh_interpreters(ctx, rng, n=4):
    import tempfile
    import shutil
    for k in range(n):
        argv = ["-s", str(rng.randrange(1000)), "-w", "3", "-l", "4"] + (["-f"] if k % 2 else [])
        outs = []
        for rep in range(2):
            hashseed = str(1 + 7 * rep + k)          # different string-hash seeds: set/dict order must not matter
            d = tempfile.mkdtemp(prefix="crv_")
            os.mkdir(os.path.join(d, "inputs"))
            try:
                subprocess.run([sys.executable, os.path.join(REPO, "roberta_generator.py")] + argv, cwd=d,
                               capture_output=True, timeout=120, env=dict(os.environ, PYTHONPATH=REPO, PYTHONDONTWRITEBYTECODE="1", PYTHONHASHSEED=hashseed))
                fs = sorted(os.listdir(os.path.join(d, "inputs")))
                outs.append((fs, [open(os.path.join(d, "inputs", f)).read() for f in fs]))
            finally:
                shutil.rmtree(d, ignore_errors=True)
        ctx.case({"fresh_interpreters": argv}, True)
        if outs[0] != outs[1] or not outs[0][0]:
            ctx.violation("reproducible-across-processes", {"argv": argv}, {"files": [o[0] for o in outs]})


def replay(ctx, viol):
    i = viol["input"]
    if "prob_robot" in i:
        check_params(ctx, [i["seed"], i["width"], i["length"], i["prob_robot"], i["prob_light"], i["prob_loose"],
                           i["prob_tile"], i["max_reward"]])
    elif "seed" in i:
        check_board(ctx, (i["seed"], i["length"], i["width"], i["prob_loose"], i["max_reward"], i["force_down"]))
