"""C07 — backward search returns exactly the states that can reach a final state."""
import random

import gen
import impl
import oracles
from crlib import Timeout

RULE = ("random digraphs (self-loops, parallel edges, isolated states, cycles), chains, generator "
        "boards; finals permuted/repeated.  Non-trivial = at least one edge and the answer set "
        "differs from both {} and all non-final states, or a chain/board deeper than 500.")


def oracle_list(tl, finals):
    s = oracles.can_reach(tl, finals)
    return sorted(x for x in s if x not in set(finals))


def oracle_table(tl):
    n = len(tl)
    tab = {i: [] for i in range(n)}
    for u, row in enumerate(tl):
        for _, v in row:
            tab.setdefault(v, []).append(u)
    return tab


def check_case(ctx, tl, finals, tag, model=None):
    inp = {"tl": tl, "finals": finals, "tag": tag}
    exp = oracle_list(tl, finals)
    n = len(tl)
    nontriv = (len(exp) not in (0, n - len(set(finals)))) or n > 500
    ctx.case(inp if n <= 40 else {"tag": tag, "n": n, "finals": finals}, nontriv)
    ctx.count("size<=4" if n <= 4 else "size<=12" if n <= 12 else "size<=100" if n <= 100 else "size>100")
    r = impl.rdfs(tl, finals, limit=60 if n > 2000 else 20)
    small = inp if (n <= 40 or tag.startswith("many-finals")) else {"tag": tag, "n": n, "finals": finals, "regen": "see tag"}
    if r["outcome"] != "ok":
        ctx.violation("total", small, {"outcome": r["outcome"], "msg": r.get("msg")})
    else:
        got = r["res"]
        if got != exp:
            if sorted(set(got)) == exp and got == sorted(got):
                clause = "each-exactly-once"
            elif sorted(got) == exp:
                clause = "sorted"
            else:
                clause = "exact-set"
            ctx.violation(clause, small, {"got": got if n <= 40 else got[:30], "expected": exp if n <= 40 else exp[:30]})
    t = impl.rev_table(tl)
    if t["outcome"] != "ok":
        ctx.violation("table-total", small, t)
    else:
        tab = t["res"]
        et = oracle_table(tl)
        ok = isinstance(tab, dict) and set(tab.keys()) == set(et.keys()) and \
            all(sorted(tab[k]) == sorted(et[k]) for k in et)
        if not ok:
            ctx.violation("table", small, {"got": tab if n <= 40 else "large", "expected": et if n <= 40 else "large"})
    if model is not None:
        model.add("rdfs", {"tl": [[t for _, t in row] for row in tl], "finals": finals},
                  expect={"outcome": r["outcome"], "res": r.get("res"),
                          "table": (sorted((k, v) for k, v in t["res"].items()) if t["outcome"] == "ok" else None)},
                  inp=small, suite="corr.rdfs")


def sequences(ctx, rng):
    """call sequences: (a) a call that fails (unknown final state) must not affect later calls;
    (b) the same list object searched again after an in-place edit that keeps all counts"""
    m = __import__("crlib").repo("reverse_dfs")
    from crlib import quiet
    for k in range(20 if ctx.quick() else 400):
        tl, f = gen.random_digraph(rng, n=rng.randint(3, 9))
        n = len(tl)
        # (a) error path in between
        try:
            with quiet():
                m.reverse_dfs([list(r) for r in tl], [f[0], n + 5])
        except Exception:  # noqa
            pass
        tl2, f2 = gen.random_digraph(rng, n=rng.randint(2, 9))
        with quiet():
            try:
                got = m.reverse_dfs([list(r) for r in tl2], list(f2))
            except Exception as e:  # noqa
                got = type(e).__name__
        exp = oracle_list(tl2, f2)
        ctx.case({"sequence": "after-failed-call", "tl": tl2, "finals": f2}, True)
        if got != exp:
            ctx.violation("independent-of-earlier-failed-call", {"first_call": {"tl": tl, "finals": [f[0], n + 5]}, "tl": tl2, "finals": f2},
                          {"got": got, "expected": exp})
            return
        # (b) same object, edited in place (same number of states and transitions)
        obj = [list(r) for r in tl]
        with quiet():
            try:
                m.reverse_dfs(obj, list(f))
                m.reverse_transition_list(obj)
            except Exception:  # noqa
                continue
        rows = [i for i, r in enumerate(obj) if r]
        if not rows:
            continue
        i = rng.choice(rows)
        j = rng.randrange(len(obj[i]))
        lab, old_t = obj[i][j]
        obj[i][j] = (lab, (old_t + 1 + rng.randrange(n - 1)) % n if n > 1 else old_t)
        with quiet():
            try:
                got = m.reverse_dfs(obj, list(f))
                tab = m.reverse_transition_list(obj)
            except Exception as e:  # noqa
                got, tab = type(e).__name__, None
        exp = oracle_list(obj, f)
        ctx.case({"sequence": "same-object-edited", "tl": obj, "finals": f}, True)
        et = oracle_table(obj)
        if got != exp or tab is None or any(sorted(tab.get(k2, [])) != sorted(v) for k2, v in et.items()):
            ctx.violation("same-object-after-in-place-edit", {"original": tl, "tl": obj, "finals": f}, {"got": got, "expected": exp})
            return


def deep_case(ctx, n, d, f=None):
    import sys
    m = __import__("crlib").repo("reverse_dfs")
    from crlib import quiet

    def at_depth(k, fn):
        return fn() if k <= 0 else at_depth(k - 1, fn)
    tl, f = gen.chain_graph(n, back_edges=False)
    exp = oracle_list(tl, f)
    ctx.case({"chain": n, "caller_depth": d}, True)
    try:
        with quiet():
            got = at_depth(d, lambda: m.reverse_dfs([list(r) for r in tl], list(f)))
    except BaseException as e:  # noqa  (RecursionError is the point)
        got = type(e).__name__
    if got != exp:
        ctx.violation("independent-of-caller-stack-depth", {"tag": f"chain:{n}", "n": n, "finals": f, "caller_depth": d},
                      {"got": got if isinstance(got, str) else got[:20], "expected": exp[:20]})
        return False
    return True


def replay(ctx, viol):
    i = viol["input"]
    if "caller_depth" in i:
        deep_case(ctx, i["n"], i["caller_depth"])
    elif "tl" in i and "finals" in i:
        check_case(ctx, [[tuple(t) for t in row] for row in i["tl"]], i["finals"], i.get("tag", "replay"))
    elif str(i.get("tag", "")).startswith("chain:"):
        n = int(i["tag"].split(":")[1])
        tl, f = gen.chain_graph(n, back_edges=(n % 200 == 0))
        check_case(ctx, tl, i.get("finals", f), i["tag"])
    else:
        print("replay: this recorded input names a generated family; re-run the check with the same VERIF_SEED to regenerate it")


def deep_callers(ctx):
    """'graphs of any size and depth': the answer must not depend on how deep the CALLER already is on the
    interpreter stack.  Chains just below / around the recursion limit, searched from 0 … 900 frames deep."""
    import sys
    m = __import__("crlib").repo("reverse_dfs")
    from crlib import quiet
    lim = sys.getrecursionlimit()

    lengths = sorted({200, 500, lim - 200, lim - 150, lim - 100, lim - 80, lim - 66, lim - 50, lim - 10, lim + 100, 2 * lim})
    for n in lengths:
        if n < 3:
            continue
        for d in (0, 120, 400, lim - 250):
            if not deep_case(ctx, n, d):
                return


def many_finals(ctx, rng, model):
    """final lists with a hundred and more entries, with and without repetitions, in any order"""
    for (n, k, rep) in ((150, 100, 1), (150, 100, 2), (400, 150, 2), (300, 260, 3), (1000, 128, 2), (1000, 512, 1)):
        tl = []
        for u in range(n):
            tl.append([(1, rng.randrange(n)) for _ in range(rng.choice([1, 1, 2]))])
        base = rng.sample(range(n), k)
        for variant in ("every final listed %d times" % rep, "one final listed twice", "drawn with replacement"):
            if variant.startswith("every"):
                f = base * rep
            elif variant.startswith("one"):
                f = base + [base[0]]
            else:
                f = [rng.choice(base) for _ in range(k + k // 2)]
            rng.shuffle(f)
            check_case(ctx, tl, f, f"many-finals:n{n}:k{k}:{variant}", model)


def hub_graph(m, h):
    """hubs X_1..X_h that each precede every A_i; the A_i are discovered one after another through a back chain
    A_{i+1} -> C_i -> A_i, so an explicit work stack receives the hubs again in every round and grows to about
    m*h entries (far more than the number of states) while the first-pushed entries wait at the bottom; U reaches the
    final state by one direct transition only"""
    F = 0
    C = lambda i: i                   # noqa: E731
    A = lambda i: m + i               # noqa: E731
    X = lambda j: 2 * m + j           # noqa: E731
    U = 2 * m + h + 1
    tl = [[] for _ in range(U + 1)]
    tl[F].append((1, F))
    for i in range(1, m + 1):
        tl[A(i)].append(("to_final", F))
        tl[C(i)].append(("c", A(i)))
        if i < m:
            tl[A(i + 1)].append(("back", C(i)))
        for j in range(1, h + 1):
            tl[X(j)].append((1.0 / m, A(i)))
    tl[U].append(("only", F))
    return tl, [F]


def board_graph(rng, L, W):
    rg = __import__("crlib").repo("roberta_generator")
    moves = [[rng.choice([0, 1, 2, 3]) for _ in range(W)] for _ in range(L)]
    # transition structure of game B, built with the repository's own builders
    n_t = L * W
    tl = rg.player_two_transitions(L, W, moves, n_t, 2 * n_t)
    tl += rg.player_one_down_transitions(L, W, 4 * n_t)
    tl += rg.player_one_left_right_transitions(L, W, moves, 5 * n_t, 6 * n_t)
    loose = [[rng.choice([0, 1]) for _ in range(W)] for _ in range(L)]
    tl += rg.prob_tile_break_transitions(L, W, 0.1, loose, 0, 7 * n_t)
    tl += rg.prob_robot_down_break_transitions(L, W, 0.1, 3 * n_t, 7 * n_t + 1)
    tl += rg.prob_robot_left_break_transitions(L, W, 0.1, 3 * n_t)
    tl += rg.prob_robot_right_break_transitions(L, W, 0.1, 3 * n_t)
    tl.append([(1, 7 * n_t)])
    tl.append([(1, 7 * n_t + 1)])
    return tl, [7 * n_t + 1]


def run(ctx, model=None):
    ctx.extra["rule"] = RULE
    rng = random.Random(ctx.seed * 7919 + 7)
    # corpus: minimised past failures first
    corpus = [
        ([[(0.5, 0), (0.5, 1)], [(1, 1)]], [1], "selfloop-dup"),
        ([[("a", 1), ("b", 2)], [(1, 3)], [(1, 3)], [(1, 3)]], [3], "diamond"),
        ([[(1, 1)], [(1, 2)], [(1, 0)]], [2, 2, 0], "cycle-finals-rep"),
        ([[(1, 0)], [(1, 1)]], [1], "isolated"),
        ([[], [(1, 0)]], [0], "empty-row"),
    ]
    for tl, f, tag in corpus:
        check_case(ctx, tl, f, "corpus:" + tag, model)
    N = 400 if ctx.quick() else 150000
    for k in range(N):
        tl, f = gen.random_digraph(rng)
        check_case(ctx, tl, f, f"digraph#{k}", model)
    chains = [10, 200, 900, 1100, 3000] if ctx.quick() else [10, 200, 900, 1100, 3000, 5000, 20000]
    for n in chains:
        tl, f = gen.chain_graph(n, back_edges=(n % 200 == 0))
        check_case(ctx, tl, f, f"chain:{n}", model)
    boards = [(3, 200), (1, 400), (5, 5), (200, 3)] if ctx.quick() else \
        [(3, 200), (1, 400), (5, 5), (200, 3), (400, 1), (40, 10), (10, 40), (300, 4)]
    for (W, L) in boards:
        tl, f = board_graph(rng, L, W)
        check_case(ctx, tl, f, f"board:L{L}xW{W}", model)
    for (m_, h_) in ((12, 10), (5, 30), (40, 6)) if ctx.quick() else ((12, 10), (5, 30), (40, 6), (100, 20), (8, 200)):
        tl, f = hub_graph(m_, h_)
        for fin in (f, f + f, [len(tl) - 1] + f):
            check_case(ctx, tl, fin, f"many-finals:hub:{m_}x{h_}", model)
    sequences(ctx, rng)
    many_finals(ctx, rng, model)
    deep_callers(ctx)
    if not ctx.quick():
        # exhaustive: all graphs on <= 3 states with out-degree <= 2, all single/double finals
        import itertools
        for n in (1, 2, 3):
            rows = [()] + [(a,) for a in range(n)] + [(a, b) for a in range(n) for b in range(n)]
            for combo in itertools.product(rows, repeat=n):
                tl = [[(1, t) for t in row] for row in combo]
                for f in [[x] for x in range(n)] + [[x, y] for x in range(n) for y in range(n) if x != y][:4]:
                    check_case(ctx, tl, f, "exh", model)
        ctx.extra["exhaustive_small"] = "all digraphs n<=3, outdeg<=2, finals of size 1 (all) and 2 (first 4)"
