"""C12 — batch runs solve each game in isolation and report failures."""
import copy
import random

import gen
import impl
import wire
from crlib import repo, quiet, time_limit, Timeout
from modelclient import fbits, bits_to_float

P1, P2, PR = gen.P1, gen.P2, gen.PR
KEY_CLASH = "C12.isolated@conditionalrewards.run_games:result-key-collision"

RULE = ("dictionaries of 1-6 games mixing solvable, no-solution and malformed games in every position "
        "(failing game first / between / last), run in the given order, in a permuted order and as "
        "subsets; every entry is compared with what solving that game alone (fresh deep copy) gives; the "
        "input dictionary's transition lists are checked afterwards.  Non-trivial = the dictionary holds "
        "at least one failing game and one game whose pruned solve removes transitions.")


def solo(g):
    """what solving the game alone gives, per mode"""
    out = {}
    g = {k: v for k, v in g.items() if k != "prune_states"}
    for prune in (True, False):
        out[prune] = impl.solve(g, prune, limit=5.0, want_nodes=False)
    return out


def count_transitions(g):
    return sum(len(r) for r in g["transition_list"] if isinstance(r, (list, tuple)))


def judge(ctx, games, res, inp, solos):
    keys = []
    for name, _ in games:
        keys += [name, name + "_no_prune"]
    if list(res.keys()) != keys:
        ctx.violation("one-pruned-and-one-unpruned-entry-per-game-in-order", inp, {"keys": list(res.keys()), "expected": keys})
        return
    for name, g in games:
        sb = solo_batch(g)
        if "error" not in sb:
            for key, skey in ((name, "x"), (name + "_no_prune", "x_no_prune")):
                a = {k: v for k, v in res[key].items() if k != "total_time"}
                b = {k: v for k, v in sb[skey].items() if k != "total_time"}
                if a != b:
                    diff = [k for k in b if a.get(k) != b[k]]
                    ctx.violation("entry-equals-running-the-game-alone", dict(inp, game=name),
                                  {"entry": key, "fields": diff, "in_batch": {k: a.get(k) for k in diff}, "alone": {k: b[k] for k in diff}})
                    return
        s = solos[name]
        ep, eu = res[name], res[name + "_no_prune"]
        for e in (ep, eu):
            if e["n_states"] != len(g["players"]) or e["n_transitions"] != count_transitions(g):
                ctx.violation("counts", dict(inp, game=name), {"n_states": e["n_states"], "n_transitions": e["n_transitions"]})
                return
        sp = s[True]
        if sp["outcome"] == "ok":
            pairs = [(ep, sp)]
            if s[False]["outcome"] == "ok":
                pairs.append((eu, s[False]))
            for e, so in pairs:
                r = so["res"]
                got = [e["final_strategies"], e["reachability_strategies"], e["rewards"], e["probabilities"],
                       e["n_iterations_reach"], e["n_iterations_rew"], e["prob_min_rew"], e["rew_min_reach"]]
                if e["msg"] != "Game solved" or got != r:
                    ctx.violation("entry-equals-solo-solve", dict(inp, game=name),
                                  {"msg": e["msg"], "entry": got, "solo": r})
                    return
        elif sp["outcome"].startswith("ValueError"):
            if not (isinstance(ep["msg"], str) and ep["msg"].startswith("Error while solving the game") and
                    sp.get("msg", "")[:40] in ep["msg"]) or ep["rewards"] is not None or ep["final_strategies"] is not None:
                ctx.violation("failure-carries-message", dict(inp, game=name), {"msg": ep["msg"], "solo_error": sp.get("msg")})
                return
            if eu["msg"] != "Game not solved" or eu["rewards"] is not None:
                ctx.violation("unpruned-marked-not-solved", dict(inp, game=name), {"msg": eu["msg"]})
                return


def run_batch(ctx, games, model, tag, solos):
    """games: list of (name, description)"""
    cr = repo("conditionalrewards")
    d = {name: copy.deepcopy(g) for name, g in games}
    before = copy.deepcopy(d)
    inp = {"games": [[n, g] for n, g in games], "tag": tag}
    nt = any(solos[n][True]["outcome"] != "ok" for n, _ in games) and any(solos[n][True]["outcome"] == "ok" for n, _ in games)
    ctx.case(inp if sum(len(g["players"]) for _, g in games) <= 40 else {"names": [n for n, _ in games], "tag": tag}, nt)
    try:
        with quiet(), time_limit(30.0), impl.maybe_debug() as dbg:
            if dbg:
                with impl.coarse_clock():
                    res = cr.run_games(d)
            else:
                res = cr.run_games(d)
    except Timeout:
        ctx.violation("batch-terminates", inp, {})
        return
    except Exception as e:  # noqa
        ctx.violation("batch-does-not-crash", inp, {"error": type(e).__name__, "msg": str(e)[:200]})
        return
    judge(ctx, games, res, inp, solos)
    for name, g in games:
        a = {k: v for k, v in d[name].items() if k != "prune_states"}
        if a != {k: v for k, v in before[name].items() if k != "prune_states"}:
            ctx.violation("input-dictionary-intact", dict(inp, game=name), {"after": a})
            break
    if model is not None and all(wire.in_c09_domain(g) for _, g in games):
        model.add("batch", {"games": [{"name": n, "game": wire.pygame_payload({k: v for k, v in g.items() if k != "prune_states"})} for n, g in games], "thr": fbits(1e-6)},
                  expect=res, inp=inp, suite="corr.batch", cmp=cmp_batch)


def cmp_batch(expect, r):
    if r.get("outcome") != "ok":
        return f"model batch outcome {r.get('outcome')}"
    ents = r["entries"]
    if [e["key"] for e in ents] != list(expect.keys()):
        return f"keys {list(expect.keys())} vs model {[e['key'] for e in ents]}"
    for e in ents:
        x, m = expect[e["key"]], e["entry"]
        if x["n_states"] != m["n_states"] or x["n_transitions"] != m["n_transitions"]:
            return f"{e['key']}: counts differ"
        kind = m["msg"]["kind"]
        if (x["msg"] == "Game solved") != (kind == "solved") or (x["msg"] == "Game not solved") != (kind == "notsolved"):
            return f"{e['key']}: message {x['msg']!r} vs model {kind}"
        if kind == "error":
            nos = "no solution" in x["msg"].lower()
            if nos != (m["msg"]["err"]["outcome"] == "ValueError:nosolution"):
                return f"{e['key']}: error kind differs"
            # WHICH broken rule a game with several defects reports first is not part of the property (the entry
            # must carry the message the solo solve raises, which `judge` checks): not compared with the model
        if kind == "solved":
            pass           # the values of a solved entry: compared with the SOLO solve by `judge`, with the model by C01..C05, C14
        elif x["rewards"] is not None:
            return f"{e['key']}: failed entry carries values"
    return None


def pool(rng, quick):
    out = []
    k = 0
    while len(out) < (8 if quick else 40):
        g = gen.stopping_game(rng, n_inner=rng.randint(1, 6)) if k % 3 else gen.dead_shape_game(rng, rng.choice([P1, PR]), rng.choice([(0, 1), (1, 0, 1), (1, 1, 0), (0, 1, 1, 0)]))
        k += 1
        if k % 4 == 0:
            g = gen.with_odd_labels(g, rng)[0]               # action names with braces, %, quotes, backslash, newline
        out.append(("g", gen.desc(g)))
    # malformed ones
    base = out[0][1]
    for mut in ("none-row", "bad-index", "neg-reward", "no-final", "short-rewards", "empty-row", "int-row", "float-row",
                "bool-row", "str-row", "two-defects", "short-tl", "long-tl", "neg-and-short-tl", "neg-and-long-rewards",
                "no-final-and-neg"):
        h = copy.deepcopy(base)
        if mut == "none-row":
            h["transition_list"][0] = None
        elif mut == "two-defects":
            # a state without transitions BEFORE a state with an out-of-range successor
            h["transition_list"][0] = None
            lab, _ = h["transition_list"][-3][0]
            h["transition_list"][-3][0] = (lab, len(h["players"]))
        elif mut == "short-tl":
            h["transition_list"] = h["transition_list"][:-1]          # fewer transition lists than players
        elif mut == "long-tl":
            h["transition_list"] = h["transition_list"] + [[(1, 0)]]
        elif mut == "neg-and-short-tl":
            h["rewards"][0] = -3
            h["transition_list"] = h["transition_list"][:-1]
        elif mut == "neg-and-long-rewards":
            h["rewards"] = [-1] + h["rewards"]
        elif mut == "no-final-and-neg":
            h["final_states"] = []
            h["rewards"][-1] = -2
        elif mut == "bad-index":
            lab, _ = h["transition_list"][-3][0]
            h["transition_list"][-3][0] = (lab, len(h["players"]))
        elif mut == "neg-reward":
            h["rewards"][-1] = -1
        elif mut == "no-final":
            h["final_states"] = []
        elif mut == "short-rewards":
            h["rewards"] = h["rewards"][:-1]
        elif mut == "empty-row":
            h["transition_list"][1 % len(h["players"])] = []
        elif mut in ("int-row", "float-row", "bool-row", "str-row"):
            h["transition_list"][1 % len(h["players"])] = {"int-row": 2, "float-row": 0.5, "bool-row": True, "str-row": "ab"}[mut]
        out.append(("bad:" + mut, h))
    # descriptions that already carry a "prune_states" key (the batch runner sets it per pass)
    for i in (0, 1, 2, 3):
        h = copy.deepcopy(out[i][1])
        h["prune_states"] = bool(i % 2)
        out.append(("flagged", h))
    return out


def solo_batch(g):
    """what running the game ALONE through run_games gives (both entries)"""
    cr = repo("conditionalrewards")
    try:
        with quiet(), time_limit(20.0), impl.maybe_debug():
            return cr.run_games({"x": copy.deepcopy(g)})
    except BaseException as e:  # noqa
        return {"error": type(e).__name__}


def run(ctx, model=None):
    ctx.extra["rule"] = RULE
    rng = random.Random(ctx.seed * 694847539 + 12)
    P = pool(rng, ctx.quick())
    N = 40 if ctx.quick() else 12000
    for it in range(N):
        k = rng.randint(1, 6)
        pick = [rng.choice(P) for _ in range(k)]
        if it % 4 == 0:
            bad = rng.choice([p for p in P if p[0].startswith("bad")])
            pos = rng.choice([0, len(pick) // 2, len(pick)])
            pick.insert(pos, bad)
        names = []
        games = []
        for i, (kind, g) in enumerate(pick):
            nm = rng.choice(["game", "g", "x_1", "robot_7_w2", "a_no"]) + f"_{i}"
            if rng.random() < 0.2:
                nm = f"solo{i}_no_prune"      # a name that merely LOOKS like an unpruned entry (no other game is called solo<i>)
            games.append((nm, g))
        solos = {n: solo(g) for n, g in games}
        run_batch(ctx, games, model, "order", solos)
        perm = games[:]
        rng.shuffle(perm)
        run_batch(ctx, perm, model if it % 5 == 0 else None, "permuted", solos)
        if len(games) > 1:
            sub = [x for x in games if rng.random() < 0.6] or games[:1]
            run_batch(ctx, sub, None, "subset", solos)
        if it % (10 if ctx.quick() else 20) == 0:
            cli_batch(ctx, [(n, {k: v for k, v in g.items() if k != "prune_states"}) for n, g in games])
        if ctx.time_left() < 0:
            return


def cli_batch(ctx, games):
    """python conditionalrewards.py -f FILE -s (observe_at of C12): the run must finish and write one
    block per entry, failing games included"""
    import os, shutil, subprocess, sys, tempfile
    from crlib import REPO
    d = tempfile.mkdtemp(prefix="crv_")
    try:
        os.mkdir(os.path.join(d, "inputs"))
        os.mkdir(os.path.join(d, "outputs"))
        def render(g):
            s_ = repr(g)
            # a hand-written input may use builtins: rewards written as list((..)) instead of [..]
            return s_.replace("'rewards': [", "'rewards': list((", 1).replace("], 'players'", ",)), 'players'", 1) \
                if isinstance(g.get("rewards"), list) and g["rewards"] and "'rewards': [" in s_ and "], 'players'" in s_ else s_
        text = "{\n" + ",\n".join(f"    {n!r}: {render(g)}" for n, g in games) + "\n}\n"
        open(os.path.join(d, "inputs", "batch_1.py"), "w").write(text)
        p = subprocess.run([sys.executable, os.path.join(REPO, "conditionalrewards.py"), "-f", "inputs/batch_1.py", "-s"],
                           cwd=d, capture_output=True, text=True, timeout=120,
                           env=dict(os.environ, PYTHONPATH=REPO, PYTHONDONTWRITEBYTECODE="1"))
        out = os.path.join(d, "outputs", "batch_1.txt")
        rep = open(out).read() if os.path.exists(out) else ""
    except subprocess.TimeoutExpired:
        ctx.violation("cli-batch-terminates", {"games": [[n, g] for n, g in games]}, {})
        return
    finally:
        shutil.rmtree(d, ignore_errors=True)
    names = [ln.split(": ", 1)[1] for ln in rep.split("\n") if ln.startswith("Running example")]
    exp = []
    for n, _ in games:
        exp += [n, n + "_no_prune"]
    ctx.case({"cli": [n for n, _ in games]}, True)
    if p.returncode != 0 or names != exp or rep.count("Total time") != len(exp):
        ctx.violation("cli-batch-reports-every-entry", {"games": [[n, g] for n, g in games]},
                      {"rc": p.returncode, "blocks": names, "expected": exp, "stderr": p.stderr[-300:]})


def known_findings(ctx):
    if KEY_CLASH not in ctx.open_keys:
        return []
    cr = repo("conditionalrewards")
    r = random.Random(3)
    g1 = gen.desc(gen.dead_shape_game(r, PR, (0, 1)))
    g2 = gen.desc(gen.dead_shape_game(r, P1, (1, 0)))
    with quiet():
        res = cr.run_games({"a": copy.deepcopy(g1), "a_no_prune": copy.deepcopy(g2)})
    if len(res) < 4:
        return [f"KNOWN-FINDING: property=C12 games named 'a' and 'a_no_prune' share the result key 'a_no_prune': "
                f"{len(res)} entries {list(res.keys())} instead of 4 [{KEY_CLASH}]"]
    return []


def replay(ctx, viol):
    games = []
    for n, g in viol["input"]["games"]:
        if isinstance(g.get("transition_list"), list):
            g["transition_list"] = [([tuple(t) if isinstance(t, list) else t for t in row] if isinstance(row, list) else row)
                                    for row in g["transition_list"]]
        games.append((n, g))
    solos = {n: solo(g) for n, g in games}
    run_batch(ctx, games, None, "replay", solos)
