"""C13 — results do not depend on how the game is written down."""
import json
import os
import random
from fractions import Fraction as Fr

import gen
import impl
import oracles
import wire
from analysis import THR
from crlib import VERIF

P1, P2, PR = gen.P1, gen.P2, gen.PR
KEY_SOLV = "C13.solvable@tad.Solver.value_iteration_reachability:residual-stop"
KEY_TOL = "C13.tolerance@tad.Solver.value_iteration:residual-stop"
TOL = 10 * THR

RULE = ("stopping games (random, dead-successor patterns, slow cycles) and generator boards x a random "
        "state permutation fixing state 0 x per-state transition shuffles x an injective action renaming; "
        "both pruning modes.  No exact oracle needed: the two runs are compared with each other.  "
        "Non-trivial = the transformed description differs from the original in numbering AND in some "
        "transition order.")


def _rename(a):
    return "z_" + a[::-1]


def _unrename(a):
    return a[2:][::-1]


rename, unrename = _rename, _unrename


def lower_bound_residual_ok(g, probs):
    xtl = gen.exact_tl(g)
    fx = [Fr(y) for y in probs]
    b = oracles.bellman_reach(g["players"], xtl, g["final_states"], fx)
    return max(abs(a - c) for a, c in zip(b, fx)) <= THR * (1 + Fr(1, 1000))


def same_system(S1, S2, perm, v1, v2):
    """the listed finding is about two residual-stop approximations of ONE exact vector: the two conditioned
    games must be the same game up to the renumbering/renaming, and states outside it must agree exactly"""
    c1, c2 = S1.cond_as_solved(), S2.cond_as_solved()
    for s in range(S1.n):
        if S1.prune and s not in S1.reach0:
            if v1[s] != v2[perm[s]]:
                return False
            continue
        a = sorted((str(l if not isinstance(l, str) else rename(l)), perm[t]) for l, t in c1[s])
        b = sorted((str(l), t) for l, t in c2[perm[s]])
        if len(a) != len(b):
            return False
        for (la, ta), (lb, tb) in zip(sorted(a, key=lambda x: (x[1], x[0])), sorted(b, key=lambda x: (x[1], x[0]))):
            if ta != tb:
                return False
            if la != lb:
                try:
                    if abs(Fr(la) - Fr(lb)) > Fr(1, 10 ** 9):
                        return False
                except (ValueError, ZeroDivisionError):
                    return False
    return True


def near_tie_split(S1, S2, perm):
    """some player state's reachability strategies differ between the two runs although the reported values of
    its competing successors are within ten thresholds of each other (not exactly equal) in one of the runs: the
    rounded comparison split a near-tie differently (listed findings C04 rounded-compare + residual stop); the
    two conditioned games then differ legitimately"""
    for s in range(S1.n):
        a, b = S1.reach_strat[s], S2.reach_strat[perm[s]]
        if a is None or b is None or set(a) == set(unrename(x) for x in b):
            continue
        row = S1.g["transition_list"][s]
        for vals in ([S1.probs[t] for _, t in row], [S2.probs[perm[t]] for _, t in row]):
            if any(0 < abs(x - y) <= float(TOL) for i, x in enumerate(vals) for y in vals[i + 1:]):
                return True
    return False


def compare(ctx, g, h, perm, prune, o1, o2):
    """o1: result on g, o2: on h = permuted/shuffled/renamed g (perm[old] = new)"""
    inp = {"game": gen.desc(g), "transformed": gen.desc(h), "perm": perm, "prune": prune}
    a, b = o1["outcome"], o2["outcome"]
    if "Timeout" in (a, b):
        ctx.count("timeout_skipped")          # wall-clock dependent; termination is C06's clause
        return
    if a != b:
        sig = None
        if {a, b} == {"ok", "ValueError:nosolution"}:
            ok_o, ok_g = (o1, g) if a == "ok" else (o2, h)
            # listed finding: a sub-threshold value of the initial state, reported as 0 in one numbering
            p0 = ok_o["res"][3][0]
            bad_g = h if a == "ok" else g
            rb = impl.reach_only(bad_g, prune=False)
            if 0 < p0 <= 1e-5 and lower_bound_residual_ok(ok_g, ok_o["res"][3]) and rb["outcome"] == "ok" \
                    and rb["probs"][0] == 0 and lower_bound_residual_ok(bad_g, rb["probs"]):
                sig = KEY_SOLV
        ctx.violation("solvable-verdict", inp, {"original": a, "transformed": b}, key=sig)
        return
    if a != "ok":
        return
    r1, r2 = o1["res"], o2["res"]
    n = len(perm)
    for idx, name in ((3, "probabilities"), (2, "rewards")):
        v1, v2 = r1[idx], r2[idx]
        worst = max(abs(v1[s] - v2[perm[s]]) for s in range(n))
        scale = max(1.0, max(abs(x) for x in v1))
        if worst > float(TOL) * scale:
            # both reports are residual-stop lower bounds of the same exact vector: listed finding
            if idx == 3:
                okres = lower_bound_residual_ok(g, r1[3]) and lower_bound_residual_ok(h, r2[3])
            else:
                from analysis import Solved
                lim = THR * (1 + Fr(1, 1000)) + Fr(1, 10 ** 10) * Fr(scale)
                S1, S2 = Solved(g, prune, o1), Solved(h, prune, o2)
                okres = S1.reward_residual() <= lim and S2.reward_residual() <= lim and \
                    (same_system(S1, S2, perm, v1, v2) or near_tie_split(S1, S2, perm))
            sig = KEY_TOL if okres else None
            ctx.violation(name + "-renumbered", inp, {"max_difference": worst, "original": v1, "transformed": v2}, key=sig)
            return
    # strategies: equal as sets after un-renaming, on states whose competing reported values are
    # pairwise equal or separated by > 10 thresholds in BOTH runs
    ambiguous_reach = False
    for idx, vec in ((1, 3), (0, 2)):
        if idx == 0 and ambiguous_reach:
            # a near-tie split the reachability strategies differently in the two presentations (listed
            # C04 finding); the permitted action sets of the reward phase then differ legitimately
            ctx.count("final_strategies_skipped_after_ambiguous_reach_tie")
            break
        for s in range(n):
            s1, s2 = r1[idx][s], r2[idx][perm[s]]
            if (s1 is None) != (s2 is None):
                ctx.violation("strategy-kind", inp, {"state": s, "original": s1, "transformed": s2})
                return
            if s1 is None:
                continue
            if set(s1) != set(unrename(x) for x in s2):
                row = g["transition_list"][s]
                vals1 = [r1[vec][t] for _, t in row]
                vals2 = [r2[vec][perm[t]] for _, t in row]

                def sep(vs):
                    return all(abs(x - y) < 1e-10 or abs(x - y) > float(TOL) * max(1.0, abs(x))
                               for i, x in enumerate(vs) for y in vs[i + 1:])
                if sep(vals1) and sep(vals2) and all(abs(x - y) < 1e-10 for x, y in zip(vals1, vals2)):
                    ctx.violation("strategies-renamed", inp,
                                  {"state": s, "which": "reachability" if idx == 1 else "final",
                                   "original": s1, "transformed": s2, "values": vals1})
                    return
                ctx.count("ambiguous_near_tie_skipped")
                if idx == 1:
                    ambiguous_reach = True
            elif idx == 1 and [rename(x) for x in s1] != s2 and False:
                pass


CASE = {"map": None}


def check_case(ctx, g, rng, model=None, limit=5.0, shuffle=True, prunes=(True, False), perm=None):
    global rename, unrename
    import time as _t
    _t0 = _t.time()
    n = len(g["players"])
    perm = perm or gen.random_perm_fixing0(rng, n)
    if rng.random() < 0.35:
        # renaming under which different actions differ only in letter case
        m = gen.case_rename_map(g)
        inv = {v: k for k, v in m.items()}
        if m and rng.random() < 0.4:
            k0 = sorted(m)[rng.randrange(len(m))]
            m[k0] = ""                        # the empty string is a legal action name
            inv = {v: k for k, v in m.items()}
            ctx.count("empty_action_name")
        rename, unrename = (lambda a: m.get(a, a)), (lambda a: inv.get(a, a))
        ctx.count("case_only_renaming")
    elif rng.random() < 0.4:
        # names with format characters, surrounding whitespace, canonically equivalent but different spellings
        m = gen.odd_label_map(g, rng)
        inv = {v: k for k, v in m.items()}
        rename, unrename = (lambda a: m.get(a, a)), (lambda a: inv.get(a, a))
        ctx.count("odd_renaming")
    else:
        rename, unrename = _rename, _unrename
    h = gen.permute_game(g, perm, tperm_rng=rng if shuffle else None, rename=rename)
    nt = perm != list(range(n)) and any(
        [t for _, t in a] != [perm_t for _, perm_t in b] for a, b in
        zip([[(l, perm[t]) for l, t in row] for row in g["transition_list"]],
            [h["transition_list"][perm[i]] for i in range(n)]))
    for prune in prunes:
        o1 = impl.solve(g, prune, limit=limit, want_nodes=False)
        o2 = impl.solve(h, prune, limit=limit, want_nodes=False)
        compare(ctx, g, h, perm, prune, o1, o2)
        if n <= 60 and (g.get("_meta", {}).get("family") in ("decimal_sum",) or rng.random() < 0.15):
            # "never changes whether the game is declared solvable": also when warnings are errors (-W error)
            import warnings
            with warnings.catch_warnings():
                warnings.simplefilter("error")
                w1 = impl.solve(g, prune, limit=limit, want_nodes=False)
                w2 = impl.solve(h, prune, limit=limit, want_nodes=False)
            if "Timeout" not in (w1["outcome"], w2["outcome"], o1["outcome"], o2["outcome"]) and \
                    not (w1["outcome"] == o1["outcome"] and w2["outcome"] == o2["outcome"]):
                ctx.violation("same-verdict-when-warnings-are-errors", {"game": gen.desc(g), "transformed": gen.desc(h), "perm": perm, "prune": prune},
                              {"original": [o1["outcome"], w1["outcome"]], "transformed": [o2["outcome"], w2["outcome"]], "msg": w2.get("msg") or w1.get("msg")})
                return
        if model is not None and n <= 400 and o2["outcome"] != "Timeout":
            model.add("solve", dict(wire.game_payload(h), prune=prune), expect=dict(o2, nodes=None),
                      inp={"game": gen.desc(h), "prune": prune} if n <= 30 else {"meta": g.get("_meta")},
                      suite="corr.solve", cmp=wire.staged(ctx, {"outcome", "probs", "reachstrat", "rewards", "final"}))
    ctx.case({"game": gen.desc(g), "perm": perm} if n <= 30 else {"meta": g.get("_meta"), "perm_head": perm[:10]}, nt)
    ctx.count("family=" + str(g.get("_meta", {}).get("family", "?")).split(":")[0])
    import time as _t
    tb = ctx.extra.setdefault("seconds_by_family", {})
    fam = str(g.get("_meta", {}).get("family", "?")).split(":")[0]
    tb[fam] = round(tb.get(fam, 0.0) + (_t.time() - _t0), 2)


def run(ctx, model=None):
    ctx.extra["rule"] = RULE
    rng = random.Random(ctx.seed * 86028121 + 13)
    import analysis as _r5
    _r5rng = random.Random(ctx.seed + 555)
    _r5.odd_label_invariance(ctx, [gen.stopping_game(_r5rng, extra_finals=0.25) for _ in range(6 if ctx.quick() else 80)] +
                             [gen.layered_tie_game(_r5rng) for _ in range(3)], "renaming-unchanged-by-odd-action-names", _r5rng)
    from boards import board_games
    for kind in (PR, P1):
        for pat in gen.all_patterns(4 if ctx.quick() else 5):
            g = gen.dead_shape_game(rng, kind, pat)
            check_case(ctx, g, rng, model)
    for k in range(10 if ctx.quick() else 150):
        check_case(ctx, gen.tiny_reach_game(rng), rng, model)
        check_case(ctx, gen.parallel_dead_game(rng), rng, model)
    for k in range(25 if ctx.quick() else 300):
        check_case(ctx, gen.decimal_sum_game(rng), rng, model)
        check_case(ctx, gen.zero_prob_live_game(rng), rng, model)
        check_case(ctx, gen.zero_prob_dead_game(rng), rng, model)
    import analysis as _an0
    _an0.optimized_interpreter(ctx, [gen.decimal_sum_game(rng) for _ in range(6)] + [gen.stopping_game(rng) for _ in range(6)], "rewards-renumbered")
    for k in range(25 if ctx.quick() else 300):
        check_case(ctx, gen.layered_tie_game(rng), rng, model)
        check_case(ctx, gen.multi_final_game(rng), rng, None, limit=3.0)
        check_case(ctx, gen.tiny_dead_decimal_game(rng), rng, model)
        check_case(ctx, gen.tiny_best_game(rng), rng, model)
    # an unreachable chain of more than a thousand states, numbered with and against its direction
    with impl.forced_debug(False):
        check_case(ctx, gen.cascade_game(1050), rng, None, limit=300.0, prunes=(True,))
        check_case(ctx, gen.cascade_game(1050), rng, None, limit=300.0, prunes=(True,), perm=[0] + list(range(1052, 0, -1)))
    # numberings beyond every "round" size (4096, 10^4, 2^16 states): wide shallow games, 3 sweeps under any numbering
    with impl.forced_debug(False):
        for nn in ([10500, 66000] if ctx.quick() else [4100, 10001, 10500, 65537, 66000, 140000]):
            # (the pruned solve of the code is quadratic in the number of states: unpruned only above 20000)
            check_case(ctx, gen.fan_game(nn, rng), rng, None, limit=300.0, prunes=(True, False) if nn <= 20000 else (False,))
    N = 200 if ctx.quick() else 5000
    for k in range(N):
        g = gen.slow_cycle_game(rng) if k % 7 == 0 else gen.stopping_game(rng)
        check_case(ctx, g, rng, model)
        if ctx.time_left() < 0:
            return
    shapes = [(1, 2), (2, 2), (3, 3)] if ctx.quick() else [(1, 2), (2, 2), (3, 3), (5, 5), (10, 5), (10, 10)]
    for (L, W) in shapes:
        for g in board_games(rng, L, W, fd=True):
            check_case(ctx, g, rng, model, limit=2.0 if ctx.quick() else 30.0)


def known_findings(ctx):
    out = []
    if KEY_SOLV in ctx.open_keys:
        w = json.load(open(os.path.join(VERIF, "findings", "C06-subthreshold.json")))
        g = w["game"]
        g["transition_list"] = [[tuple(t) for t in row] for row in g["transition_list"]]
        g["_x"] = None
        del g["_x"]
        perm = [0, 2, 1, 3, 4, 5]
        h = gen.permute_game(g, perm)
        a, b = impl.solve(g, True)["outcome"], impl.solve(h, True)["outcome"]
        if a != b:
            out.append(f"KNOWN-FINDING: property=C13 solvable verdict flips under renumbering (states a and b swapped): "
                       f"{a} vs {b} on {w['name']} [{KEY_SOLV}]")
    return out


def replay(ctx, viol):
    import analysis as _r5
    if _r5.replay_round5(ctx, viol):
        return
    g = viol["input"]["game"]
    g["transition_list"] = [[tuple(t) for t in row] for row in g["transition_list"]]
    h = viol["input"]["transformed"]
    h["transition_list"] = [[tuple(t) for t in row] for row in h["transition_list"]]
    perm = viol["input"]["perm"]
    if viol.get("clause") == "same-verdict-when-warnings-are-errors":
        import warnings
        prune = viol["input"].get("prune", True)
        o1, o2 = impl.solve(g, prune, want_nodes=False), impl.solve(h, prune, want_nodes=False)
        with warnings.catch_warnings():
            warnings.simplefilter("error")
            w1, w2 = impl.solve(g, prune, want_nodes=False), impl.solve(h, prune, want_nodes=False)
        if not (w1["outcome"] == o1["outcome"] and w2["outcome"] == o2["outcome"]):
            ctx.violation(viol["clause"], viol["input"], {"original": [o1["outcome"], w1["outcome"]], "transformed": [o2["outcome"], w2["outcome"]]})
        return
    for prune in (True, False):
        compare(ctx, g, h, perm, prune, impl.solve(g, prune), impl.solve(h, prune))
