"""C02 — reported expected rewards are the values of the conditioned game."""
import json
import os
import random
from fractions import Fraction as Fr

import analysis
import gen
import impl
import wire
from analysis import Solved, THR
from crlib import VERIF, repo, quiet

P1, P2, PR = gen.P1, gen.P2, gen.PR
KEY_TOL = "C02.tolerance@tad.Solver.value_iteration_total_rewards:residual-stop"

RULE = ("stopping games by construction (random, every dead-successor pattern, slow cycles), example "
        "inputs and small generator boards (Bellman-consistency form); both pruning modes; also through "
        "run_games.  Exact max-min total reward of the independently built conditioned game by "
        "positional-strategy enumeration (<= 400 profiles).  Non-trivial = the initial state's exact "
        "conditioned reward is positive and the game has a cycle or a pruned transition.")


def judge(ctx, g, prune, o, stopping):
    inp = {"game": gen.desc(g), "prune": prune} if len(g["players"]) <= 60 else {"meta": g.get("_meta"), "prune": prune}
    if o["outcome"] not in ("ok", "ValueError:nosolution", "Timeout"):
        # neither a result nor the documented 'no solution': there is no reward to speak of
        ctx.violation("no-result", inp, {"outcome": o["outcome"], "msg": o.get("msg")})
        return True
    if o["outcome"] != "ok":
        return None
    S = Solved(g, prune, o)
    states = sorted(S.reach0) if prune else list(range(S.n))
    # Bellman-consistency (all games): residual of the report under the conditioned equations
    res = S.reward_residual()
    scale = max([1] + [abs(Fr(x)) for x in S.rewards])
    ctx.extra["max_reward_residual_seen"] = max(ctx.extra.get("max_reward_residual_seen", 0.0), float(res))
    if res > THR * (1 + Fr(1, 1000)) + Fr(1, 10 ** 10) * scale:
        ctx.violation("bellman-consistency", inp,
                      {"residual": float(res), "rewards": S.rewards, "conditioned": S.cond_as_solved(),
                       "reach_strategies": S.reach_strat, "probs": S.probs})
        return True
    if not stopping or not S.small():
        return any(Fr(x) > 0 for x in S.rewards)
    w = S.reward_value()
    ctx.count("exact_reward_checked")
    for s in states:
        if w[s] is None:
            ctx.count("infinite_value_skipped")
            return True
    worst = max(abs(Fr(S.rewards[s]) - w[s]) for s in states)
    ctx.extra["max_reward_error_seen"] = max(ctx.extra.get("max_reward_error_seen", 0.0), float(worst))
    for s in states:
        if abs(Fr(S.rewards[s]) - w[s]) > THR + Fr(1, 10 ** 9) * scale:
            # listed finding = residual stop: Bellman-consistent up to the threshold (checked above) AND below the
            # exact value everywhere (C02Bound.rew_le_least: the iterates never exceed it)
            below = all(Fr(S.rewards[t]) <= w[t] + Fr(1, 10 ** 9) * scale for t in states)
            ctx.violation("within-tolerance", inp,
                          {"state": s, "reported": S.rewards[s], "value": w[s], "residual": float(res),
                           "conditioned": S.cond_as_solved()}, key=KEY_TOL if below else None)
            return True
    if g.get("_meta", {}).get("family") == "integer":
        # no float anywhere in the description: the solver's arithmetic is exact integer arithmetic
        for s in states:
            if Fr(S.rewards[s]) != w[s] or isinstance(S.rewards[s], float) and w[s] > 2 ** 53:
                ctx.violation("exact-on-integer-games", inp, {"state": s, "reported": repr(S.rewards[s]), "value": str(w[s])})
                return True
    pruned_any = any(len(a) != len(b) for a, b in zip(S.cond, S.xtl))
    return w[0] is not None and w[0] > 0 and (pruned_any or g.get("_meta", {}).get("family") == "slow_cycle")


def check_case(ctx, g, model=None, stopping=True, limit=5.0):
    nt = False
    for prune in (True, False):
        o = impl.solve(g, prune, limit=limit)
        if o["outcome"] == "Timeout":
            ctx.count("timeout" + ("" if stopping else "_nonstopping"))
            continue
        r = judge(ctx, g, prune, o, stopping)
        nt = nt or bool(r)
        if model is not None and len(g["players"]) <= 12 and stopping and g.get("_meta", {}).get("family") not in ("slow_reward", "big_slow_reward"):
            model.add("solve", dict(wire.game_payload(g, exact=True), prune=prune, fuel=20000), expect=o,
                      inp={"game": gen.desc(g), "prune": prune}, suite="exact.rewards",
                      cmp=wire.measure_dev(ctx, "float_vs_exact_max_abs_dev", 2, "rewards"))
        if model is not None and len(g["players"]) <= 400:
            model.add("solve", dict(wire.game_payload(g), prune=prune), expect=o,
                      inp={"game": gen.desc(g), "prune": prune} if len(g["players"]) <= 30 else {"meta": g.get("_meta")},
                      suite="corr.rewards", cmp=wire.staged(ctx, {"rewards"}, ("outcome", "probs", "reachstrat", "nodes")))
    small = len(g["players"]) <= 30
    ctx.case({"game": gen.desc(g)} if small else {"meta": g.get("_meta")}, nt)
    ctx.count("family=" + str(g.get("_meta", {}).get("family", "?")).split(":")[0])


def through_run_games(ctx, games):
    """run_games()[name]['rewards'] must be what solve() returns (observe_at of C02)"""
    cr = repo("conditionalrewards")
    d = {f"g{i}": gen.desc(g) for i, g in enumerate(games)}
    for i in range(len(games)):
        if i % 3 == 1:
            d[f"g{i}"]["prune_states"] = (i % 2 == 0)     # a description that was also used as StochasticGame(**g) kwargs
    with quiet():
        res = cr.run_games(d)
    for i, g in enumerate(games):
        for prune, key in ((True, f"g{i}"), (False, f"g{i}_no_prune")):
            o = impl.solve(g, prune)
            if o["outcome"] == "ok" and res[key]["msg"] == "Game solved" and res[key]["rewards"] != o["res"][2]:
                ctx.violation("run_games-rewards-differ", {"game": gen.desc(g), "prune": prune},
                              {"run_games": res[key]["rewards"], "solve": o["res"][2]})
            ctx.count("through_run_games")


def run(ctx, model=None):
    ctx.extra["rule"] = RULE
    rng = random.Random(ctx.seed * 6700417 + 2)
    import analysis as _r5
    _r5rng = random.Random(ctx.seed + 555)
    _r5.round5_passes(ctx, _r5rng, [gen.stopping_game(_r5rng, extra_finals=0.25) for _ in range(3 if ctx.quick() else 40)] +
                      [gen.slow_cycle_game(_r5rng), gen.decimal_tie_game(_r5rng)], "rewards", fields=[2, 3])
    from props.c10 import example_games
    from boards import board_games
    for g in example_games():
        check_case(ctx, g, model, stopping=False)
    for kind in (PR, P1):
        for pat in gen.all_patterns(3 if ctx.quick() else 5):
            check_case(ctx, gen.dead_shape_game(rng, kind, pat), model)
    for k in range(12 if ctx.quick() else 200):
        check_case(ctx, gen.tiny_reach_game(rng), model)
        check_case(ctx, gen.parallel_dead_game(rng), model)
    for k in range(3 if ctx.quick() else 20):
        check_case(ctx, gen.slow_reward_game(rng), model, limit=60.0)
    analysis.optimized_interpreter(ctx, [gen.dead_shape_game(rng, PR, pat) for pat in gen.all_patterns(3)][:10] +
                                   [gen.stopping_game(rng, dead_frac=0.5) for _ in range(6)], "bellman-consistency", fields=[2])
    for k in range(8 if ctx.quick() else 100):
        check_case(ctx, gen.tiny_best_game(rng), model)
        check_case(ctx, gen.zero_prob_dead_game(rng), model)
        check_case(ctx, gen.subnormal_reach_game(rng), model)
        check_case(ctx, gen.duplicate_label_game(rng), model)
        check_case(ctx, gen.tiny_dead_decimal_game(rng), model)
        check_case(ctx, gen.big_slow_reward_game(rng), model, limit=60.0)
    # conditioning cascades of more than a thousand rounds (one orphaned state per round)
    check_case(ctx, gen.cascade_game(1050), None, limit=120.0)
    for k in range(20 if ctx.quick() else 300):
        check_case(ctx, gen.integer_game(rng), None)
        check_case(ctx, gen.with_huge_rewards(gen.layered_tie_game(rng)), model)
    N = 200 if ctx.quick() else 5000
    batch = []
    for k in range(N):
        g = gen.slow_cycle_game(rng) if k % 6 == 0 else gen.stopping_game(rng)
        check_case(ctx, g, model)
        if k % 10 == 0:
            batch.append(g)
        if ctx.time_left() < 0:
            return
    through_run_games(ctx, batch[:20 if ctx.quick() else 200])
    import analysis as _an
    _pool = []
    _r2 = random.Random(ctx.seed + 4242)
    while len(_pool) < 14:
        _pool.append(gen.stopping_game(_r2, n_inner=_r2.randint(2, 5), dead_frac=_r2.choice([0.0, 0.6])))
    for _k in range(4 if ctx.quick() else 40):
        _an.batch_vs_alone(ctx, _r2.sample(_pool, _r2.randint(2, 5)), ['rewards'], 'run_games-rewards-equal-solo-run')
    shapes = [(1, 1), (2, 1), (1, 2), (2, 2)] if ctx.quick() else [(1, 1), (2, 1), (1, 2), (2, 2), (3, 3), (2, 4), (5, 5)]
    for (L, W) in shapes:
        for fd in (False, True):
            for g in board_games(rng, L, W, fd):
                check_case(ctx, g, model, stopping=False, limit=3.0)


def known_findings(ctx):
    if KEY_TOL not in ctx.open_keys:
        return []
    w = json.load(open(os.path.join(VERIF, "findings", "C02-residual-stop.json")))
    g = w["game"]
    g["transition_list"] = [[tuple(t) for t in row] for row in g["transition_list"]]
    o = impl.solve(g, True)
    if o["outcome"] == "ok":
        S = Solved(g, True, o)
        v = S.reward_value()
        if v[0] is not None and abs(Fr(S.rewards[0]) - v[0]) > THR:
            return [f"KNOWN-FINDING: property=C02 reward value iteration stops on small change, not small error: "
                    f"state 0 of {w['name']} reports {S.rewards[0]!r} for the value {float(v[0])!r} [{KEY_TOL}]"]
    return []


def replay(ctx, viol):
    import analysis as _r5
    if _r5.replay_round5(ctx, viol, fields=[2, 3]):
        return
    g = viol["input"]["game"]
    g["transition_list"] = [[tuple(t) for t in row] for row in g["transition_list"]]
    check_case(ctx, g, None)
