"""C10 — solving leaves the description intact and is repeatable."""
import copy
import random

import gen
import impl
from crlib import repo

P1, P2, PR = gen.P1, gen.P2, gen.PR

RULE = ("stopping / dead-shape / example games x operation sequences of 2-4 solves over {same "
        "object, fresh object} x {pruned, unpruned} on ONE shared description (no copy).  "
        "Non-trivial = the pruned solve actually removes or rescales at least one transition.")


def canon_res(o):
    if o["outcome"] != "ok":
        return (o["outcome"],)
    r = o["res"]
    return ("ok", repr(r[0]), repr(r[1]), repr(r[2]), repr(r[3]), r[4], r[5], repr(r[6]), repr(r[7]))


def check_case(ctx, g, ops, model=None):
    """ops: list of (prune, reuse_object_index or None)"""
    tad = repo("tad")
    shared = gen.desc(g)                      # the caller's description, never copied below
    before = copy.deepcopy(shared)
    objs = []
    results = {}
    trace = []
    pruned_something = False
    for prune, reuse in ops:
        if reuse is not None and reuse < len(objs) and objs[reuse][0] == prune:
            sg = objs[reuse][1]
        else:
            sg = tad.StochasticGame(shared["rewards"], shared["players"], shared["transition_list"],
                                    shared["final_states"], prune_states=prune)
            objs.append((prune, sg))
        o = impl.solve_inplace(shared, prune, limit=5.0, sg=sg)
        trace.append({"prune": prune, "reuse": reuse, "outcome": o["outcome"]})
        if o["outcome"] == "Timeout":
            ctx.count("timeout")
            return
        if prune and o.get("nodes"):
            pruned_something |= any(len(a) != len(b) for a, b in zip(o["nodes"], before["transition_list"]))
        inp = {"game": before, "ops": [list(x) for x in ops]}
        if shared != before:
            diffs = [k for k in before if shared.get(k) != before[k]]
            ctx.violation("description-changed", inp,
                          {"after_op": len(trace), "changed": diffs,
                           "transition_list_after": shared["transition_list"], "trace": trace})
            break
        c = canon_res(o)
        if prune in results and results[prune] != c:
            ctx.violation("not-repeatable", inp, {"first": results[prune][:5], "again": c[:5], "trace": trace})
            break
        results.setdefault(prune, c)
    ctx.case({"game": before, "ops": [list(x) for x in ops]}, pruned_something)
    ctx.count("ops=" + "".join("P" if p else "U" for p, _ in ops))
    if model is not None:
        from wire import game_payload
        model.add("solve_post", dict(game_payload(g), prune=True),
                  expect={"post": shared["transition_list"], "before": before["transition_list"]},
                  inp={"game": before}, suite="corr.alias")


def op_sequences(rng, quick):
    base = [[(True, None), (True, None)], [(True, None), (False, None)], [(False, None), (True, None)],
            [(True, None), (True, 0)], [(False, None), (False, 0), (True, None)],
            [(True, None), (False, None), (True, 0), (False, 1)]]
    return base


def example_games():
    cr = repo("conditionalrewards")
    import os
    from crlib import REPO
    out = []
    for f in ("paper_games.py", "example_games.py", "example_17_08.py"):
        p = os.path.join(REPO, "inputs", f)
        if os.path.exists(p):
            try:
                for name, g in cr.read_dict_from_file(p).items():
                    g = {k: v for k, v in g.items() if k != "prune_states"}
                    g["_meta"] = {"family": "example:" + name}
                    out.append(g)
            except Exception:
                pass
    return out


def run(ctx, model=None):
    ctx.extra["rule"] = RULE
    rng = random.Random(ctx.seed * 15485863 + 10)
    seqs = op_sequences(rng, ctx.quick())
    games = []
    for g in example_games():
        games.append(g)
    for kind in (PR, P1):
        for pat in gen.all_patterns(3 if ctx.quick() else 4):
            games.append(gen.dead_shape_game(rng, kind, pat))
    N = 150 if ctx.quick() else 3000
    for k in range(N):
        games.append(gen.stopping_game(rng))
    for i, g in enumerate(games):
        for ops in (seqs if (not ctx.quick() or i % 3 == 0) else [seqs[i % len(seqs)]]):
            check_case(ctx, g, ops, model if ops is seqs[0] or ctx.quick() else None)
        if ctx.time_left() < 0:
            break


def replay(ctx, viol):
    g = viol["input"]["game"]
    g["transition_list"] = [[tuple(t) for t in row] for row in g["transition_list"]]
    check_case(ctx, g, [tuple(x) for x in viol["input"]["ops"]], None)
