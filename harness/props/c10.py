"""C10 — solving leaves the description intact and is repeatable."""
import copy
import random
from fractions import Fraction as Fr

import gen
import impl
from crlib import repo

P1, P2, PR = gen.P1, gen.P2, gen.PR

RULE = ("stopping / dead-shape / example games x operation sequences of 2-4 solves over {same "
        "object, fresh object} x {pruned, unpruned} on ONE shared description (no copy).  "
        "Non-trivial = the pruned solve actually removes or rescales at least one transition.")


class WatchedList(list):
    """a list that records every in-place modification (even one that is undone later)"""
    log = []

    def _hit(self, what):
        WatchedList.log.append(what)


def _mk(name):
    def f(self, *a, **k):
        self._hit(name)
        return getattr(list, name)(self, *a, **k)
    return f


for _n in ("append", "extend", "insert", "remove", "pop", "clear", "sort", "reverse", "__setitem__", "__delitem__",
           "__iadd__", "__imul__"):
    setattr(WatchedList, _n, _mk(_n))


def watched(desc):
    d = dict(desc)
    d["transition_list"] = WatchedList(WatchedList(r) if isinstance(r, list) else r for r in desc["transition_list"])
    d["rewards"] = WatchedList(desc["rewards"])
    d["players"] = WatchedList(desc["players"])
    d["final_states"] = WatchedList(desc["final_states"])
    return d


def canon_res(o):
    if o["outcome"] != "ok":
        return (o["outcome"],)
    r = o["res"]
    return ("ok", repr(r[0]), repr(r[1]), repr(r[2]), repr(r[3]), r[4], r[5], repr(r[6]), repr(r[7]))


def check_case(ctx, g, ops, model=None):
    """ops: list of (prune, reuse_object_index or None)"""
    tad = repo("tad")
    plain = gen.desc(g)
    before = copy.deepcopy(plain)
    shared = watched(plain)                   # the caller's description, never copied below
    WatchedList.log = []
    objs = []
    results = {}
    trace = []
    results_seq = []
    pruned_something = False
    for prune, reuse in ops:
        if reuse is not None and reuse < len(objs):
            sg = objs[reuse][1]
            sg.prune_states = prune            # the same object, possibly in the other pruning mode
        else:
            sg = tad.StochasticGame(shared["rewards"], shared["players"], shared["transition_list"],
                                    shared["final_states"], prune_states=prune)
            objs.append((prune, sg))
        o = impl.solve_inplace(shared, prune, limit=5.0, sg=sg)
        trace.append({"prune": prune, "reuse": reuse, "outcome": o["outcome"]})
        results_seq.append(copy.deepcopy({k: o.get(k) for k in ("outcome", "res")}))
        if o["outcome"] == "Timeout":
            ctx.count("timeout")
            return
        if prune and o.get("nodes"):
            pruned_something |= any(len(a) != len(b) for a, b in zip(o["nodes"], before["transition_list"]))
        inp = {"game": before, "ops": [list(x) for x in ops]}
        if WatchedList.log:
            ctx.violation("in-place-edit-of-callers-lists", inp, {"after_op": len(trace), "operations": WatchedList.log[:8], "trace": trace})
            break
        if {k: (list(v) if isinstance(v, list) else v) for k, v in shared.items()} != before:
            diffs = [k for k in before if shared.get(k) != before[k]]
            ctx.violation("description-changed", inp,
                          {"after_op": len(trace), "changed": diffs,
                           "transition_list_after": shared["transition_list"], "trace": trace})
            break
        c = canon_res(o)
        if o["outcome"] == "ok":
            # a caller may edit what it got back; this must not leak into later solves
            for vec in o["res"][:2]:
                for s_ in vec:
                    if isinstance(s_, list):
                        s_.append("<edited by the caller>")
        if prune in results and results[prune] != c:
            ctx.violation("not-repeatable", inp, {"first": results[prune][:5], "again": c[:5], "trace": trace})
            break
        results.setdefault(prune, c)
    ctx.case({"game": before, "ops": [list(x) for x in ops]}, pruned_something)
    ctx.count("ops=" + "".join("P" if p else "U" for p, _ in ops))
    if model is not None and len(trace) == len(ops):
        import wire
        outs = [r for r in results_seq]
        model.add("solve_seq", dict(wire.game_payload(g), modes=[bool(p) for p, _ in ops]),
                  expect={"post": shared["transition_list"], "outs": outs},
                  inp={"game": before, "ops": [list(x) for x in ops]}, suite="corr.alias", cmp=cmp_seq)


def cmp_seq(expect, r):
    import wire
    if r.get("outcome") != "ok":
        return f"model outcome {r.get('outcome')}"
    d = wire.nodes_diff(expect["post"], r["post"])
    if d:
        return "caller's transition lists after the sequence: " + d
    if len(expect["outs"]) != len(r["results"]):
        return "number of results differs"
    for k, (o, m) in enumerate(zip(expect["outs"], r["results"])):
        if o["outcome"] != "Timeout" and o["outcome"] != m.get("outcome"):
            return f"solve #{k + 1}: outcome {o['outcome']} vs model {m.get('outcome')}"
    return None            # the VALUES of each solve are compared by C01..C05, C14; repeatability is judged on the implementation itself


def op_sequences(rng, quick):
    base = [[(True, None), (True, None)], [(True, None), (False, None)], [(False, None), (True, None)],
            [(True, None), (True, 0)], [(False, None), (False, 0), (True, None)],
            [(True, None), (False, None), (True, 0), (False, 1)],
            [(False, None), (True, 0)], [(True, None), (False, 0), (True, 0)], [(False, None), (True, 0), (False, 0)]]
    return base


def example_games():
    cr = repo("conditionalrewards")
    import os
    from crlib import REPO
    out = []
    for f in ("paper_games.py", "example_games.py", "example_17_08.py"):
        p = os.path.join(REPO, "inputs", f)
        if os.path.exists(p):
            try:
                for name, g in cr.read_dict_from_file(p).items():
                    g = {k: v for k, v in g.items() if k != "prune_states"}
                    g["_meta"] = {"family": "example:" + name}
                    out.append(g)
            except Exception:
                pass
    return out


def clock_independence(ctx):
    """a solve that needs many thousands of sweeps returns the same thing on a machine on which every sweep
    takes a second (the clocks of the time module are made to race inside the second solve)"""
    for gam in (Fr(999, 1000), Fr(9995, 10000)):
        for kind in (P1, P2):
            g = gen.finish([1, 0, 1, 0, 0], [kind, PR, PR, PR, PR],
                           [[("a", 1), ("b", 2)], [(Fr(1, 2), 4), (Fr(1, 2), 3)],
                            [(gam, 2), ((1 - gam) / 2, 4), ((1 - gam) / 2, 3)], [(Fr(1), 3)], [(Fr(1), 4)]], [4],
                           {"family": "many_sweeps"})
            for prune in (True, False):
                a = impl.solve(g, prune, limit=60.0, want_nodes=False)
                with impl.racing_clock():
                    b = impl.solve(g, prune, limit=60.0, want_nodes=False)
                ctx.case({"game": gen.desc(g), "prune": prune, "family": "many_sweeps"}, a["outcome"] == "ok" and a["res"][4] > 4096)
                if "Timeout" in (a["outcome"], b["outcome"]):
                    ctx.count("timeout")
                    continue
                if canon_res(a) != canon_res(b):
                    ctx.violation("not-repeatable", {"game": gen.desc(g), "prune": prune, "second_solve": "with racing clocks"},
                                  {"first": list(canon_res(a))[:8], "again": list(canon_res(b))[:8]})
                    return


def edit_between_solves(ctx, rng, count, clause="not-repeatable"):
    """solve, EDIT the description in place (an action removed from a player state, or a row replaced; the
    list objects stay the same), solve again: the second result is that of the edited game solved from
    scratch in a fresh copy -- nothing may be remembered from the first solve"""
    done = 0
    while done < count:
        g = gen.stopping_game(rng, n_inner=rng.randint(3, 7))
        shared = gen.desc(g)
        cand = [s for s, (pl, row) in enumerate(zip(shared["players"], shared["transition_list"])) if pl != PR and len(row) >= 2]
        if not cand:
            continue
        done += 1
        for prune in (True, False):
            orig = copy.deepcopy(shared)
            first = impl.solve_inplace(shared, prune, want_nodes=False)
            if {k: v for k, v in shared.items() if k != "prune_states"} != {k: v for k, v in orig.items() if k != "prune_states"}:
                # the solve itself edited the caller's description: C10's own clause (here only when run for C10)
                if clause == "not-repeatable":
                    ctx.violation("description-changed", {"game": orig, "ops": [[prune, None]]},
                                  {"changed": [k for k in orig if shared.get(k) != orig[k]], "transition_list_after": shared["transition_list"]})
                    return
                break
            s = rng.choice(cand)
            before = copy.deepcopy(shared)
            if rng.random() < 0.5 and len(shared["transition_list"][s]) >= 2:
                shared["transition_list"][s].pop(rng.randrange(len(shared["transition_list"][s])))
            else:
                row = shared["transition_list"][s]
                shared["transition_list"][s] = [row[rng.randrange(len(row))]]
            fresh = impl.solve(copy.deepcopy(shared), prune, want_nodes=False)
            again = impl.solve_inplace(shared, prune, want_nodes=False)
            ctx.case({"game": before, "edited_state": s, "after": copy.deepcopy(shared), "prune": prune, "family": "edit_between_solves"},
                     canon_res(first) != canon_res(fresh))
            if "Timeout" in (first["outcome"], fresh["outcome"], again["outcome"]):
                ctx.count("timeout")
                break
            if canon_res(again) != canon_res(fresh):
                ctx.violation(clause, {"game": before, "edited_state": s, "edited_description": copy.deepcopy(shared), "prune": prune,
                                                 "sequence": "solve, edit in place, solve"},
                              {"second_solve": list(canon_res(again))[:6], "edited_game_solved_from_scratch": list(canon_res(fresh))[:6]})
                return
            # ... and back: the edit is undone in place (transitions are ADDED), third solve = the original game
            shared["transition_list"][s][:] = before["transition_list"][s]
            back = impl.solve_inplace(shared, prune, want_nodes=False)
            if back["outcome"] != "Timeout" and canon_res(back) != canon_res(first):
                ctx.violation(clause, {"game": before, "edited_state": s, "prune": prune,
                                                 "sequence": "solve, remove transitions in place, solve, put them back in place, solve"},
                              {"third_solve": list(canon_res(back))[:6], "first_solve": list(canon_res(first))[:6]})
                return


def run(ctx, model=None):
    ctx.extra["rule"] = RULE
    clock_independence(ctx)
    edit_between_solves(ctx, random.Random(ctx.seed + 77), 40 if ctx.quick() else 1500)
    import analysis as _an
    _r = random.Random(ctx.seed + 1010)
    # "solving the same description again ... returns identical results": also when the process environment differs
    # between the two solves (decimal context, environment variables the solver turns out to read)
    _an.environment_independence(ctx, [gen.slow_cycle_game(_r) for _ in range(2)] + [gen.stopping_game(_r) for _ in range(4 if ctx.quick() else 60)] +
                                 [gen.decimal_tie_game(_r), gen.all_dead_game(_r)], "identical-in-another-process-environment")
    _an.described_at_solve_time(ctx, [gen.stopping_game(_r, extra_finals=0.25) for _ in range(4 if ctx.quick() else 60)],
                                "same-object-solves-the-description-it-holds")
    rng = random.Random(ctx.seed * 15485863 + 10)
    seqs = op_sequences(rng, ctx.quick())
    games = []
    for g in example_games():
        games.append(g)
    for kind in (PR, P1):
        for pat in gen.all_patterns(3 if ctx.quick() else 4):
            games.append(gen.dead_shape_game(rng, kind, pat))
    N = 150 if ctx.quick() else 12000
    for k in range(N):
        games.append(gen.stopping_game(rng))
    for k in range(30 if ctx.quick() else 200):
        games.append(gen.decimal_sum_game(rng))
    # unsolvable games (initial state cannot reach / is forced away from the final state)
    k = 0
    while k < (10 if ctx.quick() else 100):
        g = gen.stopping_game(rng, n_inner=rng.randint(2, 5), dead_frac=0.7)
        if impl.solve(g, True, want_nodes=False)["outcome"] == "ValueError:nosolution":
            games.insert(rng.randrange(len(games)), g)
            k += 1
    tie_games = [gen.layered_tie_game(rng) for _ in range(12 if ctx.quick() else 100)] + \
        [gen.slow_cycle_game(rng) for _ in range(4)]
    # twins: the same transitions and final states, one state handed to the other player
    for g0 in list(tie_games[:6]):
        pl = list(g0["players"])
        idx = [i for i, p in enumerate(pl) if p != PR]
        if idx:
            i = idx[0]
            pl[i] = P2 if pl[i] == P1 else P1
            tie_games.append(gen.finish(g0["rewards"], pl, gen.exact_tl(g0), g0["final_states"], {"family": "owner_twin"}))
    hashseed_stability(ctx, tie_games)
    for i, g in enumerate(games):
        unsolv = impl.solve(g, True, want_nodes=False)["outcome"] != "ok" if ctx.quick() else False
        special = g.get("_meta", {}).get("family") == "decimal_sum"
        for ops in (seqs if (not ctx.quick() or i % 3 == 0 or unsolv or special) else [seqs[i % len(seqs)]]):
            check_case(ctx, g, ops, model if ops is seqs[0] or ctx.quick() else None)
        if ctx.time_left() < 0:
            break


def hashseed_stability(ctx, games):
    """a fresh interpreter with a different string-hash seed must return the same results (set / dict
    iteration order must not leak into strategies)"""
    import json, os, subprocess, sys, tempfile
    from crlib import REPO
    prog = ("import json,sys\nsys.path.insert(0, %r)\nimport logging\nlogging.disable(logging.CRITICAL)\n"
            "from tad import StochasticGame\nout=[]\n"
            "gs = json.load(open(sys.argv[1]))\n"
            "order = list(range(len(gs)))\n"
            "if sys.argv[2] == 'rev': order.reverse()\n"
            "res = {}\n"
            "for k in order:\n"
            "    g = gs[k]\n"
            "    g['transition_list']=[[tuple(t) for t in r] for r in g['transition_list']]\n"
            "    for p in (True, False):\n"
            "        try:\n            res[(k, p)] = repr(StochasticGame(**g, prune_states=p).solve())\n"
            "        except Exception as e:\n            res[(k, p)] = type(e).__name__\n"
            "for k in range(len(gs)):\n    out += [res[(k, True)], res[(k, False)]]\n"
            "print(json.dumps(out))\n") % REPO
    with tempfile.NamedTemporaryFile("w", suffix=".json", delete=False) as f:
        json.dump([gen.desc(g) for g in games], f)
        path = f.name
    try:
        outs = []
        for hs, order in (("1", "fwd"), ("2", "rev"), ("3", "fwd"), ("123", "rev")):
            # different string-hash seeds AND different orders of solving the games in the process
            p = subprocess.run([sys.executable, "-c", prog, path, order], capture_output=True, text=True, timeout=120,
                               env=dict(os.environ, PYTHONHASHSEED=hs, PYTHONDONTWRITEBYTECODE="1"))
            outs.append(p.stdout.strip().split("\n")[-1] if p.returncode == 0 else "rc=%d %s" % (p.returncode, p.stderr[-200:]))
    finally:
        os.unlink(path)
    ctx.case({"fresh_interpreters_with_hash_seeds": len(games)}, True)
    if len(set(outs)) != 1:
        a, b = json.loads(outs[0]) if outs[0].startswith("[") else outs[0], None
        for o in outs[1:]:
            if o != outs[0]:
                b = json.loads(o) if o.startswith("[") else o
                break
        idx = next((i for i, (x, y) in enumerate(zip(a, b)) if x != y), 0) if isinstance(a, list) and isinstance(b, list) else 0
        ctx.violation("identical-in-a-fresh-interpreter", {"game": gen.desc(games[idx // 2]), "ops": [[idx % 2 == 0, None]]},
                      {"one": a[idx][:300] if isinstance(a, list) else a, "other": b[idx][:300] if isinstance(b, list) else b})


def replay(ctx, viol):
    g = viol["input"]["game"]
    g["transition_list"] = [[tuple(t) for t in row] for row in g["transition_list"]]
    import analysis as _an
    if viol.get("clause") == "identical-in-another-process-environment":
        return _an.environment_independence(ctx, [g], viol["clause"])
    if viol.get("clause") == "same-object-solves-the-description-it-holds":
        return _an.described_at_solve_time(ctx, [g], viol["clause"])
    check_case(ctx, g, [tuple(x) for x in viol["input"]["ops"]], None)
