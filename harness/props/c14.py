"""C14 — cross-objective diagnostics match the reported strategies."""
import itertools
import random
from fractions import Fraction as Fr

import gen
import impl
import oracles
import wire
from analysis import Solved, THR

P1, P2, PR = gen.P1, gen.P2, gen.PR
TOL = 10 * THR
KEY_TOL = "C14.tolerance@tad.Solver.value_iteration_total_rewards:residual-stop"

RULE = ("solvable stopping games (random, dead-successor patterns, slow cycles, example inputs) whose "
        "final strategies are single actions at every player state reachable from the initial state; both "
        "pruning modes.  The induced Markov chain / Player-2-restricted MDP is built from the REPORTED "
        "strategies on the independently conditioned game and solved exactly.  Non-trivial = at least "
        "one reachable player state has two or more permitted actions.")


def z_residual(S, chain, reach):
    z = [Fr(x) for x in S.prob_min_rew]
    worst = Fr(0)
    for s in reach:
        if chain[s]:
            worst = max(worst, abs(sum((p * z[t] for p, t in chain[s]), Fr(0)) - z[s]))
    return worst


def w_residual(S, chain, cond, reach, rewards):
    w = [Fr(x) for x in S.rew_min_reach]
    worst = Fr(0)
    for s in reach:
        if not cond[s]:
            continue
        if S.players[s] == P2:
            ts = [t for a, t in cond[s] if a in (S.reach_strat[s] or [])]
            val = (min(w[t] for t in ts) + rewards[s]) if ts else Fr(0)
        else:
            val = rewards[s] + sum((p * w[t] for p, t in chain[s]), Fr(0))
        worst = max(worst, abs(val - w[s]))
    return worst


def judge(ctx, g, prune, o):
    if o["outcome"] not in ("ok", "ValueError:nosolution", "Timeout"):
        ctx.violation("no-result", {"game": gen.desc(g), "prune": prune}, {"outcome": o["outcome"], "msg": o.get("msg")})
        return True
    if o["outcome"] != "ok":
        return None
    S = Solved(g, prune, o)
    inp = {"game": gen.desc(g), "prune": prune}
    cond = S.cond_as_solved()
    reach = sorted(S.reach0) if prune else list(range(S.n))
    # quantifier: single-action final strategies (no reward ties) at the reachable player states
    for s in reach:
        if S.players[s] != PR and cond[s] and len(S.final_strat[s] or []) != 1:
            ctx.count("skipped_reward_tie")
            return None
    nontriv = any(S.players[s] != PR and len(cond[s]) >= 2 for s in reach)

    def pick(s, act):
        for a, t in cond[s]:
            if a == act:
                return t
        return None
    # chain under both final strategies
    chain = []
    for s in range(S.n):
        if S.players[s] == PR or not cond[s]:
            chain.append([(Fr(p), t) for p, t in cond[s]] if S.players[s] == PR else [])
        else:
            fs = S.final_strat[s] or []
            t = pick(s, fs[0]) if fs else None
            chain.append([(Fr(1), t)] if t is not None else [])
    # emptied states are worth 0 even if final: a final state keeps value 1 (it is never emptied
    # when reachable); chain_reach pins finals to 1
    z = oracles.chain_reach(chain, [f for f in S.finals])
    for s in reach:
        if not cond[s] and s not in S.finals:
            continue
        exp = z[s] if cond[s] else Fr(0)
        if abs(Fr(S.prob_min_rew[s]) - exp) > TOL:
            # listed finding = residual stop: the report is consistent with the chain equations up to the threshold
            # AND approaches the exact vector from below (never above it, never above 1)
            res_ok = z_residual(S, chain, reach) <= THR * (1 + Fr(1, 1000)) and \
                all(Fr(S.prob_min_rew[t]) <= (z[t] if cond[t] or t in S.finals else Fr(0)) + Fr(1, 10 ** 9) for t in reach)
            ctx.violation("prob-under-min-reward", inp,
                          {"state": s, "reported": S.prob_min_rew[s], "expected": exp,
                           "final_strategies": S.final_strat}, key=KEY_TOL if res_ok else None)
            return nontriv
    if prune and abs(Fr(S.prob_min_rew[0]) - 1) > TOL:
        ctx.violation("prob-from-initial-is-1", inp, {"reported": S.prob_min_rew[0]},
                      key=KEY_TOL if (z_residual(S, chain, reach) <= THR * (1 + Fr(1, 1000)) and Fr(S.prob_min_rew[0]) <= 1) else None)
        return nontriv
    # rewards when P1 follows its final strategy and P2 its reachability strategy (cheapest)
    p2_states = [s for s in range(S.n) if S.players[s] == P2 and cond[s]]
    opts = []
    for s in p2_states:
        rs = S.reach_strat[s] or []
        ts = [t for a, t in cond[s] if a in rs]
        opts.append(ts if ts else [None])
    if len(list(itertools.islice(itertools.product(*opts), 300))) >= 300:
        ctx.count("skipped_too_many_p2_profiles")
        return nontriv
    best = None
    for choice in itertools.product(*opts):
        ch = [list(r) for r in chain]
        for s, t in zip(p2_states, choice):
            ch[s] = [(Fr(1), t)] if t is not None else []
        w = oracles.chain_total_reward(ch, g["rewards"])
        best = w if best is None else [(None if (a is None and b is None) else b if a is None else a if b is None else min(a, b))
                                       for a, b in zip(best, w)]
    scale = max([1] + [abs(Fr(x)) for x in S.rew_min_reach])
    for s in reach:
        if best[s] is None:
            ctx.count("infinite_diag_skipped")
            continue
        exp = best[s]
        # a Player-2 state whose reachability strategy names no permitted action reports 0
        # acyclic family with costs a few 1e-7 apart: the report is exact up to float rounding
        tol_ = Fr(1, 10 ** 9) if g.get("_meta", {}).get("family") == "close_costs" else TOL
        if abs(Fr(S.rew_min_reach[s]) - exp) > tol_ * scale:
            res_ok = w_residual(S, chain, cond, reach, g["rewards"]) <= THR * (1 + Fr(1, 1000)) + Fr(1, 10 ** 10) * scale and \
                all(best[t] is None or Fr(S.rew_min_reach[t]) <= best[t] + Fr(1, 10 ** 9) * scale for t in reach)
            ctx.violation("reward-under-min-reach", inp,
                          {"state": s, "reported": S.rew_min_reach[s], "expected": exp,
                           "final_strategies": S.final_strat, "reach_strategies": S.reach_strat},
                          key=KEY_TOL if res_ok else None)
            return nontriv
    return nontriv


def check_case(ctx, g, model=None, limit=5.0):
    nt = False
    for prune in (True, False):
        o = impl.solve(g, prune, limit=limit)
        if o["outcome"] == "Timeout":
            ctx.count("timeout")
            continue
        r = judge(ctx, g, prune, o)
        nt = nt or bool(r)
        if r is not None:
            ctx.count("judged")
        if model is not None:
            model.add("solve", dict(wire.game_payload(g), prune=prune), expect=o,
                      inp={"game": gen.desc(g), "prune": prune}, suite="corr.diagnostics",
                      cmp=wire.staged(ctx, {"diag"}, ("outcome", "probs", "reachstrat", "nodes", "rewards", "final")))
    ctx.case({"game": gen.desc(g)}, nt)
    ctx.count("family=" + str(g.get("_meta", {}).get("family", "?")).split(":")[0])


def run(ctx, model=None):
    ctx.extra["rule"] = RULE
    rng = random.Random(ctx.seed * 49979687 + 14)
    import analysis as _r5
    _r5rng = random.Random(ctx.seed + 555)
    _r5.round5_passes(ctx, _r5rng, [gen.stopping_game(_r5rng, extra_finals=0.25) for _ in range(3 if ctx.quick() else 40)] +
                      [gen.slow_cycle_game(_r5rng), gen.decimal_tie_game(_r5rng)], "diagnostics", fields=[0, 6, 7])
    from props.c10 import example_games
    for g in example_games():
        if g.get("_meta", {}).get("family", "").startswith("example:game_5_5") or True:
            check_case(ctx, g, model, limit=3.0)
    for kind in (PR, P1):
        for pat in gen.all_patterns(3 if ctx.quick() else 5):
            check_case(ctx, gen.dead_shape_game(rng, kind, pat, front=rng.choice([None, P1, P2])), model)
    for k in range(12 if ctx.quick() else 200):
        check_case(ctx, gen.tiny_reach_game(rng), model)
        check_case(ctx, gen.parallel_dead_game(rng), model)
    for k in range(25 if ctx.quick() else 400):
        check_case(ctx, gen.with_huge_rewards(gen.layered_tie_game(rng)), model)
        check_case(ctx, gen.with_empty_action(gen.layered_tie_game(rng), rng), model)
        check_case(ctx, gen.integer_game(rng), None)
        h_ = gen.stopping_game(rng, n_inner=rng.randint(2, 5)) if k % 2 else gen.layered_tie_game(rng)
        h_["final_states"] = h_["final_states"] * 2 + h_["final_states"]       # the same final state listed three times
        check_case(ctx, h_, model)
    for _k in range(8 if ctx.quick() else 200):
        check_case(ctx, gen.close_costs_game(rng), model)
    through_run_games(ctx, rng, 12 if ctx.quick() else 300)
    import analysis as _an0
    _an0.optimized_interpreter(ctx, [gen.layered_tie_game(rng) for _ in range(6)] + [gen.stopping_game(rng, dead_frac=0.3) for _ in range(6)],
                               "prob-under-min-reward", fields=[6, 7])
    N = 300 if ctx.quick() else 30000
    for k in range(N):
        g = gen.slow_cycle_game(rng) if k % 9 == 0 else gen.layered_tie_game(rng) if k % 2 == 0 else \
            gen.stopping_game(rng, reward_max=rng.choice([4, 7, 11]))
        check_case(ctx, g, model)
        if ctx.time_left() < 0:
            return


def through_run_games(ctx, rng, count):
    """the diagnostics as the batch runner reports them (blocks <name> and <name>_no_prune), also for a
    game whose own name merely ends in _no_prune"""
    from crlib import repo, quiet, time_limit, Timeout
    cr = repo("conditionalrewards")
    for k in range(count):
        # k % 4 == 3: NO state has probability 0 (nothing to prune away), yet the two modes differ: the branch Player 1
        # gives up for reachability is cut off from the initial state and emptied in the pruned run only
        g = gen.layered_tie_game(rng) if k % 4 == 1 else gen.stopping_game(rng, n_inner=rng.randint(2, 5)) if k % 4 == 0 else \
            gen.no_zero_game(rng) if k % 4 == 2 else \
            (gen.close_values_game(rng) if rng.random() < 0.5 else gen.corridor_choice_game(rng))
        name = rng.choice(["t", "board_3", "case_no_prune", "x_no_prune"])
        try:
            d_ = gen.desc(g)
            if k % 3 == 2:
                d_["prune_states"] = (k % 2 == 0)      # a description that was also used as StochasticGame(**g) kwargs
            with quiet(), time_limit(30.0):
                res = cr.run_games({name: d_})
        except Timeout:
            ctx.count("timeout")
            continue
        except Exception as e:  # noqa
            ctx.violation("batch-reports-diagnostics", {"game": gen.desc(g), "name": name}, {"error": type(e).__name__, "msg": str(e)[:200]})
            return
        ctx.case({"game": gen.desc(g), "name": name, "via": "run_games"}, True)
        for prune, key in ((True, name), (False, name + "_no_prune")):
            o = impl.solve(g, prune, want_nodes=False)
            e = res.get(key)
            if o["outcome"] != "ok" or e is None or e.get("msg") != "Game solved":
                continue
            if e["prob_min_rew"] != o["res"][6] or e["rew_min_reach"] != o["res"][7] or e["final_strategies"] != o["res"][0] \
                    or e["rewards"] != o["res"][2]:
                ctx.violation("batch-reports-diagnostics", {"game": gen.desc(g), "name": name, "block": key, "prune": prune},
                              {"block": {"prob_min_rew": e["prob_min_rew"], "rew_min_reach": e["rew_min_reach"]},
                               "solve": {"prob_min_rew": o["res"][6], "rew_min_reach": o["res"][7]}})
                return


def known_findings(ctx):
    import json, os
    from crlib import VERIF
    if KEY_TOL not in ctx.open_keys:
        return []
    w = json.load(open(os.path.join(VERIF, "findings", "C14-slow.json")))
    g = w["game"]
    g["transition_list"] = [[tuple(t) for t in row] for row in g["transition_list"]]
    o = impl.solve(g, False)
    if o["outcome"] == "ok" and abs(o["res"][6][2] - 0.5) > 1e-5:
        return [f"KNOWN-FINDING: property=C14 'probabilities under minimal reward' of the slow self-loop state (unpruned run) is "
                f"{o['res'][6][2]!r} for the exact 0.5 (residual-stop) [{KEY_TOL}]"]
    return []


def replay(ctx, viol):
    import analysis as _r5
    if _r5.replay_round5(ctx, viol, fields=[0, 6, 7]):
        return
    g = viol["input"]["game"]
    g["transition_list"] = [[tuple(t) for t in row] for row in g["transition_list"]]
    check_case(ctx, g, None)
