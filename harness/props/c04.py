"""C04 — reachability strategies list exactly the value-optimal actions."""
import json
import os
import random
from fractions import Fraction as Fr

import gen
import impl
import oracles
import wire
from analysis import separated, THR
from crlib import VERIF

P1, P2, PR = gen.P1, gen.P2, gen.PR
KEY_TIE = "C04.tie@tad.PlayerOne.get_best_strategies_reachability:rounded-compare"
TOL = 10 * THR

RULE = ("stopping / free-topology / slow-cycle games with Player-1 and Player-2 states of 1-3 actions, "
        "exact ties (equal rationals reached through different floating-point sums), all-zero "
        "successors; both pruning modes.  Exact optimal action sets from exact max-min values "
        "(strategy enumeration).  Non-trivial = some player state has >= 2 actions with different "
        "exact successor values, or an exact tie between distinct successors.")


def argopt_reported(row, probs, digits, is_max):
    vals = [oracles.round_half_even_scaled(probs[t], digits) for _, t in row]
    if is_max:
        m = max([0] + vals)
    else:
        m = min([10 ** digits] + vals)
    return [a for (a, _), v in zip(row, vals) if v == m]


def judge(ctx, g, r_np, r_p, thr=None):
    """thr: the threshold the solver was run with (None = the default 10^-6); the tolerance of the oracle and
    the precision of the rounded comparison follow it"""
    import math as _m
    from fractions import Fraction as _Fr
    t_ = THR if thr is None else _Fr(thr)
    digits = 6 if thr is None else round(-_m.log10(thr))
    inp = {"game": gen.desc(g)} if thr is None else {"game": gen.desc(g), "thr": thr}
    players = g["players"]
    n = len(players)
    if r_np["outcome"] == "Timeout":
        return False
    if r_np["outcome"] != "ok":
        ctx.violation("strategies-not-reported", inp, {"outcome": r_np["outcome"], "msg": r_np.get("msg")})
        return True
    strat = r_np["strats"]
    x = r_np["probs"]
    # shape
    for s in range(n):
        row = g["transition_list"][s]
        if players[s] == PR:
            if strat[s] is not None:
                ctx.violation("probabilistic-has-none", inp, {"state": s, "strategy": strat[s]})
                return True
            continue
        acts = [a for a, _ in row]
        st = strat[s]
        if not isinstance(st, list) or not st:
            ctx.violation("strategy-nonempty-list", inp, {"state": s, "strategy": st})
            return True
        # sub-list in transition order
        it = iter(acts)
        if not all(any(a == b for b in it) for a in st):
            ctx.violation("transition-order", inp, {"state": s, "strategy": st, "actions": acts})
            return True
    if r_p["outcome"] == "ok" and r_p["strats"] != strat:
        ctx.violation("differs-with-pruning", inp, {"unpruned": strat, "pruned": r_p["strats"]})
        return True
    xtl = gen.exact_tl(g)
    prof = oracles.count_profiles(players, xtl)
    if prof > 400 or (n > 14 and prof > 4) or n > 90:
        return False
    v = oracles.game_reach_value(players, xtl, g["final_states"])
    ctx.count("exact_sets_checked")
    nontriv = False
    for s in range(n):
        if players[s] == PR:
            continue
        row = g["transition_list"][s]
        vals = [v[t] for _, t in row]
        if len(set(t for _, t in row)) >= 2:
            nontriv = True
        fam = g.get("_meta", {}).get("family")
        tol = 2 * t_ if fam in ("close_values", "corridor_choice", "layered_tie", "tie", "reward_tie") else 10 * t_   # acyclic: reports are exact
        if not separated(vals, tol):
            ctx.count("skipped_close_values")
            continue
        best = max(vals) if players[s] == P1 else min(vals)
        exp = [a for (a, _), val in zip(row, vals) if val == best]
        if strat[s] != exp:
            # listed finding: the list is exactly the arg-opt of the ROUNDED REPORTED values, every
            # listed action is truly optimal, and only exact ties are missing
            rep = argopt_reported(row, x, digits, players[s] == P1)
            missing_only = all(a in exp for a in strat[s])
            sig = KEY_TIE if (rep == strat[s] and missing_only) else None
            ctx.violation("exact-optimal-set", inp,
                          {"state": s, "reported": strat[s], "expected": exp,
                           "successor_values": vals, "reported_probs": [x[t] for _, t in row]}, key=sig)
            return True
    return nontriv


def check_case(ctx, g, model=None, thr=None):
    t = 10 ** (-6) if thr is None else thr
    r_np = impl.reach_only(g, prune=False, thr=t)
    r_p = impl.reach_only(g, prune=True, thr=t)
    nt = judge(ctx, g, r_np, r_p, thr)
    ctx.case({"game": gen.desc(g)}, bool(nt))
    ctx.count("family=" + str(g.get("_meta", {}).get("family", "?")).split(":")[0])
    if model is not None:
        import math as _m
        digits = round(-_m.log10(t))           # the documented precision for a threshold 10^-k, independent of the code
        model.add("reach", dict(wire.game_payload(g, thr=t), prune=False, digits=digits),
                  expect=r_np, inp={"game": gen.desc(g)}, suite="corr.reach", cmp=wire.staged(ctx, {"reachstrat"}, ("outcome", "probs")))


def tie_game(rng):
    """exact ties between successors whose values are computed along different sums"""
    # 0: player; successors A, B with the same exact value through different decompositions
    kind = rng.choice([P1, P2])
    q = rng.choice([Fr(1, 2), Fr(1, 4), Fr(3, 4), Fr(3, 10), Fr(7, 10)])
    # A = [(q, win), (1-q, lose)] ; B = [(q/2, win), (q/2, C), (1-q, lose)], C -> win
    players = [kind, PR, PR, PR, PR, PR]
    lose, win = 4, 5
    xtl = [[("a", 1), ("b", 2), ("c", 4)] if rng.random() < 0.5 else [("b", 2), ("a", 1)],
           [(q, win), (1 - q, lose)],
           [(q / 2, win), (q / 2, 3), (1 - q, lose)],
           [(Fr(1), win)], [(Fr(1), lose)], [(Fr(1), win)]]
    return gen.finish([0] * 6, players, xtl, [win], {"family": "tie"})


def run(ctx, model=None):
    ctx.extra["rule"] = RULE
    rng = random.Random(ctx.seed * 999331 + 4)
    from props.c10 import example_games
    for g in example_games():
        check_case(ctx, g, model)
    for k in range(12 if ctx.quick() else 200):
        check_case(ctx, gen.close_values_game(rng), model)
        check_case(ctx, gen.corridor_choice_game(rng), model)
        check_case(ctx, gen.final_player_game(rng), model)
        for _ in range(3):
            check_case(ctx, gen.with_empty_action(gen.stopping_game(rng), rng), model)
        with impl.forced_debug():
            check_case(ctx, gen.all_dead_game(rng), model)
    import analysis as _an0
    for k in range(6 if ctx.quick() else 100):
        check_case(ctx, gen.with_odd_labels(gen.stopping_game(rng), rng)[0], model)
        check_case(ctx, gen.with_odd_labels(gen.layered_tie_game(rng), rng)[0], model)
    for _k in range(10 if ctx.quick() else 300):
        _g = gen.decimal_tie_game(rng)
        if len(_g["transition_list"][2]) == 3:            # the exact-tie variants (not the one-ulp-apart one)
            check_case(ctx, _g, model)
    _envg = [gen.decimal_tie_game(rng, k_) for k_ in (P1, P2, P1, P2)] + [tie_game(rng) for _ in range(3)] + \
        [gen.stopping_game(rng) for _ in range(3 if ctx.quick() else 40)] + [gen.all_dead_game(rng)]
    _an0.environment_independence(ctx, _envg, "strategies-independent-of-process-environment", fields=[1, 3])
    _an0.described_at_solve_time(ctx, [gen.stopping_game(rng, extra_finals=0.25) for _ in range(6 if ctx.quick() else 80)] +
                                 [gen.multi_final_game(rng) for _ in range(3 if ctx.quick() else 30)],
                                 "strategies-of-the-description-at-solve-time", fields=[1, 3])
    _an0.optimized_interpreter(ctx, [gen.layered_tie_game(rng) for _ in range(6)] + [tie_game(rng) for _ in range(6)], "exact-optimal-set", fields=[1])
    N = 300 if ctx.quick() else 30000
    for k in range(N):
        r = k % 6
        g = gen.multi_final_game(rng) if k % 11 == 0 else gen.stopping_game(rng, extra_finals=0.25) if r == 0 else gen.layered_tie_game(rng) if r == 1 else \
            gen.free_game(rng) if r in (2, 3) else gen.slow_cycle_game(rng) if r == 4 else tie_game(rng)
        check_case(ctx, g, model)
        if ctx.time_left() < 0:
            return
    import analysis as _an
    _pool = []
    _r2 = random.Random(ctx.seed + 4242)
    while len(_pool) < 14:
        _pool.append(gen.stopping_game(_r2, n_inner=_r2.randint(2, 5), dead_frac=_r2.choice([0.0, 0.6])))
    for _k in range(4 if ctx.quick() else 40):
        _an.batch_vs_alone(ctx, _r2.sample(_pool, _r2.randint(2, 5)), ['reachability_strategies'], 'run_games-strategies-equal-solo-run')
    for k in range(10 if ctx.quick() else 200):
        check_case(ctx, gen.stopping_game(rng, extra_finals=0.25), model, thr=10 ** (-rng.choice([2, 3, 4, 8])))


def known_findings(ctx):
    if KEY_TIE not in ctx.open_keys:
        return []
    w = json.load(open(os.path.join(VERIF, "findings", "C04-tie.json")))
    g = w["game"]
    g["transition_list"] = [[tuple(t) for t in row] for row in g["transition_list"]]
    r = impl.reach_only(g, prune=False)
    if r["outcome"] == "ok" and r["strats"][0] == ["a"]:
        return [f"KNOWN-FINDING: property=C04 exact tie split by rounding: {w['name']}: both actions of state 0 have "
                f"value exactly 1/2, reported probabilities {r['probs'][1]!r} / {r['probs'][2]!r} round differently, "
                f"strategy {r['strats'][0]} instead of ['a', 'b'] [{KEY_TIE}]"]
    return []


def replay(ctx, viol):
    g = viol["input"]["game"]
    g["transition_list"] = [[tuple(t) for t in row] for row in g["transition_list"]]
    import analysis as _an
    if viol.get("clause") == "strategies-independent-of-process-environment":
        return _an.environment_independence(ctx, [g], viol["clause"], fields=[1, 3])
    if viol.get("clause") == "strategies-of-the-description-at-solve-time":
        return _an.described_at_solve_time(ctx, [g], viol["clause"], fields=[1, 3])
    check_case(ctx, g, None, thr=viol["input"].get("thr"))
