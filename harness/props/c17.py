"""C17 — generated file names identify the parameters that produced them."""
import random
import re

import boards
from crlib import repo
from modelclient import fbits

RULE = ("prob_to_str on every k/100, k = 1..99 (exhaustive) and on a float grid; roberta_generator.main() "
        "run in a scratch directory for sampled accepted parameter sets with whole-percent probabilities "
        "(every percentage 1..99 occurs in every probability field in the thorough tier), the created "
        "path parsed back and compared with the parameters; pairs of different parameter sets must get "
        "different names; manual entry point name.  Non-trivial = a run of main() or a percentage whose "
        "floating-point product k/100*100 is not an integer.")

NAME_RE = re.compile(r"^inputs/robot_(\d+)_w(\d+)_l(\d+)_r(\d+)_rb(\d+)_lb(\d+)_tb(\d+)_lt(\d+)(_force_down)?\.py$")


def argv_of(p):
    a = ["-s", p["seed"], "-w", p["w"], "-l", p["l"], "-m", p["m"], "-p", repr(p["rb"] / 100), "-q", repr(p["lb"] / 100),
         "-r", repr(p["tb"] / 100), "-t", repr(p["lt"] / 100)]
    if p["fd"]:
        a.append("-f")
    return a


def check_main(ctx, p, model, seen):
    inp = dict(p)
    ctx.case(inp, True)
    r = boards.run_generator(argv_of(p))
    if r["outcome"] != "ok":
        ctx.violation("accepted-parameters-run", inp, {"outcome": r["outcome"], "msg": r.get("msg")})
        return
    names = [f for f in r["files"]]
    if len(names) != 1:
        ctx.violation("one-file", inp, {"files": names})
        return
    m = NAME_RE.match(names[0])
    if not m:
        ctx.violation("name-format", inp, {"name": names[0]})
        return
    got = {"seed": int(m.group(1)), "w": int(m.group(2)), "l": int(m.group(3)), "m": int(m.group(4)),
           "rb": int(m.group(5)), "lb": int(m.group(6)), "tb": int(m.group(7)), "lt": int(m.group(8)),
           "fd": bool(m.group(9))}
    if got != p:
        ctx.violation("name-states-parameters", inp, {"name": names[0], "parsed": got})
        return
    # the flag in the name is the flag the board was generated with: a down-only tile ('v') in every row of the
    # depicted board exactly when the name ends in _force_down (boards without force-down never contain one)
    text = r["files"][names[0]]
    rows = [ln for ln in text.split("\n")[:p["l"] + 4] if ln.startswith("#   [")]
    if len(rows) == p["l"]:
        has_down = [("|v(" in ln) for ln in rows]
        if (p["fd"] and not all(has_down)) or (not p["fd"] and any(has_down)):
            ctx.violation("name-states-parameters", inp, {"name": names[0], "board_rows": rows[:6], "force_down_in_name": p["fd"]})
            return
    key = names[0]
    if key in seen and seen[key] != p:
        ctx.violation("names-distinct", inp, {"name": key, "other": seen[key]})
    seen[key] = dict(p)
    if model is not None:
        model.add("filename", {"seed": p["seed"], "width": p["w"], "length": p["l"], "maxreward": p["m"],
                               "probot": fbits(p["rb"] / 100), "plight": fbits(p["lb"] / 100),
                               "ptile": fbits(p["tb"] / 100), "ploose": fbits(p["lt"] / 100), "forcedown": p["fd"]},
                  expect=names[0], inp=inp, suite="corr.names",
                  cmp=lambda e, r: None if r.get("res") == e else f"path {e!r} vs model {r.get('res')!r}")


def run(ctx, model=None):
    ctx.extra["rule"] = RULE
    rng = random.Random(ctx.seed * 179424673 + 17)
    rg = repo("roberta_generator")
    # 1. every whole percentage (exhaustive)
    bad = []
    xs = []
    for k in range(1, 100):
        x = k / 100
        xs.append(x)
        s = rg.prob_to_str(x)
        ctx.case({"prob_to_str": x}, (x * 100) != k)
        if s != str(k):
            bad.append((k, s))
            ctx.violation("percent-exact", {"k": k, "prob": x}, {"prob_to_str": s, "expected": str(k)})
    ctx.extra["exhaustive_percentages"] = True
    # float grid for the correspondence of the rounding model
    grid = [rng.random() for _ in range(300 if ctx.quick() else 50000)] + [j / 1000 for j in range(1, 1000, 7)] + \
        [0.005, 0.015, 0.025, 0.125, 0.375, 0.625, 0.875, 0.995, 0.994999, 0.0049, 1e-9]
    if model is not None:
        exp = []
        for x in xs + grid:
            try:
                exp.append(rg.prob_to_str(x))
            except Exception as e:  # noqa
                exp.append(type(e).__name__)
        model.add("probstr", {"xs": [fbits(x) for x in xs + grid]}, expect=exp, inp={"grid": len(grid)},
                  suite="corr.names", cmp=lambda e, r: None if r.get("res") == e else
                  "prob_to_str differs at " + str([(a, b) for a, b in zip(e, r.get("res", [])) if a != b][:3]))
    # 2. main(): names state the parameters; different sets, different names
    seen = {}
    base = {"seed": 3, "w": 2, "l": 2, "m": 6, "rb": 10, "lb": 10, "tb": 10, "lt": 30, "fd": False}
    ks = list(range(1, 100))
    fields = ["rb", "lb", "tb", "lt"]
    if ctx.quick():
        plan = [(f, k) for f in fields for k in rng.sample(ks, 12)] + [("lt", 28), ("lt", 29), ("tb", 56), ("tb", 57), ("rb", 57), ("rb", 58)]
    else:
        plan = [(f, k) for f in fields for k in ks]
    for f, k in plan:
        p = dict(base)
        p[f] = k
        check_main(ctx, p, model, seen)
        if ctx.time_left() < 0:
            return
    for _ in range(20 if ctx.quick() else 20000):
        p = {"seed": rng.choice([0, 1, 7, 47, 999132423]), "w": rng.randint(1, 4), "l": rng.randint(1, 4),
             "m": rng.choice([1, 2, 6, 11]), "rb": rng.choice(ks), "lb": rng.choice(ks), "tb": rng.choice(ks),
             "lt": rng.choice(ks), "fd": rng.random() < 0.5}
        check_main(ctx, p, model, seen)
    for w_, l_ in ((1, 3), (1, 1), (2, 2), (3, 1)):
        check_main(ctx, dict(base, w=w_, l=l_, fd=True, seed=11), model, seen)
        check_main(ctx, dict(base, w=w_, l=l_, fd=False, seed=11), model, seen)
    for m_ in (53, 54, 100, 1000):
        check_main(ctx, dict(base, m=m_, w=1, l=1), model, seen)
    for big in (2 ** 53 + 1, 12345678901234567891, 2 ** 64 + 3):
        for fd in (False, True):
            p = dict(base, seed=big, fd=fd)
            check_main(ctx, p, model, seen)
            check_main(ctx, dict(p, seed=big - 1), model, seen)
    # sequences in ONE directory: a file whose name is a prefix/extension of another one must still be written
    for (first, second) in (({"lt": 30}, {"lt": 3}), ({"fd": True}, {"fd": False}), ({"seed": 31}, {"seed": 3}), ({"w": 12, "l": 1}, {"w": 1, "l": 1})):
        p1, p2 = dict(base, **first), dict(base, **second)
        r1 = boards.run_generator(argv_of(p1))
        r2 = boards.run_generator(argv_of(p2), pre_files=r1["files"])
        fresh = boards.run_generator(argv_of(p2))
        ctx.case({"first": p1, "second": p2}, True)
        new_files = {k: v for k, v in r2["files"].items() if k not in r1["files"]}
        if r2["outcome"] != "ok" or new_files != fresh["files"]:
            ctx.violation("own-file-after-earlier-run", {"first": p1, "second": p2},
                          {"outcome": r2["outcome"], "files_after_second_run": sorted(r2["files"]), "expected_new": sorted(fresh["files"])})
    # 3. manual entry point
    sg = repo("stochastic_game_from_roborta_board")
    for _ in range(5 if ctx.quick() else 60):
        L, W = rng.randint(1, 3), rng.randint(1, 3)
        fd = rng.random() < 0.5
        mv, rw, ls = boards.random_board(rng, L, W, fd)
        k1, k2, k3 = rng.choice(ks), rng.choice(ks), rng.choice(ks)
        r = boards.run_generator(call=lambda _rg: sg.create_sg_from_board(mv, rw, ls, k1 / 100, k2 / 100, k3 / 100))
        # the module binds write_robots/prob_to_str from roberta_generator at import time
        inp = {"moves": mv, "rewards": rw, "loose": ls, "rb": k1, "lb": k2, "tb": k3}
        ctx.case(inp, True)
        names = list(r.get("files", {}))
        mr = max(max(row) for row in rw)
        isfd = max(max(row) for row in mv) == 3
        exp = f"inputs/manual_robot_w{W}_l{L}_r{mr}_rb{k1}_lb{k2}_tb{k3}_{'force_down' if isfd else ''}.py"
        if r["outcome"] != "ok" or names != [exp]:
            ctx.violation("manual-name-states-parameters", inp, {"outcome": r["outcome"], "files": names, "expected": exp})
        if model is not None:
            model.add("manualname", {"board": {"moves": mv, "rewards": rw, "loose": ls}, "probot": fbits(k1 / 100),
                                     "plight": fbits(k2 / 100), "ptile": fbits(k3 / 100)},
                      expect=names[0] if names else None, inp=inp, suite="corr.names",
                      cmp=lambda e, r: None if r.get("res") == e else f"path {e!r} vs model {r.get('res')!r}")


def replay(ctx, viol):
    i = viol["input"]
    if "k" in i:
        rg = repo("roberta_generator")
        if rg.prob_to_str(i["prob"]) != str(i["k"]):
            ctx.violation("percent-exact", i, {"prob_to_str": rg.prob_to_str(i["prob"])})
    elif "seed" in i:
        check_main(ctx, i, None, {})
