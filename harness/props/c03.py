"""C03 — conditioning removes every dead branch, and only dead branches."""
import random
from fractions import Fraction as Fr

import gen
import impl
import oracles
import wire as _wire

P1, P2, PR = gen.P1, gen.P2, gen.PR

RULE = ("stopping and free-topology games plus the exhaustive live/dead successor patterns (every "
        "0/1 pattern up to length 4 quick / 6 thorough, for Player-1 and probabilistic states, "
        "behind each kind of front state).  Non-trivial = at least one Player-1/probabilistic "
        "state has a successor reported with probability 0.")


def expected_nodes(g, strats, probs):
    """conditioned lists per the property, then the states that may legitimately be cleared"""
    players = g["players"]
    cond = oracles.conditioned(players, gen.exact_tl(g), strats, probs, True)
    reach0 = oracles.reachable_from(cond, 0)
    return cond, reach0


def judge(ctx, g, probs, strats, nodes, where):
    """Evaluate the property clauses on the node lists the implementation produced."""
    players = g["players"]
    n = len(players)
    inp = {"game": gen.desc(g), "where": where}
    cond, reach0 = expected_nodes(g, strats, probs)
    bad = False
    for i in range(n):
        row = nodes[i]
        if players[i] in (P1, PR):
            for l, t in row:
                if probs[t] == 0:
                    bad |= ctx.violation("no-dead-successor", inp,
                                         {"state": i, "kept": [l, t], "node": row, "probs": probs})
                    break
        if i in reach0:
            exp = cond[i]
            ok = len(row) == len(exp) and all(t1 == t2 for (_, t1), (_, t2) in zip(row, exp))
            if ok and players[i] == PR:
                ok = all(abs(Fr(l1) - l2) <= Fr(1, 10 ** 12) * max(1, abs(l2)) for (l1, _), (l2, _) in zip(row, exp))
                if ok and len(row) != len(g["transition_list"][i]) and row:
                    ok = abs(sum(Fr(l) for l, _ in row) - 1) <= Fr(1, 10 ** 9) or \
                        abs(sum(Fr(p) for p, _ in gen.exact_tl(g)[i]) - 1) > Fr(1, 10 ** 9)
            elif ok:
                ok = all(l1 == l2 for (l1, _), (l2, _) in zip(row, exp))
            if not ok:
                clause = {PR: "prob-survivors", P1: "p1-survivors", P2: "p2-untouched"}[players[i]]
                bad |= ctx.violation(clause, inp, {"state": i, "node": row, "expected": exp, "probs": probs})
        else:
            # not reachable from the initial state in the conditioned game: may be cleared
            # (non Player-1) or keep its conditioned list
            exp = cond[i]
            if row and not (len(row) == len(exp) and all(t1 == t2 for (_, t1), (_, t2) in zip(row, exp))):
                bad |= ctx.violation("unreachable-state-garbled", inp, {"state": i, "node": row, "expected": exp})
    return bad


def check_case(ctx, g, model=None):
    r = impl.prune_only(g)
    players = g["players"]
    ndead = 0
    if r["outcome"] == "ok":
        for i, row in enumerate(g["transition_list"]):
            if players[i] in (P1, PR):
                ndead = max(ndead, sum(1 for _, t in row if r["probs"][t] == 0))
    ctx.case({"game": gen.desc(g), "meta": g.get("_meta")} if len(players) <= 40 else {"meta": g.get("_meta")}, ndead >= 1)
    ctx.count(f"max_dead_successors={min(ndead, 4)}{'+' if ndead >= 4 else ''}")
    ctx.count("family=" + g.get("_meta", {}).get("family", "?"))
    inp = {"game": gen.desc(g)} if len(players) <= 60 else {"meta": g.get("_meta"), "regenerate": "gen." + str(g.get("_meta", {}).get("family"))}
    if r["outcome"] == "Timeout":
        ctx.count("timeout_skipped")
    elif r["outcome"] != "ok":
        ctx.violation("conditioning-aborts", inp, {"outcome": r["outcome"], "msg": r.get("msg")})
    else:
        judge(ctx, g, r["probs"], r["strats"], r["nodes"], "Solver.prune_reachability+prune_stochastich_game")
    # the same through the full pipeline (recording Solver), when the game is solvable
    s = impl.solve(g, prune=True, limit=3.0) if g.get("_meta", {}).get("family") in ("stopping", "dead_shape") and not g.get("_meta", {}).get("extra_finals") \
        else {"outcome": "skipped"}
    if s["outcome"] == "ok" and s["nodes"] is not None:
        judge(ctx, g, s["res"][3], s["res"][1], s["nodes"], "StochasticGame.solve")
        ctx.count("through_solve")
    if model is not None:
        model.add("prune", game_payload(g),
                  expect={"outcome": r["outcome"], "nodes": r.get("nodes"), "probs": r.get("probs"),
                          "strats": r.get("strats")},
                  inp=inp, suite="corr.prune", cmp=_wire.staged(ctx, {"outcome", "nodes"}, ("probs", "reachstrat")))


from wire import game_payload  # noqa: E402


def run(ctx, model=None):
    ctx.extra["rule"] = RULE
    rng = random.Random(ctx.seed * 104729 + 3)
    kmax = 4 if ctx.quick() else 6
    for kind in (PR, P1):
        for pat in gen.all_patterns(kmax):
            fronts = [None, P2] if ctx.quick() else [None, P1, P2, PR]
            for fr in fronts:
                g = gen.dead_shape_game(rng, kind, pat, front=fr)
                check_case(ctx, g, model)
    # the pruning flag is documented as a boolean and used by truth value: 1 / 0 (a CLI or JSON caller) mean True / False
    for kind in (PR, P1):
        for pat in gen.all_patterns(3):
            g = gen.dead_shape_game(rng, kind, pat)
            for flag, ref in ((1, True), (0, False)):
                a, b = impl.solve(g, flag, limit=5.0), impl.solve(g, ref, limit=5.0)
                ctx.case({"game": gen.desc(g), "prune_states": flag}, True)
                if "Timeout" in (a["outcome"], b["outcome"]):
                    continue
                if a["outcome"] != b["outcome"] or repr(a.get("nodes")) != repr(b.get("nodes")) or repr(a.get("res")) != repr(b.get("res")):
                    ctx.violation("conditioning-by-truth-value-of-the-flag", {"game": gen.desc(g), "prune_states": flag},
                                  {"with_" + repr(flag): [a["outcome"], repr(a.get("nodes"))[:300]], "with_" + repr(ref): [b["outcome"], repr(b.get("nodes"))[:300]]})
                    break
    # an application may subclass the node classes (a coordinate, a label): conditioning treats such nodes as what they are
    from crlib import repo as _repo
    _tad = _repo("tad")
    _orig = (_tad.PlayerOne, _tad.PlayerTwo, _tad.ProbabilisticNode)
    for kind in (PR, P1):
        for pat in gen.all_patterns(3):
            g = gen.dead_shape_game(rng, kind, pat)
            ref = impl.solve(g, True, limit=5.0)
            try:
                _tad.PlayerOne = type("BoardPlayerOne", (_orig[0],), {})
                _tad.PlayerTwo = type("BoardPlayerTwo", (_orig[1],), {})
                _tad.ProbabilisticNode = type("BoardProbabilisticNode", (_orig[2],), {})
                sub = impl.solve(g, True, limit=5.0)
            finally:
                _tad.PlayerOne, _tad.PlayerTwo, _tad.ProbabilisticNode = _orig
            ctx.case({"game": gen.desc(g), "node_classes": "subclassed"}, True)
            if "Timeout" in (ref["outcome"], sub["outcome"]):
                continue
            if ref["outcome"] != sub["outcome"] or repr(ref.get("nodes")) != repr(sub.get("nodes")):
                ctx.violation("conditioning-of-subclassed-nodes", {"game": gen.desc(g), "node_classes": "subclassed"},
                              {"plain": [ref["outcome"], repr(ref.get("nodes"))[:300]], "subclassed": [sub["outcome"], repr(sub.get("nodes"))[:300]]})
                break
    import analysis as _an
    _an.optimized_interpreter(ctx, [gen.dead_shape_game(rng, kind, pat) for kind in (PR, P1) for pat in gen.all_patterns(3)][:16],
                              "no-dead-successor", fields=[2, 3, 6, 7])
    # sizes and magnitudes beyond the random families
    check_case(ctx, gen.big_dead_corridor(2100), model)
    check_case(ctx, gen.cascade_game(300 if ctx.quick() else 1050), None)
    for kk in ((20,) if ctx.quick() else (5, 20, 30)):
        check_case(ctx, gen.descending_ladder_game(kk), model)
    for k in range(6 if ctx.quick() else 60):
        check_case(ctx, gen.tiny_dead_mass_game(rng), model)
    for k in range(12 if ctx.quick() else 200):
        check_case(ctx, gen.tiny_best_game(rng), model)
        check_case(ctx, gen.zero_prob_dead_game(rng), model)
        check_case(ctx, gen.zero_prob_live_game(rng), model)
        check_case(ctx, gen.subnormal_reach_game(rng), model)
        check_case(ctx, gen.tiny_dead_decimal_game(rng), model)
        check_case(ctx, gen.tiny_reach_game(rng), model)
        check_case(ctx, gen.parallel_dead_game(rng), model)
        check_case(ctx, gen.decimal_sum_game(rng), model)
    N = 300 if ctx.quick() else 120000
    for k in range(N):
        g = gen.stopping_game(rng, extra_finals=0.25) if k % 3 else gen.free_game(rng)
        check_case(ctx, g, model)
        if ctx.time_left() < 0:
            break


def replay(ctx, viol):
    g = viol["input"]["game"]
    g["transition_list"] = [[tuple(t) for t in row] for row in g["transition_list"]]
    check_case(ctx, g, None)
