"""C01 — reported reachability probabilities are the max-min game values."""
import json
import os
import random
from fractions import Fraction as Fr

import gen
import impl
import oracles
import wire
from crlib import VERIF

P1, P2, PR = gen.P1, gen.P2, gen.PR
THR = Fr(1, 10 ** 6)
KEY_TOL = "C01.tolerance@tad.Solver.value_iteration_reachability:residual-stop"

RULE = ("stopping, free-topology (player cycles, several finals absorbing or not, unreachable parts), "
        "slow probabilistic cycles, example inputs and generator boards; both pruning modes; thresholds "
        "1e-3..1e-9 on a slice.  Exact max-min values by positional-strategy enumeration (Fractions) "
        "when the game has <= 400 strategy profiles.  Non-trivial = some non-final state has a value "
        "strictly between 0 and 1.")


def residual(players, xtl, finals, x):
    fx = [Fr(v) for v in x]
    b = oracles.bellman_reach(players, xtl, finals, fx)
    return max(abs(a - c) for a, c in zip(b, fx)) if fx else Fr(0)


def judge(ctx, g, r_np, r_p, thr=THR, exact_ok=True):
    players, finals = g["players"], g["final_states"]
    xtl = gen.exact_tl(g)
    n = len(players)
    inp = {"game": gen.desc(g), "thr": float(thr)}
    if "Timeout" in (r_np["outcome"], r_p["outcome"]):
        ctx.count("timeout_skipped")          # termination is C06's clause, not C01's
        return
    if r_np["outcome"] != "ok":
        ctx.violation("reachability-fails", inp, {"outcome": r_np["outcome"], "msg": r_np.get("msg")})
        return
    x = r_np["probs"]
    fin = set(finals)
    for f in fin:
        if x[f] != 1:
            ctx.violation("final-is-1", inp, {"state": f, "reported": x[f]})
            return
    can = oracles.can_reach([[(l, t) for l, t in row] for row in g["transition_list"]], finals)
    for s in range(n):
        if s not in can and x[s] != 0:
            ctx.violation("no-path-is-0", inp, {"state": s, "reported": x[s]})
            return
    # pruning mode must not change the reported probabilities
    if r_p["outcome"] == "ok":
        if r_p["probs"] != x or r_p["strats"] != r_np["strats"]:
            ctx.violation("prune-changes-probabilities", inp, {"unpruned": x, "pruned": r_p["probs"]})
            return
        if x[0] == 0:
            ctx.violation("no-solution-not-raised", inp, {"probs": x})
            return
    elif r_p["outcome"] == "ValueError:nosolution":
        if x[0] != 0:
            ctx.violation("no-solution-raised-wrongly", inp, {"probs": x})
            return
    else:
        ctx.violation("pruned-reachability-fails", inp, {"outcome": r_p["outcome"], "msg": r_p.get("msg")})
        return
    res = residual(players, xtl, finals, x)
    ctx.extra["max_residual_seen"] = max(ctx.extra.get("max_residual_seen", 0.0), float(res))
    if exact_ok and oracles.count_profiles(players, xtl) <= 400 and n <= 14:
        v = oracles.game_reach_value(players, xtl, finals)
        ctx.count("exact_value_checked")
        worst = max(abs(Fr(a) - b) for a, b in zip(x, v))
        ctx.extra["max_error_seen"] = max(ctx.extra.get("max_error_seen", 0.0), float(worst))
        for s in range(n):
            if Fr(x[s]) > v[s] + Fr(1, 10 ** 9):
                ctx.violation("exceeds-value", inp, {"state": s, "reported": x[s], "value": v[s]})
                return
        for s in range(n):
            if abs(Fr(x[s]) - v[s]) > thr + Fr(1, 10 ** 9):
                # the listed finding: small *change* on exit, lower bound, but error > tolerance
                sig = KEY_TOL if (res <= thr * (1 + Fr(1, 1000)) and all(Fr(a) <= b + Fr(1, 10 ** 9) for a, b in zip(x, v))) else None
                ctx.violation("within-tolerance", inp,
                              {"state": s, "reported": x[s], "value": v[s], "error": float(abs(Fr(x[s]) - v[s])),
                               "residual": float(res)}, key=sig)
                return
        return any(0 < y < 1 for y in v)
    else:
        # no exact value: the exit test of value iteration bounds the residual of the report
        if res > 2 * thr + Fr(1, 10 ** 9):
            ctx.violation("residual-on-exit", inp, {"residual": float(res)})
        return any(0 < y < 1 for y in x)


def check_case(ctx, g, model=None, thr=None, exact_ok=True, limit=10.0):
    t = 10 ** (-6) if thr is None else thr
    r_np = impl.reach_only(g, prune=False, thr=t, limit=limit)
    r_p = impl.reach_only(g, prune=True, thr=t, limit=limit)
    nt = judge(ctx, g, r_np, r_p, THR if thr is None else Fr(thr), exact_ok)
    small = len(g["players"]) <= 30
    ctx.case({"game": gen.desc(g)} if small else {"meta": g.get("_meta"), "n": len(g["players"])}, bool(nt))
    ctx.count("family=" + str(g.get("_meta", {}).get("family", "?")).split(":")[0])
    if model is not None and small and len(g["players"]) <= 14 and thr is None:
        # the same model over exact rationals (the instantiation the theorems are about)
        model.add("reach", dict(wire.game_payload(g, exact=True), prune=False, digits=6, fuel=20000),
                  expect=r_np, inp={"game": gen.desc(g)}, suite="exact.reach",
                  cmp=wire.measure_dev(ctx, "float_vs_exact_max_abs_dev", "probs", "probs"))
    if model is not None:
        import math as _m
        digits = round(-_m.log10(t))           # documented precision for a threshold 10^-k
        for prune, r in ((False, r_np), (True, r_p)):
            model.add("reach", dict(wire.game_payload(g, thr=t), prune=prune, digits=digits),
                      expect=r, inp={"game": gen.desc(g)} if small else {"meta": g.get("_meta")},
                      suite="corr.reach", cmp=wire.staged(ctx, {"outcome", "probs"}))


def fan_case(ctx, g):
    """closed form: a child reports its q exactly, a group / the root the max (Player 1) or min (Player 2)"""
    f = g["_fan"]
    n = len(g["players"])
    want = f["expected_reach"]
    inp = {"meta": g.get("_meta"), "n": n, "family": "fan", "root": f["kind"]}
    ctx.case(inp, True)
    for prune in (False, True):
        r = impl.reach_only(g, prune=prune, limit=300.0)
        if r["outcome"] == "Timeout":
            ctx.count("timeout_skipped")
            continue
        if r["outcome"] != "ok":
            if not (prune and r["outcome"] == "ValueError:nosolution" and want[0] == 0):
                ctx.violation("reachability-fails", inp, {"outcome": r["outcome"], "msg": r.get("msg"), "prune": prune})
            continue
        bad = [s for s in range(n) if r["probs"][s] != want[s]]
        if bad:
            ctx.violation("within-tolerance", inp, {"prune": prune, "first_wrong_states": bad[:5],
                                                    "reported": [r["probs"][s] for s in bad[:5]], "expected": [want[s] for s in bad[:5]]})
            return


from boards import board_games  # noqa: E402


def run(ctx, model=None):
    ctx.extra["rule"] = RULE
    rng = random.Random(ctx.seed * 2654435761 % (2 ** 31) + 1)
    import analysis as _r5
    _r5rng = random.Random(ctx.seed + 555)
    _r5.round5_passes(ctx, _r5rng, [gen.stopping_game(_r5rng, extra_finals=0.25) for _ in range(3 if ctx.quick() else 40)] +
                      [gen.slow_cycle_game(_r5rng), gen.decimal_tie_game(_r5rng)], "probabilities", fields=[3])
    from props.c10 import example_games
    for g in example_games():
        check_case(ctx, g, model)
    N = 250 if ctx.quick() else 6000
    for k in range(N):
        r = k % 5
        if k % 11 == 0:
            g = gen.multi_final_game(rng)
        elif r in (0, 1):
            g = gen.stopping_game(rng, extra_finals=0.25)
        elif r in (2, 3):
            g = gen.free_game(rng)
        else:
            g = gen.slow_cycle_game(rng)
        check_case(ctx, g, model)
        if ctx.time_left() < 0:
            return
    # deep corridors numbered towards the goal (one more state settles per sweep) and very slowly
    # mixing cycles: thousands of sweeps
    from props.c06 import chain_game
    for n in ([2100] if ctx.quick() else [1200, 2100, 2500, 5000]):
        check_case(ctx, chain_game(n, rng), model if n <= 2100 else None, exact_ok=False, limit=900.0)
    with impl.forced_debug(False):
        check_case(ctx, gen.slow_corridor(2100, rng), None, exact_ok=False, limit=300.0)
    import analysis as _an0
    _an0.optimized_interpreter(ctx, [gen.stopping_game(rng) for _ in range(12)],
                               "within-tolerance", fields=[3])
    # the probabilities are a function of the description as it is NOW: solve, edit in place, solve again
    from props.c10 import edit_between_solves
    edit_between_solves(ctx, random.Random(ctx.seed + 78), 25 if ctx.quick() else 600, clause="probabilities-of-the-edited-description")
    # wide games beyond every "round" size (4096, 10^4, 2^16 states); values known in closed form
    for n in ([10500, 66000] if ctx.quick() else [4100, 10001, 10500, 65537, 66000, 140000]):
        fan_case(ctx, gen.fan_game(n, rng))
    for gam in ([Fr(999, 1000)] if ctx.quick() else [Fr(999, 1000), Fr(9999, 10000)]):
        r_ = (1 - gam) / 2
        g = gen.finish([0, 0, 0], [PR, PR, PR], [[(gam, 0), (r_, 1), (r_, 2)], [(Fr(1), 1)], [(Fr(1), 2)]], [1],
                       {"family": "slow_cycle", "gamma": str(gam)})
        check_case(ctx, g, model, limit=300.0)
    import analysis as _an
    _pool = []
    _r2 = random.Random(ctx.seed + 4242)
    while len(_pool) < 14:
        _pool.append(gen.stopping_game(_r2, n_inner=_r2.randint(2, 5), dead_frac=_r2.choice([0.0, 0.6])))
    for _k in range(4 if ctx.quick() else 40):
        _an.batch_vs_alone(ctx, _r2.sample(_pool, _r2.randint(2, 5)), ['probabilities'], 'run_games-probabilities-equal-solo-run')
    for k in range(10 if ctx.quick() else 150):
        check_case(ctx, gen.final_player_game(rng), model)
        check_case(ctx, gen.with_empty_action(gen.free_game(rng), rng), model)
        check_case(ctx, gen.corridor_choice_game(rng), model)
        with impl.forced_debug():
            check_case(ctx, gen.all_dead_game(rng), model)
    # thresholds
    for k in range(20 if ctx.quick() else 300):
        g = gen.stopping_game(rng, extra_finals=0.25)
        check_case(ctx, g, model, thr=10 ** (-rng.choice([1, 2, 3, 4, 5, 7, 8, 9])))
    # boards (no exact values: far too many strategy profiles)
    shapes = [(1, 1), (2, 1), (1, 3), (2, 2), (3, 3)] if ctx.quick() else \
        [(1, 1), (2, 1), (1, 2), (1, 3), (2, 2), (3, 3), (5, 5), (10, 5), (10, 20), (3, 60)]
    for (L, W) in shapes:
        for fd in (False, True):
            for g in board_games(rng, L, W, fd):
                check_case(ctx, g, model, exact_ok=False, limit=300.0)


def witness_game():
    return json.load(open(os.path.join(VERIF, "findings", "C01-residual-stop.json")))


def known_findings(ctx):
    """replay the committed witness of the listed finding on the implementation"""
    if KEY_TOL not in ctx.open_keys:
        return []
    w = witness_game()
    g = w["game"]
    g["transition_list"] = [[tuple(t) for t in row] for row in g["transition_list"]]
    r = impl.reach_only(g, prune=False)
    if r["outcome"] == "ok" and abs(Fr(r["probs"][0]) - Fr(1, 2)) > THR and r["probs"][0] <= 0.5:
        return [f"KNOWN-FINDING: property=C01 value iteration stops on small change, not small error: "
                f"state 0 of {w['name']} reports {r['probs'][0]!r} for the value 0.5 "
                f"(error {abs(r['probs'][0]-0.5):.3g} > 1e-06) [{KEY_TOL}]"]
    return []


def replay(ctx, viol):
    import analysis as _r5
    if _r5.replay_round5(ctx, viol, fields=[3]):
        return
    g = viol["input"]["game"]
    g["transition_list"] = [[tuple(t) for t in row] for row in g["transition_list"]]
    thr = viol["input"].get("thr", 1e-6)
    check_case(ctx, g, None, thr=None if abs(thr - 1e-6) < 1e-18 else thr)
