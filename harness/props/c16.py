"""C16 — the saved report states exactly what was computed."""
import ast
import copy
import os
import random
import shutil
import subprocess
import sys
import tempfile

import gen
from crlib import repo, REPO, quiet, time_limit, Timeout

P1, P2, PR = gen.P1, gen.P2, gen.PR
SEP = "=" * 160
LABELS = ["Running example", "Message", "number of states", "number of transitions", "n iterations reach",
          "n iterations rew", "Reachability strategies", "Final strategies", "Are equal", "Probabilities",
          "Probabilities min rew", "Rewards", "Rewards min reach", "Total time"]
KEYS = [None, "msg", "n_states", "n_transitions", "n_iterations_reach", "n_iterations_rew",
        "reachability_strategies", "final_strategies", None, "probabilities", "prob_min_rew", "rewards",
        "rew_min_reach", "total_time"]

RULE = ("input files written into a scratch inputs/ directory (names with underscores and digits): "
        "repository example inputs, generated dictionaries of 1-5 games mixing solvable, no-solution and "
        "malformed games (None entries, empty strategy lists, long float vectors); `python "
        "conditionalrewards.py -f inputs/X.py -s` run as a subprocess; the report is compared line by "
        "line with the in-process run_games result and every value is parsed back.  Non-trivial = the "
        "file has at least two games or a failing game.")


def render_game_file(games):
    return "{\n" + ",\n".join(f"    {name!r}: {g!r}" for name, g in games) + "\n}\n"


def parse_report(text):
    lines = text.split("\n")
    if lines and lines[-1] == "":
        lines = lines[:-1]
    blocks = []
    i = 0
    while i < len(lines):
        if lines[i] != SEP:
            return None, f"line {i}: expected separator"
        blk = lines[i + 1:i + 15]
        if len(blk) != 14:
            return None, "incomplete block"
        fields = []
        for lab, ln in zip(LABELS, blk):
            pre = f"{lab:<24}: "
            if not ln.startswith(pre):
                return None, f"label {lab!r} missing: {ln[:40]!r}"
            fields.append(ln[len(pre):])
        blocks.append(fields)
        i += 15
    return blocks, None


def check_file(ctx, stem, text_in, model=None, subdir="inputs", symlink_target=None):
    cr = repo("conditionalrewards")
    d = tempfile.mkdtemp(prefix="crv_")
    inp = {"stem": stem, "subdir": subdir, "file_text": text_in if len(text_in) < 20000 else text_in[:300]}
    try:
        os.makedirs(os.path.join(d, subdir.lstrip("./")))
        os.mkdir(os.path.join(d, "outputs"))
        rel = f"{subdir}/{stem}.py"
        # a report of an earlier run of the same input must be replaced, not extended
        # (the stale report is LONGER than any new one: nothing of it may survive)
        open(os.path.join(d, "outputs", stem + ".txt"), "w").write(
            "=" * 160 + "\nRunning example         : stale\n" + ("=" * 160 + "\nRunning example         : stale tail\n" + "x" * 3000 + "\n") * 400)
        if symlink_target:
            # the real file has another name; the path given on the command line is a symbolic link to it
            open(os.path.join(d, subdir.lstrip("./"), symlink_target + ".py"), "w", encoding="utf-8").write(text_in)
            os.symlink(symlink_target + ".py", os.path.join(d, rel))
        else:
            open(os.path.join(d, rel), "w", encoding="utf-8").write(text_in)
        # in-process: what the batch run produces
        try:
            with quiet(), time_limit(30.0):
                games = cr.read_dict_from_file(os.path.join(d, rel))
                res = cr.run_games(copy.deepcopy(games))
        except Timeout:
            ctx.count("skipped_nonterminating_input")
            return
        except Exception as e:  # noqa
            ctx.case(inp, True)
            ctx.violation("input-read-as-denoted", inp, {"error": type(e).__name__, "msg": str(e)[:200]})
            return
        # the reader returns the games the file textually denotes
        try:
            denoted = ast.literal_eval(text_in)
        except Exception:  # noqa
            try:
                denoted = eval(compile(text_in, "<input>", "eval"), {})       # independent evaluation of the same text
            except Exception:  # noqa
                denoted = None
        if denoted is not None:
            g2 = {k: {kk: vv for kk, vv in v.items() if kk != "prune_states"} for k, v in games.items()}
            if g2 != denoted or list(g2.keys()) != list(denoted.keys()):
                ctx.violation("input-read-as-denoted", inp, {"read_keys": list(games.keys())})
                return
        n_games = len(games)
        failing = any(not str(v["msg"]).startswith("Game solved") for v in res.values())
        ctx.case(inp, n_games >= 2 or failing)
        try:
            p = subprocess.run([sys.executable, os.path.join(REPO, "conditionalrewards.py"), "-f", rel, "-s"], cwd=d,
                               capture_output=True, text=True, timeout=120,
                               env=dict(os.environ, PYTHONPATH=REPO, PYTHONDONTWRITEBYTECODE="1"))
        except subprocess.TimeoutExpired:
            ctx.count("skipped_nonterminating_input")
            return
        outs = sorted(os.listdir(os.path.join(d, "outputs")))
        if p.returncode != 0 or outs != [stem + ".txt"]:
            ctx.violation("report-named-after-input", inp, {"rc": p.returncode, "outputs": outs, "stderr": p.stderr[-300:]})
            return
        text = open(os.path.join(d, "outputs", outs[0]), encoding="utf-8", errors="replace").read()
    finally:
        shutil.rmtree(d, ignore_errors=True)
    blocks, err = parse_report(text)
    if blocks is None:
        ctx.violation("block-structure", inp, {"error": err})
        return
    if len(blocks) != len(res) or [b[0] for b in blocks] != list(res.keys()):
        ctx.violation("one-block-per-entry-in-run-order", inp, {"report": [b[0] for b in blocks], "run": list(res.keys())})
        return
    for b, (name, e) in zip(blocks, res.items()):
        for idx, (lab, key) in enumerate(zip(LABELS, KEYS)):
            if lab == "Total time" or lab == "Running example":
                continue
            if lab == "Message":
                ok = b[idx] == str(e["msg"])
            elif lab == "Are equal":
                ok = b[idx] == str(e["reachability_strategies"] == e["final_strategies"])
            else:
                try:
                    ok = ast.literal_eval(b[idx]) == e[key] and type(ast.literal_eval(b[idx])) == type(e[key])
                except Exception:  # noqa
                    ok = False
            if not ok:
                ctx.violation("line-reads-back", dict(inp, entry=name), {"label": lab, "line": b[idx][:200], "value": repr(e.get(key))[:200]})
                return
    def _strings(x):
        if isinstance(x, str):
            yield x
        elif isinstance(x, (list, tuple)):
            for y in x:
                yield from _strings(y)
    in_domain = all(s_.isprintable() and "'" not in s_ and "\\" not in s_
                    for name, e in res.items() for s_ in list(_strings([name, e["reachability_strategies"], e["final_strategies"]])))
    if not in_domain:
        ctx.count("outside_report_model_domain(non-printable or quoted strings)")
    if model is not None and in_domain:
        ents = []
        for name, e in res.items():
            ents.append({"name": name, "msg": str(e["msg"]), "n_states": rval(e["n_states"]), "n_transitions": rval(e["n_transitions"]),
                         "it_reach": rval(e["n_iterations_reach"]), "it_rew": rval(e["n_iterations_rew"]),
                         "reach_strat": rval(e["reachability_strategies"]), "final_strat": rval(e["final_strategies"]),
                         "are_equal": e["reachability_strategies"] == e["final_strategies"],
                         "probabilities": rval(e["probabilities"]), "prob_min_rew": rval(e["prob_min_rew"]),
                         "rewards": rval(e["rewards"]), "rew_min_reach": rval(e["rew_min_reach"]), "total_time": "T"})
        masked = "\n".join(("Total time              : T" if ln.startswith("Total time") else ln) for ln in text.split("\n"))
        model.add("report", {"entries": ents, "path": f"{subdir}/{stem}.py"},
                  expect={"text": masked, "outname": f"outputs/{stem}.txt"}, inp=inp, suite="corr.report",
                  cmp=lambda ex, r: None if (r.get("text") == ex["text"] and r.get("outname") == ex["outname"]) else
                  ("report text differs from the model's rendering" if r.get("text") != ex["text"] else
                   f"report name {ex['outname']} vs model {r.get('outname')}"))


def rval(x):
    if x is None:
        return {"t": "none"}
    if isinstance(x, bool):
        return {"t": "bool", "v": x}
    if isinstance(x, int):
        return {"t": "int", "v": x}
    if isinstance(x, float):
        return {"t": "float", "v": repr(x)}
    if isinstance(x, str):
        return {"t": "str", "v": x}
    if isinstance(x, (list, tuple)):
        return {"t": "list", "v": [rval(y) for y in x]}
    raise TypeError(type(x))


CLI_ENVIRONMENTS = [("python -O", ("-O",), {}),
                    ("ASCII-only standard streams (PYTHONIOENCODING=ascii)", (), {"PYTHONIOENCODING": "ascii"}),
                    ("C locale, no UTF-8 mode", (), {"LC_ALL": "C", "LANG": "C", "PYTHONUTF8": "0", "PYTHONCOERCECLOCALE": "0"}),
                    ("LANG names a locale that is not installed", (), {"LANG": "xx_YY.UTF-8", "LC_ALL": "", "LC_CTYPE": "xx_YY.UTF-8"}),
                    ("warnings are errors (PYTHONWARNINGS=error)", (), {"PYTHONWARNINGS": "error"})]


def optimized_cli(ctx, stem, text_in, variants=None):
    """conditionalrewards.py -f ... -s under `python -O` (and, for ASCII-only inputs, under other process
    environments) writes the same report as under the normal interpreter (the elapsed time aside)"""
    for label, flags, env_extra in (variants or CLI_ENVIRONMENTS[:1]):
        if not _cli_pair(ctx, stem, text_in, label, flags, env_extra):
            return


def _cli_pair(ctx, stem, text_in, label, vflags, env_extra):
    reports = []
    for flags, extra in (((), {}), (vflags, env_extra)):
        d = tempfile.mkdtemp(prefix="crv_")
        try:
            os.mkdir(os.path.join(d, "inputs"))
            os.mkdir(os.path.join(d, "outputs"))
            open(os.path.join(d, "inputs", stem + ".py"), "w", encoding="utf-8").write(text_in)
            env = {k: v for k, v in os.environ.items() if k != "PYTHONOPTIMIZE"}
            env.update(PYTHONPATH=REPO, PYTHONDONTWRITEBYTECODE="1")
            env.update(extra)
            try:
                p = subprocess.run([sys.executable, *flags, os.path.join(REPO, "conditionalrewards.py"), "-f", f"inputs/{stem}.py", "-s"], cwd=d,
                                   capture_output=True, text=True, timeout=120, env=env)
            except subprocess.TimeoutExpired:
                ctx.count("skipped_nonterminating_input")
                return True
            out = os.path.join(d, "outputs", stem + ".txt")
            rep = open(out, encoding="utf-8", errors="replace").read() if os.path.exists(out) else f"<no report, rc={p.returncode}>"
            reports.append("\n".join(ln for ln in rep.split("\n") if not ln.startswith("Total time")))
        finally:
            shutil.rmtree(d, ignore_errors=True)
    ctx.case({"stem": stem, "interpreter": label, "file_text": text_in}, True)
    if reports[0] != reports[1]:
        a, b = reports[0].split("\n"), reports[1].split("\n")
        k = next((i for i, (x, y) in enumerate(zip(a, b)) if x != y), min(len(a), len(b)))
        ctx.violation("report-states-what-was-computed", {"stem": stem, "interpreter": label, "file_text": text_in},
                      {"first_differing_line": k, "normal": a[k][:200] if k < len(a) else None, label: b[k][:200] if k < len(b) else None})
        return False
    return True


def run(ctx, model=None):
    ctx.extra["rule"] = RULE
    rng = random.Random(ctx.seed * 817504243 + 16)
    # repository examples (known to terminate)
    for f in ("paper_games.py", "example_17_08.py", "robot_1_w1_l2_r6_rb10_lb5_tb10_lt0.py", "robot_1_w2_l1_r6_rb10_lb5_tb10_lt0.py",
              "manual_1_game_a.py"):
        p = os.path.join(REPO, "inputs", f)
        if os.path.exists(p):
            check_file(ctx, f[:-3], open(p).read(), model)
    # a game with more than 1000 states / transitions (digit grouping, long vectors)
    N_ = 1250
    star = {"rewards": [1] + [i % 3 for i in range(N_)] + [0, 0], "players": ["Probabilistic"] * (N_ + 3),
            "transition_list": [[(1 / N_, 1 + i) for i in range(N_)]] + [[(1, N_ + 2)] if i % 5 else [(0.5, N_ + 2), (0.5, N_ + 1)] for i in range(N_)] +
            [[(1, N_ + 1)], [(1, N_ + 2)]], "final_states": [N_ + 2]}
    check_file(ctx, "big_star_1250", render_game_file([("star", star)]), model)
    # expressions a hand-written input may use: builtins, arithmetic, comprehensions, comments
    expr = ("{  # hand-written\n 'calc_1': {'rewards': [0] * 3 + [min(2, 5)], 'players': ['Probabilistic' for _ in range(4)],\n"
            "   'transition_list': [[(1/2, 1), (0.5, 2)], [(1, 3)], [(1, 2)], [(float(1), 3)]], 'final_states': list(range(3, 4))},\n"
            " 'calc_2': {'rewards': [10**3, len('ab'), 0], 'players': ['Player 1', 'Probabilistic', 'Probabilistic'],\n"
            "   'transition_list': [[('a', 1), ('b', 2)], [(round(0.25, 2), 2), (1 - 0.25, 1)], [(1, 2)]], 'final_states': [max(0, 2)]}\n}\n")
    check_file(ctx, "expr_input_1", expr, model)
    # NO-BREAK SPACE inside names: 'a\xa0b' and 'a b' are different actions, 'Player\xa01' is not a player
    nb = {"rewards": [0, 1, 2, 0, 0], "players": ["Player 1", "Probabilistic", "Probabilistic", "Probabilistic", "Probabilistic"],
          "transition_list": [[("go\u00a0on", 1), ("go on", 2)], [(1, 4)], [(0.5, 4), (0.5, 3)], [(1, 3)], [(1, 4)]], "final_states": [4]}
    nb_bad = copy.deepcopy(nb)
    nb_bad["players"][0] = "Player\u00a01"
    # repr() escapes U+00A0; a hand-written file contains the character itself
    check_file(ctx, "nbsp_names_1", render_game_file([("game\u00a0a", nb), ("game a", nb), ("bad", nb_bad)]).replace("\\xa0", "\u00a0"), model)
    # braces and format fields inside names; characters str.splitlines() treats as line ends (VT, FS, NEL, U+2028)
    # inside names of a hand-written file (the characters themselves, not escapes)
    br = copy.deepcopy(nb)
    br["transition_list"][0] = [("{n_states}", 1), ("{{7}} {0} {", 2)]
    check_file(ctx, "brace_names_1", render_game_file([("game {n_states} {{7}}", br), ("} {msg!r:>9} {", nb)]), model)
    ls_ = copy.deepcopy(nb)
    ls_["transition_list"][0] = [("up\x0bdown", 1), ("left\x1cright", 2)]
    txt = render_game_file([("g\x85one", ls_), ("g\u2028two", nb)])
    for esc, ch in (("\\x0b", "\x0b"), ("\\x1c", "\x1c"), ("\\x85", "\x85"), ("\\u2028", "\u2028")):
        txt = txt.replace(esc, ch)
    check_file(ctx, "line_separator_names_1", txt, model)
    # a transition written as a LIST [p, s] denotes a malformed game (the solver wants tuples): the reader must hand
    # over exactly what the text says, and the report must carry the solver's refusal
    lst_txt = ("{\n 'as_lists': {'rewards': [0, 1, 0, 0], 'players': ['Probabilistic'] * 4,\n"
               "   'transition_list': [[[0.5, 1], [0.5, 2]], [[1, 3]], [[1, 2]], [[1, 3]]], 'final_states': [3]},\n"
               " 'mixed': {'rewards': [0, 1, 0, 0], 'players': ['Probabilistic'] * 4,\n"
               "   'transition_list': [[(0.5, 1), [0.5, 2]], [(1, 3)], [(1, 2)], [(1, 3)]], 'final_states': [3]},\n"
               " 'fine': {'rewards': [0, 1, 0, 0], 'players': ['Probabilistic'] * 4,\n"
               "   'transition_list': [[(0.5, 1), (0.5, 2)], [(1, 3)], [(1, 2)], [(1, 3)]], 'final_states': [3]}\n}\n")
    check_file(ctx, "list_written_transitions_1", lst_txt, model)
    # an entry whose two strategy lists DIFFER, followed / preceded by entries that have no strategies at all
    # (unsolvable, malformed): every block states its own equality flag
    differ = {"rewards": [0, 0, 5, 0, 0], "players": ["Player 1", "Probabilistic", "Probabilistic", "Probabilistic", "Probabilistic"],
              "transition_list": [[("a", 1), ("b", 2)], [(1, 4)], [(1, 4)], [(1, 3)], [(1, 4)]], "final_states": [4]}
    dead = {"rewards": [0, 0, 0], "players": ["Probabilistic"] * 3, "transition_list": [[(1, 1)], [(1, 1)], [(1, 2)]], "final_states": [2]}
    for order in (("differ_1", "dead_1", "bad_1", "differ_2"), ("dead_1", "differ_1", "bad_1"), ("differ_1", "bad_1", "dead_1")):
        pool_ = {"differ_1": differ, "differ_2": differ, "dead_1": dead, "bad_1": nb_bad}
        check_file(ctx, "flag_carry_" + "_".join(o[0] for o in order), render_game_file([(o, pool_[o]) for o in order]), model)
    # a file that denotes no game at all: the (empty) report replaces whatever an earlier run left under that name
    check_file(ctx, "empty_batch_1", "{}\n", model)
    # labels and names that are JSON / Python keywords spelt as strings
    kw = copy.deepcopy(nb)
    kw["transition_list"][0] = [("true", 1), ("null", 2)]
    kw2 = copy.deepcopy(nb)
    kw2["transition_list"][0] = [("false", 1), ("None", 2)]
    check_file(ctx, "keyword_labels_1", render_game_file([("null", kw), ("true", kw2), ("false_1", nb)]), model)
    # an ASCII-only file under the process environments of a cron job / container / CI runner: identical report
    optimized_cli(ctx, "env_1", render_game_file([("differ_1", differ), ("dead_1", dead), ("differ_2", differ)]), variants=CLI_ENVIRONMENTS)
    # the same file through `python -O` (asserts stripped, __debug__ False): identical report
    optimized_cli(ctx, "opt_1", render_game_file([("g_1", nb), ("bad", nb_bad)]))
    # the input given through a symbolic link with another name
    check_file(ctx, "current_2", render_game_file([("g_1", nb)]), model, symlink_target="fork_v3")
    N = 6 if ctx.quick() else 400
    for it in range(N):
        k = rng.randint(1, 5)
        games = []
        for i in range(k):
            r = rng.random()
            if r < 0.6:
                g0 = gen.stopping_game(rng, n_inner=rng.randint(1, 8))
                if rng.random() < 0.35:
                    g0 = gen.with_odd_labels(g0, rng)[0]     # action names with braces, %, quotes, backslash, newline
                g = gen.desc(g0)
            elif r < 0.8:
                g = gen.desc(gen.dead_shape_game(rng, rng.choice([P1, PR]), (1, 0, 1)))
            else:
                g = gen.desc(gen.stopping_game(rng, n_inner=3))
                how = rng.choice(["none", "neg", "idx"])
                if how == "none":
                    g["transition_list"][0] = None
                elif how == "neg":
                    g["rewards"][1] = -2
                else:
                    lab, _ = g["transition_list"][0][0]
                    g["transition_list"][0][0] = (lab, 99)
            if rng.random() < 0.3:
                # non-ASCII action / game names (the file is written as UTF-8)
                ren = {"a": "acci\u00f3n", "b": "\u00fcber", "c": "\u03b3"}
                g["transition_list"] = [[((ren.get(l, l) if isinstance(l, str) else l), t_) for l, t_ in row] if isinstance(row, list)
                                        else row for row in g["transition_list"]]
                games.append((rng.choice(["se\u00f1al", "game_\u03b1"]) + f"_{i}", g))
                continue
            games.append((rng.choice(["game", "g_1", "robot7", "x_y_z"]) + f"_{i}", g))
        stem = rng.choice(["batch", "robot_12_w3_l2", "my_games_2024", "a_b_c_1"]) + f"_{it}" + \
            rng.choice(["", "", "_copy", "_py", "_happy", "p", "y"])
        check_file(ctx, stem, render_game_file(games), model,
                   subdir=rng.choice(["inputs", "./inputs", "data_1", "inputs.v2", "my.inputs/set_1"]))
        if ctx.time_left() < 0:
            return


def replay(ctx, viol):
    i = viol["input"]
    if "file_text" in i and len(i["file_text"]) > 300:
        check_file(ctx, i["stem"], i["file_text"], None, subdir=i.get("subdir", "inputs"))
