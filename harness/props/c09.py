"""C09 — malformed games are rejected with ValueError, never solved."""
import copy
import random

import gen
import impl
import wire
from crlib import repo, quiet, time_limit, Timeout
from modelclient import fbits

P1, P2, PR = gen.P1, gen.P2, gen.PR

RULE = ("well-formed base games (examples, small generated stopping games) mutated by every documented "
        "rule x every position at which the rule can be broken (each state, each transition, each tuple "
        "slot; boundary values n and -1 included), both pruning modes, through StochasticGame.solve() "
        "and through run_games (a malformed game between two solvable ones).  A slice of valid-but-odd "
        "descriptions (bool probabilities / indices, float rewards) checks that the model and the code "
        "agree on what is accepted.  Non-trivial = the rule is broken somewhere other than at state 0 / "
        "first transition, or at a boundary value.")


def mutants(g, rng, full):
    """yield (rule, position, broken_game, nontrivial) — each breaks exactly one documented rule"""
    n = len(g["players"])
    tl = g["transition_list"]

    def cp():
        return copy.deepcopy(g)
    # list lengths disagree
    for key in ("rewards", "players", "transition_list"):
        for how in ("drop", "add"):
            h = cp()
            if how == "drop":
                h[key] = h[key][:-1]
            else:
                h[key] = h[key] + [h[key][-1]]
            yield ("lengths-disagree", f"{key}:{how}", h, True)
    states = range(n) if full else sorted(set([0, n - 1, rng.randrange(n)]))
    for s in states:
        for v in (-1, -0.5):
            h = cp()
            h["rewards"][s] = v
            yield ("negative-reward", f"state {s}", h, s > 0)
        for v in ("Player 3", "player 1", "", "Probabilistic "):
            h = cp()
            h["players"][s] = v
            yield ("unknown-player", f"state {s}", h, s > 0)
        for v in ([], None):
            h = cp()
            h["transition_list"][s] = v
            yield ("state-without-transitions", f"state {s}", h, s > 0)
        for v in (tuple(tl[s]), {"a": 1}, "ab", 7, [list(t) for t in tl[s]]):
            h = cp()
            h["transition_list"][s] = v
            yield ("not-a-list-of-2-tuples", f"state {s} row={type(v).__name__}", h, s > 0)
        trs = range(len(tl[s])) if full else sorted(set([0, len(tl[s]) - 1]))
        for k in trs:
            lab, t = tl[s][k]
            for bad_t in (n, -1, n + 3):
                h = cp()
                h["transition_list"][s][k] = (lab, bad_t)
                yield ("successor-out-of-range", f"state {s} tr {k} -> {bad_t}", h, True)
            for bad_t in (1.0, "1", None, (1,)):
                h = cp()
                h["transition_list"][s][k] = (lab, bad_t)
                yield ("non-integer-successor", f"state {s} tr {k}", h, s > 0 or k > 0)
            for bad in ((lab, t, 0), (lab,), (), [lab, t], "xy", 5):
                h = cp()
                h["transition_list"][s][k] = bad
                yield ("not-a-list-of-2-tuples", f"state {s} tr {k} elem={bad!r}"[:60], h, s > 0 or k > 0)
            if g["players"][s] == PR:
                for bad in ("0.5", None, (0.5,)):
                    h = cp()
                    h["transition_list"][s][k] = (bad, t)
                    yield ("non-numeric-probability", f"state {s} tr {k}", h, s > 0 or k > 0)
            else:
                for bad in (5, None, 0.5, ("a",)):
                    h = cp()
                    h["transition_list"][s][k] = (bad, t)
                    yield ("non-string-action", f"state {s} tr {k}", h, s > 0 or k > 0)
    # final states
    for bad in (n, -1, n + 7):
        for pos in ("only", "first", "last"):
            h = cp()
            h["final_states"] = [bad] if pos == "only" else [bad] + h["final_states"] if pos == "first" else h["final_states"] + [bad]
            yield ("final-out-of-range", f"{bad} {pos}", h, True)
    h = cp()
    h["final_states"] = []
    yield ("no-final-state", "", h, True)
    # an unknown player that is not even hashable / not a string
    for s in list(states)[:2]:
        for v in (["Player 1"], {"p": 1}, None, 5):
            h = cp()
            h["players"][s] = v
            yield ("unknown-player", f"state {s} value {type(v).__name__}", h, True)
    # the empty game: no states at all
    yield ("lengths-or-no-final", "empty game", {"rewards": [], "players": [], "transition_list": [], "final_states": []}, True)
    yield ("final-out-of-range", "empty game, final 0", {"rewards": [], "players": [], "transition_list": [], "final_states": [0]}, True)
    # two states SHARING one transition-list object: probabilistic state first, player state later;
    # the player state's action is then not a string
    pr_states = [i for i in range(n) if g["players"][i] == PR and len(tl[i]) == 1]
    pl_states = [i for i in range(n) if g["players"][i] != PR]
    for a in pr_states[:2]:
        for b in [x for x in pl_states if x > a][:2]:
            h = cp()
            h["transition_list"][b] = h["transition_list"][a]        # the SAME list object
            yield ("non-string-action", f"state {b} shares the list object of state {a}", h, True)
    # two defects: a state without transitions before a state with ill-formed transitions
    if n >= 3:
        h = cp()
        h["transition_list"][0] = None
        lab, t_ = h["transition_list"][n - 3][0]
        h["transition_list"][n - 3][0] = (lab, n + 1)
        yield ("two-defects", "missing transitions + bad successor", h, True)


CATEGORY = [("transition list must have the same number", "transition list length"),
            ("reward list must have the same number", "reward list length"),
            ("rewards must be positive", "negative reward"),
            ("final states must be in the range", "final state out of range"),
            ("player must be", "unknown player"),
            ("missing transitions", "missing transitions"),
            ("next states must be a list.", "next states must be a list"),
            ("next states must be a list of tuples.", "list of tuples"),
            ("tuples of length 2", "tuples of length 2"),
            ("action must be a str", "action must be a str"),
            ("probability must be a number", "probability must be a number"),
            ("next state must be an int", "next state must be an int"),
            ("next state must be in the range", "next state out of range"),
            ("arg is an empty sequence", "empty"), ("iterable argument is empty", "empty")]


def category(msg):
    low = str(msg).lower()
    for pat, cat in CATEGORY:
        if pat in low:
            return cat
    return None


def solve_outcome(g, prune):
    """outcome class of StochasticGame(**g).solve() — result must be absent on error"""
    tad = repo("tad")
    try:
        with quiet(), time_limit(5.0), impl.maybe_debug():
            res = tad.StochasticGame(**copy.deepcopy(g), prune_states=prune).solve()
        return "ok", res
    except Timeout:
        return "Timeout", None
    except ValueError as e:
        return "ValueError", str(e)
    except Exception as e:  # noqa
        return type(e).__name__, str(e)


def check_mutant(ctx, base, rule, pos, h, nontriv, model, ok_games):
    inp = {"rule": rule, "position": pos, "game": h}
    ctx.case(inp, nontriv)
    ctx.count("rule=" + rule)
    first_msg = None
    for prune in (True, False):
        out, info = solve_outcome(h, prune)
        if out != "ValueError":
            ctx.violation("raises-ValueError", dict(inp, prune=prune), {"outcome": out, "info": str(info)[:200]})
            return
        first_msg = first_msg or info
    # the batch runner records the error and goes on
    cr = repo("conditionalrewards")
    d = {"before": copy.deepcopy(ok_games[0]), "broken": copy.deepcopy(h), "after": copy.deepcopy(ok_games[1])}
    try:
        with quiet(), time_limit(10.0), impl.maybe_debug():
            res = cr.run_games(d)
    except Timeout:
        ctx.violation("batch-records-message", inp, {"outcome": "Timeout"})
        return
    except Exception as e:  # noqa
        ctx.violation("batch-records-message", inp, {"outcome": type(e).__name__, "msg": str(e)[:200]})
        return
    m = res.get("broken", {}).get("msg", "")
    if not (isinstance(m, str) and m.startswith("Error while solving the game")) or res["broken"]["rewards"] is not None \
            or res.get("broken_no_prune", {}).get("msg") != "Game not solved":
        ctx.violation("batch-records-message", inp, {"msg": m, "no_prune": res.get("broken_no_prune", {}).get("msg")})
        return
    if res["after"]["msg"] != "Game solved" or res["before"]["msg"] != "Game solved":
        ctx.violation("batch-continues", inp, {"before": res["before"]["msg"], "after": res["after"]["msg"]})
        return
    # the malformed game right after its own well-formed original (they may compare equal as Python values:
    # 2 == 2.0 == True inside nested lists and tuples): it is still refused
    d2 = {"twin": copy.deepcopy(base), "broken": copy.deepcopy(h)}
    try:
        with quiet(), time_limit(10.0):
            res2 = cr.run_games(d2)
    except Timeout:
        res2 = None
    except Exception as e:  # noqa
        ctx.violation("batch-records-message", dict(inp, batch="after its well-formed original"), {"outcome": type(e).__name__, "msg": str(e)[:200]})
        return
    if res2 is not None:
        m2 = res2.get("broken", {}).get("msg", "")
        if not (isinstance(m2, str) and m2.startswith("Error while solving the game")) or res2["broken"]["rewards"] is not None:
            ctx.violation("batch-records-message", dict(inp, batch="after its well-formed original"),
                          {"msg": m2, "original": res2.get("twin", {}).get("msg")})
            return
    if model is not None and wire.in_c09_domain(h):
        cat = category(first_msg)

        def cmp_rule(e, r, cat=cat):
            v = r.get("validate", {})
            if not v.get("outcome", "").startswith("ValueError"):
                return f"implementation raises ValueError, model validate says {v}"
            # which of several broken rules is reported first is NOT compared: the property asks for a
            # ValueError, and a harmless re-ordering of the validation must not raise an alarm
            return None
        model.add("validate", {"game": wire.pygame_payload(h), "thr": fbits(1e-6), "prune": True},
                  expect="ValueError", inp=inp, suite="corr.validate", cmp=cmp_rule)


def odd_but_valid(rng, g):
    """descriptions the code accepts although unusual: the model must agree"""
    h = copy.deepcopy(g)
    n = len(h["players"])
    for s in range(n):
        if h["players"][s] == PR and len(h["transition_list"][s]) == 1:
            h["transition_list"][s] = [(True, h["transition_list"][s][0][1])]
    h["rewards"] = [float(r) if rng.random() < 0.5 else r for r in h["rewards"]]
    return h


def cmp_valid(expect, r):
    v = r.get("validate", {}).get("outcome")
    if expect["outcome"].startswith("ValueError") and not expect["outcome"].endswith("nosolution"):
        return None if str(v).startswith("ValueError") else f"impl ValueError, model validate {v}"
    if v != "ok":
        return f"impl accepted ({expect['outcome']}), model validate {v}"
    return None            # what an ACCEPTED game is solved to is the business of C01..C06, not of this property


def solvable_pair():
    out = []
    r = random.Random(12345)
    while len(out) < 2:
        g = gen.stopping_game(r, n_inner=3, dead_frac=0.3)
        if impl.solve(g, True)["outcome"] == "ok":
            out.append(gen.desc(g))
    return out


def run(ctx, model=None):
    ctx.extra["rule"] = RULE
    rng = random.Random(ctx.seed * 553105253 + 9)
    from props.c10 import example_games
    bases = [g for g in example_games() if len(g["players"]) <= 12][:3]
    # a probabilistic single-transition state BEFORE player states (for shared-list-object mutants)
    bases.insert(1, {"rewards": [0, 1, 0, 0, 0], "players": [PR, P1, P2, PR, PR],
                     "transition_list": [[(1, 1)], [("a", 2), ("b", 4)], [("x", 3), ("y", 4)], [(1, 3)], [(1, 4)]],
                     "final_states": [4], "_meta": {"family": "fixed"}})
    for _ in range(3 if ctx.quick() else 150):
        bases.append(gen.stopping_game(rng, n_inner=rng.randint(2, 5)))
    ok_games = solvable_pair()
    for bi, b in enumerate(bases):
        g = gen.desc(b)
        full = (not ctx.quick()) or bi <= 1
        for rule, pos, h, nt in mutants(g, rng, full):
            check_mutant(ctx, g, rule, pos, h, nt, model, ok_games)
            if ctx.time_left() < 0:
                return
        # sanity: the base itself is accepted; valid-but-odd variants agree with the model
        for h in (g, odd_but_valid(rng, g)):
            o = impl.solve(h, True)
            ctx.case({"valid": h}, False)
            if o["outcome"] not in ("ok", "ValueError:nosolution"):
                ctx.violation("well-formed-accepted", {"game": h}, {"outcome": o["outcome"], "msg": o.get("msg")})
            if model is not None and wire.in_c09_domain(h):
                model.add("validate", {"game": wire.pygame_payload(h), "thr": fbits(1e-6), "prune": True},
                          expect=o, inp={"valid": h}, suite="corr.validate", cmp=cmp_valid)


def replay(ctx, viol):
    i = viol["input"]
    h = i["game"]
    h["transition_list"] = [([tuple(t) if isinstance(t, list) else t for t in row] if isinstance(row, list) else row)
                            for row in h["transition_list"]] if isinstance(h.get("transition_list"), list) else h.get("transition_list")
    rng = random.Random(1)
    ok_games = solvable_pair()
    check_mutant(ctx, None, i["rule"], i["position"], h, True, None, ok_games)
