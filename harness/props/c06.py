"""C06 — every well-formed stopping game is solved or declared unsolvable."""
import json
import os
import random
from fractions import Fraction as Fr

import gen
import impl
import oracles
import wire
from analysis import THR
from crlib import VERIF

P1, P2, PR = gen.P1, gen.P2, gen.PR
KEY_SOLV = "C06.nosolution@tad.Solver.value_iteration_reachability:residual-stop"

RULE = ("stopping games by construction: random (with dead parts, initial state dead or forced away by "
        "Player 2), every live/dead successor pattern (rewarded dead self-loops included), slow cycles, "
        "deep chains; both pruning modes; wall-clock bound per solve.  Non-trivial = the game has a "
        "zero-probability state or a probabilistic cycle.")


def judge(ctx, g, prune, o, limit):
    inp = {"game": gen.desc(g), "prune": prune} if len(g["players"]) <= 40 else {"meta": g.get("_meta"), "prune": prune}
    n = len(g["players"])
    out = o["outcome"]
    if out == "Timeout":
        ctx.violation("terminates", inp, {"bound_s": limit})
        return
    if out == "ok":
        r = o["res"]
        ok = len(r) == 8 and all(isinstance(r[k], list) and len(r[k]) == n for k in (0, 1, 2, 3, 6, 7)) \
            and isinstance(r[4], int) and isinstance(r[5], int) \
            and all(isinstance(x, (int, float)) and x == x for k in (2, 3, 6, 7) for x in r[k])
        if not ok:
            ctx.violation("complete-result", inp, {"result": r})
            return
        if prune and r[3][0] == 0:
            ctx.violation("no-solution-not-raised", inp, {"probs": r[3]})
        return
    if out == "ValueError:nosolution":
        if not prune:
            ctx.violation("no-solution-raised-without-pruning", inp, {})
            return
        xtl = gen.exact_tl(g)
        if oracles.count_profiles(g["players"], xtl) <= 400 and n <= 14:
            v0 = oracles.game_reach_value(g["players"], xtl, g["final_states"])[0]
            if v0 != 0:
                r = impl.reach_only(g, prune=False)
                res = None
                if r["outcome"] == "ok":
                    fx = [Fr(y) for y in r["probs"]]
                    b = oracles.bellman_reach(g["players"], xtl, g["final_states"], fx)
                    res = max(abs(a - c) for a, c in zip(b, fx))
                # the listed finding is about a REPORTED probability of exactly 0 for state 0 (the value
                # needs one more sweep to propagate); raising although the report is positive is not it
                sig = KEY_SOLV if (res is not None and res <= THR * (1 + Fr(1, 1000)) and v0 <= 10 * THR
                                   and r["probs"][0] == 0) else None
                ctx.violation("no-solution-iff-value-zero", inp, {"true_value_state0": v0, "residual": res}, key=sig)
        return
    ctx.violation("no-other-error", inp, {"outcome": out, "msg": o.get("msg")})


def check_case(ctx, g, model=None, limit=None):
    limit = limit or (5.0 if ctx.quick() else 60.0)
    dead_any = False
    for prune in (True, False):
        o = impl.solve(g, prune, limit=limit, want_nodes=False)
        if o["outcome"] == "Timeout":
            # a wall-clock bound measures the machine as well as the code (a busy host made a 3000-state chain miss
            # its 60 s once): before "does not terminate" is claimed the solve is repeated, without the DEBUG
            # pass, with ten times the bound
            with impl.forced_debug(False):
                o = impl.solve(g, prune, limit=max(300.0, 10 * limit), want_nodes=False)
            ctx.count("slow_case_repeated_with_long_bound")
            limit_used = max(300.0, 10 * limit)
        else:
            limit_used = limit
        judge(ctx, g, prune, o, limit_used)
        if o["outcome"] == "ok":
            dead_any = dead_any or any(p == 0 for p in o["res"][3])
        elif o["outcome"] == "ValueError:nosolution":
            dead_any = True
        if model is not None and len(g["players"]) <= 400:
            model.add("solve", dict(wire.game_payload(g), prune=prune), expect=dict(o, nodes=None),
                      inp={"game": gen.desc(g), "prune": prune} if len(g["players"]) <= 40 else {"meta": g.get("_meta")},
                      suite="corr.solve", cmp=wire.staged(ctx, {"outcome"}))
    cyc = g.get("_meta", {}).get("family") in ("slow_cycle",) or any(
        any(t <= i for _, t in row) for i, row in enumerate(g["transition_list"][:-2]))
    ctx.case({"game": gen.desc(g)} if len(g["players"]) <= 30 else {"meta": g.get("_meta")}, dead_any or cyc)
    ctx.count("family=" + str(g.get("_meta", {}).get("family", "?")))


def chain_game(n, rng):
    """deep stopping chain 0 -> 1 -> ... -> win, some probabilistic leaks to lose"""
    players, xtl, rewards = [], [], []
    lose, win = n, n + 1
    for i in range(n):
        nxt = i + 1 if i + 1 < n else win
        k = rng.choice([P1, P2, PR])
        players.append(k)
        rewards.append(rng.choice([0, 1]))
        if k == PR:
            xtl.append([(Fr(15, 16), nxt), (Fr(1, 16), lose)] if i % 7 == 3 else [(Fr(1), nxt)])
        else:
            xtl.append([("go", nxt)])
    players += [PR, PR]
    rewards += [0, 0]
    xtl += [[(Fr(1), lose)], [(Fr(1), win)]]
    return gen.finish(rewards, players, xtl, [win], {"family": "chain", "n": n})


def tiny_direct_games():
    """initial state with a positive value far below the threshold, reported exactly (no propagation
    needed); initial state that is itself the (absorbing) final state"""
    out = []
    for q in (Fr(1, 2 ** 24), Fr(1, 2 ** 31), Fr(1, 10 ** 7), Fr(1, 2 ** 50)):
        out.append(gen.finish([1, 0, 0], [PR, PR, PR], [[(q, 2), (1 - q, 1)], [(Fr(1), 1)], [(Fr(1), 2)]], [2],
                              {"family": "tiny_direct"}))
        for k in (P1, P2):
            out.append(gen.finish([0, 1, 0, 0], [PR, k, PR, PR],
                                  [[(q, 3), (1 - q, 2)], [("a", 0)], [(Fr(1), 2)], [(Fr(1), 3)]], [3],
                                  {"family": "tiny_direct"}))
    # state 0 is final and absorbing; the rest of the game is arbitrary
    out.append(gen.finish([0, 2, 0], [PR, PR, PR], [[(Fr(1), 0)], [(Fr(1, 2), 0), (Fr(1, 2), 2)], [(Fr(1), 2)]], [0],
                          {"family": "initial_final"}))
    out.append(gen.finish([0, 1, 0, 0], [PR, P1, PR, PR], [[(Fr(1), 0)], [("a", 2), ("b", 3)], [(Fr(1), 2)], [(Fr(1), 3)]],
                          [3, 0], {"family": "initial_final"}))
    return out


def through_run_games(ctx, games, coarse=False):
    """run_games()[name]['msg'] (observe_at): an unsolvable game must not affect its neighbours"""
    from crlib import repo, quiet, time_limit
    cr = repo("conditionalrewards")
    d = {f"g{i}": gen.desc(g) for i, g in enumerate(games)}
    solo = [impl.solve(g, True, want_nodes=False)["outcome"] for g in games]
    try:
        with quiet(), time_limit(60.0), impl.maybe_debug():
            if coarse:
                with impl.coarse_clock():
                    res = cr.run_games(d)
            else:
                res = cr.run_games(d)
    except BaseException as e:  # noqa
        ctx.violation("batch-terminates", {"games": list(d.values())}, {"error": type(e).__name__, "msg": str(e)[:200]})
        return
    for i, g in enumerate(games):
        m = res[f"g{i}"]["msg"]
        exp_ok = solo[i] == "ok"
        if exp_ok != (m == "Game solved") or (not exp_ok and "no solution" not in str(m).lower()):
            ctx.violation("run_games-message", {"games": list(d.values()), "index": i}, {"msg": m, "solo": solo[i], "all": [res[f"g{j}"]["msg"] for j in range(len(games))]})
            return
        if exp_ok and res[f"g{i}_no_prune"]["msg"] != "Game solved":
            ctx.violation("run_games-message", {"games": list(d.values()), "index": i}, {"no_prune_msg": res[f"g{i}_no_prune"]["msg"]})
            return
    ctx.count("through_run_games")


def huge_integer_rewards(ctx):
    """rewards are documented as non-negative integers and Python integers are unbounded: on games whose
    probabilities are the integer 1 the solver's arithmetic is exact integer arithmetic"""
    for big in (10 ** 400, 2 ** 1024, 10 ** 30):
        for g in ({"rewards": [big, 0, 3, 0], "players": [P1, PR, P2, PR],
                   "transition_list": [[("a", 1), ("b", 2)], [(1, 3)], [("x", 3)], [(1, 3)]], "final_states": [3]},
                  {"rewards": [1, big, 0], "players": [PR, P2, PR],
                   "transition_list": [[(1, 1)], [("a", 2)], [(1, 2)]], "final_states": [2]}):
            for prune in (True, False):
                ctx.case({"game": g, "prune": prune, "family": "huge_integer_rewards"}, True)
                o = impl.solve(g, prune, want_nodes=False)
                if o["outcome"] != "ok":
                    ctx.violation("no-other-error", {"game": g, "prune": prune}, {"outcome": o["outcome"], "msg": o.get("msg")})
                    return
                want0 = big + 3 if g["rewards"][0] == big else 1 + big
                if o["res"][2][0] != want0:
                    ctx.violation("complete-result", {"game": g, "prune": prune}, {"rewards": [str(x) for x in o["res"][2]], "expected_state0": str(want0)})
                    return


def run(ctx, model=None):
    ctx.extra["rule"] = RULE
    huge_integer_rewards(ctx)
    import analysis as _an0
    _r0 = random.Random(ctx.seed + 61)
    _an0.optimized_interpreter(ctx, [gen.stopping_game(_r0, dead_frac=0.6) for _ in range(10)], "complete-result")
    rng = random.Random(ctx.seed * 3010349 + 6)
    import analysis as _r5
    _r5rng = random.Random(ctx.seed + 555)
    _r5.round5_passes(ctx, _r5rng, [gen.stopping_game(_r5rng, extra_finals=0.25) for _ in range(3 if ctx.quick() else 40)] +
                      [gen.slow_cycle_game(_r5rng), gen.decimal_tie_game(_r5rng)], "complete-result", fields=None)
    specials = tiny_direct_games()
    for g in specials:
        check_case(ctx, g, model)
    pool = []
    while len(pool) < 12:
        g = gen.stopping_game(rng, n_inner=rng.randint(2, 5), dead_frac=0.5)
        pool.append(g)
    for k in range(4 if ctx.quick() else 40):
        through_run_games(ctx, rng.sample(pool, rng.randint(2, 5)), coarse=(k % 2 == 1))
    for kind in (PR, P1):
        for pat in gen.all_patterns(4 if ctx.quick() else 6):
            for sl in (False, True):
                g = gen.dead_shape_game(rng, kind, pat, selfloop=sl, dead_reward=2 if sl else None)
                check_case(ctx, g, model)
    N = 250 if ctx.quick() else 8000
    for k in range(N):
        g = gen.slow_cycle_game(rng) if k % 8 == 0 else gen.stopping_game(rng, dead_frac=rng.choice([0, 0.3, 0.6]))
        check_case(ctx, g, model)
        if ctx.time_left() < 0:
            return
    # reachability phase on arbitrary well-formed games (several final states, final states that are not
    # absorbing, player cycles): 'no solution' exactly when the exact value of state 0 is 0, no other error
    for k in range(150 if ctx.quick() else 4000):
        g = gen.multi_final_game(rng) if k % 5 == 0 else gen.free_game(rng)
        ctx.case({"game": gen.desc(g), "phase": "reachability"}, len(g["final_states"]) > 1)
        r = impl.reach_only(g, prune=True)
        xtl = gen.exact_tl(g)
        if r["outcome"] == "Timeout" or oracles.count_profiles(g["players"], xtl) > 400 or len(g["players"]) > 14:
            continue
        v0 = oracles.game_reach_value(g["players"], xtl, g["final_states"])[0]
        inp = {"game": gen.desc(g), "prune": True, "phase": "reachability"}
        if r["outcome"] == "ok":
            if v0 == 0:
                ctx.violation("no-solution-not-raised", inp, {"probs": r["probs"]})
        elif r["outcome"] == "ValueError:nosolution":
            if v0 != 0:
                r2 = impl.reach_only(g, prune=False)
                sig = KEY_SOLV if (r2["outcome"] == "ok" and r2["probs"][0] == 0 and v0 <= 10 * THR) else None
                ctx.violation("no-solution-iff-value-zero", inp, {"true_value_state0": v0}, key=sig)
        else:
            ctx.violation("no-other-error", inp, {"outcome": r["outcome"], "msg": r.get("msg")})
    check_case(ctx, gen.cascade_game(1050), None, limit=120.0)      # > 1000 rounds of prune_states
    check_case(ctx, gen.big_dead_corridor(2100), model, limit=120.0)
    for n in ([50, 1200] if ctx.quick() else [50, 1200, 3000]):
        check_case(ctx, chain_game(n, rng), model, limit=60.0)


def known_findings(ctx):
    if KEY_SOLV not in ctx.open_keys:
        return []
    w = json.load(open(os.path.join(VERIF, "findings", "C06-subthreshold.json")))
    g = w["game"]
    g["transition_list"] = [[tuple(t) for t in row] for row in g["transition_list"]]
    o = impl.solve(g, True)
    if o["outcome"] == "ValueError:nosolution":
        return [f"KNOWN-FINDING: property=C06 'no solution' raised although the initial state's value is "
                f"{w['value0']} > 0: {w['name']} [{KEY_SOLV}]"]
    return []


def replay(ctx, viol):
    import analysis as _r5
    if _r5.replay_round5(ctx, viol, fields=None):
        return
    g = viol["input"]["game"]
    g["transition_list"] = [[tuple(t) for t in row] for row in g["transition_list"]]
    check_case(ctx, g, None)
