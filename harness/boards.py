"""Boards and the generator's games, produced with the repository's own writer + reader."""
import os
import shutil
import tempfile

from crlib import repo, quiet


def random_board(rng, L, W, fd=False, max_reward=3, p_loose=0.3):
    mv = [[rng.choice([0, 1, 2, 3] if fd else [0, 1, 2]) for _ in range(W)] for _ in range(L)]
    if fd:
        for row in mv:
            row[rng.randrange(W)] = 3
    rw = [[rng.choice([0, 0, 1, 2, max_reward]) for _ in range(W)] for _ in range(L)]
    ls = [[1 if rng.random() < p_loose else 0 for _ in range(W)] for _ in range(L)]
    return mv, rw, ls


def games_of_board(mv, rw, ls, pt=0.1, pr=0.1, pl=0.1):
    """dict {'game_a','game_b','game_c'} as written by write_robots and read back by the
    repository's reader (scratch directory, removed afterwards)."""
    rg = repo("roberta_generator")
    cr = repo("conditionalrewards")
    d = tempfile.mkdtemp(prefix="crv_")
    try:
        p = os.path.join(d, "b.py")
        with quiet():
            rg.write_robots(p, len(mv), len(mv[0]), mv, rw, ls, pt, pr, pl)
            games = cr.read_dict_from_file(p)
        text = open(p).read()
    finally:
        shutil.rmtree(d, ignore_errors=True)
    return games, text


def board_games(rng, L, W, fd=False, pt=0.1, pr=0.1, pl=0.05):
    mv, rw, ls = random_board(rng, L, W, fd)
    games, _ = games_of_board(mv, rw, ls, pt, pr, pl)
    out = []
    for name in ("game_a", "game_b", "game_c"):
        g = dict(games[name])
        g["_meta"] = {"family": "board:" + name[-1], "L": L, "W": W, "fd": fd}
        out.append(g)
    return out
