"""Boards and the generator's games, produced with the repository's own writer + reader."""
import os
import shutil
import tempfile

from crlib import repo, quiet


def random_board(rng, L, W, fd=False, max_reward=3, p_loose=0.3):
    mv = [[rng.choice([0, 1, 2, 3] if fd else [0, 1, 2]) for _ in range(W)] for _ in range(L)]
    if fd:
        for row in mv:
            row[rng.randrange(W)] = 3
    rw = [[rng.choice([0, 0, 1, 2, max_reward]) for _ in range(W)] for _ in range(L)]
    ls = [[1 if rng.random() < p_loose else 0 for _ in range(W)] for _ in range(L)]
    return mv, rw, ls


def games_of_board(mv, rw, ls, pt=0.1, pr=0.1, pl=0.1, bare_name=False):
    """dict {'game_a','game_b','game_c'} as written by write_robots and read back by the
    repository's reader (scratch directory, removed afterwards).  bare_name: the file is named without any
    directory part and written into the current directory."""
    rg = repo("roberta_generator")
    cr = repo("conditionalrewards")
    d = tempfile.mkdtemp(prefix="crv_")
    old = os.getcwd()
    try:
        p = os.path.join(d, "b.py")
        with quiet():
            if bare_name:
                os.chdir(d)
                rg.write_robots("b.py", len(mv), len(mv[0]), mv, rw, ls, pt, pr, pl)
            else:
                rg.write_robots(p, len(mv), len(mv[0]), mv, rw, ls, pt, pr, pl)
            games = cr.read_dict_from_file(p)
        text = open(p).read()
    finally:
        os.chdir(old)
        shutil.rmtree(d, ignore_errors=True)
    return games, text


def board_games(rng, L, W, fd=False, pt=0.1, pr=0.1, pl=0.05):
    mv, rw, ls = random_board(rng, L, W, fd)
    games, _ = games_of_board(mv, rw, ls, pt, pr, pl)
    out = []
    for name in ("game_a", "game_b", "game_c"):
        g = dict(games[name])
        g["_meta"] = {"family": "board:" + name[-1], "L": L, "W": W, "fd": fd}
        out.append(g)
    return out


# ------------------------------------------------------------------------------------------
# running the generator's entry points with instrumentation that does not touch the repo
# ------------------------------------------------------------------------------------------
class RandomProxy:
    """stands in for the `random` module inside roberta_generator: records every call and
    its result; optionally overrides `random()` results (API-boundary witnesses)."""

    def __init__(self, real, log, force_random=None):
        self._real, self._log, self._force = real, log, force_random

    def seed(self, *a, **k):
        self._log.append(("seed", a[0] if a else None))
        return self._real.seed(*a, **k)

    def random(self):
        r = self._real.random()
        if self._force is not None:
            r = self._force(len([1 for e in self._log if e[0] == "random"]), r)
        self._log.append(("random", r))
        return r

    def choices(self, *a, **k):
        r = self._real.choices(*a, **k)
        self._log.append(("choices", list(r)))
        return r

    def randrange(self, *a, **k):
        r = self._real.randrange(*a, **k)
        self._log.append(("randrange", r))
        return r

    def __getattr__(self, name):
        return getattr(self._real, name)


def run_generator(argv=None, call=None, force_random=None, pre_files=None, inputs_dir=True):
    """Run roberta_generator.main() with `argv` (or `call(rg)`) in a scratch cwd containing an
    empty inputs/ directory.  Returns dict(outcome, files {name: text}, log [effects])."""
    import builtins
    import random as real_random
    import sys
    rg = repo("roberta_generator")
    d = tempfile.mkdtemp(prefix="crv.v2_")            # a working directory whose path contains a dot
    if inputs_dir:
        os.mkdir(os.path.join(d, "inputs"))
    for name, content in (pre_files or {}).items():      # files left by an earlier run in this directory
        with open(os.path.join(d, name), "w") as f:
            f.write(content)
    log = []
    old_cwd, old_argv = os.getcwd(), sys.argv

    def rec_open(path, mode="r", *a, **k):
        if "w" in mode or "a" in mode:
            log.append(("open", str(path), mode))
        return builtins.open(path, mode, *a, **k)
    out = {"outcome": "ok"}
    try:
        os.chdir(d)
        rg.random = RandomProxy(real_random, log, force_random)
        rg.open = rec_open
        if argv is not None:
            sys.argv = ["roberta_generator.py"] + [str(x) for x in argv]
        try:
            with quiet():
                out["ret"] = call(rg) if call else rg.main()
        except SystemExit as e:
            out["outcome"] = f"SystemExit:{e.code}"
        except Exception as e:  # noqa
            out["outcome"] = type(e).__name__
            out["msg"] = str(e)[:200]
        files = {}
        dirs = []
        for root, ds, fs in os.walk(d):
            for f in fs:
                p = os.path.join(root, f)
                files[os.path.relpath(p, d)] = open(p).read()
            for sub in ds:
                dirs.append(os.path.relpath(os.path.join(root, sub), d))
        out["files"] = files
        out["dirs"] = sorted(dirs)      # directories present afterwards (inputs/ itself when it was pre-created)
    finally:
        os.chdir(old_cwd)
        sys.argv = old_argv
        rg.random = real_random
        if "open" in rg.__dict__:
            del rg.__dict__["open"]
        shutil.rmtree(d, ignore_errors=True)
    out["log"] = log
    return out


def run_generator_cli(argv, pyflags=(), base_dir=None, pre_files=None, env_extra=None):
    """`python [pyflags] roberta_generator.py argv` as a subprocess in a scratch cwd (under base_dir) holding an empty
    inputs/ directory (plus pre_files).  Returns dict(rc, stderr, files {relative name: text})."""
    import subprocess
    import sys
    from crlib import REPO
    d = tempfile.mkdtemp(prefix="crv.cli_", dir=base_dir)
    try:
        os.mkdir(os.path.join(d, "inputs"))
        for name, content in (pre_files or {}).items():
            with open(os.path.join(d, name), "w") as f:
                f.write(content)
        env = {k: v for k, v in os.environ.items() if k != "PYTHONOPTIMIZE"}
        env.update(PYTHONPATH=REPO, PYTHONDONTWRITEBYTECODE="1")
        env.update(env_extra or {})
        try:
            p = subprocess.run([sys.executable, *pyflags, os.path.join(REPO, "roberta_generator.py")] + [str(a) for a in argv],
                               cwd=d, capture_output=True, text=True, timeout=300, env=env)
            rc, err = p.returncode, p.stderr[-300:]
        except subprocess.TimeoutExpired:
            rc, err = "timeout", ""
        files = {}
        for root, _, fs in os.walk(d):
            for f in fs:
                pth = os.path.join(root, f)
                try:
                    files[os.path.relpath(pth, d)] = open(pth).read()
                except Exception as e:  # noqa
                    files[os.path.relpath(pth, d)] = f"<unreadable: {type(e).__name__}>"
        return {"rc": rc, "stderr": err, "files": files}
    finally:
        shutil.rmtree(d, ignore_errors=True)


def generator_environment(ctx, clause, param_sets):
    """What the generator writes must not depend on the interpreter's optimisation level (`python -O` strips asserts),
    on the file system the working directory lives on (a temp file moved into place fails across devices), or on
    what an earlier run left under the same name (a longer file of the same name must be replaced, not overwritten
    in place).  Reference = the in-process run in a fresh directory."""
    other_fs = None
    try:
        if os.path.isdir("/dev/shm") and os.access("/dev/shm", os.W_OK) and os.stat("/dev/shm").st_dev != os.stat(tempfile.gettempdir()).st_dev:
            other_fs = "/dev/shm"
    except OSError:
        pass
    for argv in param_sets:
        ref = run_generator(argv)
        if ref["outcome"] != "ok" or len(ref["files"]) != 1:
            continue                      # judged elsewhere
        (name, text), = ref["files"].items()
        inp = {"argv": list(argv)}
        runs = [("python -O", dict(pyflags=("-O",))),
                ("same-named longer file left by an earlier run", dict(pre_files={name: text + "\n# " + "x" * 4000 + "\n{'stale': 1}\n" * 3}))]
        # the process environment a cron job / container / Windows console gives the generator
        runs.append(("ASCII-only standard streams (PYTHONIOENCODING=ascii)", dict(env_extra={"PYTHONIOENCODING": "ascii"})))
        runs.append(("C locale, no UTF-8 mode", dict(env_extra={"LC_ALL": "C", "LANG": "C", "PYTHONUTF8": "0", "PYTHONCOERCECLOCALE": "0"})))
        runs.append(("LANG names a locale that is not installed", dict(env_extra={"LANG": "xx_YY.UTF-8", "LC_ALL": "", "LC_CTYPE": "xx_YY.UTF-8"})))
        runs.append(("warnings are errors (PYTHONWARNINGS=error)", dict(env_extra={"PYTHONWARNINGS": "error"})))
        if other_fs:
            runs.append(("temp directory on another file system (TMPDIR)", dict(env_extra={"TMPDIR": other_fs})))
        if other_fs:
            runs.append((f"working directory on another file system ({other_fs}) than the temp directory", dict(base_dir=other_fs)))
        for label, kw in runs:
            r = run_generator_cli(argv, **kw)
            ctx.case(dict(inp, environment=label), True)
            if r["rc"] != 0 or r["files"] != {name: text}:
                ctx.violation(clause, dict(inp, environment=label),
                              {"rc": r["rc"], "stderr": r["stderr"], "files": sorted(r["files"]),
                               "same_content": r["files"].get(name) == text,
                               "length": [len(r["files"].get(name, "")), len(text)]})
                return
