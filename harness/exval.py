"""Translation validation for harness/py2lean.py: the Lean definitions it emits (lean/CR/Extracted/*.lean) are EVALUATED
on sampled arguments and compared with the Python functions they were translated from, run in-process on the same
arguments.  This checks the translator's own trusted base (its typing annotations, the Prelude semantics of range /
indexing / dicts / `while` fuel, the struct-of-arrays view of `state_list`) on every run — sampled, not proved.

Cases on which the Python function raises IndexError / UnboundLocalError / ZeroDivisionError / TypeError / KeyError are
skipped: those exceptions are documented as not modelled by the translation.
"""
import json
import math
import os
import random
import struct
import subprocess
import sys
import types

import py2lean
from py2lean import INT, FLOAT, STR, BOOL, UNIT, SLOT

HERE = os.path.dirname(os.path.abspath(__file__))
VERIF = os.path.dirname(HERE)
LEAN_DIR = os.path.join(VERIF, "lean")
SKIP = (IndexError, UnboundLocalError, ZeroDivisionError, TypeError, KeyError)


def fbits(x):
    return struct.unpack("<Q", struct.pack("<d", float(x)))[0]


# ---- canonical text of a Python value at a translator type (must match CR/Extracted/Show.lean) -------------------
def show(v, t):
    if t == INT:
        return str(int(v))
    if t == FLOAT:
        return f"f{fbits(v)}"
    if t == STR:
        return json.dumps(v, ensure_ascii=False)
    if t == BOOL:
        return "true" if v else "false"
    if t == UNIT:
        return "()"
    if t == SLOT:
        return json.dumps(v) if isinstance(v, str) else f"f{fbits(v)}"
    if t[0] == "List":
        return "[" + ",".join(show(x, t[1]) for x in v) + "]"
    if t[0] == "Tup":
        return "(" + ",".join(show(x, tt) for x, tt in zip(v, t[1])) + ")"
    if t[0] == "Dict":
        return "[" + ",".join("(" + show(k, t[1]) + "," + show(x, t[2]) + ")" for k, x in v.items()) + "]"
    if t[0] == "Opt":
        return "none" if v is None else show(v, t[1])
    if t[0] == "Var":
        return "()"
    raise ValueError(t)


def ltype(t):
    """Lean type of a literal: type variables are instantiated with Unit"""
    if isinstance(t, tuple) and t[0] == "Var":
        return "Unit"
    if isinstance(t, tuple) and t[0] == "List":
        return f"List ({ltype(t[1])})"
    if isinstance(t, tuple) and t[0] == "Tup":
        return "(" + " × ".join(ltype(x) for x in t[1]) + ")"
    if isinstance(t, tuple) and t[0] == "Dict":
        return f"List ({ltype(t[1])} × {ltype(t[2])})"
    if isinstance(t, tuple) and t[0] == "Opt":
        return f"Option ({ltype(t[1])})"
    return py2lean.lean_type(t)


# ---- Lean literal of a Python value at a translator type ------------------------------------------------------
def lit(v, t):
    if t == INT:
        return f"({int(v)} : Int)" if v >= 0 else f"(-{-int(v)} : Int)"
    if t == FLOAT:
        return f"(Float.ofBits {fbits(v)})"
    if t == STR:
        return json.dumps(v, ensure_ascii=False)
    if t == BOOL:
        return "true" if v else "false"
    if t[0] == "List":
        return "([" + ", ".join(lit(x, t[1]) for x in v) + f"] : {ltype(t)})"
    if t[0] == "Tup":
        return "(" + ", ".join(lit(x, tt) for x, tt in zip(v, t[1])) + ")"
    if t[0] == "Dict":
        return "([" + ", ".join("(" + lit(k, t[1]) + ", " + lit(x, t[2]) + ")" for k, x in v.items()) + f"] : {ltype(t)})"
    if t[0] == "Opt":
        return "none" if v is None else f"(some {lit(v, t[1])})"
    if t[0] == "Var":
        return "()"
    raise ValueError(t)


def subst_var(t):
    """type variables are instantiated with Unit on the Lean side"""
    if isinstance(t, tuple):
        if t[0] == "Var":
            return t
        return (t[0],) + tuple(subst_var(x) if isinstance(x, tuple) and x and isinstance(x[0], str) else
                               (tuple(subst_var(y) for y in x) if isinstance(x, tuple) else x) for x in t[1:])
    return t


# ---- argument generators --------------------------------------------------------------------------------------
def board(rng, L, W, hi):
    return [[rng.randint(0, hi) for _ in range(W)] for _ in range(L)]


def gen_cases(rng, n):
    for _ in range(n):
        L, W = rng.randint(1, 3), rng.randint(1, 4)
        yield {"length": L, "width": W, "moves": board(rng, L, W, 3), "rewards": board(rng, L, W, 6),
               "loose_tiles": board(rng, L, W, 1), "offset": rng.randint(0, 40), "offset_r": rng.randint(0, 40),
               "offset_y": rng.randint(0, 40), "offset_l": rng.choice([7, 7, rng.randint(0, 40)]), "offset_d": rng.randint(0, 40),
               "offset_ok": rng.randint(0, 40), "offset_break": rng.randint(0, 40),
               "winning_state": rng.choice([None, 0, 1, 57]), "loosing_state": rng.randint(0, 60),
               "prob_tile_break": rng.random(), "prob_robot_break": rng.random(), "prob_light_break": rng.random(),
               "prob_loose_tile": rng.random(), "prob": rng.choice([rng.random(), rng.randint(1, 99) / 100]),
               "seed": rng.choice([-1, 0, 3, 2 ** 70]), "max_reward": rng.choice([-1, 0, 1, 6, 100]),
               "force_down": rng.random() < 0.5, "matrix": board(rng, L, W, 9)}


def check_input_cases(rng, n):
    pool = [0.0, 1.0, 0.5, -0.1, 1.5, 5e-324, 1 - 2 ** -53, float("nan"), float("inf")]
    for _ in range(n):
        yield {"seed": rng.choice([-1, 0, 3]), "width": rng.choice([-1, 0, 2]), "length": rng.choice([-1, 0, 2]),
               "prob_robot_break": rng.choice(pool + [0.3] * 6), "prob_light_break": rng.choice(pool + [0.3] * 6),
               "prob_loose_tile": rng.choice(pool + [0.3] * 6), "prob_tile_break": rng.choice(pool + [0.3] * 6),
               "max_reward": rng.choice([-1, 0, 5])}


def graph(rng):
    n = rng.randint(1, 7)
    return [[((), rng.randrange(n)) for _ in range(rng.choice([0, 1, 1, 2, 3]))] for _ in range(n)]


def rdfs_cases(rng, n, mod):
    for _ in range(n):
        tl = graph(rng)
        nn = len(tl)
        core = mod.reverse_transition_list_core(tl)
        d = mod.list_of_tuples_to_dict_of_lists(list(core))
        full = mod.reverse_transition_list(tl)
        yield {"transition_list": tl, "list_of_tuples": [(rng.randrange(5), rng.randrange(5)) for _ in range(rng.randint(0, 8))],
               "transition_dict": dict(d), "number_of_states": rng.choice([nn, nn + 2, 0]),
               "final_states": [rng.randrange(nn) for _ in range(rng.randint(1, 3))],
               "state": rng.randrange(nn), "reversed_transitions": full,
               "reaching_states": rng.sample(range(nn), rng.randint(0, min(2, nn)))}


def dy(rng, lo=0, hi=16):
    return rng.randint(lo, hi) / 8.0        # dyadic with <= 3 decimals: Python's round(x, 6) returns x itself


def tad_cases(rng, n):
    for _ in range(n):
        k = rng.randint(1, 6)
        m = rng.choice([0, 1, 2, 3, 4])
        acts = ["a", "b", "c", "", "a"]
        yield {"act_row": [(rng.choice(acts), rng.randrange(k)) for _ in range(m)],
               "prob_row": [(dy(rng, 0, 8), rng.randrange(k)) for _ in range(m)],
               "reward": dy(rng), "reach": [rng.choice([0.0, 0.0, 1.0, dy(rng, 0, 8)]) for _ in range(k)],
               "er": [dy(rng) for _ in range(k)], "ermr": [dy(rng) for _ in range(k)], "pmr": [dy(rng, 0, 8) for _ in range(k)],
               "floor": 6, "best_strategies": rng.sample(["a", "b", "c", ""], rng.randint(0, 3)),
               "strategies": rng.sample(["a", "b", "c", ""], rng.randint(0, 3))}


def call_method(tad, cls, meth, row, case, extra):
    """run a node-class method of the working tree on plain data: the node and the state objects are built without
    running the constructors (which validate and need a whole game)"""
    C = getattr(tad, cls)
    k = len(case["reach"])
    sl = []
    for i in range(k):
        o = types.SimpleNamespace(reach_probability=case["reach"][i], expected_rewards=case["er"][i],
                                  expected_rewards_min_reach=case["ermr"][i], expected_reach_min_rewards=case["pmr"][i])
        sl.append(o)
    node = object.__new__(C)
    node.next_states = list(row)
    node.reward = case["reward"]
    r = getattr(node, meth)(sl, *extra) if meth not in ("prune_paths_reachability",) else getattr(node, meth)(*extra)
    return node.next_states if meth.startswith("prune_paths") else r


def run(modules, seed=0, n=12, repo=None):
    """returns {"cases": k, "skipped": s, "mismatches": [...], "units": {...}}"""
    repo = repo or py2lean.REPO
    rng = random.Random(seed * 1000003 + 77)
    sys.path.insert(0, repo)
    try:
        import importlib
        mods = {}
        for name in ("roberta_generator", "stochastic_game_from_roborta_board", "reverse_dfs", "tad"):
            try:
                if name in sys.modules:
                    mods[name] = importlib.reload(sys.modules[name])
                else:
                    mods[name] = importlib.import_module(name)
            except Exception:  # noqa
                mods[name] = None
    finally:
        sys.path.pop(0)
    lines, expect, skipped = [], [], 0
    per_unit = {}

    def add(ns, unit, cfg, argvals, pyres_fn, prefix_args=""):
        nonlocal skipped
        try:
            res = pyres_fn()
        except SKIP:
            skipped += 1
            return
        except ValueError as e:
            res = ("ValueError", str(e))
        rt = cfg["returns"]
        if isinstance(res, tuple) and len(res) == 2 and res[0] == "ValueError":
            exp = "ValueError:" + res[1]
        else:
            exp = show(res, rt)
        args = " ".join(argvals)
        lines.append(f"#eval IO.println (\"@@{len(expect)} \" ++ CR.PyShow.sh ({ns}.{unit} {prefix_args}{args}))")
        expect.append((f"{ns}.{unit}", exp, args[:400]))
        per_unit[unit] = per_unit.get(unit, 0) + 1

    def params_of(unit_cfg, fdef_params, case, rename=None):
        vals = []
        for p in fdef_params:
            t = unit_cfg["params"][p]
            key = (rename or {}).get(p, p)
            vals.append(lit(case[key], t))
        return vals

    imports = []
    if any(m in modules for m in ("Gen", "Gen2", "TransferGen")):
        imports += ["CR.Extracted.Gen", "CR.Extracted.Manual"]
        rg, sg = mods["roberta_generator"], mods["stochastic_game_from_roborta_board"]
        if rg is not None:
            import ast
            tree = ast.parse(open(os.path.join(repo, "roberta_generator.py")).read())
            fdefs = {f.name: f for f in tree.body if isinstance(f, ast.FunctionDef)}
            for case in gen_cases(rng, n):
                for unit, cfg in py2lean.GEN_UNITS.items():
                    if cfg.get("mode") == "assign_expr" or unit == "check_input" or unit.startswith("write_robot"):
                        continue
                    if unit not in fdefs:
                        continue
                    ps = [a.arg for a in fdefs[unit].args.args]
                    if any(p not in case or p not in cfg["params"] for p in ps):
                        continue
                    c1 = {p: (41 if case[p] is None and cfg["params"][p] == INT else case[p]) for p in ps}
                    vals = params_of(cfg, ps, c1)
                    add("CR.Ex.Gen", unit, cfg, vals, lambda u=unit, kw=c1: getattr(rg, u)(**kw))
                # the assembled games: what write_robot_X puts into its `game` dict, read back from the written text
                for unit, extra in (("write_robot_A", ["prob_tile_break"]), ("write_robot_B", ["prob_tile_break", "prob_robot_break"]),
                                    ("write_robot_C", ["prob_tile_break", "prob_robot_break", "prob_light_break"])):
                    if unit not in fdefs:
                        continue
                    cfg = py2lean.GEN_UNITS[unit]
                    ps = [a.arg for a in fdefs[unit].args.args if a.arg != "my_file"]
                    try:
                        vals = params_of(cfg, ps, case)
                    except KeyError:
                        continue

                    def game_of(u=unit, ps=ps, case=case):
                        import io
                        buf = io.StringIO()
                        getattr(rg, u)(buf, *[case[p] for p in ps])
                        txt = buf.getvalue().strip()
                        txt = txt[txt.index("{", 1 if txt.startswith("{\n 'game_a'") else 0):] if u == "write_robot_A" else txt[txt.index("{"):]
                        txt = txt.rstrip().rstrip("}").rstrip().rstrip(",") if u == "write_robot_C" else txt.rstrip().rstrip(",")
                        g = eval(txt, {"__builtins__": {}})
                        return (g["rewards"], g["players"], g["transition_list"], g["final_states"])
                    add("CR.Ex.Gen", unit, cfg, vals, game_of)
            for case in check_input_cases(rng, 3 * n):
                cfg = py2lean.GEN_UNITS["check_input"]
                ps = list(cfg["params"])
                add("CR.Ex.Gen", "check_input", cfg, params_of(cfg, ps, case),
                    lambda case=case, ps=ps: rg.check_input(*[case[p] for p in ps]) or ())
        if sg is not None and rg is not None:
            for case in gen_cases(rng, n):
                cfg = py2lean.SG_UNITS["get_max_from_matrix"]
                add("CR.Ex.Gen", "get_max_from_matrix", cfg, [lit(case["matrix"], cfg["params"]["matrix"])],
                    lambda case=case: sg.get_max_from_matrix(case["matrix"]))
    if "Rdfs" in modules or "RdfsLoop" in modules:
        imports += ["CR.Extracted.Rdfs"]
        rd = mods["reverse_dfs"]
        if rd is not None:
            import ast
            tree = ast.parse(open(os.path.join(repo, "reverse_dfs.py")).read())
            fdefs = {f.name: f for f in tree.body if isinstance(f, ast.FunctionDef)}
            for case in rdfs_cases(rng, 2 * n, rd):
                for unit, cfg in py2lean.RDFS_UNITS.items():
                    if unit not in fdefs:
                        continue
                    ps = [a.arg for a in fdefs[unit].args.args]
                    vals = params_of(cfg, ps, case)
                    import copy
                    kw = {p: copy.deepcopy(case[p]) for p in ps}
                    fuel = "200 " if unit in ("reverse_dfs_recursive", "reverse_dfs") else ""
                    add("CR.Ex.Rdfs", unit, cfg, vals, lambda u=unit, kw=kw: getattr(rd, u)(**kw), prefix_args="(A := Unit) " * 0 + fuel)
    if any(m in modules for m in ("Tad", "TransferTad", "Check", "PruneStates")):
        imports += ["CR.Extracted.Tad"]
        tad = mods["tad"]
        # argument lists follow the emitted signatures (the pseudo parameters depend on what each method reads)
        sigs = {}
        tad_path = os.path.join(LEAN_DIR, "CR", "Extracted", "Tad.lean")
        if os.path.exists(tad_path):
            import re
            for m in re.finditer(r"^def (\w+) (.*):=$", open(tad_path).read(), re.M):
                sigs[m.group(1)] = re.findall(r"\((\w+) : ", m.group(2))
        if tad is not None:
            import inspect
            for case in tad_cases(rng, 2 * n):
                for unit, cfg in py2lean.TAD_UNITS.items():
                    cls, meth = cfg["cls"], cfg["of"]
                    if unit not in sigs or "next_states" not in cfg["params"]:
                        continue
                    row = case["prob_row"] if cfg["params"]["next_states"] == py2lean.PROB_ROW else case["act_row"]
                    c2 = dict(case, next_states=row)
                    src = getattr(getattr(tad, cls, None), meth, None)
                    if src is None:
                        continue
                    explicit = [p for p in inspect.signature(src).parameters if p not in ("self", "state_list")]
                    extra = [c2[p] for p in explicit]
                    vals = ["(fun x _ => x)" if p == "rnd" else lit(c2[p], cfg["params"][p]) for p in sigs[unit]]
                    add("CR.Ex.Tad", unit, cfg, vals,
                        lambda cls=cls, meth=meth, row=row, c2=c2, extra=extra: call_method(tad, cls, meth, row, c2, extra))
            # StochasticGame.check_game on whole (typed) descriptions, well-formed and broken in one place
            cfg = py2lean.TAD_UNITS.get("StochasticGame_check_game")
            if cfg is not None and "StochasticGame_check_game" in sigs:
                for _ in range(3 * n):
                    k = rng.randint(1, 5)
                    d = {"transition_list": [() for _ in range(k)], "num_states": k, "rewards": [dy(rng) for _ in range(k)],
                         "final_states": [rng.randrange(k) for _ in range(rng.randint(1, 3))],
                         "players": [rng.choice(["Player 1", "Player 2", "Probabilistic"]) for _ in range(k)]}
                    how = rng.choice(["ok", "ok", "tl", "rw", "neg", "fin_hi", "fin_neg", "player", "player_last"])
                    if how == "tl":
                        d["transition_list"] = d["transition_list"][:-1]
                    elif how == "rw":
                        d["rewards"] = d["rewards"] + [1.0]
                    elif how == "neg":
                        d["rewards"][rng.randrange(k)] = -0.5
                    elif how == "fin_hi":
                        d["final_states"].append(k)
                    elif how == "fin_neg":
                        d["final_states"].insert(0, -1)
                    elif how == "player":
                        d["players"][0] = "Player 3"
                    elif how == "player_last":
                        d["players"][-1] = "player 1"
                    vals = [lit(d[p], cfg["params"][p]) for p in sigs["StochasticGame_check_game"]]

                    def run_check(d=d):
                        sg = object.__new__(tad.StochasticGame)
                        sg.transition_list, sg.num_states, sg.rewards = d["transition_list"], d["num_states"], d["rewards"]
                        sg.final_states, sg.players = d["final_states"], d["players"]
                        return sg.check_game() or ()
                    add("CR.Ex.Tad", "StochasticGame_check_game", cfg, vals, run_check)
            # Solver.prune_states on small conditioned games: owners + rows in, rows out
            cfg = py2lean.TAD_UNITS.get("Solver_prune_states")
            if cfg is not None and "Solver_prune_states" in sigs:
                for _ in range(2 * n):
                    k = rng.randint(1, 6)
                    owners = [rng.choice(["Player 1", "Player 2", "Probabilistic"]) for _ in range(k)]
                    rows = []
                    for o in owners:
                        m = rng.choice([0, 1, 1, 2])
                        rows.append([((rng.choice(["a", "b"]) if o != "Probabilistic" else dy(rng, 1, 8)), rng.randrange(k)) for _ in range(m)])
                    vals = ["50", lit(owners, cfg["params"]["owners"]),
                            "(" + "[" + ", ".join("[" + ", ".join(f"({'CR.Py.Slot.act ' + json.dumps(l) if isinstance(l, str) else 'CR.Py.Slot.prob ' + lit(l, FLOAT)}, {lit(t, INT)})" for l, t in r) + "]" for r in rows) + "] : List (List (CR.Py.Slot × Int)))"]

                    def run_ps(owners=owners, rows=rows):
                        sl = []
                        for o, r in zip(owners, rows):
                            sl.append(types.SimpleNamespace(player=o, next_states=list(r)))
                        sv = object.__new__(tad.Solver)
                        sv.state_list = sl
                        sv.prune_states()
                        return [x.next_states for x in sl]
                    add("CR.Ex.Tad", "Solver_prune_states", cfg, vals, run_ps)
    out_lines = lines
    if not out_lines:
        return {"cases": 0, "skipped": skipped, "mismatches": [], "units": per_unit}
    path = os.path.join(LEAN_DIR, ".lake", f"exval_{'_'.join(sorted(modules))}.lean")
    with open(path, "w") as f:
        for imp in sorted(set(imports)):
            f.write(f"import {imp}\n")
        f.write("import CR.Extracted.Show\nset_option linter.unusedVariables false\n")
        f.write("\n".join(out_lines) + "\n")
    p = subprocess.run(["lake", "env", "lean", path], cwd=LEAN_DIR, capture_output=True, text=True)
    got = {}
    for line in p.stdout.split("\n"):
        if line.startswith("@@"):
            k, _, v = line[2:].partition(" ")
            got[int(k)] = v
    mism = []
    for k, (unit, exp, args) in enumerate(expect):
        g = got.get(k)
        if g != exp:
            mism.append({"unit": unit, "args": args, "python": exp[:300], "lean": (g if g is not None else "<no output>")[:300]})
    res = {"cases": len(expect), "skipped": skipped, "mismatches": mism[:5], "n_mismatches": len(mism), "units": per_unit}
    if p.returncode != 0 and not got:
        res["error"] = (p.stdout + p.stderr)[-800:]
    return res


if __name__ == "__main__":
    r = run(sys.argv[1:] or ["Gen", "Rdfs", "Tad"], seed=int(os.environ.get("VERIF_SEED", "0")))
    json.dump(r, sys.stdout, indent=1, default=str)
    print()
