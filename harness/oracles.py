"""Independent exact oracles (fractions.Fraction).  Written from the property statements,
not from the Lean model: they are used for the failing-input search and the direct oracle
pass on the implementation's outputs.
"""
import itertools
from fractions import Fraction as Fr

P1, P2, PR = "Player 1", "Player 2", "Probabilistic"


# ------------------------------------------------------------------------------------------
# graphs
# ------------------------------------------------------------------------------------------
def can_reach(tl, targets):
    """set of states from which some state of `targets` is reachable (reflexive)."""
    n = len(tl)
    rev = [[] for _ in range(n)]
    for u, row in enumerate(tl):
        for _, v in row:
            if 0 <= v < n:
                rev[v].append(u)
    seen = set(t for t in targets if 0 <= t < n)
    stack = list(seen)
    while stack:
        v = stack.pop()
        for u in rev[v]:
            if u not in seen:
                seen.add(u)
                stack.append(u)
    return seen


def reachable_from(tl, src):
    seen = {src}
    stack = [src]
    while stack:
        u = stack.pop()
        for _, v in tl[u]:
            if v not in seen:
                seen.add(v)
                stack.append(v)
    return seen


# ------------------------------------------------------------------------------------------
# exact linear algebra
# ------------------------------------------------------------------------------------------
def solve_linear(A, b):
    """Gaussian elimination over Fractions; returns x with A x = b or None if singular."""
    n = len(A)
    M = [list(map(Fr, A[i])) + [Fr(b[i])] for i in range(n)]
    for c in range(n):
        piv = None
        for r in range(c, n):
            if M[r][c] != 0:
                piv = r
                break
        if piv is None:
            return None
        M[c], M[piv] = M[piv], M[c]
        inv = 1 / M[c][c]
        M[c] = [x * inv for x in M[c]]
        for r in range(n):
            if r != c and M[r][c] != 0:
                f = M[r][c]
                M[r] = [x - f * y for x, y in zip(M[r], M[c])]
    return [M[i][n] for i in range(n)]


def chain_reach(chain, finals):
    """chain: list of lists (p, t) with Fractions (rows may be empty = stuck, value 0).
    Exact probability of ever visiting a final state."""
    n = len(chain)
    fin = set(finals)
    tl = [[(p, t) for p, t in row if p != 0] for row in chain]
    # a final state has value 1 regardless of its outgoing transitions
    tl_cut = [[] if i in fin else tl[i] for i in range(n)]
    good = can_reach(tl_cut, fin)
    unk = [i for i in range(n) if i in good and i not in fin]
    idx = {s: k for k, s in enumerate(unk)}
    A = [[Fr(0)] * len(unk) for _ in unk]
    b = [Fr(0)] * len(unk)
    for s in unk:
        k = idx[s]
        A[k][k] += 1
        for p, t in tl_cut[s]:
            if t in fin:
                b[k] += p
            elif t in idx:
                A[k][idx[t]] -= p
    x = solve_linear(A, b) if unk else []
    if x is None:
        raise ArithmeticError("singular reachability system")
    out = [Fr(0)] * n
    for i in fin:
        out[i] = Fr(1)
    for s in unk:
        out[s] = x[idx[s]]
    return out


def chain_total_reward(chain, rewards):
    """Expected total reward of a Markov chain (rows may be empty = stuck: worth 0, own
    reward NOT collected, matching the property's 'emptied state is worth 0').
    Returns list of Fractions, or None at states where the expectation is infinite."""
    n = len(chain)
    tl = [[(p, t) for p, t in row if p != 0] for row in chain]
    # states that collect reward forever: can reach a bottom SCC containing a rewarded
    # non-stuck state.  Compute value 0 states: from which no rewarded non-stuck state is
    # reachable.
    rewarded = [i for i in range(n) if tl[i] and rewards[i] != 0]
    pos = can_reach(tl, rewarded)            # may collect something
    zero = set(range(n)) - pos
    # infinite: states that can reach a closed set inside `pos` ... detect via linear
    # system singularity instead: solve on `pos` states; singular <=> some recurrent class
    # inside pos (which necessarily has a rewarded state reachable => infinite).
    unk = sorted(pos)
    idx = {s: k for k, s in enumerate(unk)}
    # recurrent classes inside pos: states of pos that cannot leave pos-with-prob... find
    # states from which `zero` or stuck is reached with probability 1; otherwise infinite.
    sink_like = [i for i in range(n) if i in zero]
    esc = chain_reach([tl[i] if i in pos else [] for i in range(n)], sink_like) if sink_like else [Fr(0)] * n
    inf = set(i for i in unk if esc[i] != 1)
    fin_unk = [s for s in unk if s not in inf]
    idx = {s: k for k, s in enumerate(fin_unk)}
    A = [[Fr(0)] * len(fin_unk) for _ in fin_unk]
    b = [Fr(0)] * len(fin_unk)
    for s in fin_unk:
        k = idx[s]
        A[k][k] += 1
        b[k] += rewards[s]
        for p, t in tl[s]:
            if t in idx:
                A[k][idx[t]] -= p
    x = solve_linear(A, b) if fin_unk else []
    if x is None:
        raise ArithmeticError("singular reward system")
    out = [Fr(0)] * n
    for s in inf:
        out[s] = None
    for s in fin_unk:
        out[s] = x[idx[s]]
    return out


# ------------------------------------------------------------------------------------------
# games: positional-strategy enumeration (small games only)
# ------------------------------------------------------------------------------------------
def strategy_space(players, tl, who):
    """list of (state, number of choices) for states of player `who` with >= 1 transition"""
    return [(i, len(tl[i])) for i, pl in enumerate(players) if pl == who and len(tl[i]) > 0]


def count_profiles(players, tl):
    c = 1
    for i, pl in enumerate(players):
        if pl in (P1, P2) and len(tl[i]) > 1:
            c *= len(tl[i])
    return c


def induced_chain(players, tl, choice):
    chain = []
    for i, pl in enumerate(players):
        if pl == PR:
            chain.append([(Fr(p), t) for p, t in tl[i]])
        elif tl[i]:
            _, t = tl[i][choice.get(i, 0)]
            chain.append([(Fr(1), t)])
        else:
            chain.append([])
    return chain


def _enumerate(players, tl, evaluate, worst_none=False):
    """max over P1 positional strategies of the pointwise min over P2 positional strategies
    of evaluate(chain) (list; None = +infinity)."""
    n = len(players)
    s1 = [(i, k) for i, k in strategy_space(players, tl, P1)]
    s2 = [(i, k) for i, k in strategy_space(players, tl, P2)]
    INF = None

    def vmin(a, b):
        return [(y if x is INF else (x if y is INF else min(x, y))) for x, y in zip(a, b)]

    def vmax(a, b):
        return [(INF if (x is INF or y is INF) else max(x, y)) for x, y in zip(a, b)]
    best = None
    for c1 in itertools.product(*[range(k) for _, k in s1]):
        ch = {i: c for (i, _), c in zip(s1, c1)}
        inner = None
        for c2 in itertools.product(*[range(k) for _, k in s2]):
            ch2 = dict(ch)
            ch2.update({i: c for (i, _), c in zip(s2, c2)})
            v = evaluate(induced_chain(players, tl, ch2))
            inner = v if inner is None else vmin(inner, v)
        best = inner if best is None else vmax(best, inner)
    return best


def game_reach_value(players, xtl, finals):
    """exact max-min reachability value per state (positional determinacy)."""
    return _enumerate(players, xtl, lambda ch: chain_reach(ch, finals))


def game_reward_value(players, xtl, rewards):
    """exact max-min expected total reward per state (None = infinite), for games where
    positional strategies suffice (stopping games)."""
    return _enumerate(players, xtl, lambda ch: chain_total_reward(ch, rewards))


# ------------------------------------------------------------------------------------------
# Bellman operators (exact), residuals
# ------------------------------------------------------------------------------------------
def bellman_reach(players, xtl, finals, x):
    fin = set(finals)
    out = []
    for i, pl in enumerate(players):
        if i in fin:
            out.append(Fr(1))
        elif not xtl[i]:
            out.append(Fr(0))
        elif pl == P1:
            out.append(max(x[t] for _, t in xtl[i]))
        elif pl == P2:
            out.append(min(x[t] for _, t in xtl[i]))
        else:
            out.append(sum((Fr(p) * x[t] for p, t in xtl[i]), Fr(0)))
    return out


def bellman_reward(players, xtl, rewards, x):
    out = []
    for i, pl in enumerate(players):
        if not xtl[i]:
            out.append(Fr(0))
        elif pl == P1:
            out.append(rewards[i] + max(x[t] for _, t in xtl[i]))
        elif pl == P2:
            out.append(rewards[i] + min(x[t] for _, t in xtl[i]))
        else:
            out.append(rewards[i] + sum((Fr(p) * x[t] for p, t in xtl[i]), Fr(0)))
    return out


# ------------------------------------------------------------------------------------------
# the conditioned game of C02/C03, built from what the solver *reported*
# ------------------------------------------------------------------------------------------
def conditioned(players, xtl, reach_strats, probs, prune):
    """Player 1 keeps exactly the actions named in its reported reachability strategy; when
    pruning, Player 1 / probabilistic states drop transitions into states reported with
    probability 0 and surviving probabilities are divided by the surviving total.
    Returns the transition list BEFORE the clearing of unreachable states."""
    out = []
    for i, pl in enumerate(players):
        row = list(xtl[i])
        if pl == P1:
            row = [(a, t) for a, t in row if a in (reach_strats[i] or [])]
        if prune and pl in (P1, PR):
            live = [(l, t) for l, t in row if probs[t] != 0]
            if pl == PR and len(live) != len(row) and live:
                tot = sum(Fr(p) for p, _ in live)
                live = [(Fr(p) / tot, t) for p, t in live]
            row = live
        out.append(row)
    return out


def round_half_even_scaled(x, digits=6):
    """integer nearest to x*10^digits, ties to even, for x a Fraction / int / float"""
    q = Fr(x) * 10 ** digits
    fl = q.numerator // q.denominator
    rem = q - fl
    if rem > Fr(1, 2) or (rem == Fr(1, 2) and fl % 2 == 1):
        return fl + 1
    return fl
