/-
Line-protocol driver over the executable model: one JSON request per input line, one JSON
response per output line.  Imports only the model (no Mathlib), so it links as `crmodel`.

Numbers travel as strings: doubles as the decimal rendering of their 64-bit pattern
(`"num":"float"`), exact rationals as `"n/d"` (`"num":"rat"`).
-/
import Lean.Data.Json
import CR.Model.Num
import CR.Model.Rdfs
import CR.Model.Solver
import CR.Model.Gen
import CR.Model.Validate
import CR.Model.Batch
import CR.Model.Report
import CR.Model.Heap
import CR.Model.Text

open Lean CR

structure Codec (α : Type) where
  parse : String → Option α
  render : α → String
  rnd : Nat → α → Int

def floatCodec : Codec Float where
  parse s := s.toNat?.map (fun n => Float.ofBits n.toUInt64)
  render x := toString x.toBits.toNat
  rnd := roundFloat

def parseRat (s : String) : Option Rat :=
  match s.splitOn "/" with
  | [a] => a.toInt?.map (fun (i : Int) => (i : Rat))
  | [a, b] => do
    let n ← a.toInt?
    let d ← b.toNat?
    if d = 0 then none else some (mkRat n d)
  | _ => none

def ratCodec : Codec Rat where
  parse := parseRat
  render q := s!"{q.num}/{q.den}"
  rnd := roundRat

def getStr (j : Json) (k : String) : Except String String := do
  (← j.getObjVal? k).getStr?

def getNat (j : Json) (k : String) : Except String Nat := do
  (← j.getObjVal? k).getNat?

def getArr (j : Json) (k : String) : Except String (Array Json) := do
  (← j.getObjVal? k).getArr?

def getBoolD (j : Json) (k : String) (d : Bool) : Bool :=
  match j.getObjVal? k with
  | .ok (.bool b) => b
  | _ => d

def getNatD (j : Json) (k : String) (d : Nat) : Nat :=
  match j.getObjVal? k with
  | .ok v => (v.getNat?.toOption).getD d
  | _ => d

section
variable {α : Type} (c : Codec α)

def parseNum (j : Json) : Except String α := do
  let s ← j.getStr?
  match c.parse s with
  | some x => pure x
  | none => throw s!"bad number {s}"

def parseTr (j : Json) : Except String (Tr α) := do
  let a ← j.getArr?
  if a.size ≠ 3 then throw "transition must have 3 fields"
  let act ← a[0]!.getStr?
  let p ← parseNum c a[1]!
  let t ← a[2]!.getNat?
  pure { act := act, p := p, tgt := t }

def parseGame (j : Json) : Except String (Game α) := do
  let rewards ← (← getArr j "rewards").mapM (parseNum c)
  let owners ← (← getArr j "players").mapM (fun o => do
    let k ← o.getNat?
    pure (if k = 1 then Owner.p1 else if k = 2 then Owner.p2 else Owner.prob))
  let tl ← (← getArr j "tl").mapM (fun row => do
    let r ← row.getArr?
    let l ← r.mapM (parseTr c)
    pure l.toList)
  let finals ← (← getArr j "finals").mapM (·.getNat?)
  pure { rewards := rewards, owners := owners, tl := tl, finals := finals.toList }

def vecJson (v : Array α) : Json := Json.arr (v.map (fun x => Json.str (c.render x)))

def stratJson (s : Array Strat) : Json :=
  Json.arr (s.map (fun o => match o with
    | none => Json.null
    | some l => Json.arr (l.toArray.map Json.str)))

def nodesJson (nodes : Array (List (Tr α))) : Json :=
  Json.arr (nodes.map (fun row => Json.arr (row.toArray.map (fun t =>
    Json.arr #[Json.str t.act, Json.str (c.render t.p), Json.num t.tgt]))))

def errJson (e : Err) : Json :=
  let k := match e with
    | .noSolution => "ValueError:nosolution"
    | .malformed _ => "ValueError:other"
    | .outOfFuel => "OutOfFuel"
    | .unbound => "UnboundLocalError"
    | .zeroDiv => "ZeroDivisionError"
  let d := match e with
    | .malformed r => r
    | _ => ""
  Json.mkObj [("outcome", Json.str k), ("detail", Json.str d)]

variable [Add α] [Sub α] [Mul α] [Div α] [Neg α] [LT α] [DecidableLT α]
  [LE α] [DecidableLE α] [BEq α] [OfNat α 0] [OfNat α 1]

def opReach (j : Json) : Except String Json := do
  let g ← parseGame c j
  let thr ← parseNum c (← j.getObjVal? "thr")
  let digits := getNatD j "digits" 6
  let fuel := getNatD j "fuel" 200000
  let prune := getBoolD j "prune" false
  match solveReach (c.rnd digits) thr fuel prune g with
  | .error e => pure (errJson e)
  | .ok r => pure (Json.mkObj [("outcome", "ok"), ("probs", vecJson c r.probs),
      ("strats", stratJson r.strat), ("iters", Json.num r.iters),
      ("order", Json.arr (r.order.toArray.map (fun (n : Nat) => Json.num n)))])

/-- what `impl.prune_only` does: reachability without the no-solution check, then conditioning
with pruning on -/
def opPrune (j : Json) : Except String Json := do
  let g ← parseGame c j
  let thr ← parseNum c (← j.getObjVal? "thr")
  let fuel := getNatD j "fuel" 200000
  match (do
    let ro ← solveReach (c.rnd 6) thr fuel false g
    let nodes ← condition true g ro.strat ro.probs
    pure (ro, nodes) : Except Err (ReachOut α × Array (List (Tr α)))) with
  | .error e => pure (errJson e)
  | .ok (ro, nodes) => pure (Json.mkObj [("outcome", "ok"), ("probs", vecJson c ro.probs),
      ("strats", stratJson ro.strat), ("nodes", nodesJson c nodes)])

def solveOutJson (r : SolveOut α) : Json :=
  Json.mkObj [("outcome", "ok"), ("final", stratJson r.finalStrat),
      ("reachstrat", stratJson r.reachStrat), ("rewards", vecJson c r.rewards),
      ("probs", vecJson c r.probs), ("itreach", Json.num r.itReach), ("itrew", Json.num r.itRew),
      ("probminrew", vecJson c r.probMinRew), ("rewminreach", vecJson c r.rewMinReach),
      ("nodes", nodesJson c r.nodes)]

def opSolve (j : Json) : Except String Json := do
  let g ← parseGame c j
  let thr ← parseNum c (← j.getObjVal? "thr")
  let fuel := getNatD j "fuel" 200000
  let prune := getBoolD j "prune" true
  match solve (c.rnd 6) thr fuel prune g with
  | .error e => pure (errJson e)
  | .ok r => pure (solveOutJson c r)

end

def opRdfs (j : Json) : Except String Json := do
  let tl ← (← getArr j "tl").mapM (fun row => do
    let r ← row.getArr?
    let l ← r.mapM (·.getNat?)
    pure l.toList)
  let finals ← (← getArr j "finals").mapM (·.getNat?)
  let res := reverseDfs tl.toList finals.toList
  let tab := revTable tl.toList
  pure (Json.mkObj [("outcome", "ok"),
    ("res", Json.arr (res.toArray.map (fun (n : Nat) => Json.num n))),
    ("table", Json.arr ((Array.range tab.size).map (fun (i : Nat) =>
      Json.arr #[Json.num i, Json.arr ((tab.getD i []).toArray.map (fun (n : Nat) => Json.num n))])))])

def opRound (j : Json) : Except String Json := do
  let digits := getNatD j "digits" 6
  let xs ← (← getArr j "xs").mapM (fun x => parseNum floatCodec x)
  pure (Json.mkObj [("outcome", "ok"),
    ("res", Json.arr (xs.map (fun x => Json.str (toString (roundFloat digits x)))))])

namespace CR.Drv
open CR.Gen CR.Py CR.Batch

def natList (j : Json) : Except String (List Nat) := do
  let a ← j.getArr?
  let l ← a.mapM (·.getNat?)
  pure l.toList

def natMatrix (j : Json) : Except String (List (List Nat)) := do
  let a ← j.getArr?
  let l ← a.mapM natList
  pure l.toList

def parseBoard (j : Json) : Except String Board := do
  pure { moves := ← natMatrix (← j.getObjVal? "moves"),
         rewards := ← natMatrix (← j.getObjVal? "rewards"),
         loose := ← natMatrix (← j.getObjVal? "loose") }

def ownerNum : Owner → Nat
  | .prob => 0
  | .p1 => 1
  | .p2 => 2

def genGameJson {α : Type} (c : Codec α) (g : GenGame α) : Json :=
  Json.mkObj [("rewards", Json.arr (g.rewards.toArray.map (fun (n : Nat) => Json.num n))),
    ("players", Json.arr (g.owners.toArray.map (fun o => Json.num (ownerNum o)))),
    ("tl", nodesJson c g.tl.toArray),
    ("finals", Json.arr (g.finals.toArray.map (fun (n : Nat) => Json.num n)))]

def opGenWith {α : Type} [Sub α] [OfNat α 0] [OfNat α 1] (c : Codec α) (j : Json) : Except String Json := do
  let L ← getNat j "L"
  let W ← getNat j "W"
  let b ← parseBoard (← j.getObjVal? "board")
  let pT ← parseNum c (← j.getObjVal? "ptile")
  let pR ← parseNum c (← j.getObjVal? "probot")
  let pL ← parseNum c (← j.getObjVal? "plight")
  pure (Json.mkObj [("outcome", "ok"), ("game_a", genGameJson c (gameA L W b pT)),
    ("game_b", genGameJson c (gameB L W b pT pR)), ("game_c", genGameJson c (gameC L W b pT pR pL))])

def opGen (j : Json) : Except String Json :=
  match (getStr j "num").toOption.getD "float" with
  | "float" => opGenWith floatCodec j
  | _ => opGenWith ratCodec j

def opProbStr (j : Json) : Except String Json := do
  let xs ← (← getArr j "xs").mapM (fun x => parseNum floatCodec x)
  pure (Json.mkObj [("outcome", "ok"), ("res", Json.arr (xs.map (fun x => Json.str (probToStr x))))])

def getF (j : Json) (k : String) : Except String Float := do parseNum floatCodec (← j.getObjVal? k)

def opFileName (j : Json) : Except String Json := do
  let r := fileName (← getNat j "seed") (← getNat j "width") (← getNat j "length") (← getNat j "maxreward")
    (← getF j "probot") (← getF j "plight") (← getF j "ptile") (← getF j "ploose") (getBoolD j "forcedown" false)
  pure (Json.mkObj [("outcome", "ok"), ("res", Json.str r)])

def opManualName (j : Json) : Except String Json := do
  let b ← parseBoard (← j.getObjVal? "board")
  pure (Json.mkObj [("outcome", "ok"),
    ("res", Json.str (manualFileName b (← getF j "probot") (← getF j "plight") (← getF j "ptile")))])

def getInt (j : Json) (k : String) : Except String Int := do (← j.getObjVal? k).getInt?

def opCheckInput (j : Json) : Except String Json := do
  let r := checkInput (← getInt j "seed") (← getInt j "width") (← getInt j "length") (← getF j "probot")
    (← getF j "plight") (← getF j "ploose") (← getF j "ptile") (← getInt j "maxreward")
  pure (Json.mkObj [("outcome", "ok"), ("res", match r with
    | none => Json.null
    | some k => Json.num k)])

def opBoard (j : Json) : Except String Json := do
  let us ← (← getArr j "us").mapM (fun x => parseNum floatCodec x)
  let rows ← natMatrix (← j.getObjVal? "rows")
  let downs ← natList (← j.getObjVal? "downs")
  let b := genBoard (← getNat j "length") (← getNat j "width") (← getF j "ploose") (← getNat j "maxreward")
    (getBoolD j "forcedown" false) { us := us.toList, rows := rows, downs := downs }
  let mat (m : List (List Nat)) : Json :=
    Json.arr (m.toArray.map (fun r => Json.arr (r.toArray.map (fun (n : Nat) => Json.num n))))
  pure (Json.mkObj [("outcome", "ok"), ("moves", mat b.moves), ("rewards", mat b.rewards), ("loose", mat b.loose)])

partial def parsePyVal (j : Json) : Except String PyVal := do
  let t ← getStr j "t"
  match t with
  | "none" => pure .none
  | "bool" => pure (.bool (getBoolD j "v" false))
  | "int" => pure (.int (← getInt j "v"))
  | "float" => pure (.float (← getF j "v"))
  | "str" => pure (.str (← getStr j "v"))
  | "tuple" => do
    let a ← getArr j "v"
    let l ← a.mapM parsePyVal
    pure (.tuple l.toList)
  | "list" => do
    let a ← getArr j "v"
    let l ← a.mapM parsePyVal
    pure (.list l.toList)
  | "dict" => pure (.dict (← getNat j "v"))
  | _ => throw s!"bad tag {t}"

def parsePyNum (j : Json) : Except String PyNum := do
  let t ← getStr j "t"
  match t with
  | "int" => pure (.int (← getInt j "v"))
  | "bool" => pure (.int (if getBoolD j "v" false then 1 else 0))
  | "float" => pure (.float (← getF j "v"))
  | _ => throw s!"bad number tag {t}"

def parsePyGame (j : Json) : Except String PyGame := do
  let rewards ← (← getArr j "rewards").mapM parsePyNum
  let players ← (← getArr j "players").mapM (·.getStr?)
  let tl ← (← getArr j "tl").mapM parsePyVal
  let finals ← (← getArr j "finals").mapM (·.getInt?)
  pure { rewards := rewards.toList, players := players.toList, tl := tl.toList, finals := finals.toList }

/-- validation + solve of a dynamically typed description -/
def opValidate (j : Json) : Except String Json := do
  let g ← parsePyGame (← j.getObjVal? "game")
  let thr ← getF j "thr"
  let fuel := getNatD j "fuel" 200000
  let prune := getBoolD j "prune" true
  match validate g with
  | .error e => pure (Json.mkObj [("outcome", "ok"), ("validate", errJson e), ("solve", errJson e)])
  | .ok _ =>
    let s := match solvePy thr fuel prune g with
      | .error e => errJson e
      | .ok r => solveOutJson floatCodec r
    pure (Json.mkObj [("outcome", "ok"), ("validate", Json.mkObj [("outcome", "ok")]), ("solve", s)])

def entryJson (e : Entry) : Json :=
  let m := match e.msg with
    | .solved => Json.mkObj [("kind", "solved")]
    | .notSolved => Json.mkObj [("kind", "notsolved")]
    | .error err => Json.mkObj [("kind", "error"), ("err", errJson err)]
  Json.mkObj [("n_states", Json.num e.nStates), ("n_transitions", Json.num e.nTransitions), ("msg", m),
    ("out", match e.out with
      | none => Json.null
      | some r => solveOutJson floatCodec r)]

def opBatch (j : Json) : Except String Json := do
  let games ← (← getArr j "games").mapM (fun kv => do
    let name ← getStr kv "name"
    let g ← parsePyGame (← kv.getObjVal? "game")
    pure (name, g))
  let thr ← getF j "thr"
  let fuel := getNatD j "fuel" 200000
  match runGames thr fuel games.toList with
  | .error e => pure (Json.mkObj [("outcome", "aborted"), ("err", errJson e)])
  | .ok d => pure (Json.mkObj [("outcome", "ok"),
      ("entries", Json.arr (d.toArray.map (fun (k, e) => Json.mkObj [("key", Json.str k), ("entry", entryJson e)])))])

end CR.Drv

namespace CR.Drv
open CR.Report

partial def parseRVal (j : Json) : Except String RVal := do
  let t ← getStr j "t"
  match t with
  | "none" => pure .none
  | "bool" => pure (.bool (getBoolD j "v" false))
  | "int" => pure (.int (← getInt j "v"))
  | "float" => pure (.float (← getStr j "v"))
  | "str" => pure (.str (← getStr j "v"))
  | "list" => do
    let a ← getArr j "v"
    let l ← a.mapM parseRVal
    pure (.list l.toList)
  | _ => throw s!"bad rval tag {t}"

def parseEntry (j : Json) : Except String (String × Report.Entry) := do
  let f (k : String) : Except String RVal := do parseRVal (← j.getObjVal? k)
  pure (← getStr j "name",
    { msg := ← getStr j "msg", nStates := ← f "n_states", nTransitions := ← f "n_transitions",
      itReach := ← f "it_reach", itRew := ← f "it_rew", reachStrat := ← f "reach_strat",
      finalStrat := ← f "final_strat", areEqual := getBoolD j "are_equal" false,
      probabilities := ← f "probabilities", probMinRew := ← f "prob_min_rew", rewards := ← f "rewards",
      rewMinReach := ← f "rew_min_reach", totalTime := ← getStr j "total_time" })

def opReport (j : Json) : Except String Json := do
  let es ← (← getArr j "entries").mapM parseEntry
  let path ← getStr j "path"
  let text := renderReport es.toList
  let lines := es.toList.flatMap (fun ne => blockLines ne.1 ne.2)
  let back := readBlocks lines
  pure (Json.mkObj [("outcome", "ok"), ("text", Json.str text), ("outname", Json.str (outName path)),
    ("readback", Json.arr (back.toArray.map (fun b => Json.arr (b.toArray.map Json.str))))])

end CR.Drv

/-- a sequence of solves on ONE shared description through the aliasing model: returns every
outcome and the caller's lists afterwards -/
def opSolveSeq {α : Type} (c : Codec α) [Add α] [Sub α] [Mul α] [Div α] [Neg α] [LT α] [DecidableLT α]
    [LE α] [DecidableLE α] [BEq α] [OfNat α 0] [OfNat α 1] (j : Json) : Except String Json := do
  let g ← parseGame c j
  let thr ← parseNum c (← j.getObjVal? "thr")
  let fuel := getNatD j "fuel" 200000
  let modes ← (← getArr j "modes").mapM (fun m => match m with
    | .bool b => pure b
    | _ => throw "mode must be bool")
  -- thread the description exactly as `runOps` does, also collecting it
  let rec go (ms : List Bool) (desc : Array (List (Tr α))) (acc : Array Json) : Array Json × Array (List (Tr α)) :=
    match ms with
    | [] => (acc, desc)
    | m :: rest =>
      let r := solveHS (c.rnd 6) thr fuel m { g with tl := desc }
      let jr := match r.1 with
        | .ok o => solveOutJson c o
        | .error e => errJson e
      go rest r.2 (acc.push jr)
  let (outs, post) := go modes.toList g.tl #[]
  pure (Json.mkObj [("outcome", "ok"), ("results", Json.arr outs), ("post", nodesJson c post)])

namespace CR.Drv
open CR.Text

/-- text of one game as the generator writes it: `surgery (renderLit (gameLit …))`.  Labels arrive
tagged: {"a": name} | {"i": int} | {"n": float repr}. -/
def opGameText (j : Json) : Except String Json := do
  let rewards ← (← getArr j "rewards").mapM (·.getInt?)
  let players ← (← getArr j "players").mapM (·.getStr?)
  let finals ← (← getArr j "finals").mapM (·.getNat?)
  let tl ← (← getArr j "tl").mapM (fun row => do
    let r ← row.getArr?
    let l ← r.mapM (fun t => do
      let a ← t.getArr?
      if a.size ≠ 2 then throw "transition must have 2 fields"
      let lab : Label ← match a[0]!.getObjVal? "a", a[0]!.getObjVal? "i", a[0]!.getObjVal? "n" with
        | .ok v, _, _ => do pure (Label.act (← v.getStr?))
        | _, .ok v, _ => do pure (Label.int (← v.getInt?))
        | _, _, .ok v => do pure (Label.num (← v.getStr?))
        | _, _, _ => throw "bad label"
      pure (lab, ← a[1]!.getNat?))
    pure l.toList)
  let lit := gameLit rewards.toList players.toList tl.toList finals.toList
  let plain := renderLit lit
  pure (Json.mkObj [("outcome", "ok"), ("plain", Json.str (String.ofList plain)),
    ("text", Json.str (String.ofList (surgery plain))),
    ("game_ok", Json.bool (gameOK players.toList tl.toList))])

/-- Python `s.replace(pat, rep)` and the four-replace chain on arbitrary text -/
def opSurgery (j : Json) : Except String Json := do
  let s ← getStr j "s"
  let pat := (getStr j "pat").toOption
  let rep := (getStr j "rep").toOption
  match pat, rep with
  | some p, some r => pure (Json.mkObj [("outcome", "ok"), ("res", Json.str (String.ofList (replaceAll p.toList r.toList s.toList)))])
  | _, _ => pure (Json.mkObj [("outcome", "ok"), ("res", Json.str (String.ofList (surgery s.toList)))])

end CR.Drv

def handle (line : String) : Json :=
  match Json.parse line with
  | .error e => Json.mkObj [("outcome", "bad-request"), ("detail", Json.str e)]
  | .ok j =>
    let r : Except String Json := do
      let op ← getStr j "op"
      let num := (getStr j "num").toOption.getD "float"
      match op, num with
      | "rdfs", _ => opRdfs j
      | "round", _ => opRound j
      | "reach", "float" => opReach floatCodec j
      | "reach", _ => opReach ratCodec j
      | "prune", "float" => opPrune floatCodec j
      | "prune", _ => opPrune ratCodec j
      | "solve", "float" => opSolve floatCodec j
      | "solve", _ => opSolve ratCodec j
      | "gen", _ => CR.Drv.opGen j
      | "probstr", _ => CR.Drv.opProbStr j
      | "filename", _ => CR.Drv.opFileName j
      | "checkinput", _ => CR.Drv.opCheckInput j
      | "board", _ => CR.Drv.opBoard j
      | "validate", _ => CR.Drv.opValidate j
      | "batch", _ => CR.Drv.opBatch j
      | "manualname", _ => CR.Drv.opManualName j
      | "report", _ => CR.Drv.opReport j
      | "gametext", _ => CR.Drv.opGameText j
      | "surgery", _ => CR.Drv.opSurgery j
      | "solve_seq", "float" => opSolveSeq floatCodec j
      | "solve_seq", _ => opSolveSeq ratCodec j
      | _, _ => throw s!"unknown op {op}"
    match r with
    | .ok v => v
    | .error e => Json.mkObj [("outcome", "bad-request"), ("detail", Json.str e)]

partial def loop (h : IO.FS.Stream) (out : IO.FS.Stream) : IO Unit := do
  let line ← h.getLine
  if line.isEmpty then return ()
  if line.trimAscii.toString.isEmpty then loop h out else
  out.putStrLn (handle line).compress
  loop h out

def main : IO Unit := do
  let out ← IO.getStdout
  loop (← IO.getStdin) out
  out.flush
