/-
Line-protocol driver over the executable model: one JSON request per input line, one JSON
response per output line.  Imports only the model (no Mathlib), so it links as `crmodel`.

Numbers travel as strings: doubles as the decimal rendering of their 64-bit pattern
(`"num":"float"`), exact rationals as `"n/d"` (`"num":"rat"`).
-/
import Lean.Data.Json
import CR.Model.Num
import CR.Model.Rdfs
import CR.Model.Solver
-- import CR.Model.Gen
-- import CR.Model.Validate
-- import CR.Model.Batch

open Lean CR

structure Codec (α : Type) where
  parse : String → Option α
  render : α → String
  rnd : Nat → α → Int

def floatCodec : Codec Float where
  parse s := s.toNat?.map (fun n => Float.ofBits n.toUInt64)
  render x := toString x.toBits.toNat
  rnd := roundFloat

def parseRat (s : String) : Option Rat :=
  match s.splitOn "/" with
  | [a] => a.toInt?.map (fun (i : Int) => (i : Rat))
  | [a, b] => do
    let n ← a.toInt?
    let d ← b.toNat?
    if d = 0 then none else some (mkRat n d)
  | _ => none

def ratCodec : Codec Rat where
  parse := parseRat
  render q := s!"{q.num}/{q.den}"
  rnd := roundRat

def getStr (j : Json) (k : String) : Except String String := do
  (← j.getObjVal? k).getStr?

def getNat (j : Json) (k : String) : Except String Nat := do
  (← j.getObjVal? k).getNat?

def getArr (j : Json) (k : String) : Except String (Array Json) := do
  (← j.getObjVal? k).getArr?

def getBoolD (j : Json) (k : String) (d : Bool) : Bool :=
  match j.getObjVal? k with
  | .ok (.bool b) => b
  | _ => d

def getNatD (j : Json) (k : String) (d : Nat) : Nat :=
  match j.getObjVal? k with
  | .ok v => (v.getNat?.toOption).getD d
  | _ => d

section
variable {α : Type} (c : Codec α)

def parseNum (j : Json) : Except String α := do
  let s ← j.getStr?
  match c.parse s with
  | some x => pure x
  | none => throw s!"bad number {s}"

def parseTr (j : Json) : Except String (Tr α) := do
  let a ← j.getArr?
  if a.size ≠ 3 then throw "transition must have 3 fields"
  let act ← a[0]!.getStr?
  let p ← parseNum c a[1]!
  let t ← a[2]!.getNat?
  pure { act := act, p := p, tgt := t }

def parseGame (j : Json) : Except String (Game α) := do
  let rewards ← (← getArr j "rewards").mapM (parseNum c)
  let owners ← (← getArr j "players").mapM (fun o => do
    let k ← o.getNat?
    pure (if k = 1 then Owner.p1 else if k = 2 then Owner.p2 else Owner.prob))
  let tl ← (← getArr j "tl").mapM (fun row => do
    let r ← row.getArr?
    let l ← r.mapM (parseTr c)
    pure l.toList)
  let finals ← (← getArr j "finals").mapM (·.getNat?)
  pure { rewards := rewards, owners := owners, tl := tl, finals := finals.toList }

def vecJson (v : Array α) : Json := Json.arr (v.map (fun x => Json.str (c.render x)))

def stratJson (s : Array Strat) : Json :=
  Json.arr (s.map (fun o => match o with
    | none => Json.null
    | some l => Json.arr (l.toArray.map Json.str)))

def nodesJson (nodes : Array (List (Tr α))) : Json :=
  Json.arr (nodes.map (fun row => Json.arr (row.toArray.map (fun t =>
    Json.arr #[Json.str t.act, Json.str (c.render t.p), Json.num t.tgt]))))

def errJson (e : Err) : Json :=
  let k := match e with
    | .noSolution => "ValueError:nosolution"
    | .malformed _ => "ValueError:other"
    | .outOfFuel => "OutOfFuel"
    | .unbound => "UnboundLocalError"
    | .zeroDiv => "ZeroDivisionError"
  let d := match e with
    | .malformed r => r
    | _ => ""
  Json.mkObj [("outcome", Json.str k), ("detail", Json.str d)]

variable [Add α] [Sub α] [Mul α] [Div α] [Neg α] [LT α] [DecidableLT α]
  [LE α] [DecidableLE α] [BEq α] [OfNat α 0] [OfNat α 1]

def opReach (j : Json) : Except String Json := do
  let g ← parseGame c j
  let thr ← parseNum c (← j.getObjVal? "thr")
  let digits := getNatD j "digits" 6
  let fuel := getNatD j "fuel" 200000
  let prune := getBoolD j "prune" false
  match solveReach (c.rnd digits) thr fuel prune g with
  | .error e => pure (errJson e)
  | .ok r => pure (Json.mkObj [("outcome", "ok"), ("probs", vecJson c r.probs),
      ("strats", stratJson r.strat), ("iters", Json.num r.iters),
      ("order", Json.arr (r.order.toArray.map (fun (n : Nat) => Json.num n)))])

/-- what `impl.prune_only` does: reachability without the no-solution check, then conditioning
with pruning on -/
def opPrune (j : Json) : Except String Json := do
  let g ← parseGame c j
  let thr ← parseNum c (← j.getObjVal? "thr")
  let fuel := getNatD j "fuel" 200000
  match (do
    let ro ← solveReach (c.rnd 6) thr fuel false g
    let nodes ← condition true g ro.strat ro.probs
    pure (ro, nodes) : Except Err (ReachOut α × Array (List (Tr α)))) with
  | .error e => pure (errJson e)
  | .ok (ro, nodes) => pure (Json.mkObj [("outcome", "ok"), ("probs", vecJson c ro.probs),
      ("strats", stratJson ro.strat), ("nodes", nodesJson c nodes)])

def solveOutJson (r : SolveOut α) : Json :=
  Json.mkObj [("outcome", "ok"), ("final", stratJson r.finalStrat),
      ("reachstrat", stratJson r.reachStrat), ("rewards", vecJson c r.rewards),
      ("probs", vecJson c r.probs), ("itreach", Json.num r.itReach), ("itrew", Json.num r.itRew),
      ("probminrew", vecJson c r.probMinRew), ("rewminreach", vecJson c r.rewMinReach),
      ("nodes", nodesJson c r.nodes)]

def opSolve (j : Json) : Except String Json := do
  let g ← parseGame c j
  let thr ← parseNum c (← j.getObjVal? "thr")
  let fuel := getNatD j "fuel" 200000
  let prune := getBoolD j "prune" true
  match solve (c.rnd 6) thr fuel prune g with
  | .error e => pure (errJson e)
  | .ok r => pure (solveOutJson c r)

end

def opRdfs (j : Json) : Except String Json := do
  let tl ← (← getArr j "tl").mapM (fun row => do
    let r ← row.getArr?
    let l ← r.mapM (·.getNat?)
    pure l.toList)
  let finals ← (← getArr j "finals").mapM (·.getNat?)
  let res := reverseDfs tl.toList finals.toList
  let tab := revTable tl.toList
  pure (Json.mkObj [("outcome", "ok"),
    ("res", Json.arr (res.toArray.map (fun (n : Nat) => Json.num n))),
    ("table", Json.arr ((Array.range tab.size).map (fun (i : Nat) =>
      Json.arr #[Json.num i, Json.arr ((tab.getD i []).toArray.map (fun (n : Nat) => Json.num n))])))])

def opRound (j : Json) : Except String Json := do
  let digits := getNatD j "digits" 6
  let xs ← (← getArr j "xs").mapM (fun x => parseNum floatCodec x)
  pure (Json.mkObj [("outcome", "ok"),
    ("res", Json.arr (xs.map (fun x => Json.str (toString (roundFloat digits x)))))])

def handle (line : String) : Json :=
  match Json.parse line with
  | .error e => Json.mkObj [("outcome", "bad-request"), ("detail", Json.str e)]
  | .ok j =>
    let r : Except String Json := do
      let op ← getStr j "op"
      let num := (getStr j "num").toOption.getD "float"
      match op, num with
      | "rdfs", _ => opRdfs j
      | "round", _ => opRound j
      | "reach", "float" => opReach floatCodec j
      | "reach", _ => opReach ratCodec j
      | "prune", "float" => opPrune floatCodec j
      | "prune", _ => opPrune ratCodec j
      | "solve", "float" => opSolve floatCodec j
      | "solve", _ => opSolve ratCodec j
--      | "gen", _ => CR.Drv.opGen j
--      | "probstr", _ => CR.Drv.opProbStr j
--      | "filename", _ => CR.Drv.opFileName j
--      | "checkinput", _ => CR.Drv.opCheckInput j
--      | "board", _ => CR.Drv.opBoard j
--      | "validate", _ => CR.Drv.opValidate j
--      | "batch", _ => CR.Drv.opBatch j
      | _, _ => throw s!"unknown op {op}"
    match r with
    | .ok v => v
    | .error e => Json.mkObj [("outcome", "bad-request"), ("detail", Json.str e)]

partial def loop (h : IO.FS.Stream) (out : IO.FS.Stream) : IO Unit := do
  let line ← h.getLine
  if line.isEmpty then return ()
  if line.trimAscii.toString.isEmpty then loop h out else
  out.putStrLn (handle line).compress
  loop h out

def main : IO Unit := do
  let out ← IO.getStdout
  loop (← IO.getStdin) out
  out.flush
