import CR.Model.Num
import CR.Model.Rdfs
import CR.Model.Solver
