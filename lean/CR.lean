import CR.Model.Num
import CR.Model.Rdfs
import CR.Model.Solver
import CR.Model.Gen
import CR.Model.Validate
import CR.Model.Batch
import CR.Model.Report
import CR.Model.Heap
