/-
Specification of the game "Roborta vs. the fair Light", written from the wording of property
C08 and independent of the generator's numbering:

* on the robot's tile the light chooses Green (robot must move down) or Yellow (robot moves
  left or right as the tile's arrows allow, wrapping around within the row; down-only tiles
  offer only Green);
* landing on a loose tile loses with the tile-break probability; moving down from the last
  row wins; the tile's reward is collected on the light's turn;
* games B and C: a robot failure leaves the robot on its tile (it *lands* on it again, so a
  loose tile may break — the reading fixed in DESIGN.md §5 C08);
* game C: a light failure lets the robot choose freely among down and the tile's arrows.

`rules` gives, for every situation, the labelled successor list in the order the generator
emits it.  No Mathlib import.
-/
import CR.Model.Gen

namespace CR.Roborta
open CR CR.Gen

inductive Variant where
  | A | B | C
  deriving DecidableEq, Repr

/-- situations of the game -/
inductive RState where
  | light (i j : Nat)      -- the light's turn, robot on tile (i,j): Player 2, collects the reward
  | down (i j : Nat)       -- robot told Green: Player 1, must move down
  | lr (i j : Nat)         -- robot told Yellow: Player 1, moves left/right as the arrows allow
  | free (i j : Nat)       -- (C) light failed: Player 1 chooses among down and the arrows
  | land (i j : Nat)       -- robot lands on tile (i,j): chance (loose tile may break)
  | tryDown (i j : Nat)    -- (B,C) robot attempts to move down: chance (robot may fail)
  | tryLeft (i j : Nat)    -- (B,C) robot attempts to move left
  | tryRight (i j : Nat)   -- (B,C) robot attempts to move right
  | lightG (i j : Nat)     -- (C) the light shows Green: chance (light may fail)
  | lightY (i j : Nat)     -- (C) the light shows Yellow: chance (light may fail)
  | lose
  | win
  deriving DecidableEq, Repr

structure Params (α : Type) where
  pTile  : α
  pRobot : α
  pLight : α

/-- a labelled successor: action name (player states) or probability (chance states) -/
structure Succ (α : Type) where
  act : String
  p   : α
  tgt : RState

section
variable {α : Type} [Sub α] [OfNat α 0] [OfNat α 1]

def a (name : String) (t : RState) : Succ α := { act := name, p := 0, tgt := t }
def c (p : α) (t : RState) : Succ α := { act := "", p := p, tgt := t }

def leftOf (W j : Nat) : Nat := (j + W - 1) % W
def rightOf (W j : Nat) : Nat := (j + 1) % W

/-- where a successful downward move from row `i` arrives -/
def below (L i j : Nat) : RState := if i + 1 < L then .land (i + 1) j else .win

def owner : RState → Owner
  | .light .. => .p2
  | .down .. | .lr .. | .free .. => .p1
  | _ => .prob

def reward (b : Board) : RState → Nat
  | .light i j => b.rw i j
  | _ => 0

/-- the rules -/
def rules (v : Variant) (L W : Nat) (b : Board) (q : Params α) : RState → List (Succ α)
  | .light i j =>
    let g : RState := if v = .C then .lightG i j else .down i j
    let y : RState := if v = .C then .lightY i j else .lr i j
    if b.mv i j = 3 then [a "Green" g] else [a "Green" g, a "Yellow" y]
  | .down i j =>
    if v = .A then [a "Down" (below L i j)] else [a "Down" (.tryDown i j)]
  | .lr i j =>
    let l : RState := if v = .A then .land i (leftOf W j) else .tryLeft i j
    let r : RState := if v = .A then .land i (rightOf W j) else .tryRight i j
    match b.mv i j with
    | 0 => [a "Left" l]
    | 1 => [a "Left" l, a "Right" r]
    | 2 => [a "Right" r]
    | _ => []                      -- down-only tile: Yellow is never offered, situation unreachable
  | .free i j =>
    match b.mv i j with
    | 0 => [a "Down" (.tryDown i j), a "Left" (.tryLeft i j)]
    | 1 => [a "Down" (.tryDown i j), a "Left" (.tryLeft i j), a "Right" (.tryRight i j)]
    | 2 => [a "Down" (.tryDown i j), a "Right" (.tryRight i j)]
    | _ => [a "Down" (.tryDown i j)]
  | .land i j =>
    if b.ls i j = 1 then [c q.pTile .lose, c (1 - q.pTile) (.light i j)] else [c 1 (.light i j)]
  | .tryDown i j => [c q.pRobot (.land i j), c (1 - q.pRobot) (below L i j)]
  | .tryLeft i j => [c q.pRobot (.land i j), c (1 - q.pRobot) (.land i (leftOf W j))]
  | .tryRight i j => [c q.pRobot (.land i j), c (1 - q.pRobot) (.land i (rightOf W j))]
  | .lightG i j => [c q.pLight (.free i j), c (1 - q.pLight) (.down i j)]
  | .lightY i j => [c q.pLight (.free i j), c (1 - q.pLight) (.lr i j)]
  | .lose => [c 1 .lose]
  | .win => [c 1 .win]

end

/-- situations that exist on an `L × W` board in variant `v` (a superset of the reachable
ones, closed under `rules`) -/
def Valid (v : Variant) (L W : Nat) (b : Board) : RState → Prop
  | .light i j | .down i j | .land i j => i < L ∧ j < W
  | .lr i j => i < L ∧ j < W ∧ b.mv i j ≠ 3
  | .free i j | .lightG i j => v = .C ∧ i < L ∧ j < W
  | .lightY i j => v = .C ∧ i < L ∧ j < W ∧ b.mv i j ≠ 3    -- Yellow is never shown on a down-only tile
  | .tryDown i j | .tryLeft i j | .tryRight i j => v ≠ .A ∧ i < L ∧ j < W
  | .lose | .win => True

/-- the generator's numbering of the situations -/
def enc (v : Variant) (L W : Nat) : RState → Nat :=
  let n := L * W
  fun s => match v, s with
  | _, .light i j => i * W + j
  | _, .down i j => 1 * n + i * W + j
  | _, .lr i j => 2 * n + i * W + j
  | .A, .land i j => 3 * n + i * W + j
  | .A, .lose => 4 * n
  | .A, .win => 4 * n + 1
  | .B, .land i j => 3 * n + i * W + j
  | .B, .tryDown i j => 4 * n + i * W + j
  | .B, .tryLeft i j => 5 * n + i * W + j
  | .B, .tryRight i j => 6 * n + i * W + j
  | .B, .lose => 7 * n
  | .B, .win => 7 * n + 1
  | .C, .free i j => 3 * n + i * W + j
  | .C, .land i j => 4 * n + i * W + j
  | .C, .tryDown i j => 5 * n + i * W + j
  | .C, .tryLeft i j => 6 * n + i * W + j
  | .C, .tryRight i j => 7 * n + i * W + j
  | .C, .lightG i j => 8 * n + i * W + j
  | .C, .lightY i j => 9 * n + i * W + j
  | .C, .lose => 10 * n
  | .C, .win => 10 * n + 1
  | _, _ => 0          -- situations that do not exist in the variant

/-- the generated game of a variant -/
def genGame {α : Type} [Sub α] [OfNat α 0] [OfNat α 1] (v : Variant) (L W : Nat) (b : Board)
    (q : Params α) : GenGame α :=
  match v with
  | .A => gameA L W b q.pTile
  | .B => gameB L W b q.pTile q.pRobot
  | .C => gameC L W b q.pTile q.pRobot q.pLight

/-- boards the property quantifies over: `L × W` matrices with arrows in 0..3 -/
def BoardOK (L W : Nat) (b : Board) : Prop :=
  0 < L ∧ 0 < W ∧
  b.moves.length = L ∧ (∀ r ∈ b.moves, r.length = W) ∧
  b.rewards.length = L ∧ (∀ r ∈ b.rewards, r.length = W) ∧
  b.loose.length = L ∧ (∀ r ∈ b.loose, r.length = W) ∧
  (∀ i < L, ∀ j < W, b.mv i j ≤ 3)

end CR.Roborta
