/-
Helper lemmas for property C10 (the aliasing model `CR.Model.Heap` against the pure model).
The property theorems themselves are in `CR.Props.C10`.
-/
import CR.Model.Heap
import CR.Lemmas.Strat

set_option linter.unusedSectionVars false
set_option linter.unusedSimpArgs false

namespace CR.Heap

/-! ## generic -/

theorem foldl_range_inv {σ : Type} (f : σ → Nat → σ) (P : Nat → σ → Prop) (n : Nat) (init : σ)
    (h0 : P 0 init) (hs : ∀ k x, k < n → P k x → P (k + 1) (f x k)) :
    P n ((List.range n).foldl f init) := by
  have : ∀ m, m ≤ n → P m ((List.range m).foldl f init) := by
    intro m
    induction m with
    | zero => intro _; exact h0
    | succ m ih =>
      intro hm
      rw [List.range_succ, List.foldl_append]
      exact hs m _ (by omega) (ih (by omega))
  exact this n (Nat.le_refl n)

theorem array_ext_getD {γ : Type} (d : γ) {a b : Array γ} (hsz : a.size = b.size)
    (h : ∀ i, i < a.size → a.getD i d = b.getD i d) : a = b := by
  apply Array.ext hsz
  intro i h1 h2
  have := h i h1
  simpa [Array.getD, h1, h2] using this

theorem list_mapM_ok_of_forall {ε β γ : Type} (f : β → Except ε γ) (g : β → γ) :
    ∀ (l : List β), (∀ x ∈ l, f x = .ok (g x)) → l.mapM f = .ok (l.map g) := by
  intro l
  induction l with
  | nil => intro _; rfl
  | cons a l ih =>
    intro h
    rw [List.mapM_cons, h a List.mem_cons_self, ih (fun x hx => h x (List.mem_cons_of_mem _ hx))]
    rfl

theorem list_mapM_range_error {ε γ : Type} (f : Nat → Except ε γ) (g : Nat → γ) (e : ε) :
    ∀ (n s : Nat), s < n → (∀ j, j < s → f j = .ok (g j)) → f s = .error e →
      (List.range n).mapM f = .error e := by
  intro n
  induction n with
  | zero => intro s hs; omega
  | succ n ih =>
    intro s hs hlt herr
    rw [List.range_succ, List.mapM_append]
    by_cases hsn : s < n
    · rw [ih s hsn hlt herr]; rfl
    · have hsn' : s = n := by omega
      subst hsn'
      rw [list_mapM_ok_of_forall f g _ (fun x hx => hlt x (List.mem_range.1 hx))]
      simp only [List.mapM_cons, List.mapM_nil, herr]
      rfl

theorem array_mapM_range_ok_of_forall {ε γ : Type} (f : Nat → Except ε γ) (g : Nat → γ) (n : Nat)
    (h : ∀ i, i < n → f i = .ok (g i)) :
    (Array.range n).mapM f = .ok ((Array.range n).map g) := by
  rw [Array.mapM_eq_mapM_toList, Array.toList_range,
    list_mapM_ok_of_forall f g _ (fun x hx => h x (List.mem_range.1 hx))]
  show Except.ok (List.map g (List.range n)).toArray = _
  congr 1
  apply Array.ext <;> simp

theorem array_mapM_range_error {ε γ : Type} (f : Nat → Except ε γ) (g : Nat → γ) (e : ε)
    (n s : Nat) (hs : s < n) (hlt : ∀ j, j < s → f j = .ok (g j)) (herr : f s = .error e) :
    (Array.range n).mapM f = .error e := by
  rw [Array.mapM_eq_mapM_toList, Array.toList_range, list_mapM_range_error f g e n s hs hlt herr]
  rfl

/-! ## heap primitives -/

end CR.Heap

namespace CR
namespace HState
open CR.Heap
variable {α : Type}

@[simp] theorem rebind_desc (h : HState α) (s : Nat) (l : List (Tr α)) :
    (h.rebind s l).desc = h.desc := rfl

@[simp] theorem rebind_size (h : HState α) (s : Nat) (l : List (Tr α)) :
    (h.rebind s l).nodes.size = h.nodes.size := by
  simp [rebind]

theorem read_of_ge (h : HState α) {i : Nat} (hi : h.nodes.size ≤ i) : h.read i = [] := by
  unfold read
  rw [Array.getElem?_eq_none hi]

theorem read_rebind_self (h : HState α) {s : Nat} (l : List (Tr α)) (hs : s < h.nodes.size) :
    (h.rebind s l).read s = l := by
  unfold read rebind
  simp [hs, deref]

theorem read_rebind_ne (h : HState α) {s i : Nat} (l : List (Tr α)) (hne : i ≠ s) :
    (h.rebind s l).read i = h.read i := by
  unfold read rebind
  simp [Array.getElem?_setIfInBounds, Ne.symm hne]

@[simp] theorem view_size (h : HState α) : h.view.size = h.nodes.size := by
  simp [view]

theorem view_getD (h : HState α) (s : Nat) : h.view.getD s [] = h.read s := by
  unfold view read
  by_cases hs : s < h.nodes.size
  · simp [Array.getD, hs]
  · simp [Array.getD, hs]

@[simp] theorem init_desc (tl : Array (List (Tr α))) : (init tl).desc = tl := rfl

@[simp] theorem init_size (tl : Array (List (Tr α))) : (init tl).nodes.size = tl.size := by
  simp [init]

theorem init_view (tl : Array (List (Tr α))) : (init tl).view = tl := by
  apply Array.ext
  · simp
  · intro i h1 h2
    simp [view, init, deref, Array.getD, h2]

theorem init_read (tl : Array (List (Tr α))) (s : Nat) : (init tl).read s = tl.getD s [] := by
  rw [← view_getD, init_view]

/-- two heaps with the same node count and the same reads have the same snapshot -/
theorem view_eq_of_read {h : HState α} {a : Array (List (Tr α))} (hsz : a.size = h.nodes.size)
    (hr : ∀ i, i < h.nodes.size → h.read i = a.getD i []) : h.view = a := by
  apply array_ext_getD []
  · rw [view_size, hsz]
  · intro i hi
    rw [view_getD]
    exact hr i (by simpa using hi)

end HState

end CR

namespace CR.Heap
open CR CR.HState

section Phases
variable {α : Type} [Add α] [Sub α] [Mul α] [Div α] [Neg α] [LT α] [DecidableLT α]
  [LE α] [DecidableLE α] [BEq α] [OfNat α 0] [OfNat α 1]

/-! ## `prune_reachability` -/

/-- the per-state function mapped by `pruneReachability` -/
def rowReach (owners : Array Owner) (strat : Array Strat) (s : Nat) (row : List (Tr α)) :
    List (Tr α) :=
  match owners.getD s .prob with
  | .p1 => row.filter (fun t => (strat.getD s none).getD [] |>.contains t.act)
  | _ => row

theorem rowReach_nil (owners : Array Owner) (strat : Array Strat) (s : Nat) :
    rowReach (α := α) owners strat s [] = [] := by
  unfold rowReach
  cases owners.getD s .prob <;> rfl

theorem pruneReachability_eq (owners : Array Owner) (strat : Array Strat)
    (nodes : Array (List (Tr α))) :
    pruneReachability owners strat nodes = nodes.mapIdx (rowReach owners strat) := rfl

theorem pruneReachabilityH_spec (owners : Array Owner) (strat : Array Strat) (h : HState α) :
    (pruneReachabilityH owners strat h).desc = h.desc ∧
    (pruneReachabilityH owners strat h).nodes.size = h.nodes.size ∧
    ∀ i, (pruneReachabilityH owners strat h).read i = rowReach owners strat i (h.read i) := by
  have key : (pruneReachabilityH owners strat h).desc = h.desc ∧
      (pruneReachabilityH owners strat h).nodes.size = h.nodes.size ∧
      ∀ i, (pruneReachabilityH owners strat h).read i =
        if i < h.nodes.size then rowReach owners strat i (h.read i) else h.read i := by
    unfold pruneReachabilityH
    refine foldl_range_inv _ (fun (k : Nat) (x : HState α) => x.desc = h.desc ∧
      x.nodes.size = h.nodes.size ∧
      ∀ i, x.read i = if i < k then rowReach owners strat i (h.read i) else h.read i)
      h.nodes.size h ?_ ?_
    · exact ⟨rfl, rfl, fun i => by simp⟩
    · intro k x hk ⟨hd, hsz, hr⟩
      have hkk : x.read k = h.read k := by rw [hr k, if_neg (Nat.lt_irrefl k)]
      cases ho : owners.getD k .prob with
      | p1 =>
        simp only
        refine ⟨by rw [rebind_desc, hd], by rw [rebind_size, hsz], fun i => ?_⟩
        by_cases hik : i = k
        · subst hik
          rw [read_rebind_self _ _ (by omega), if_pos (Nat.lt_succ_self i), hkk]
          unfold rowReach
          rw [ho]
        · rw [read_rebind_ne _ _ hik, hr i]
          by_cases hlt : i < k
          · rw [if_pos hlt, if_pos (by omega)]
          · rw [if_neg hlt, if_neg (by omega)]
      | prob =>
        simp only
        refine ⟨hd, hsz, fun i => ?_⟩
        by_cases hik : i = k
        · subst hik
          rw [if_pos (Nat.lt_succ_self i), hkk]
          unfold rowReach
          rw [ho]
        · rw [hr i]
          by_cases hlt : i < k
          · rw [if_pos hlt, if_pos (by omega)]
          · rw [if_neg hlt, if_neg (by omega)]
      | p2 =>
        simp only
        refine ⟨hd, hsz, fun i => ?_⟩
        by_cases hik : i = k
        · subst hik
          rw [if_pos (Nat.lt_succ_self i), hkk]
          unfold rowReach
          rw [ho]
        · rw [hr i]
          by_cases hlt : i < k
          · rw [if_pos hlt, if_pos (by omega)]
          · rw [if_neg hlt, if_neg (by omega)]
  obtain ⟨h1, h2, h3⟩ := key
  refine ⟨h1, h2, fun i => ?_⟩
  rw [h3 i]
  by_cases hi : i < h.nodes.size
  · rw [if_pos hi]
  · rw [if_neg hi, read_of_ge h (Nat.le_of_not_lt hi), rowReach_nil]

theorem pruneReachabilityH_view (owners : Array Owner) (strat : Array Strat) (h : HState α) :
    (pruneReachabilityH owners strat h).view = pruneReachability owners strat h.view := by
  obtain ⟨_, hsz, hr⟩ := pruneReachabilityH_spec owners strat h
  apply view_eq_of_read
  · rw [pruneReachability_eq, Array.size_mapIdx, view_size, hsz]
  · intro i _
    rw [hr i, pruneReachability_eq, getD_mapIdx _ _ _ [] [] (rowReach_nil owners strat i),
      view_getD]

/-! ## `prune_paths` -/

/-- the per-state function mapped by `prunePaths` -/
def rowPaths (owners : Array Owner) (reach : Array α) (s : Nat) (row : List (Tr α)) :
    Except Err (List (Tr α)) :=
  match owners.getD s .prob with
  | .p1 => .ok (prunePathsP1 reach row)
  | .prob => prunePathsProb reach row
  | .p2 => .ok row

theorem prunePaths_eq_rows (owners : Array Owner) (reach : Array α)
    (nodes : Array (List (Tr α))) :
    prunePaths owners reach nodes =
      (Array.range nodes.size).mapM (fun s => rowPaths owners reach s (nodes.getD s [])) := rfl

theorem prunePathsProb_of_len_eq (reach : Array α) (row : List (Tr α))
    (hl : (row.filter (fun t => !(reach.getD t.tgt 0 == 0))).length = row.length) :
    prunePathsProb reach row = .ok row := by
  unfold prunePathsProb
  simp only [ne_eq, hl, not_true_eq_false, if_false]

/-- invariant of the loop of `Solver.prune_paths` after `k` iterations -/
def PathsInv (owners : Array Owner) (reach : Array α) (h : HState α) (k : Nat) (acc : HRes α) :
    Prop :=
  acc.1.desc = h.desc ∧ acc.1.nodes.size = h.nodes.size ∧
    match acc.2 with
    | none => (∀ i, i < k → rowPaths owners reach i (h.read i) = .ok (acc.1.read i)) ∧
        (∀ i, k ≤ i → acc.1.read i = h.read i)
    | some e => ∃ j, j < k ∧ (∀ i, i < j → rowPaths owners reach i (h.read i) = .ok (acc.1.read i)) ∧
        rowPaths owners reach j (h.read j) = .error e

theorem prunePathsStep_inv (owners : Array Owner) (reach : Array α) (h : HState α) (k : Nat)
    (acc : HRes α) (hk : k < h.nodes.size) (hinv : PathsInv owners reach h k acc) :
    PathsInv owners reach h (k + 1) (prunePathsStep owners reach acc k) := by
  obtain ⟨x, err⟩ := acc
  obtain ⟨hd, hsz, hrest⟩ := hinv
  replace hd : x.desc = h.desc := hd
  replace hsz : x.nodes.size = h.nodes.size := hsz
  cases err with
  | some e =>
    obtain ⟨j, hj, hlt, herr⟩ := hrest
    exact ⟨hd, hsz, j, by omega, hlt, herr⟩
  | none =>
    obtain ⟨hlt, hge⟩ := hrest
    have hkk : x.read k = h.read k := hge k (Nat.le_refl k)
    have hkx : k < x.nodes.size := by omega
    -- the three ways the step can leave the heap
    have keep : ∀ (row' : List (Tr α)), rowPaths owners reach k (h.read k) = .ok row' →
        row' = x.read k → PathsInv owners reach h (k + 1) (x, none) := by
      intro row' hrow heq
      refine ⟨hd, hsz, fun i hi => ?_, fun i hi => hge i (by omega)⟩
      by_cases hik : i = k
      · subst hik; rw [hrow, heq]
      · exact hlt i (by omega)
    have reb : ∀ (row' : List (Tr α)), rowPaths owners reach k (h.read k) = .ok row' →
        PathsInv owners reach h (k + 1) (x.rebind k row', none) := by
      intro row' hrow
      refine ⟨by rw [rebind_desc, hd], by rw [rebind_size, hsz], fun i hi => ?_, fun i hi => ?_⟩
      · by_cases hik : i = k
        · subst hik; rw [read_rebind_self _ _ hkx, hrow]
        · rw [read_rebind_ne _ _ hik]; exact hlt i (by omega)
      · rw [read_rebind_ne _ _ (by omega)]; exact hge i (by omega)
    unfold prunePathsStep
    simp only
    cases ho : owners.getD k .prob with
    | p1 =>
      simp only
      apply reb
      unfold rowPaths
      rw [ho, hkk]
    | p2 =>
      simp only
      apply keep (h.read k)
      · unfold rowPaths; rw [ho]
      · exact hkk.symm
    | prob =>
      simp only
      have hrp : rowPaths owners reach k (h.read k) = prunePathsProb reach (x.read k) := by
        unfold rowPaths; rw [ho, hkk]
      cases hp : prunePathsProb reach (x.read k) with
      | error e =>
        simp only
        exact ⟨hd, hsz, k, Nat.lt_succ_self k, hlt, by rw [hrp, hp]⟩
      | ok row' =>
        simp only
        by_cases hl : ((x.read k).filter (fun t => !(reach.getD t.tgt 0 == 0))).length
            = (x.read k).length
        · rw [if_neg (by simpa using hl)]
          apply keep row' (by rw [hrp, hp])
          rw [prunePathsProb_of_len_eq reach _ hl] at hp
          exact (Except.ok.inj hp).symm
        · rw [if_pos (by simpa using hl)]
          exact reb row' (by rw [hrp, hp])

theorem prunePathsHS_inv (owners : Array Owner) (reach : Array α) (h : HState α) :
    PathsInv owners reach h h.nodes.size (prunePathsHS owners reach h) := by
  unfold prunePathsHS
  refine foldl_range_inv _ (PathsInv owners reach h) h.nodes.size (h, none) ?_ ?_
  · exact ⟨rfl, rfl, fun i hi => absurd hi (Nat.not_lt_zero i), fun i _ => rfl⟩
  · intro k acc hk hinv
    exact prunePathsStep_inv owners reach h k acc hk hinv

theorem prunePathsHS_desc (owners : Array Owner) (reach : Array α) (h : HState α) :
    (prunePathsHS owners reach h).1.desc = h.desc := (prunePathsHS_inv owners reach h).1

theorem prunePathsHS_view (owners : Array Owner) (reach : Array α) (h : HState α) :
    (prunePathsHS owners reach h).toExcept.map HState.view = prunePaths owners reach h.view := by
  have hinv := prunePathsHS_inv owners reach h
  generalize prunePathsHS owners reach h = acc at hinv
  obtain ⟨x, err⟩ := acc
  obtain ⟨hd, hsz, hrest⟩ := hinv
  replace hd : x.desc = h.desc := hd
  replace hsz : x.nodes.size = h.nodes.size := hsz
  rw [prunePaths_eq_rows, view_size]
  simp only [view_getD]
  cases err with
  | none =>
    obtain ⟨hlt, _⟩ := hrest
    rw [array_mapM_range_ok_of_forall _ (fun i => x.read i) _ hlt]
    show Except.ok x.view = _
    congr 1
    apply view_eq_of_read
    · simp [hsz]
    · intro i hi
      rw [getD_map_range, if_pos (by omega)]
  | some e =>
    obtain ⟨j, hj, hlt, herr⟩ := hrest
    rw [array_mapM_range_error _ (fun i => x.read i) e _ j hj hlt herr]
    rfl

/-! ## `prune_states` -/

/-- `reachable_states` of one round -/
def targetsOf (nodes : Array (List (Tr α))) : List Nat :=
  0 :: (nodes.toList.flatMap (fun row => row.map (·.tgt)))

def clearedAt (owners : Array Owner) (nodes : Array (List (Tr α))) (s : Nat) : Bool :=
  (owners.getD s .prob != .p1) && !((targetsOf nodes).contains s)

def deadP1At (owners : Array Owner) (nodes : Array (List (Tr α))) (s : Nat) : Bool :=
  (owners.getD s .prob == .p1) && (nodes.getD s []).isEmpty && !((targetsOf nodes).contains s)

theorem pruneStatesRound_eq' (owners : Array Owner) (nodes : Array (List (Tr α))) :
    pruneStatesRound owners nodes =
      (nodes.mapIdx (fun s row => if clearedAt owners nodes s then [] else row),
       (List.range nodes.size).filter
        (fun s => clearedAt owners nodes s || deadP1At owners nodes s)) := rfl

theorem pruneStatesRoundH_spec (owners : Array Owner) (h : HState α) :
    (pruneStatesRoundH owners h).1.desc = h.desc ∧
    (pruneStatesRoundH owners h).1.nodes.size = h.nodes.size ∧
    (∀ i, (pruneStatesRoundH owners h).1.read i =
      if clearedAt owners h.view i then [] else h.read i) ∧
    (pruneStatesRoundH owners h).2 = (List.range h.nodes.size).filter
      (fun s => clearedAt owners h.view s || deadP1At owners h.view s) := by
  have key : (pruneStatesRoundH owners h).1.desc = h.desc ∧
      (pruneStatesRoundH owners h).1.nodes.size = h.nodes.size ∧
      (∀ i, (pruneStatesRoundH owners h).1.read i =
        if i < h.nodes.size then (if clearedAt owners h.view i then [] else h.read i)
        else h.read i) ∧
      (pruneStatesRoundH owners h).2 = (List.range h.nodes.size).filter
        (fun s => clearedAt owners h.view s || deadP1At owners h.view s) := by
    unfold pruneStatesRoundH
    refine foldl_range_inv _ (fun (k : Nat) (acc : HState α × List Nat) =>
      acc.1.desc = h.desc ∧ acc.1.nodes.size = h.nodes.size ∧
      (∀ i, acc.1.read i =
        if i < k then (if clearedAt owners h.view i then [] else h.read i) else h.read i) ∧
      acc.2 = (List.range k).filter
        (fun s => clearedAt owners h.view s || deadP1At owners h.view s))
      h.nodes.size (h, []) ?_ ?_
    · exact ⟨rfl, rfl, fun i => by simp, rfl⟩
    · intro k acc hk hinv
      obtain ⟨x, l⟩ := acc
      obtain ⟨hd, hsz, hr, hl⟩ := hinv
      replace hd : x.desc = h.desc := hd
      replace hsz : x.nodes.size = h.nodes.size := hsz
      replace hr : ∀ i, x.read i =
        if i < k then (if clearedAt owners h.view i then [] else h.read i) else h.read i := hr
      replace hl : l = (List.range k).filter
        (fun s => clearedAt owners h.view s || deadP1At owners h.view s) := hl
      have hkk : x.read k = h.read k := by rw [hr k, if_neg (Nat.lt_irrefl k)]
      have hrest : ∀ i, i ≠ k → (x.read i =
          if i < k + 1 then (if clearedAt owners h.view i then [] else h.read i)
          else h.read i) := by
        intro i hik
        rw [hr i]
        by_cases hlt : i < k
        · rw [if_pos hlt, if_pos (show i < k + 1 by omega)]
        · rw [if_neg hlt, if_neg (show ¬ i < k + 1 by omega)]
      have hdp : ((owners.getD k .prob == .p1) && (x.read k).isEmpty &&
          !((targetsOf h.view).contains k)) = deadP1At owners h.view k := by
        unfold deadP1At; rw [view_getD, hkk]
      have hcl : ((owners.getD k .prob != .p1) &&
          !((0 :: List.flatMap (fun row => List.map (fun x => x.tgt) row) h.view.toList).contains k))
            = clearedAt owners h.view k := rfl
      have hdp' : ((owners.getD k .prob == .p1) && ((x, l).fst.read k).isEmpty &&
          !((0 :: List.flatMap (fun row => List.map (fun x => x.tgt) row) h.view.toList).contains k))
            = deadP1At owners h.view k := hdp
      rw [hcl, hdp']
      simp only [List.range_succ, List.filter_append, List.filter_cons, List.filter_nil]
      by_cases hc : clearedAt owners h.view k = true
      · simp only [hc, if_true, Bool.true_or]
        refine ⟨by rw [rebind_desc, hd], by rw [rebind_size, hsz], fun i => ?_, by rw [hl]⟩
        by_cases hik : i = k
        · subst hik
          rw [read_rebind_self _ _ (by omega), if_pos (Nat.lt_succ_self i), if_pos hc]
        · rw [read_rebind_ne _ _ hik]; exact hrest i hik
      · have hc' : clearedAt owners h.view k = false := by simpa using hc
        have hread : ∀ i, x.read i =
            if i < k + 1 then (if clearedAt owners h.view i then [] else h.read i)
            else h.read i := by
          intro i
          by_cases hik : i = k
          · subst hik
            rw [if_pos (Nat.lt_succ_self i), hkk, hc']; rfl
          · exact hrest i hik
        by_cases hdd : deadP1At owners h.view k = true
        · simp only [hc', hdd, Bool.false_eq_true, if_false, if_true, Bool.false_or]
          exact ⟨hd, hsz, hread, by rw [hl]⟩
        · have hdd' : deadP1At owners h.view k = false := by simpa using hdd
          simp only [hc', hdd', Bool.false_eq_true, if_false, Bool.false_or, List.append_nil]
          exact ⟨hd, hsz, hread, hl⟩
  obtain ⟨h1, h2, h3, h4⟩ := key
  refine ⟨h1, h2, fun i => ?_, h4⟩
  rw [h3 i]
  by_cases hi : i < h.nodes.size
  · rw [if_pos hi]
  · rw [if_neg hi, read_of_ge h (Nat.le_of_not_lt hi)]; simp

theorem pruneStatesRoundH_view (owners : Array Owner) (h : HState α) :
    ((pruneStatesRoundH owners h).1.view, (pruneStatesRoundH owners h).2) =
      pruneStatesRound owners h.view := by
  obtain ⟨_, hsz, hr, hl⟩ := pruneStatesRoundH_spec owners h
  rw [pruneStatesRound_eq', hl, view_size]
  congr 1
  apply view_eq_of_read
  · rw [Array.size_mapIdx, view_size, hsz]
  · intro i _
    rw [hr i, getD_mapIdx _ _ _ [] [] (by simp), view_getD]

theorem pruneStatesHS_desc (owners : Array Owner) :
    ∀ (fuel : Nat) (prev : List Nat) (h : HState α),
      (pruneStatesHS owners fuel prev h).1.desc = h.desc := by
  intro fuel
  induction fuel with
  | zero => intro prev h; rfl
  | succ n ih =>
    intro prev h
    unfold pruneStatesHS
    simp only
    split
    · exact (pruneStatesRoundH_spec owners h).1
    · rw [ih]; exact (pruneStatesRoundH_spec owners h).1

theorem pruneStatesHS_view (owners : Array Owner) :
    ∀ (fuel : Nat) (prev : List Nat) (h : HState α),
      (pruneStatesHS owners fuel prev h).toExcept.map HState.view =
        pruneStates owners fuel prev h.view := by
  intro fuel
  induction fuel with
  | zero => intro prev h; rfl
  | succ n ih =>
    intro prev h
    unfold pruneStatesHS pruneStates
    simp only
    have hv := pruneStatesRoundH_view owners h
    have hv1 : (pruneStatesRoundH owners h).1.view = (pruneStatesRound owners h.view).1 :=
      congrArg Prod.fst hv
    have hv2 : (pruneStatesRoundH owners h).2 = (pruneStatesRound owners h.view).2 :=
      congrArg Prod.snd hv
    rw [← hv2, ← hv1]
    split
    · rfl
    · exact ih _ _

/-! ## the conditioning phase -/

theorem conditionHS_desc (prune : Bool) (g : Game α) (strat : Array Strat) (reach : Array α)
    (h : HState α) : (conditionHS prune g strat reach h).1.desc = h.desc := by
  unfold conditionHS
  have h1 := (pruneReachabilityH_spec g.owners strat h).1
  cases prune with
  | false => exact h1
  | true =>
    simp only [if_true]
    have h2 := prunePathsHS_desc g.owners reach (pruneReachabilityH g.owners strat h)
    generalize prunePathsHS g.owners reach (pruneReachabilityH g.owners strat h) = r at h2
    obtain ⟨x, err⟩ := r
    replace h2 : x.desc = (pruneReachabilityH g.owners strat h).desc := h2
    cases err with
    | some e => exact h2.trans h1
    | none =>
      simp only
      rw [pruneStatesHS_desc, h2, h1]

theorem conditionH_view (prune : Bool) (g : Game α) (strat : Array Strat) (reach : Array α)
    (h : HState α) :
    (conditionH prune g strat reach h).map HState.view =
      condition prune { g with tl := h.view } strat reach := by
  unfold conditionH conditionHS condition
  cases prune with
  | false =>
    simp only [Bool.false_eq_true, if_false]
    show Except.ok (pruneReachabilityH g.owners strat h).view = _
    rw [pruneReachabilityH_view]
    rfl
  | true =>
    simp only [if_true]
    have hpv := prunePathsHS_view g.owners reach (pruneReachabilityH g.owners strat h)
    rw [pruneReachabilityH_view] at hpv
    show _ = (prunePaths g.owners reach (pruneReachability g.owners strat h.view) >>=
      fun nodes => pruneStates g.owners (g.owners.size + 2) [] nodes)
    rw [← hpv]
    generalize prunePathsHS g.owners reach (pruneReachabilityH g.owners strat h) = r
    obtain ⟨x, err⟩ := r
    cases err with
    | some e => rfl
    | none => exact pruneStatesHS_view g.owners _ _ x

theorem conditionH_init_view (prune : Bool) (g : Game α) (strat : Array Strat) (reach : Array α) :
    (conditionH prune g strat reach (HState.init g.tl)).map HState.view =
      condition prune g strat reach := by
  rw [conditionH_view, init_view]

theorem read_lt_view (h : HState α) (s : Nat) : h.read s = h.view.getD s [] := (view_getD h s).symm

/-! ## `solve` -/

theorem solveHS_snd (rnd : α → Int) (thr : α) (fuel : Nat) (prune : Bool) (g : Game α) :
    (solveHS rnd thr fuel prune g).2 = g.tl := by
  unfold solveHS
  simp only
  cases solveReach rnd thr fuel prune g with
  | error e => rfl
  | ok ro =>
    simp only
    have hd := conditionHS_desc prune g ro.strat ro.probs (HState.init g.tl)
    generalize conditionHS prune g ro.strat ro.probs (HState.init g.tl) = r at hd
    obtain ⟨x, err⟩ := r
    replace hd : x.desc = g.tl := hd
    cases err with
    | some e => exact hd
    | none =>
      simp only
      split
      · exact hd
      · exact hd

theorem solveHS_fst (rnd : α → Int) (thr : α) (fuel : Nat) (prune : Bool) (g : Game α) :
    (solveHS rnd thr fuel prune g).1 = solve rnd thr fuel prune g := by
  unfold solveHS solve
  simp only
  cases solveReach rnd thr fuel prune g with
  | error e => rfl
  | ok ro =>
    simp only
    have hc := conditionH_init_view prune g ro.strat ro.probs
    unfold conditionH at hc
    show _ = (condition prune g ro.strat ro.probs >>= _)
    rw [← hc]
    generalize conditionHS prune g ro.strat ro.probs (HState.init g.tl) = r
    obtain ⟨x, err⟩ := r
    cases err with
    | some e => rfl
    | none =>
      show _ = (viRew rnd g.owners g.rewards x.view ro.probs thr fuel 1
        { er := g.rewards, ermr := g.rewards, pmr := ro.probs } 0 >>= _)
      simp only
      cases viRew rnd g.owners g.rewards x.view ro.probs thr fuel 1
        { er := g.rewards, ermr := g.rewards, pmr := ro.probs } 0 with
      | error e => rfl
      | ok vj => rfl

theorem solveH_eq (rnd : α → Int) (thr : α) (fuel : Nat) (prune : Bool) (g : Game α) :
    solveH rnd thr fuel prune g = (solve rnd thr fuel prune g).map (fun out => (out, g.tl)) := by
  unfold solveH
  rw [← solveHS_fst, ← solveHS_snd rnd thr fuel prune g]
  generalize solveHS rnd thr fuel prune g = r
  obtain ⟨o, d⟩ := r
  cases o <;> rfl

end Phases
end CR.Heap

/-! ## concrete data for the examples of `CR.Props.C10` -/

namespace CR.Heap
open CR CR.Examples

/-- a 3-state game: state 0 is probabilistic with one dead (state 1, a sink) and one live
successor (the final state 2) -/
def gDead : Game Rat where
  rewards := #[0, 0, 0]
  owners := #[.prob, .prob, .prob]
  tl := #[[tr "" (1/2) 1, tr "" (1/2) 2], [tr "" 1 1], [tr "" 1 2]]
  finals := [2]

def key (t : Tr Rat) : String × Rat × Nat := (t.act, t.p, t.tgt)

end CR.Heap
