/-
The list `allFrom rev finals []` collected by the backward search, as a SET, is the set of states
from which a member of `finals` is reachable through the table `rev`; hence it depends on the set of
`finals` only (no range hypothesis).
-/
import CR.Lemmas.Rdfs

namespace CR
namespace FinalsLemmas

open CR.RdfsLemmas

/-- `u` is listed under `v` in the table -/
def Listed (rev : Array (List Nat)) (u v : Nat) : Prop := u ∈ rev.getD v []

theorem mem_allFrom_iff (rev : Array (List Nat)) (finals : List Nat) (s : Nat) :
    s ∈ allFrom rev finals [] ↔ ∃ f ∈ finals, Relation.ReflTransGen (Listed rev) s f := by
  constructor
  · intro hs
    refine allFrom_sound rev (fun s => ∃ f ∈ finals, Relation.ReflTransGen (Listed rev) s f) ?_
      finals [] (fun f hf => ⟨f, hf, Relation.ReflTransGen.refl⟩) (fun x hx => by simp at hx) s hs
    rintro v ⟨f, hf, hvf⟩ u hu
    exact ⟨f, hf, Relation.ReflTransGen.head hu hvf⟩
  · rintro ⟨f, hf, hsf⟩
    obtain ⟨_, h2, h3⟩ := allFrom_complete rev finals [] (fun v hv => by simp at hv)
    exact mem_of_reflTransGen (r := Listed rev) (fun v hv u he => h3 v hv u he) hsf (h2 f hf)

theorem mem_allFrom_congr (rev : Array (List Nat)) (f f' : List Nat)
    (hmem : ∀ s, s ∈ f' ↔ s ∈ f) (s : Nat) :
    s ∈ allFrom rev f' [] ↔ s ∈ allFrom rev f [] := by
  rw [mem_allFrom_iff, mem_allFrom_iff]
  constructor
  · rintro ⟨x, hx, h⟩; exact ⟨x, (hmem x).1 hx, h⟩
  · rintro ⟨x, hx, h⟩; exact ⟨x, (hmem x).2 hx, h⟩

theorem reverseDfs_congr (tl : List (List Nat)) (f f' : List Nat)
    (hmem : ∀ s, s ∈ f' ↔ s ∈ f) : reverseDfs tl f' = reverseDfs tl f := by
  apply eq_of_sorted_lt_of_mem_iff (reverseDfs_sorted_lt tl f') (reverseDfs_sorted_lt tl f)
  intro s
  rw [mem_reverseDfs, mem_reverseDfs, mem_allFrom_congr _ f f' hmem, hmem]

theorem isEmpty_congr (f f' : List Nat) (hmem : ∀ s, s ∈ f' ↔ s ∈ f) :
    f'.isEmpty = f.isEmpty := by
  cases f' with
  | nil =>
    cases f with
    | nil => rfl
    | cons a t => exact absurd ((hmem a).2 List.mem_cons_self) (by simp)
  | cons a t =>
    cases f with
    | nil => exact absurd ((hmem a).1 List.mem_cons_self) (by simp)
    | cons b u => rfl

theorem any_congr (p : Nat → Bool) (f f' : List Nat) (hmem : ∀ s, s ∈ f' ↔ s ∈ f) :
    f'.any p = f.any p := by
  rw [Bool.eq_iff_iff, List.any_eq_true, List.any_eq_true]
  constructor
  · rintro ⟨x, hx, h⟩; exact ⟨x, (hmem x).1 hx, h⟩
  · rintro ⟨x, hx, h⟩; exact ⟨x, (hmem x).2 hx, h⟩

theorem contains_congr (f f' : List Nat) (hmem : ∀ s, s ∈ f' ↔ s ∈ f) (s : Nat) :
    f'.contains s = f.contains s := by
  rw [Bool.eq_iff_iff, List.contains_iff_mem, List.contains_iff_mem]; exact hmem s

end FinalsLemmas
end CR
