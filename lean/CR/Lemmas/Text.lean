/-
Helper lemmas for the text part of property C11 (`CR/Model/Text.lean`).

* `replaceAll_nil/_match/_step`: the three equations of Python's `str.replace`.
* `stripAux_append`, `safeFrom_append`, `endState_*`: the quote-tracking scans are compositional.
* `stripAux_replaceAll`, `safeFrom_replaceAll`: a replacement whose pattern starts with a
  character that cannot occur inside a string literal, and whose replacement text differs from
  the pattern by white space outside literals only, does not change the token view.
* `Good`: texts that leave the scan outside a literal (`renderLit` of an OK literal is `Good`).
* `renderC`, `strip_render`, `renderC_prefix`: the token view of a rendered literal is its compact
  rendering, and the compact rendering determines the literal.
-/
import CR.Model.Text
import CR.Lemmas.Report

namespace CR.TextLemmas

open CR.Text

/-! ### `str.replace` -/

theorem replaceAux_skip (pat rep : List Char) :
    ∀ (l s : List Char), replaceAux pat rep l.length (l ++ s) = replaceAux pat rep 0 s
  | [], s => rfl
  | _ :: l, s => by
    simp only [List.length_cons, List.cons_append, replaceAux]
    exact replaceAux_skip pat rep l s

theorem replaceAll_nil (pat rep : List Char) (h : pat ≠ []) : replaceAll pat rep [] = [] := by
  cases pat with
  | nil => exact absurd rfl h
  | cons p pt => rfl

theorem replaceAll_match (pat rep s : List Char) (h : pat ≠ []) :
    replaceAll pat rep (pat ++ s) = rep ++ replaceAll pat rep s := by
  cases pat with
  | nil => exact absurd rfl h
  | cons p pt =>
    have hp : (p :: pt).isPrefixOf (p :: (pt ++ s)) = true := by
      rw [List.isPrefixOf_iff_prefix]; exact ⟨s, rfl⟩
    simp only [replaceAll, List.cons_append, replaceAux, hp, if_true, List.length_cons,
      Nat.add_sub_cancel]
    rw [replaceAux_skip]

theorem replaceAll_step (pat rep : List Char) (c : Char) (s : List Char) (h : pat ≠ [])
    (hn : ¬ pat <+: c :: s) : replaceAll pat rep (c :: s) = c :: replaceAll pat rep s := by
  cases pat with
  | nil => exact absurd rfl h
  | cons p pt =>
    have hp : (p :: pt).isPrefixOf (c :: s) = false := by
      rw [← Bool.not_eq_true, List.isPrefixOf_iff_prefix]; exact hn
    simp only [replaceAll, replaceAux, hp, Bool.false_eq_true, if_false]

/-! ### the scans are compositional -/

theorem stripAux_append : ∀ (l t : List Char) (q : Bool),
    stripAux q (l ++ t) = stripAux q l ++ stripAux (endState q l) t
  | [], t, q => rfl
  | c :: l, t, q => by
    simp only [List.cons_append, stripAux, endState]
    split
    · rw [stripAux_append l t]; rfl
    · split
      · rw [stripAux_append l t]
      · rw [stripAux_append l t]; rfl

theorem safeFrom_append : ∀ (l t : List Char) (q : Bool),
    safeFrom q (l ++ t) = (safeFrom q l && safeFrom (endState q l) t)
  | [], t, q => by simp [safeFrom, endState]
  | c :: l, t, q => by
    simp only [List.cons_append, safeFrom, endState]
    split
    · rw [safeFrom_append l t]
    · rw [safeFrom_append l t, Bool.and_assoc]

theorem endState_append : ∀ (l t : List Char) (q : Bool),
    endState q (l ++ t) = endState (endState q l) t
  | [], t, q => rfl
  | c :: l, t, q => by
    simp only [List.cons_append, endState]
    split <;> rw [endState_append l t]

/-- deleting white space does not change the quote parity -/
theorem endState_stripAux : ∀ (l : List Char) (q q' : Bool),
    endState q (stripAux q' l) = endState q l
  | [], q, q' => rfl
  | c :: l, q, q' => by
    simp only [stripAux]
    split
    · rename_i h
      simp only [endState, h, if_true]
      exact endState_stripAux l _ _
    · rename_i h
      split
      · simp only [endState, h, if_false]
        exact endState_stripAux l _ _
      · simp only [endState, h, if_false]
        exact endState_stripAux l _ _

/-! ### one replacement -/

theorem inStrOK_quote : inStrOK '\'' = false := by decide

/-- a character that is not allowed inside a literal is met outside literals only -/
theorem safeFrom_head_outside {p0 : Char} {s : List Char} {q : Bool} (h0 : inStrOK p0 = false)
    (hq : p0 ≠ '\'') (h : safeFrom q (p0 :: s) = true) : q = false := by
  cases q with
  | false => rfl
  | true => simp [safeFrom, hq, h0] at h

theorem stripAux_replaceAll_aux (p0 : Char) (pt rep : List Char) (h0 : inStrOK p0 = false)
    (hq : p0 ≠ '\'') (hrep : stripWs rep = stripWs (p0 :: pt)) :
    ∀ (n : Nat) (q : Bool) (s : List Char), s.length ≤ n → safeFrom q s = true →
      stripAux q (replaceAll (p0 :: pt) rep s) = stripAux q s
  | _, q, [], _, _ => by rw [replaceAll_nil _ _ (List.cons_ne_nil _ _)]
  | 0, q, c :: s, hn, _ => by simp at hn
  | n + 1, q, c :: s, hn, hs => by
    have hne : p0 :: pt ≠ [] := List.cons_ne_nil _ _
    by_cases hpre : (p0 :: pt) <+: c :: s
    · obtain ⟨t, ht⟩ := hpre
      have hc : c = p0 := by
        simp only [List.cons_append, List.cons.injEq] at ht; exact ht.1.symm
      subst hc
      have hq0 : q = false := safeFrom_head_outside h0 hq hs
      subst hq0
      rw [← ht] at hs hn ⊢
      rw [replaceAll_match _ _ _ hne, stripAux_append, stripAux_append]
      have he : endState false rep = endState false (c :: pt) := by
        rw [← endState_stripAux rep false false, ← endState_stripAux (c :: pt) false false]
        exact congrArg (endState false) hrep
      rw [safeFrom_append, Bool.and_eq_true] at hs
      have hlen : t.length ≤ n := by
        simp only [List.length_append, List.length_cons] at hn; omega
      rw [he, stripAux_replaceAll_aux c pt rep h0 hq hrep n _ t hlen hs.2]
      exact congrArg (· ++ _) hrep
    · rw [replaceAll_step _ _ _ _ hne hpre]
      have hlen : s.length ≤ n := by simp only [List.length_cons] at hn; omega
      simp only [safeFrom] at hs
      simp only [stripAux]
      split
      · rename_i hcq
        rw [if_pos hcq] at hs
        rw [stripAux_replaceAll_aux p0 pt rep h0 hq hrep n _ s hlen hs]
      · rename_i hcq
        rw [if_neg hcq, Bool.and_eq_true] at hs
        rw [stripAux_replaceAll_aux p0 pt rep h0 hq hrep n _ s hlen hs.2]

theorem safeFrom_replaceAll_aux (p0 : Char) (pt rep : List Char) (h0 : inStrOK p0 = false)
    (hq : p0 ≠ '\'') (hrep : stripWs rep = stripWs (p0 :: pt)) (hsafe : safeFrom false rep = true) :
    ∀ (n : Nat) (q : Bool) (s : List Char), s.length ≤ n → safeFrom q s = true →
      safeFrom q (replaceAll (p0 :: pt) rep s) = true
  | _, q, [], _, _ => by rw [replaceAll_nil _ _ (List.cons_ne_nil _ _)]; rfl
  | 0, q, c :: s, hn, _ => by simp at hn
  | n + 1, q, c :: s, hn, hs => by
    have hne : p0 :: pt ≠ [] := List.cons_ne_nil _ _
    by_cases hpre : (p0 :: pt) <+: c :: s
    · obtain ⟨t, ht⟩ := hpre
      have hc : c = p0 := by
        simp only [List.cons_append, List.cons.injEq] at ht; exact ht.1.symm
      subst hc
      have hq0 : q = false := safeFrom_head_outside h0 hq hs
      subst hq0
      rw [← ht] at hs hn ⊢
      rw [replaceAll_match _ _ _ hne, safeFrom_append]
      have he : endState false rep = endState false (c :: pt) := by
        rw [← endState_stripAux rep false false, ← endState_stripAux (c :: pt) false false]
        exact congrArg (endState false) hrep
      rw [safeFrom_append, Bool.and_eq_true] at hs
      have hlen : t.length ≤ n := by
        simp only [List.length_append, List.length_cons] at hn; omega
      rw [he, safeFrom_replaceAll_aux c pt rep h0 hq hrep hsafe n _ t hlen hs.2, hsafe]
      rfl
    · rw [replaceAll_step _ _ _ _ hne hpre]
      have hlen : s.length ≤ n := by simp only [List.length_cons] at hn; omega
      simp only [safeFrom] at hs ⊢
      split
      · rename_i hcq
        rw [if_pos hcq] at hs
        exact safeFrom_replaceAll_aux p0 pt rep h0 hq hrep hsafe n _ s hlen hs
      · rename_i hcq
        rw [if_neg hcq, Bool.and_eq_true] at hs
        rw [safeFrom_replaceAll_aux p0 pt rep h0 hq hrep hsafe n _ s hlen hs.2, hs.1]
        rfl

/-- token view unchanged by one replacement -/
theorem stripAux_replaceAll (p0 : Char) (pt rep : List Char) (h0 : inStrOK p0 = false)
    (hq : p0 ≠ '\'') (hrep : stripWs rep = stripWs (p0 :: pt)) (q : Bool) (s : List Char)
    (hs : safeFrom q s = true) :
    stripAux q (replaceAll (p0 :: pt) rep s) = stripAux q s :=
  stripAux_replaceAll_aux p0 pt rep h0 hq hrep s.length q s (Nat.le_refl _) hs

/-- the invariant is kept by one replacement -/
theorem safeFrom_replaceAll (p0 : Char) (pt rep : List Char) (h0 : inStrOK p0 = false)
    (hq : p0 ≠ '\'') (hrep : stripWs rep = stripWs (p0 :: pt)) (hsafe : safeFrom false rep = true)
    (q : Bool) (s : List Char) (hs : safeFrom q s = true) :
    safeFrom q (replaceAll (p0 :: pt) rep s) = true :=
  safeFrom_replaceAll_aux p0 pt rep h0 hq hrep hsafe s.length q s (Nat.le_refl _) hs

/-! ### the four replacements -/

theorem surgery_scan (q : Bool) (s : List Char) (hs : safeFrom q s = true) :
    stripAux q (surgery s) = stripAux q s ∧ safeFrom q (surgery s) = true := by
  have e1 := stripAux_replaceAll '[' ['['] ['[', '\n', '['] (by decide) (by decide) (by decide) q s hs
  have h1 := safeFrom_replaceAll '[' ['['] ['[', '\n', '['] (by decide) (by decide) (by decide)
    (by decide) q s hs
  have e2 := stripAux_replaceAll ']' [',', ' '] [']', ',', '\n'] (by decide) (by decide) (by decide)
    q _ h1
  have h2 := safeFrom_replaceAll ']' [',', ' '] [']', ',', '\n'] (by decide) (by decide) (by decide)
    (by decide) q _ h1
  have e3 := stripAux_replaceAll '[' ['('] (spaces 16 ++ ['[', '(']) (by decide) (by decide)
    (by decide) q _ h2
  have h3 := safeFrom_replaceAll '[' ['('] (spaces 16 ++ ['[', '(']) (by decide) (by decide)
    (by decide) (by decide) q _ h2
  have e4 := stripAux_replaceAll '\n' ['\''] ('\n' :: (spaces 12 ++ ['\''])) (by decide) (by decide)
    (by decide) q _ h3
  have h4 := safeFrom_replaceAll '\n' ['\''] ('\n' :: (spaces 12 ++ ['\''])) (by decide) (by decide)
    (by decide) (by decide) q _ h3
  exact ⟨by unfold surgery; rw [e4, e3, e2, e1], h4⟩

/-! ### rendered literals leave the scan outside a literal -/

/-- a text that is scanned safely from outside a literal and ends outside a literal -/
def Good (l : List Char) : Prop := safeFrom false l = true ∧ endState false l = false

theorem good_nil : Good [] := ⟨rfl, rfl⟩

theorem good_append {a b : List Char} (ha : Good a) (hb : Good b) : Good (a ++ b) := by
  refine ⟨?_, ?_⟩
  · rw [safeFrom_append, ha.1, ha.2, hb.1]; rfl
  · rw [endState_append, ha.2, hb.2]

theorem good_cons {c : Char} {l : List Char} (hc : c ≠ '\'') (hl : Good l) : Good (c :: l) := by
  refine ⟨?_, ?_⟩
  · simp only [safeFrom, if_neg hc, hl.1]; rfl
  · simp only [endState, if_neg hc, hl.2]

theorem good_noquote : ∀ (l : List Char), (∀ c ∈ l, c ≠ '\'') → Good l
  | [], _ => good_nil
  | c :: l, h => good_cons (h c (by simp)) (good_noquote l (fun x hx => h x (by simp [hx])))

theorem inStrOK_ne_quote {c : Char} (h : inStrOK c = true) : c ≠ '\'' := by
  rintro rfl; exact absurd h (by decide)

theorem body_scan : ∀ (l : List Char), (∀ c ∈ l, inStrOK c = true) →
    safeFrom true l = true ∧ endState true l = true
  | [], _ => ⟨rfl, rfl⟩
  | c :: l, h => by
    have hc := h c (by simp)
    have ih := body_scan l (fun x hx => h x (by simp [hx]))
    simp only [safeFrom, endState, if_neg (inStrOK_ne_quote hc), hc, ih.1, ih.2]
    exact ⟨rfl, trivial⟩

theorem safeStr_iff {k : String} : safeStr k = true ↔ ∀ c ∈ k.toList, inStrOK c = true := by
  simp [safeStr, List.all_eq_true]

theorem good_quoted {k : String} (h : safeStr k = true) : Good (quoted k) := by
  have hb := body_scan k.toList (safeStr_iff.1 h)
  refine ⟨?_, ?_⟩
  · simp only [quoted, safeFrom, if_true, Bool.not_false, safeFrom_append, hb.1, hb.2,
      Bool.not_true, Bool.and_self]
  · simp only [quoted, endState, if_true, Bool.not_false, endState_append, hb.2, Bool.not_true]

theorem good_int (i : Int) : Good (toString i).toList := by
  apply good_noquote
  rintro c hc rfl
  rcases CR.ReportLemmas.int_toString_chars i _ hc with h | h
  · exact absurd h (by decide)
  · exact absurd h (by decide)

theorem good_num {a : String} (h : numOK a = true) : Good a.toList := by
  apply good_noquote
  rintro c hc rfl
  simp only [numOK, List.all_eq_true] at h
  exact absurd (h _ hc) (by decide)

mutual
theorem good_render : (l : Lit) → litOK l = true → Good (renderLit l)
  | .int i, _ => by rw [renderLit]; exact good_int i
  | .num a, h => by rw [renderLit]; rw [litOK] at h; exact good_num h
  | .str s, h => by rw [renderLit]; rw [litOK] at h; exact good_quoted h
  | .tuple xs, h => by
    rw [litOK] at h
    rw [renderLit]
    refine good_cons (by decide) (good_append (good_renderSeq xs h) ?_)
    unfold tupleClose
    split <;> exact good_noquote _ (by decide)
  | .list xs, h => by
    rw [litOK] at h
    rw [renderLit]
    exact good_cons (by decide) (good_append (good_renderSeq xs h) (good_noquote _ (by decide)))
  | .dict kvs, h => by
    rw [litOK] at h
    rw [renderLit]
    exact good_cons (by decide) (good_append (good_renderKVs kvs h) (good_noquote _ (by decide)))
theorem good_renderSeq : (xs : List Lit) → seqOK xs = true → Good (renderSeq xs)
  | [], _ => by rw [renderSeq]; exact good_nil
  | [x], h => by
    simp only [seqOK, Bool.and_true] at h
    rw [renderSeq]; exact good_render x h
  | x :: y :: r, h => by
    rw [seqOK, Bool.and_eq_true] at h
    rw [renderSeq]
    exact good_append (good_render x h.1)
      (good_cons (by decide) (good_cons (by decide) (good_renderSeq (y :: r) h.2)))
theorem good_renderKVs : (kvs : List (String × Lit)) → kvsOK kvs = true → Good (renderKVs kvs)
  | [], _ => by rw [renderKVs]; exact good_nil
  | [(k, v)], h => by
    simp only [kvsOK, Bool.and_true, Bool.and_eq_true] at h
    rw [renderKVs]
    exact good_append (good_quoted h.1)
      (good_cons (by decide) (good_cons (by decide) (good_render v h.2)))
  | (k, v) :: kv :: r, h => by
    rw [kvsOK, Bool.and_eq_true, Bool.and_eq_true] at h
    rw [renderKVs]
    refine good_append (good_quoted h.1)
      (good_cons (by decide) (good_cons (by decide) (good_append (good_render v h.2.1)
        (good_cons (by decide) (good_cons (by decide) (good_renderKVs (kv :: r) ?_))))))
    exact h.2.2
end

/-! ### the token view of a rendered literal is its compact rendering -/

mutual
/-- `renderLit` with the separators `","` and `":"` -/
def renderC : Lit → List Char
  | .int i => (toString i).toList
  | .num a => a.toList
  | .str s => quoted s
  | .tuple xs => '(' :: (seqC xs ++ tupleClose xs)
  | .list xs => '[' :: (seqC xs ++ [']'])
  | .dict kvs => '{' :: (kvsC kvs ++ ['}'])
def seqC : List Lit → List Char
  | [] => []
  | [x] => renderC x
  | x :: y :: r => renderC x ++ ',' :: seqC (y :: r)
def kvsC : List (String × Lit) → List Char
  | [] => []
  | [(k, v)] => quoted k ++ ':' :: renderC v
  | (k, v) :: kv :: r => quoted k ++ ':' :: (renderC v ++ ',' :: kvsC (kv :: r))
end

theorem isWs_false {c : Char} (h : isWs c = false) : c ≠ ' ' ∧ c ≠ '\n' := by
  simpa [isWs] using h

theorem stripAux_id_out : ∀ (l : List Char), (∀ c ∈ l, c ≠ '\'' ∧ isWs c = false) →
    stripAux false l = l
  | [], _ => rfl
  | c :: l, h => by
    have hc := h c (by simp)
    have hw := isWs_false hc.2
    have ih := stripAux_id_out l (fun x hx => h x (by simp [hx]))
    simp only [stripAux, if_neg hc.1, hw.1, hw.2, or_self, and_false, if_false, ih]

theorem stripAux_id_in : ∀ (l : List Char), (∀ c ∈ l, c ≠ '\'') → stripAux true l = l
  | [], _ => rfl
  | c :: l, h => by
    have hc := h c (by simp)
    have ih := stripAux_id_in l (fun x hx => h x (by simp [hx]))
    simp only [stripAux, if_neg hc, Bool.true_eq_false, false_and, if_false, ih]

theorem strip_append_good {a : List Char} (b : List Char) (ha : Good a) :
    stripWs (a ++ b) = stripWs a ++ stripWs b := by
  unfold stripWs; rw [stripAux_append, ha.2]

theorem strip_cons_out {c : Char} (l : List Char) (hq : c ≠ '\'') (hw : isWs c = false) :
    stripWs (c :: l) = c :: stripWs l := by
  have hw := isWs_false hw
  simp only [stripWs, stripAux, if_neg hq, hw.1, hw.2, or_self, and_false, if_false]

theorem strip_space (l : List Char) : stripWs (' ' :: l) = stripWs l := by
  simp [stripWs, stripAux]

theorem strip_quoted {k : String} (h : safeStr k = true) : stripWs (quoted k) = quoted k := by
  have hq : ∀ c ∈ k.toList, c ≠ '\'' := fun c hc => inStrOK_ne_quote (safeStr_iff.1 h c hc)
  have he := (body_scan k.toList (safeStr_iff.1 h)).2
  simp only [stripWs, quoted, stripAux, if_true, Bool.not_false, stripAux_append, he,
    stripAux_id_in _ hq]

theorem strip_int (i : Int) : stripWs (toString i).toList = (toString i).toList := by
  apply stripAux_id_out
  intro c hc
  rcases CR.ReportLemmas.int_toString_chars i _ hc with h | h
  · refine ⟨?_, ?_⟩
    · rintro rfl; exact absurd h (by decide)
    · simp only [isWs, Bool.or_eq_false_iff, beq_eq_false_iff_ne]
      refine ⟨?_, ?_⟩ <;> (rintro rfl; exact absurd h (by decide))
  · subst h; decide

theorem strip_num {a : String} (h : numOK a = true) : stripWs a.toList = a.toList := by
  apply stripAux_id_out
  intro c hc
  simp only [numOK, List.all_eq_true] at h
  have := h c hc
  refine ⟨?_, ?_⟩
  · rintro rfl; exact absurd this (by decide)
  · simp only [atomChOK, Bool.not_eq_true', Bool.or_eq_false_iff] at this
    exact this.1.1.1.1.1

theorem strip_tupleClose (xs : List Lit) : stripWs (tupleClose xs) = tupleClose xs := by
  unfold tupleClose; split <;> rfl

mutual
theorem strip_render : (l : Lit) → litOK l = true → stripWs (renderLit l) = renderC l
  | .int i, _ => by rw [renderLit, renderC]; exact strip_int i
  | .num a, h => by rw [renderLit, renderC]; rw [litOK] at h; exact strip_num h
  | .str s, h => by rw [renderLit, renderC]; rw [litOK] at h; exact strip_quoted h
  | .tuple xs, h => by
    rw [litOK] at h
    rw [renderLit, renderC, strip_cons_out _ (by decide) (by decide),
      strip_append_good _ (good_renderSeq xs h), strip_seq xs h, strip_tupleClose]
  | .list xs, h => by
    rw [litOK] at h
    rw [renderLit, renderC, strip_cons_out _ (by decide) (by decide),
      strip_append_good _ (good_renderSeq xs h), strip_seq xs h]
    rfl
  | .dict kvs, h => by
    rw [litOK] at h
    rw [renderLit, renderC, strip_cons_out _ (by decide) (by decide),
      strip_append_good _ (good_renderKVs kvs h), strip_kvs kvs h]
    rfl
theorem strip_seq : (xs : List Lit) → seqOK xs = true → stripWs (renderSeq xs) = seqC xs
  | [], _ => by rw [renderSeq, seqC]; rfl
  | [x], h => by
    simp only [seqOK, Bool.and_true] at h
    rw [renderSeq, seqC]; exact strip_render x h
  | x :: y :: r, h => by
    rw [seqOK, Bool.and_eq_true] at h
    rw [renderSeq, seqC, strip_append_good _ (good_render x h.1), strip_render x h.1,
      strip_cons_out _ (by decide) (by decide), strip_space, strip_seq (y :: r) h.2]
theorem strip_kvs : (kvs : List (String × Lit)) → kvsOK kvs = true →
    stripWs (renderKVs kvs) = kvsC kvs
  | [], _ => by rw [renderKVs, kvsC]; rfl
  | [(k, v)], h => by
    simp only [kvsOK, Bool.and_true, Bool.and_eq_true] at h
    rw [renderKVs, kvsC, strip_append_good _ (good_quoted h.1), strip_quoted h.1,
      strip_cons_out _ (by decide) (by decide), strip_space, strip_render v h.2]
  | (k, v) :: kv :: r, h => by
    rw [kvsOK, Bool.and_eq_true, Bool.and_eq_true] at h
    rw [renderKVs, kvsC, strip_append_good _ (good_quoted h.1), strip_quoted h.1,
      strip_cons_out _ (by decide) (by decide), strip_space,
      strip_append_good _ (good_render v h.2.1), strip_render v h.2.1,
      strip_cons_out _ (by decide) (by decide), strip_space, strip_kvs (kv :: r) h.2.2]
end

/-! ### the compact rendering determines the literal -/

/-- the characters that can follow a literal: `, ] ) }` -/
def Delim (c : Char) : Prop := c = ',' ∨ c = ']' ∨ c = ')' ∨ c = '}'

instance : DecidablePred Delim := fun c => by unfold Delim; infer_instance

/-- a continuation that is empty or starts with a delimiter -/
def Tail (s : List Char) : Prop := ∀ c ∈ s.head?, Delim c

theorem tail_nil : Tail [] := by simp [Tail]
theorem tail_cons {c : Char} (s : List Char) (h : Delim c) : Tail (c :: s) := by
  simpa [Tail] using h

theorem split_unique : ∀ (l1 l2 s t : List Char), (∀ c ∈ l1, ¬ Delim c) → (∀ c ∈ l2, ¬ Delim c) →
    Tail s → Tail t → l1 ++ s = l2 ++ t → l1 = l2 ∧ s = t
  | [], [], s, t, _, _, _, _, h => ⟨rfl, by simpa using h⟩
  | [], c :: l2, s, t, _, h2, hs, _, h => by
    exfalso
    simp only [List.nil_append] at h
    subst h
    exact h2 c (by simp) (hs c (by simp))
  | c :: l1, [], s, t, h1, _, _, ht, h => by
    exfalso
    simp only [List.nil_append] at h
    subst h
    exact h1 c (by simp) (ht c (by simp))
  | c :: l1, c' :: l2, s, t, h1, h2, hs, ht, h => by
    simp only [List.cons_append, List.cons.injEq] at h
    obtain ⟨rfl, h⟩ := h
    have := split_unique l1 l2 s t (fun x hx => h1 x (by simp [hx]))
      (fun x hx => h2 x (by simp [hx])) hs ht h
    exact ⟨by rw [this.1], this.2⟩

/-- 0 = number, 1 = string, 2 = tuple, 3 = list, 4 = dict -/
def kind : Lit → Nat
  | .int _ => 0
  | .num _ => 0
  | .str _ => 1
  | .tuple _ => 2
  | .list _ => 3
  | .dict _ => 4

def KindCh : Nat → Char → Prop
  | 0, c => atomChWF c = true
  | 1, c => c = '\''
  | 2, c => c = '('
  | 3, c => c = '['
  | _, c => c = '{'

theorem kind_le (a : Lit) : kind a ≤ 4 := by cases a <;> simp [kind]

theorem kindCh_notDelim {k : Nat} {c : Char} (h : KindCh k c) : ¬ Delim c := by
  match k, h with
  | 0, h =>
    have h : atomChWF c = true := h
    intro hd; rcases hd with rfl | rfl | rfl | rfl <;> exact absurd h (by decide)
  | 1, h => subst h; decide
  | 2, h => subst h; decide
  | 3, h => subst h; decide
  | _ + 4, h => subst h; decide

theorem kindCh_inj {k k' : Nat} {c : Char} (hk : k ≤ 4) (hk' : k' ≤ 4) (h : KindCh k c)
    (h' : KindCh k' c) : k = k' := by
  have key : ∀ k, k ≤ 4 → KindCh k c →
      (k = 0 ∧ atomChWF c = true) ∨ (k = 1 ∧ c = '\'') ∨ (k = 2 ∧ c = '(') ∨ (k = 3 ∧ c = '[') ∨
        (k = 4 ∧ c = '{') := by
    intro k hk h
    match k, hk, h with
    | 0, _, h => exact Or.inl ⟨rfl, h⟩
    | 1, _, h => exact Or.inr (Or.inl ⟨rfl, h⟩)
    | 2, _, h => exact Or.inr (Or.inr (Or.inl ⟨rfl, h⟩))
    | 3, _, h => exact Or.inr (Or.inr (Or.inr (Or.inl ⟨rfl, h⟩)))
    | 4, _, h => exact Or.inr (Or.inr (Or.inr (Or.inr ⟨rfl, h⟩)))
    | _ + 5, hk, _ => omega
  rcases key k hk h with ⟨rfl, a⟩ | ⟨rfl, a⟩ | ⟨rfl, a⟩ | ⟨rfl, a⟩ | ⟨rfl, a⟩ <;>
    rcases key k' hk' h' with ⟨rfl, b⟩ | ⟨rfl, b⟩ | ⟨rfl, b⟩ | ⟨rfl, b⟩ | ⟨rfl, b⟩ <;>
    first
      | rfl
      | (subst b; exact absurd a (by decide))
      | (subst a; exact absurd b (by decide))

theorem atomChWF_of_digit {c : Char} (h : c.isDigit = true ∨ c = '-') : atomChWF c = true := by
  rcases h with h | rfl
  · have hne : ∀ d : Char, d.isDigit = false → (c == d) = false := by
      intro d hd
      rw [beq_eq_false_iff_ne]
      rintro rfl
      rw [h] at hd; exact absurd hd (by decide)
    simp only [atomChWF, atomChOK, isWs]
    rw [hne ' ' (by decide), hne '\n' (by decide), hne '[' (by decide), hne ']' (by decide),
      hne '(' (by decide), hne ')' (by decide), hne '\'' (by decide), hne ',' (by decide),
      hne ':' (by decide), hne '{' (by decide), hne '}' (by decide)]
    rfl
  · decide

theorem numWF_iff {a : String} : numWF a = true ↔
    a.toList ≠ [] ∧ (∀ c ∈ a.toList, atomChWF c = true) ∧
      ∃ c ∈ a.toList, ¬ (c.isDigit = true ∨ c = '-') := by
  simp [numWF, List.all_eq_true, List.any_eq_true, and_assoc]

/-- number texts: non-empty, made of atom characters -/
theorem atom_chars (a : Lit) (hk : kind a = 0) (hw : litWF a = true) :
    renderC a ≠ [] ∧ ∀ c ∈ renderC a, atomChWF c = true := by
  cases a with
  | int i =>
    rw [renderC]
    exact ⟨CR.ReportLemmas.int_toString_ne_nil i,
      fun c hc => atomChWF_of_digit (CR.ReportLemmas.int_toString_chars i c hc)⟩
  | num r =>
    rw [renderC]; rw [litWF] at hw
    have := numWF_iff.1 hw
    exact ⟨this.1, this.2.1⟩
  | str s => simp [kind] at hk
  | tuple xs => simp [kind] at hk
  | list xs => simp [kind] at hk
  | dict kvs => simp [kind] at hk

theorem rc_head (a : Lit) (hw : litWF a = true) :
    ∃ c r, renderC a = c :: r ∧ KindCh (kind a) c := by
  by_cases hk : kind a = 0
  · obtain ⟨h1, h2⟩ := atom_chars a hk hw
    obtain ⟨c, r, hcr⟩ := List.exists_cons_of_ne_nil h1
    refine ⟨c, r, hcr, ?_⟩
    rw [hk]
    exact h2 c (by simp [hcr])
  · cases a with
    | int i => simp [kind] at hk
    | num r => simp [kind] at hk
    | str s => exact ⟨_, _, by rw [renderC, quoted], rfl⟩
    | tuple xs => exact ⟨_, _, by rw [renderC], rfl⟩
    | list xs => exact ⟨_, _, by rw [renderC], rfl⟩
    | dict kvs => exact ⟨_, _, by rw [renderC], rfl⟩

theorem head_clash (a b : Lit) (ha : litWF a = true) (hb : litWF b = true) (s t : List Char)
    (h : renderC a ++ s = renderC b ++ t) : kind a = kind b := by
  obtain ⟨c, r, hc, hk⟩ := rc_head a ha
  obtain ⟨c', r', hc', hk'⟩ := rc_head b hb
  rw [hc, hc'] at h
  simp only [List.cons_append, List.cons.injEq] at h
  obtain ⟨rfl, _⟩ := h
  exact kindCh_inj (kind_le a) (kind_le b) hk hk'

/-- a literal does not start with a delimiter -/
theorem rc_append_ne_delim (y : Lit) (wy : litWF y = true) (u s : List Char) (c : Char)
    (hc : Delim c) : renderC y ++ u ≠ c :: s := by
  obtain ⟨d, r, hd, hk⟩ := rc_head y wy
  rw [hd]
  intro h
  simp only [List.cons_append, List.cons.injEq] at h
  exact kindCh_notDelim hk (h.1 ▸ hc)

theorem atom_inj (a b : Lit) (ha : kind a = 0) (hb : kind b = 0) (wa : litWF a = true)
    (wb : litWF b = true) (h : renderC a = renderC b) : a = b := by
  cases a <;> simp only [kind] at ha <;> try omega
  all_goals (cases b <;> simp only [kind] at hb <;> try omega)
  all_goals simp only [renderC] at h
  · rw [CR.ReportLemmas.int_toString_inj (String.toList_inj.1 h)]
  · rename_i i r
    rw [litWF] at wb
    obtain ⟨c, hc, hn⟩ := (numWF_iff.1 wb).2.2
    exact absurd (CR.ReportLemmas.int_toString_chars i c (h ▸ hc)) hn
  · rename_i r i
    rw [litWF] at wa
    obtain ⟨c, hc, hn⟩ := (numWF_iff.1 wa).2.2
    exact absurd (CR.ReportLemmas.int_toString_chars i c (h ▸ hc)) hn
  · rw [String.toList_inj.1 h]

/-- numbers and strings (no recursion needed) -/
theorem flat_case (a b : Lit) (hab : kind a ≤ 1 ∨ kind b ≤ 1 ∨ kind a ≠ kind b)
    (wa : litWF a = true) (wb : litWF b = true) (s t : List Char) (hs : Tail s) (ht : Tail t)
    (h : renderC a ++ s = renderC b ++ t) : a = b ∧ s = t := by
  have hk := head_clash a b wa wb s t h
  have h01 : kind a = 0 ∨ kind a = 1 := by omega
  rcases h01 with h0 | h1
  · have hb0 : kind b = 0 := hk ▸ h0
    have na : ∀ c ∈ renderC a, ¬ Delim c := fun c hc =>
      kindCh_notDelim (k := 0) ((atom_chars a h0 wa).2 c hc)
    have nb : ∀ c ∈ renderC b, ¬ Delim c := fun c hc =>
      kindCh_notDelim (k := 0) ((atom_chars b hb0 wb).2 c hc)
    have := split_unique _ _ s t na nb hs ht h
    exact ⟨atom_inj a b h0 hb0 wa wb this.1, this.2⟩
  · cases a <;> simp only [kind] at h1 <;> try omega
    cases b <;> simp only [kind] at hk <;> try omega
    rename_i s1 s2
    rw [litWF] at wa wb
    simp only [renderC, quoted, List.cons_append, List.cons.injEq, true_and, List.append_assoc,
      List.nil_append] at h
    have q1 : '\'' ∉ s1.toList := fun hc => inStrOK_ne_quote (safeStr_iff.1 wa _ hc) rfl
    have q2 : '\'' ∉ s2.toList := fun hc => inStrOK_ne_quote (safeStr_iff.1 wb _ hc) rfl
    have := CR.ReportLemmas.quote_unique _ _ _ _ q1 q2 h
    exact ⟨by rw [String.toList_inj.1 this.1], this.2⟩

/-- what follows the elements of a list or tuple: `]`, `)` or `,)` -/
def Close (s : List Char) : Prop := ∃ r, s = ']' :: r ∨ s = ')' :: r ∨ s = ',' :: ')' :: r

theorem close_tail {s : List Char} (h : Close s) : Tail s := by
  obtain ⟨r, rfl | rfl | rfl⟩ := h <;> exact tail_cons _ (by decide)

theorem close_tupleClose (xs : List Lit) (s : List Char) : Close (tupleClose xs ++ s) := by
  unfold tupleClose; split
  · exact ⟨s, Or.inr (Or.inr rfl)⟩
  · exact ⟨s, Or.inr (Or.inl rfl)⟩

theorem seqC_cons_head (y : Lit) (r : List Lit) : ∃ u, seqC (y :: r) = renderC y ++ u := by
  cases r with
  | nil => exact ⟨[], by rw [seqC, List.append_nil]⟩
  | cons y' r => exact ⟨_, by rw [seqC]⟩

/-- elements cannot continue after a closing text -/
theorem close_ne_seq {s : List Char} (hs : Close s) (y : Lit) (wy : litWF y = true)
    (r : List Lit) (t : List Char) : s ≠ seqC (y :: r) ++ t := by
  obtain ⟨u, hu⟩ := seqC_cons_head y r
  rw [hu, List.append_assoc]
  obtain ⟨r0, rfl | rfl | rfl⟩ := hs <;>
    exact fun h => rc_append_ne_delim y wy _ _ _ (by decide) h.symm

theorem close_ne_comma_seq {s : List Char} (hs : Close s) (y : Lit) (wy : litWF y = true)
    (r : List Lit) (t : List Char) : s ≠ ',' :: (seqC (y :: r) ++ t) := by
  obtain ⟨u, hu⟩ := seqC_cons_head y r
  rw [hu, List.append_assoc]
  obtain ⟨r0, rfl | rfl | rfl⟩ := hs
  · intro h; simp at h
  · intro h; simp at h
  · intro h
    simp only [List.cons.injEq, true_and] at h
    exact rc_append_ne_delim y wy _ _ _ (by decide) h.symm

theorem quoted_append_inj {k k' : String} (hk : safeStr k = true) (hk' : safeStr k' = true)
    {s t : List Char} (h : quoted k ++ s = quoted k' ++ t) : k = k' ∧ s = t := by
  simp only [quoted, List.cons_append, List.cons.injEq, true_and, List.append_assoc,
    List.nil_append] at h
  have q1 : '\'' ∉ k.toList := fun hc => inStrOK_ne_quote (safeStr_iff.1 hk _ hc) rfl
  have q2 : '\'' ∉ k'.toList := fun hc => inStrOK_ne_quote (safeStr_iff.1 hk' _ hc) rfl
  have := CR.ReportLemmas.quote_unique _ _ _ _ q1 q2 h
  exact ⟨String.toList_inj.1 this.1, this.2⟩

theorem tail_close_brace (s : List Char) : Tail ('}' :: s) := tail_cons _ (by decide)
theorem tail_comma (s : List Char) : Tail (',' :: s) := tail_cons _ (by decide)

theorem seqC_one (x : Lit) : seqC [x] = renderC x := by rw [seqC]
theorem seqC_cons2 (x y : Lit) (r : List Lit) :
    seqC (x :: y :: r) = renderC x ++ ',' :: seqC (y :: r) := by rw [seqC]
theorem kvsC_one (k : String) (v : Lit) : kvsC [(k, v)] = quoted k ++ ':' :: renderC v := by
  rw [kvsC]
theorem kvsC_cons2 (k : String) (v : Lit) (kv : String × Lit) (r : List (String × Lit)) :
    kvsC ((k, v) :: kv :: r) = quoted k ++ ':' :: (renderC v ++ ',' :: kvsC (kv :: r)) := by
  rw [kvsC]

theorem kvsC_cons_head (kv : String × Lit) (r : List (String × Lit)) :
    ∃ u, kvsC (kv :: r) = '\'' :: u := by
  obtain ⟨k, v⟩ := kv
  cases r with
  | nil => exact ⟨_, by rw [kvsC_one, quoted]; rfl⟩
  | cons kv' r => exact ⟨_, by rw [kvsC_cons2, quoted]; rfl⟩

mutual
theorem renderC_prefix : (a : Lit) → litWF a = true → (b : Lit) → litWF b = true →
    ∀ s t : List Char, Tail s → Tail t → renderC a ++ s = renderC b ++ t → a = b ∧ s = t
  | .tuple xs, wa, .tuple ys, wb, s, t, _, _, h => by
    rw [litWF] at wa wb
    simp only [renderC, List.cons_append, List.cons.injEq, true_and, List.append_assoc] at h
    obtain ⟨rfl, h2⟩ :=
      seqC_prefix xs wa ys wb _ _ (close_tupleClose xs s) (close_tupleClose ys t) h
    exact ⟨rfl, List.append_cancel_left h2⟩
  | .list xs, wa, .list ys, wb, s, t, _, _, h => by
    rw [litWF] at wa wb
    simp only [renderC, List.cons_append, List.cons.injEq, true_and, List.append_assoc,
      List.nil_append] at h
    obtain ⟨rfl, h2⟩ := seqC_prefix xs wa ys wb _ _ ⟨s, Or.inl rfl⟩ ⟨t, Or.inl rfl⟩ h
    simp only [List.cons.injEq, true_and] at h2
    exact ⟨rfl, h2⟩
  | .dict ks, wa, .dict ls, wb, s, t, _, _, h => by
    rw [litWF] at wa wb
    simp only [renderC, List.cons_append, List.cons.injEq, true_and, List.append_assoc,
      List.nil_append] at h
    obtain ⟨rfl, h2⟩ := kvsC_prefix ks wa ls wb s t h
    exact ⟨rfl, h2⟩
  | .tuple _, wa, .int _, wb, s, t, hs, ht, h => flat_case _ _ (by simp [kind]) wa wb s t hs ht h
  | .tuple _, wa, .num _, wb, s, t, hs, ht, h => flat_case _ _ (by simp [kind]) wa wb s t hs ht h
  | .tuple _, wa, .str _, wb, s, t, hs, ht, h => flat_case _ _ (by simp [kind]) wa wb s t hs ht h
  | .tuple _, wa, .list _, wb, s, t, hs, ht, h => flat_case _ _ (by simp [kind]) wa wb s t hs ht h
  | .tuple _, wa, .dict _, wb, s, t, hs, ht, h => flat_case _ _ (by simp [kind]) wa wb s t hs ht h
  | .list _, wa, .int _, wb, s, t, hs, ht, h => flat_case _ _ (by simp [kind]) wa wb s t hs ht h
  | .list _, wa, .num _, wb, s, t, hs, ht, h => flat_case _ _ (by simp [kind]) wa wb s t hs ht h
  | .list _, wa, .str _, wb, s, t, hs, ht, h => flat_case _ _ (by simp [kind]) wa wb s t hs ht h
  | .list _, wa, .tuple _, wb, s, t, hs, ht, h => flat_case _ _ (by simp [kind]) wa wb s t hs ht h
  | .list _, wa, .dict _, wb, s, t, hs, ht, h => flat_case _ _ (by simp [kind]) wa wb s t hs ht h
  | .dict _, wa, .int _, wb, s, t, hs, ht, h => flat_case _ _ (by simp [kind]) wa wb s t hs ht h
  | .dict _, wa, .num _, wb, s, t, hs, ht, h => flat_case _ _ (by simp [kind]) wa wb s t hs ht h
  | .dict _, wa, .str _, wb, s, t, hs, ht, h => flat_case _ _ (by simp [kind]) wa wb s t hs ht h
  | .dict _, wa, .tuple _, wb, s, t, hs, ht, h => flat_case _ _ (by simp [kind]) wa wb s t hs ht h
  | .dict _, wa, .list _, wb, s, t, hs, ht, h => flat_case _ _ (by simp [kind]) wa wb s t hs ht h
  | .int _, wa, b, wb, s, t, hs, ht, h => flat_case _ _ (by simp [kind]) wa wb s t hs ht h
  | .num _, wa, b, wb, s, t, hs, ht, h => flat_case _ _ (by simp [kind]) wa wb s t hs ht h
  | .str _, wa, b, wb, s, t, hs, ht, h => flat_case _ _ (by simp [kind]) wa wb s t hs ht h
theorem seqC_prefix : (xs : List Lit) → seqWF xs = true → (ys : List Lit) → seqWF ys = true →
    ∀ s t : List Char, Close s → Close t → seqC xs ++ s = seqC ys ++ t → xs = ys ∧ s = t
  | [], _, [], _, s, t, _, _, h => by simpa [seqC] using h
  | [], _, y :: r, wy, s, t, hs, _, h => by
    rw [seqWF, Bool.and_eq_true] at wy
    rw [seqC, List.nil_append] at h
    exact absurd h (close_ne_seq hs y wy.1 r t)
  | x :: r, wx, [], _, s, t, _, ht, h => by
    rw [seqWF, Bool.and_eq_true] at wx
    rw [seqC, List.nil_append] at h
    exact absurd h.symm (close_ne_seq ht x wx.1 r s)
  | [x], wx, [y], wy, s, t, hs, ht, h => by
    simp only [seqWF, Bool.and_true] at wx wy
    rw [seqC_one, seqC_one] at h
    have := renderC_prefix x wx y wy s t (close_tail hs) (close_tail ht) h
    exact ⟨by rw [this.1], this.2⟩
  | [x], wx, y :: y' :: r, wy, s, t, hs, _, h => by
    simp only [seqWF, Bool.and_true] at wx
    rw [seqWF, Bool.and_eq_true, seqWF, Bool.and_eq_true] at wy
    rw [seqC_one, seqC_cons2, List.append_assoc, List.cons_append] at h
    have := renderC_prefix x wx y wy.1 s _ (close_tail hs) (tail_comma _) h
    exact absurd this.2 (close_ne_comma_seq hs y' wy.2.1 r t)
  | x :: x' :: r, wx, [y], wy, s, t, _, ht, h => by
    simp only [seqWF, Bool.and_true] at wy
    rw [seqWF, Bool.and_eq_true, seqWF, Bool.and_eq_true] at wx
    rw [seqC_one, seqC_cons2, List.append_assoc, List.cons_append] at h
    have := renderC_prefix x wx.1 y wy _ t (tail_comma _) (close_tail ht) h
    exact absurd this.2.symm (close_ne_comma_seq ht x' wx.2.1 r s)
  | x :: x' :: r, wx, y :: y' :: r', wy, s, t, hs, ht, h => by
    rw [seqWF, Bool.and_eq_true] at wx wy
    rw [seqC_cons2, seqC_cons2, List.append_assoc, List.append_assoc, List.cons_append,
      List.cons_append] at h
    have h1 := renderC_prefix x wx.1 y wy.1 _ _ (tail_comma _) (tail_comma _) h
    have h2 := h1.2
    simp only [List.cons.injEq, true_and] at h2
    have h3 := seqC_prefix (x' :: r) wx.2 (y' :: r') wy.2 s t hs ht h2
    exact ⟨by rw [h1.1, h3.1], h3.2⟩
theorem kvsC_prefix : (ks : List (String × Lit)) → kvsWF ks = true →
    (ls : List (String × Lit)) → kvsWF ls = true →
    ∀ s t : List Char, kvsC ks ++ '}' :: s = kvsC ls ++ '}' :: t → ks = ls ∧ s = t
  | [], _, [], _, s, t, h => by simpa [kvsC] using h
  | [], _, kv :: r, _, s, t, h => by
    obtain ⟨u, hu⟩ := kvsC_cons_head kv r
    rw [hu, kvsC] at h
    simp at h
  | kv :: r, _, [], _, s, t, h => by
    obtain ⟨u, hu⟩ := kvsC_cons_head kv r
    rw [hu, kvsC] at h
    simp at h
  | [(k, v)], w, [(k', v')], w', s, t, h => by
    simp only [kvsWF, Bool.and_true, Bool.and_eq_true] at w w'
    rw [kvsC_one, kvsC_one, List.append_assoc, List.append_assoc] at h
    obtain ⟨rfl, h1⟩ := quoted_append_inj w.1 w'.1 h
    simp only [List.cons_append, List.cons.injEq, true_and] at h1
    have := renderC_prefix v w.2 v' w'.2 _ _ (tail_close_brace s) (tail_close_brace t) h1
    simp only [List.cons.injEq, true_and] at this
    exact ⟨by rw [this.1], this.2⟩
  | [(k, v)], w, (k', v') :: kv' :: r', w', s, t, h => by
    simp only [kvsWF, Bool.and_true, Bool.and_eq_true] at w
    rw [kvsWF, Bool.and_eq_true, Bool.and_eq_true] at w'
    rw [kvsC_one, kvsC_cons2, List.append_assoc, List.append_assoc] at h
    obtain ⟨rfl, h1⟩ := quoted_append_inj w.1 w'.1 h
    simp only [List.cons_append, List.cons.injEq, true_and, List.append_assoc] at h1
    have := renderC_prefix v w.2 v' w'.2.1 _ _ (tail_close_brace s) (tail_comma _) h1
    simp at this
  | (k, v) :: kv :: r, w, [(k', v')], w', s, t, h => by
    simp only [kvsWF, Bool.and_true, Bool.and_eq_true] at w'
    rw [kvsWF, Bool.and_eq_true, Bool.and_eq_true] at w
    rw [kvsC_one, kvsC_cons2, List.append_assoc, List.append_assoc] at h
    obtain ⟨rfl, h1⟩ := quoted_append_inj w.1 w'.1 h
    simp only [List.cons_append, List.cons.injEq, true_and, List.append_assoc] at h1
    have := renderC_prefix v w.2.1 v' w'.2 _ _ (tail_comma _) (tail_close_brace t) h1
    simp at this
  | (k, v) :: kv :: r, w, (k', v') :: kv' :: r', w', s, t, h => by
    rw [kvsWF, Bool.and_eq_true, Bool.and_eq_true] at w w'
    rw [kvsC_cons2, kvsC_cons2, List.append_assoc, List.append_assoc] at h
    obtain ⟨rfl, h1⟩ := quoted_append_inj w.1 w'.1 h
    simp only [List.cons_append, List.cons.injEq, true_and, List.append_assoc] at h1
    have h2 := renderC_prefix v w.2.1 v' w'.2.1 _ _ (tail_comma _) (tail_comma _) h1
    have h3 := h2.2
    simp only [List.cons.injEq, true_and] at h3
    have h4 := kvsC_prefix (kv :: r) w.2.2 (kv' :: r') w'.2.2 s t h3
    exact ⟨by rw [h2.1, h4.1], h4.2⟩
end

mutual
theorem litOK_of_litWF : (l : Lit) → litWF l = true → litOK l = true
  | .int _, _ => rfl
  | .num a, h => by
    rw [litWF] at h; rw [litOK]
    have := (numWF_iff.1 h).2.1
    simp only [numOK, List.all_eq_true]
    intro c hc
    have := this c hc
    simp only [atomChWF, Bool.and_eq_true] at this
    exact this.1
  | .str s, h => by rw [litWF] at h; rw [litOK]; exact h
  | .tuple xs, h => by rw [litWF] at h; rw [litOK]; exact seqOK_of_seqWF xs h
  | .list xs, h => by rw [litWF] at h; rw [litOK]; exact seqOK_of_seqWF xs h
  | .dict kvs, h => by rw [litWF] at h; rw [litOK]; exact kvsOK_of_kvsWF kvs h
theorem seqOK_of_seqWF : (xs : List Lit) → seqWF xs = true → seqOK xs = true
  | [], _ => rfl
  | x :: xs, h => by
    rw [seqWF, Bool.and_eq_true] at h
    rw [seqOK, litOK_of_litWF x h.1, seqOK_of_seqWF xs h.2]; rfl
theorem kvsOK_of_kvsWF : (kvs : List (String × Lit)) → kvsWF kvs = true → kvsOK kvs = true
  | [], _ => rfl
  | (k, v) :: r, h => by
    rw [kvsWF, Bool.and_eq_true, Bool.and_eq_true] at h
    rw [kvsOK, h.1, litOK_of_litWF v h.2.1, kvsOK_of_kvsWF r h.2.2]; rfl
end

theorem renderC_inj (a b : Lit) (wa : litWF a = true) (wb : litWF b = true)
    (h : renderC a = renderC b) : a = b :=
  (renderC_prefix a wa b wb [] [] tail_nil tail_nil (by simpa using h)).1

/-! ### the game dict lies in the domain -/

theorem seqWF_iff (xs : List Lit) : seqWF xs = true ↔ ∀ x ∈ xs, litWF x = true := by
  induction xs with
  | nil => simp [seqWF]
  | cons x xs ih => rw [seqWF, Bool.and_eq_true, ih]; simp

theorem label_wf (l : Label) (h : l.ok = true) : litWF l.lit = true := by
  cases l with
  | act a => simpa [Label.ok, Label.lit, litWF] using h
  | int i => rfl
  | num r => simpa [Label.ok, Label.lit, litWF] using h

theorem gameLit_wf (rewards : List Int) (players : List String) (tl : List (List (Label × Nat)))
    (finals : List Nat) (h : gameOK players tl = true) :
    litWF (gameLit rewards players tl finals) = true := by
  simp only [gameOK, Bool.and_eq_true, List.all_eq_true] at h
  obtain ⟨hp, ht⟩ := h
  have k1 : safeStr "rewards" = true := by decide
  have k2 : safeStr "players" = true := by decide
  have k3 : safeStr "transition_list" = true := by decide
  have k4 : safeStr "final_states" = true := by decide
  have v1 : seqWF (rewards.map .int) = true := by
    rw [seqWF_iff]; intro x hx
    obtain ⟨i, _, rfl⟩ := List.mem_map.1 hx; rfl
  have v2 : seqWF (players.map .str) = true := by
    rw [seqWF_iff]; intro x hx
    obtain ⟨p, hp', rfl⟩ := List.mem_map.1 hx
    rw [litWF]; exact hp p hp'
  have v3 : seqWF (tl.map fun row =>
      Lit.list (row.map fun t => Lit.tuple [t.1.lit, .int (Int.ofNat t.2)])) = true := by
    rw [seqWF_iff]; intro x hx
    obtain ⟨row, hrow, rfl⟩ := List.mem_map.1 hx
    rw [litWF, seqWF_iff]; intro y hy
    obtain ⟨t, htr, rfl⟩ := List.mem_map.1 hy
    simp only [litWF, seqWF, Bool.and_true]
    exact label_wf _ (ht row hrow t htr)
  have v4 : seqWF (finals.map fun n => Lit.int (Int.ofNat n)) = true := by
    rw [seqWF_iff]; intro x hx
    obtain ⟨i, _, rfl⟩ := List.mem_map.1 hx; rfl
  simp only [gameLit, litWF, kvsWF, k1, k2, k3, k4, v1, v2, v3, v4, Bool.and_self]

theorem label_lit_inj {a b : Label} (h : a.lit = b.lit) : a = b := by
  cases a <;> cases b <;> simp_all [Label.lit]

theorem gameLit_inj {r r' : List Int} {p p' : List String} {tl tl' : List (List (Label × Nat))}
    {f f' : List Nat} (h : gameLit r p tl f = gameLit r' p' tl' f') :
    r = r' ∧ p = p' ∧ tl = tl' ∧ f = f' := by
  simp only [gameLit, Lit.dict.injEq, List.cons.injEq, Prod.mk.injEq, true_and, and_true,
    Lit.list.injEq] at h
  obtain ⟨h1, h2, h3, h4⟩ := h
  refine ⟨?_, ?_, ?_, ?_⟩
  · exact (List.map_inj_right (fun x y hxy => by simpa using hxy)).1 h1
  · exact (List.map_inj_right (fun x y hxy => by simpa using hxy)).1 h2
  · refine (List.map_inj_right (fun x y hxy => ?_)).1 h3
    simp only [Lit.list.injEq] at hxy
    refine (List.map_inj_right (fun a b hab => ?_)).1 hxy
    simp only [Lit.tuple.injEq, List.cons.injEq, Lit.int.injEq, Int.ofNat_eq_natCast,
      Int.natCast_inj, and_true] at hab
    exact Prod.ext (label_lit_inj hab.1) hab.2
  · refine (List.map_inj_right (fun x y hxy => ?_)).1 h4
    simp only [Lit.int.injEq, Int.ofNat_eq_natCast] at hxy; exact Int.ofNat.inj hxy

end CR.TextLemmas
