/-
Helper lemmas on the decimal rendering of naturals and on the shape of generated file names
(model: `CR/Model/Gen.lean`; used by `CR/Props/C17.lean`).
-/
import CR.Model.Gen

namespace CR.NamesLemmas
open CR CR.Gen

/-- the decimal digits of `n`, as characters -/
abbrev dig (n : Nat) : List Char := Nat.toDigits 10 n

theorem toString_toList (n : Nat) : (toString n).toList = dig n := by
  simp

theorem dig_isDigit {n : Nat} {c : Char} (h : c ∈ dig n) : c.isDigit = true :=
  Nat.isDigit_of_mem_toDigits (by decide) (by decide) h

theorem dig_injective {a b : Nat} (h : dig a = dig b) : a = b := by
  have ha := @Nat.ofDigitChars_ten_toDigits a
  have hb := @Nat.ofDigitChars_ten_toDigits b
  unfold dig at h
  rw [h] at ha
  exact ha.symm.trans hb

/-- a block of digits followed by a non-digit is uniquely delimited -/
theorem digits_split :
    ∀ (ds ds' : List Char) (c c' : Char) (r r' : List Char),
      (∀ x ∈ ds, x.isDigit = true) → (∀ x ∈ ds', x.isDigit = true) →
      c.isDigit = false → c'.isDigit = false →
      ds ++ c :: r = ds' ++ c' :: r' → ds = ds' ∧ c :: r = c' :: r'
  | [], [], _, _, _, _, _, _, _, _, h => ⟨rfl, by simpa using h⟩
  | [], y :: ds', c, c', r, r', _, h2, hc, _, h => by
    have : c = y := by simpa using (List.cons.inj h).1
    have hy := h2 y (by simp)
    rw [← this, hc] at hy
    cases hy
  | x :: ds, [], c, c', r, r', h1, _, _, hc', h => by
    have : x = c' := by simpa using (List.cons.inj h).1
    have hx := h1 x (by simp)
    rw [this, hc'] at hx
    cases hx
  | x :: ds, y :: ds', c, c', r, r', h1, h2, hc, hc', h => by
    have hh := List.cons.inj h
    have ih := digits_split ds ds' c c' r r' (fun z hz => h1 z (by simp [hz]))
      (fun z hz => h2 z (by simp [hz])) hc hc' hh.2
    exact ⟨by rw [hh.1, ih.1], ih.2⟩

/-- one field of a name: decimal number followed by a non-digit -/
theorem field_split {a b : Nat} {c c' : Char} {r r' : List Char}
    (hc : c.isDigit = false) (hc' : c'.isDigit = false)
    (h : dig a ++ c :: r = dig b ++ c' :: r') : a = b ∧ c :: r = c' :: r' := by
  have := digits_split (dig a) (dig b) c c' r r' (fun _ hx => dig_isDigit hx)
    (fun _ hx => dig_isDigit hx) hc hc' h
  exact ⟨dig_injective this.1, this.2⟩

/-- the end of the name -/
def suffix (fd : Bool) : List Char := if fd then "_force_down.py".toList else ".py".toList

/-- the name as a list of characters -/
theorem fileNameN_toList (s w l m a b c d : Nat) (fd : Bool) :
    (fileNameN s w l m a b c d fd).toList =
      "inputs/robot_".toList ++ (dig s ++ '_' :: 'w' :: (dig w ++ '_' :: 'l' :: (dig l ++ '_' :: 'r' ::
        (dig m ++ '_' :: 'r' :: 'b' :: (dig a ++ '_' :: 'l' :: 'b' :: (dig b ++ '_' :: 't' :: 'b' ::
          (dig c ++ '_' :: 'l' :: 't' :: (dig d ++ suffix fd)))))))) := by
  unfold fileNameN suffix
  cases fd <;> simp [String.toList_append]

theorem suffix_inj {a b : Nat} {fd fd' : Bool}
    (h : dig a ++ suffix fd = dig b ++ suffix fd') : a = b ∧ fd = fd' := by
  cases fd <;> cases fd' <;> simp only [suffix, Bool.false_eq_true, if_true, if_false] at h
  all_goals
    have h' := field_split (by decide) (by decide) h
    refine ⟨h'.1, ?_⟩
    first | rfl | (exfalso; revert h'; simp)

theorem fileNameN_injective {s w l m a b c d s' w' l' m' a' b' c' d' : Nat} {fd fd' : Bool}
    (h : fileNameN s w l m a b c d fd = fileNameN s' w' l' m' a' b' c' d' fd') :
    s = s' ∧ w = w' ∧ l = l' ∧ m = m' ∧ a = a' ∧ b = b' ∧ c = c' ∧ d = d' ∧ fd = fd' := by
  have h0 := congrArg String.toList h
  rw [fileNameN_toList, fileNameN_toList] at h0
  have h1 := field_split (by decide) (by decide) (List.append_cancel_left h0)
  have h2 := field_split (by decide) (by decide) (List.cons.inj (List.cons.inj h1.2).2).2
  have h3 := field_split (by decide) (by decide) (List.cons.inj (List.cons.inj h2.2).2).2
  have h4 := field_split (by decide) (by decide) (List.cons.inj (List.cons.inj h3.2).2).2
  have h5 := field_split (by decide) (by decide)
    (List.cons.inj (List.cons.inj (List.cons.inj h4.2).2).2).2
  have h6 := field_split (by decide) (by decide)
    (List.cons.inj (List.cons.inj (List.cons.inj h5.2).2).2).2
  have h7 := field_split (by decide) (by decide)
    (List.cons.inj (List.cons.inj (List.cons.inj h6.2).2).2).2
  have h8 := suffix_inj (List.cons.inj (List.cons.inj (List.cons.inj h7.2).2).2).2
  exact ⟨h1.1, h2.1, h3.1, h4.1, h5.1, h6.1, h7.1, h8.1, h8.2⟩

end CR.NamesLemmas
