/-
Glue lemma about Lean's IEEE-754 `Float` model (`Init/Data/Float/Model`): the double obtained
from a natural number / non-negative integer is never `< 0`.

`Float.ofNat n` is `n * 10^0` computed either by the fast path (`UInt64.toFloat` times the
table entry `1.0`) or through `Float.Model.ofScientific`; both build their result by `pack`ing an
unpacked float whose sign is `positive`, and `unpack ∘ pack` preserves a positive sign
(`unpackSign_packComponents`).  A value whose unpacked form has a positive sign (or is NaN)
compares `<` with no zero.  No Mathlib import.
-/
open Float.Model Float.Model.UnpackedFloat

namespace CR.GlueFloat

/-- sign is positive (NaN counts) -/
def PosU : UnpackedFloat → Prop
  | .infinity s => s = .positive
  | .notANumber => True
  | .zero s => s = .positive
  | .finite s _ _ _ => s = .positive

theorem unpackSign_packComponents {spec : Format} {sign exponent mantissa} :
    unpackSign (packComponents spec sign exponent mantissa) = sign.toBitVec := by
  ext i hi
  have : i = 0 := by omega
  subst this
  simp [unpackSign, packComponents, BitVec.getLsbD_append]
  have h1 : ¬ (spec.mantissaBitsWithoutImplicit + spec.exponentBits < spec.mantissaBitsWithoutImplicit) := by omega
  simp [h1, BitVec.getElem_append]

theorem ofBitVec_toBitVec (s : Sign) : Sign.ofBitVec s.toBitVec = s := by
  cases s <;> simp [Sign.ofBitVec, Sign.toBitVec]

theorem posU_unpack_packComponents (e : BitVec Format.binary64.exponentBits)
    (m : BitVec Format.binary64.mantissaBitsWithoutImplicit) :
    PosU (UnpackedFloat.unpack Format.binary64 (packComponents Format.binary64 .positive e m)) := by
  unfold UnpackedFloat.unpack
  simp only [unpackSign_packComponents, unpackMantissa_packComponents, unpackExponent_packComponents,
    ofBitVec_toBitVec]
  repeat' split
  all_goals simp [PosU]

theorem posU_unpack_pack (f : UnpackedFloat) (h : PosU f) :
    PosU (UnpackedFloat.unpack Format.binary64 (UnpackedFloat.pack Format.binary64 f)) := by
  cases f with
  | notANumber => exact posU_unpack_packComponents _ _
  | infinity s => cases h; exact posU_unpack_packComponents _ _
  | zero s => cases h; exact posU_unpack_packComponents _ _
  | finite s m e hm =>
    cases h
    unfold UnpackedFloat.pack
    simp only []
    repeat' split
    all_goals exact posU_unpack_packComponents _ _

theorem posU_roundWithAccuracy (spec : Format) (m : Nat) (e : Int) (a : Accuracy) :
    PosU (roundWithAccuracy spec .positive m e a) := by
  unfold roundWithAccuracy
  simp only []
  split <;> simp [PosU]

theorem posU_round (spec : Format) (m : Nat) (e : Int) : PosU (round spec .positive m e) := by
  unfold round
  exact posU_roundWithAccuracy ..

theorem posU_ofNat (spec : Format) (n : Nat) : PosU (UnpackedFloat.ofNat spec n) := by
  unfold UnpackedFloat.ofNat UnpackedFloat.ofInt normalize
  split
  · rename_i h
    have : ¬ ((n : Int) < 0) := by omega
    simp [compare, compareOfLessAndEq, this] at h
    split at h <;> cases h
  · simp [PosU]
  · exact posU_round ..

theorem posU_mul (spec : Format) (a b : UnpackedFloat) (ha : PosU a) (hb : PosU b) :
    PosU (UnpackedFloat.mul spec a b) := by
  cases a <;> cases b <;> (try cases ha) <;> (try cases hb) <;>
    first
    | exact posU_roundWithAccuracy ..
    | trivial
    | rfl


instance : (f : UnpackedFloat) → Decidable (PosU f)
  | .infinity .positive => isTrue rfl
  | .infinity .negative => isFalse (by intro h; cases h)
  | .notANumber => isTrue trivial
  | .zero .positive => isTrue rfl
  | .zero .negative => isFalse (by intro h; cases h)
  | .finite .positive _ _ _ => isTrue rfl
  | .finite .negative _ _ _ => isFalse (by intro h; cases h)

theorem lt_zero_of_posU (u : UnpackedFloat) (s : Sign) (h : PosU u) :
    u.lt (.zero s) = false := by
  cases u <;> (try cases h) <;> simp [UnpackedFloat.lt, UnpackedFloat.compare]

theorem zero_unpack : (0 : Float).toModel.unpack = .zero .positive := by rfl

theorem unpack_pack_model (f : UnpackedFloat) :
    (Float.Model.pack f).unpack = UnpackedFloat.unpack Format.binary64 (UnpackedFloat.pack Format.binary64 f) := rfl

theorem one_posU : PosU (Float.ofBits 0x3FF0000000000000).toModel.unpack := by
  decide +kernel

theorem not_lt_zero_of_posU (x : Float) (h : PosU x.toModel.unpack) : ¬ (x < 0) := by
  intro hlt
  have h1 : x.toModel.unpack.lt (0 : Float).toModel.unpack = true := by
    have h2 : x.toModel < (0 : Float).toModel := of_decide_eq_true hlt
    exact h2
  rw [zero_unpack, lt_zero_of_posU _ _ h] at h1
  cases h1


theorem posU_ofScientific_nonneg (spec : Format) (n : Nat) (e : Int) (he : 0 ≤ e) :
    PosU (UnpackedFloat.ofScientific spec n e) := by
  unfold UnpackedFloat.ofScientific
  by_cases h1 : n = 0
  · rw [dif_pos h1]; trivial
  rw [dif_neg h1]
  by_cases h2 : e > 2 ^ spec.exponentBits
  · rw [if_pos h2]; trivial
  rw [if_neg h2]
  by_cases h3 : e < -((2 ^ spec.exponentBits : Int) + n.log2)
  · rw [if_pos h3]; trivial
  rw [if_neg h3, if_pos he]
  exact posU_mul _ _ _ rfl rfl

theorem posU_ofNat_float (n : Nat) : PosU (Float.ofNat n).toModel.unpack := by
  unfold Float.ofNat OfScientific.ofScientific instOfScientificFloat Float.ofScientific
  simp only []
  split
  · simp only [Bool.false_eq_true, if_false]
    show PosU (Float.Model.pack _).unpack
    rw [unpack_pack_model]
    apply posU_unpack_pack
    apply posU_mul
    · show PosU (Float.Model.pack _).unpack
      rw [unpack_pack_model]
      exact posU_unpack_pack _ (posU_ofNat _ _)
    · exact one_posU
  · simp only [Bool.false_eq_true, if_false]
    show PosU (Float.Model.pack _).unpack
    rw [unpack_pack_model]
    exact posU_unpack_pack _ (posU_ofScientific_nonneg _ n _ (Int.natCast_nonneg 0))

/-- a non-negative Python int converts to a double that is not `< 0` -/
theorem ofInt_not_lt_zero (i : Int) (h : 0 ≤ i) : ¬ (Float.ofInt i < 0) := by
  cases i with
  | ofNat n => exact not_lt_zero_of_posU _ (posU_ofNat_float n)
  | negSucc n => exact absurd h (by simp)

theorem ofNat_not_lt_zero (n : Nat) : ¬ (Float.ofNat n < 0) :=
  not_lt_zero_of_posU _ (posU_ofNat_float n)

end CR.GlueFloat
