/- helper lemmas for CR/Props/C02Bound.lean

* `Brew_mono`: monotonicity of the reward Bellman operator;
* `le_Brew_of_ne_nil`: on a non-empty row `Brew x s ≥ rewards s` for `x ≥ 0`;
* `er_updAcc`: one Gauss–Seidel step writes `Brew (current er) s` at `s`;
* `sweep_upper`, `solve_upper`: "`er ≤ y` pointwise" is a sweep invariant for every pre-fixed point
  `y` of `Brew`; hence it holds for the reported vector;
* `sweep_subsol`, `solve_subsol`: "`rewards ≤ er` and `er ≤ Brew er`" is a sweep invariant;
* `noprune_row_ne_nil`: with pruning off, on a well-formed game, no conditioned row is empty
  PROVIDED the rounding function does not send a reachability value to a negative integer
  (`bestStrat` starts its running maximum at the integer 0, so a Player-1 state all of whose
  rounded successor values are negative gets the empty strategy and its row is emptied).
-/
import CR.Lemmas.Rew
import CR.Props.C02
import CR.Props.C04
import CR.Props.C06

set_option linter.unusedSectionVars false

namespace CR.RewBound

open CR CR.VI CR.Rew

variable {K : Type} [Field K] [LinearOrder K] [IsStrictOrderedRing K]

/-! ### `Brew` is monotone -/

theorem Brew_mono (o : Array Owner) (rewards : Array K) (nodes : Array (List (Tr K)))
    (x y : Array K) (s : Nat)
    (hp : o.getD s .prob = .prob → ∀ t ∈ nodes.getD s [], 0 ≤ t.p)
    (hxy : ∀ j, x.getD j 0 ≤ y.getD j 0) :
    Brew o rewards nodes x s ≤ Brew o rewards nodes y s := by
  cases hrow : nodes.getD s [] with
  | nil => rw [Brew_nil o rewards nodes _ s hrow, Brew_nil o rewards nodes _ s hrow]
  | cons t0 rest =>
    have hne : nodes.getD s [] ≠ [] := by rw [hrow]; simp
    cases ho : o.getD s .prob with
    | prob =>
      rw [Brew_prob o rewards nodes _ s hne ho, Brew_prob o rewards nodes _ s hne ho]
      exact add_le_add_right (sumOver_mono x y _ (hp ho) (fun t _ => hxy _)) _
    | p1 =>
      rw [Brew_p1 o rewards nodes _ s hne ho, Brew_p1 o rewards nodes _ s hne ho]
      exact add_le_add_right (maxOver_mono x y _ 0 0 le_rfl (fun t _ => hxy _)) _
    | p2 =>
      rw [Brew_p2 o rewards nodes _ s t0 rest hrow ho, Brew_p2 o rewards nodes _ s t0 rest hrow ho]
      exact add_le_add_right (minOver_mono x y _ _ _ (hxy _) (fun t _ => hxy _)) _

/-- on a non-empty row the operator adds something non-negative to the state's reward -/
theorem le_Brew_of_ne_nil (o : Array Owner) (rewards : Array K) (nodes : Array (List (Tr K)))
    (x : Array K) (s : Nat) (hne : nodes.getD s [] ≠ [])
    (hp : o.getD s .prob = .prob → ∀ t ∈ nodes.getD s [], 0 ≤ t.p)
    (hx : ∀ j, 0 ≤ x.getD j 0) : rewards.getD s 0 ≤ Brew o rewards nodes x s := by
  cases hrow : nodes.getD s [] with
  | nil => exact absurd hrow hne
  | cons t0 rest =>
    cases ho : o.getD s .prob with
    | prob =>
      rw [Brew_prob o rewards nodes _ s hne ho]
      have := sumOver_lower x (nodes.getD s []) 0 (hp ho) (fun t _ => hx _)
      rw [zero_mul] at this
      linarith
    | p1 =>
      rw [Brew_p1 o rewards nodes _ s hne ho]
      linarith [le_maxOver_init x (nodes.getD s []) 0]
    | p2 =>
      rw [Brew_p2 o rewards nodes _ s t0 rest hrow ho]
      linarith [le_minOver x (t0 :: rest) (x.getD t0.tgt 0) 0 (hx _) (fun t _ => hx _)]

/-! ### one Gauss–Seidel step -/

section Step
variable {rnd : K → Int} {owners : Array Owner} {rewards : Array K}
  {nodes : Array (List (Tr K))} {reach : Array K}

theorem er_updAcc (a : RewVecs K × K) (s : Nat) (t : K × K × K)
    (hst : stepRew rnd owners rewards nodes reach a.1 s = .ok t) :
    (updAcc a s t).1.er = a.1.er.setIfInBounds s (Brew owners rewards nodes a.1.er s) := by
  obtain ⟨e, m, p⟩ := t
  rw [← stepRew_fst rnd owners rewards nodes reach a.1 s e m p hst]
  rfl

/-- "below a pre-fixed point" is a sweep invariant -/
theorem sweep_upper (hp : ∀ s < owners.size, owners.getD s .prob = .prob →
      ∀ t ∈ nodes.getD s [], 0 ≤ t.p)
    (y : Array K) (hy : ∀ s < owners.size, Brew owners rewards nodes y s ≤ y.getD s 0)
    {v w : RewVecs K} {d : K} (hv : ∀ j, v.er.getD j 0 ≤ y.getD j 0)
    (h : sweepRew rnd owners rewards nodes reach v = .ok (w, d)) :
    ∀ j, w.er.getD j 0 ≤ y.getD j 0 := by
  refine sweepRewFrom_inv (fun x => ∀ j, x.er.getD j 0 ≤ y.getD j 0)
    (List.range owners.size) ?_ (v, 0) (w, d) hv h
  intro a s t hs ha hst j
  have hs' : s < owners.size := List.mem_range.mp hs
  rw [er_updAcc a s t hst, getD_setIfInBounds]
  split_ifs with hc
  · rw [← hc.1]
    exact le_trans (Brew_mono owners rewards nodes _ y s (hp s hs') ha) (hy s hs')
  · exact ha j

/-- "dominates the reward vector and is a sub-solution" is a sweep invariant -/
theorem sweep_subsol (hp : ∀ s < owners.size, owners.getD s .prob = .prob →
      ∀ t ∈ nodes.getD s [], 0 ≤ t.p)
    {v w : RewVecs K} {d : K}
    (hv : (∀ j, rewards.getD j 0 ≤ v.er.getD j 0) ∧
      ∀ s < owners.size, v.er.getD s 0 ≤ Brew owners rewards nodes v.er s)
    (h : sweepRew rnd owners rewards nodes reach v = .ok (w, d)) :
    (∀ j, rewards.getD j 0 ≤ w.er.getD j 0) ∧
      ∀ s < owners.size, w.er.getD s 0 ≤ Brew owners rewards nodes w.er s := by
  refine sweepRewFrom_inv (fun x => (∀ j, rewards.getD j 0 ≤ x.er.getD j 0) ∧
      ∀ s < owners.size, x.er.getD s 0 ≤ Brew owners rewards nodes x.er s)
    (List.range owners.size) ?_ (v, 0) (w, d) hv h
  intro a s t hs ⟨ha1, ha2⟩ hst
  have hs' : s < owners.size := List.mem_range.mp hs
  have hup : ∀ j, a.1.er.getD j 0 ≤ (updAcc a s t).1.er.getD j 0 := by
    intro j
    rw [er_updAcc a s t hst, getD_setIfInBounds]
    split_ifs with hc
    · rw [← hc.1]; exact ha2 s hs'
    · exact le_rfl
  refine ⟨fun j => le_trans (ha1 j) (hup j), fun j hj => ?_⟩
  have hmono := Brew_mono owners rewards nodes a.1.er (updAcc a s t).1.er j (hp j hj) hup
  refine le_trans ?_ hmono
  rw [er_updAcc a s t hst, getD_setIfInBounds]
  split_ifs with hc
  · rw [← hc.1]
  · exact ha2 j hj

end Step

/-! ### the reported vector -/

section Run
variable {rnd : K → Int} {thr : K} {fuel : Nat} {prune : Bool} {g : Game K} {out : SolveOut K}

theorem nodes_p_nonneg (hwf : NodesWF g.owners out.nodes) :
    ∀ s < g.owners.size, g.owners.getD s .prob = .prob → ∀ t ∈ out.nodes.getD s [], 0 ≤ t.p := by
  intro s hs ho t ht
  rcases hwf s hs ho with h | h
  · rw [h] at ht; exact absurd ht List.not_mem_nil
  · exact h.1 t ht

/-- the reported rewards are below every pre-fixed point that dominates the reward vector
(all indices) -/
theorem solve_upper (hwf : NodesWF g.owners out.nodes) (H : solve rnd thr fuel prune g = .ok out)
    (y : Array K) (hy : ∀ s < g.owners.size, Brew g.owners g.rewards out.nodes y s ≤ y.getD s 0)
    (hyr : ∀ j, g.rewards.getD j 0 ≤ y.getD j 0) : ∀ j, out.rewards.getD j 0 ≤ y.getD j 0 :=
  (solve_run H (fun x => ∀ j, x.er.getD j 0 ≤ y.getD j 0) hyr
    (fun _ _ _ hx h => sweep_upper (nodes_p_nonneg hwf) y hy hx h)).1

/-- the reported rewards dominate the reward vector and form a sub-solution, provided the reward
vector itself is a sub-solution -/
theorem solve_subsol (hwf : NodesWF g.owners out.nodes) (H : solve rnd thr fuel prune g = .ok out)
    (h0 : ∀ s < g.owners.size, g.rewards.getD s 0 ≤ Brew g.owners g.rewards out.nodes g.rewards s) :
    (∀ j, g.rewards.getD j 0 ≤ out.rewards.getD j 0) ∧
      ∀ s < g.owners.size, out.rewards.getD s 0 ≤
        Brew g.owners g.rewards out.nodes out.rewards s :=
  (solve_run H (fun x => (∀ j, g.rewards.getD j 0 ≤ x.er.getD j 0) ∧
      ∀ s < g.owners.size, x.er.getD s 0 ≤ Brew g.owners g.rewards out.nodes x.er s)
    ⟨fun _ => le_rfl, h0⟩
    (fun _ _ _ hx h => sweep_subsol (nodes_p_nonneg hwf) hx h)).1

/-- extension of a domination on `[0,n)` to all indices when both vectors have size `n` -/
theorem getD_le_of_lt {n : Nat} {a b : Array K} (ha : a.size = n) (hb : b.size = n)
    (h : ∀ s < n, a.getD s 0 ≤ b.getD s 0) : ∀ j, a.getD j 0 ≤ b.getD j 0 := by
  intro j
  by_cases hj : j < n
  · exact h j hj
  · rw [getD_of_size_le _ _ _ (ha ▸ Nat.le_of_not_lt hj),
      getD_of_size_le _ _ _ (hb ▸ Nat.le_of_not_lt hj)]

end Run

/-! ### pruning off: no conditioned row of a well-formed game is empty, IF `rnd` is sign-preserving -/

section NoPrune
variable {rnd : K → Int} {thr : K} {fuel : Nat} {g : Game K} {out : SolveOut K}

/-- a non-empty strategy made of actions of the row keeps at least one transition -/
theorem filter_contains_ne_nil (row : List (Tr K)) (l : List String) (hl : l ≠ [])
    (hsub : l.Sublist (row.map (·.act))) : row.filter (fun t => l.contains t.act) ≠ [] := by
  obtain ⟨a, as, rfl⟩ := List.exists_cons_of_ne_nil hl
  have ha : a ∈ row.map (·.act) := hsub.subset List.mem_cons_self
  obtain ⟨t, ht, hta⟩ := List.mem_map.mp ha
  refine List.ne_nil_of_mem (a := t) (List.mem_filter.mpr ⟨ht, ?_⟩)
  simp [hta]

/-- with pruning off, a conditioned row of a well-formed game can only be empty at a Player-1
state all of whose rounded successor reachability values are negative -/
theorem noprune_row_ne_nil_of (h : C06.WFull g) (H : solve rnd thr fuel false g = .ok out)
    (s : Nat) (hs : s < g.owners.size)
    (hpos : g.owners.getD s .prob = .p1 →
      ∃ t ∈ g.tl.getD s [], 0 ≤ rnd (out.probs.getD t.tgt 0)) :
    out.nodes.getD s [] ≠ [] := by
  obtain ⟨_, hrow⟩ := C02.noprune_nodes H
  obtain ⟨⟨ro, hro, hprobs, hstrat, _⟩, _⟩ := C02.rew_result H
  have hne := (h.2.2.2.2.2.2.1 s hs).1
  rw [hrow s]
  cases ho : g.owners.getD s .prob with
  | prob => exact hne
  | p2 => exact hne
  | p1 =>
    simp only
    have hst : out.reachStrat.getD s none = some (bestStrat rnd out.probs (g.tl.getD s [])) := by
      rw [hstrat, (solveReach_ok_inv hro).2, reachStrategies_getD, ho, hprobs]
    rw [hst]
    refine filter_contains_ne_nil _ _ ?_ (bestStrat_sublist rnd out.probs _)
    intro hnil
    obtain ⟨t, ht, h0⟩ := hpos ho
    have := (C04.bestStrat_eq_nil_iff rnd out.probs _).mp hnil t ht
    omega

/-- ... in particular never, when `rnd` maps non-negative numbers to non-negative integers -/
theorem noprune_row_ne_nil (h : C06.WFull g) (hrnd : ∀ x : K, 0 ≤ x → 0 ≤ rnd x)
    (H : solve rnd thr fuel false g = .ok out) :
    ∀ s < g.owners.size, out.nodes.getD s [] ≠ [] := by
  intro s hs
  refine noprune_row_ne_nil_of h H s hs (fun _ => ?_)
  obtain ⟨⟨ro, hro, hprobs, _⟩, _⟩ := C02.rew_result H
  obtain ⟨t, ts, hrow⟩ := List.exists_cons_of_ne_nil (h.2.2.2.2.2.2.1 s hs).1
  refine ⟨t, by rw [hrow]; exact List.mem_cons_self, hrnd _ ?_⟩
  rw [hprobs]
  exact (C01.reach_range h.wf hro _).1

end NoPrune

/-! ### corrected forms of `C02.rew_le_prefixed_noprune` / `C02.rew_subsolution_noprune`

The two statements are FALSE for an arbitrary rounding function (one Player-1 state with a
self-loop, reward 5, `rnd = fun _ => -1`: the strategy is empty, the row is emptied, `Brew · 0 = 0`).
They hold as soon as no conditioned row is empty (any pruning mode), in particular with pruning off
on a well-formed game when `rnd` maps `[0,∞)` into `[0,∞)`. -/

section Corrected
variable {rnd : K → Int} {thr : K} {fuel : Nat} {prune : Bool} {g : Game K} {out : SolveOut K}

/-- no emptied row: every pre-fixed point in `[0,∞)` dominates the reported rewards -/
theorem upper_of_rows_ne_nil (hwf : NodesWF g.owners out.nodes)
    (H : solve rnd thr fuel prune g = .ok out)
    (hne : ∀ s < g.owners.size, out.nodes.getD s [] ≠ [])
    (y : Array K) (hsize : y.size = g.owners.size) (hy0 : ∀ s < g.owners.size, 0 ≤ y.getD s 0)
    (hy : ∀ s < g.owners.size, Brew g.owners g.rewards out.nodes y s ≤ y.getD s 0) :
    ∀ j, out.rewards.getD j 0 ≤ y.getD j 0 := by
  have hy0' : ∀ j, 0 ≤ y.getD j 0 := by
    intro j
    by_cases hj : j < g.owners.size
    · exact hy0 j hj
    · rw [getD_of_size_le _ _ _ (hsize ▸ Nat.le_of_not_lt hj)]
  refine solve_upper hwf H y hy (getD_le_of_lt (init_sized H).1 hsize (fun s hs => ?_))
  exact le_trans (le_Brew_of_ne_nil g.owners g.rewards out.nodes y s (hne s hs)
    (nodes_p_nonneg hwf s hs) hy0') (hy s hs)

/-- no emptied row: the reported rewards dominate the reward vector and are a sub-solution -/
theorem subsol_of_rows_ne_nil (hwf : NodesWF g.owners out.nodes)
    (H : solve rnd thr fuel prune g = .ok out)
    (hne : ∀ s < g.owners.size, out.nodes.getD s [] ≠ []) :
    (∀ j, g.rewards.getD j 0 ≤ out.rewards.getD j 0) ∧
      ∀ s < g.owners.size, out.rewards.getD s 0 ≤
        Brew g.owners g.rewards out.nodes out.rewards s :=
  solve_subsol hwf H (fun s hs => le_Brew_of_ne_nil g.owners g.rewards out.nodes g.rewards s
    (hne s hs) (nodes_p_nonneg hwf s hs) (solve_checked H).1)

/-- corrected `C02.rew_le_prefixed_noprune` (extra hypothesis `hrnd`) -/
theorem rew_le_prefixed_noprune' {rnd : K → Int} {thr : K} {fuel : Nat} {g : Game K}
    {out : SolveOut K} (h : C06.WFull g) (hrnd : ∀ x : K, 0 ≤ x → 0 ≤ rnd x)
    (H : solve rnd thr fuel false g = .ok out)
    (y : Array K) (hsize : y.size = g.owners.size) (hy0 : ∀ s < g.owners.size, 0 ≤ y.getD s 0)
    (hy : ∀ s < g.owners.size, Brew g.owners g.rewards out.nodes y s ≤ y.getD s 0) :
    ∀ s < g.owners.size, out.rewards.getD s 0 ≤ y.getD s 0 := fun s _ =>
  upper_of_rows_ne_nil (C02.nodesWF_of_game h.2.2.2.2.2.2.2 H) H (noprune_row_ne_nil h hrnd H)
    y hsize hy0 hy s

/-- corrected `C02.rew_subsolution_noprune` (extra hypothesis `hrnd`) -/
theorem rew_subsolution_noprune' {rnd : K → Int} {thr : K} {fuel : Nat} {g : Game K}
    {out : SolveOut K} (h : C06.WFull g) (hrnd : ∀ x : K, 0 ≤ x → 0 ≤ rnd x)
    (H : solve rnd thr fuel false g = .ok out) :
    (∀ s < g.owners.size, g.rewards.getD s 0 ≤ out.rewards.getD s 0) ∧
    ∀ s < g.owners.size, out.rewards.getD s 0 ≤
      Brew g.owners g.rewards out.nodes out.rewards s :=
  have := subsol_of_rows_ne_nil (C02.nodesWF_of_game h.2.2.2.2.2.2.2 H) H
    (noprune_row_ne_nil h hrnd H)
  ⟨fun s _ => this.1 s, this.2⟩

end Corrected

end CR.RewBound
