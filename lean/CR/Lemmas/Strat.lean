/-
Helper lemmas for the strategy-extraction properties C04 / C05:
* the arg-max / arg-min folds of `bestStrat`, `worstStratFrom`, `worstStratRew`;
* `reachStrategies` / `rewardStrategies` entry-wise;
* inversion of the `do` blocks of `solveReach` and `solve`;
* what conditioning (`condition`) does to the row of a Player-1 state;
* two concrete games over `Rat` used by the non-vacuity examples.
No Mathlib import is needed.
-/
import CR.Model.Solver

namespace CR
open List

/-! ## 1. arg-max / arg-min folds -/

section Fold
variable {β : Type}

/-- running maximum of `key` over `row`, starting at `m` -/
def runMax (key : β → Int) (m : Int) (row : List β) : Int :=
  row.foldl (fun m t => max m (key t)) m

/-- running minimum of `key` over `row`, starting at `m` -/
def runMin (key : β → Int) (m : Int) (row : List β) : Int :=
  row.foldl (fun m t => min m (key t)) m

theorem runMax_nil (key : β → Int) (m : Int) : runMax key m [] = m := rfl
theorem runMax_cons (key : β → Int) (m : Int) (t : β) (ts : List β) :
    runMax key m (t :: ts) = runMax key (max m (key t)) ts := rfl
theorem runMin_nil (key : β → Int) (m : Int) : runMin key m [] = m := rfl
theorem runMin_cons (key : β → Int) (m : Int) (t : β) (ts : List β) :
    runMin key m (t :: ts) = runMin key (min m (key t)) ts := rfl

theorem le_runMax (key : β → Int) (row : List β) (m : Int) : m ≤ runMax key m row := by
  induction row generalizing m with
  | nil => simp [runMax_nil]
  | cons t ts ih =>
    rw [runMax_cons]
    have := ih (max m (key t))
    omega

theorem runMin_le (key : β → Int) (row : List β) (m : Int) : runMin key m row ≤ m := by
  induction row generalizing m with
  | nil => simp [runMin_nil]
  | cons t ts ih =>
    rw [runMin_cons]
    have := ih (min m (key t))
    omega

theorem key_le_runMax (key : β → Int) (row : List β) (m : Int) :
    ∀ t ∈ row, key t ≤ runMax key m row := by
  induction row generalizing m with
  | nil => simp
  | cons t ts ih =>
    intro u hu
    rw [runMax_cons]
    rcases List.mem_cons.1 hu with rfl | hu
    · have := le_runMax key ts (max m (key u))
      omega
    · exact ih _ u hu

theorem runMin_le_key (key : β → Int) (row : List β) (m : Int) :
    ∀ t ∈ row, runMin key m row ≤ key t := by
  induction row generalizing m with
  | nil => simp
  | cons t ts ih =>
    intro u hu
    rw [runMin_cons]
    rcases List.mem_cons.1 hu with rfl | hu
    · have := runMin_le key ts (min m (key u))
      omega
    · exact ih _ u hu

theorem runMax_mem (key : β → Int) (row : List β) (m : Int) :
    runMax key m row = m ∨ ∃ t ∈ row, key t = runMax key m row := by
  induction row generalizing m with
  | nil => simp [runMax_nil]
  | cons t ts ih =>
    rw [runMax_cons]
    rcases ih (max m (key t)) with h | ⟨u, hu, h⟩
    · rw [h]
      by_cases hm : key t ≤ m
      · left; omega
      · right; exact ⟨t, by simp, by omega⟩
    · right; exact ⟨u, by simp [hu], h⟩

theorem runMin_mem (key : β → Int) (row : List β) (m : Int) :
    runMin key m row = m ∨ ∃ t ∈ row, key t = runMin key m row := by
  induction row generalizing m with
  | nil => simp [runMin_nil]
  | cons t ts ih =>
    rw [runMin_cons]
    rcases ih (min m (key t)) with h | ⟨u, hu, h⟩
    · rw [h]
      by_cases hm : m ≤ key t
      · left; omega
      · right; exact ⟨t, by simp, by omega⟩
    · right; exact ⟨u, by simp [hu], h⟩

/-- the arg-max fold of `bestStrat`, abstractly -/
theorem argmax_fold (key : β → Int) (act : β → String) (row : List β) (m : Int)
    (l : List String) :
    row.foldl (fun (acc : Int × List String) t =>
      if key t > acc.1 then (key t, [act t])
      else if key t == acc.1 then (acc.1, acc.2 ++ [act t]) else acc) (m, l)
    = (runMax key m row,
       (if runMax key m row = m then l else []) ++
         (row.filter (fun t => key t == runMax key m row)).map act) := by
  induction row generalizing m l with
  | nil => simp [runMax_nil]
  | cons t ts ih =>
    rw [List.foldl_cons, runMax_cons]
    have hle := le_runMax key ts (max m (key t))
    by_cases h1 : key t > m
    · have hmx : max m (key t) = key t := by omega
      rw [hmx] at hle ⊢
      simp only [h1, if_true]
      rw [ih]
      generalize runMax key (key t) ts = M at hle ⊢
      have hne : ¬ (M = m) := by omega
      by_cases h2 : M = key t
      · subst h2; simp [hne]
      · have : ¬ (key t = M) := fun h => h2 h.symm
        simp [hne, h2, this]
    · have hmx : max m (key t) = m := by omega
      rw [hmx] at hle ⊢
      simp only [h1, if_false]
      by_cases h2 : key t = m
      · simp only [h2, beq_self_eq_true, if_true]
        rw [ih]
        generalize runMax key m ts = M at hle ⊢
        by_cases h3 : M = m
        · subst h3; simp [h2]
        · have : ¬ (m = M) := fun h => h3 h.symm
          simp [h3, h2, this]
      · have hb : (key t == m) = false := by simpa using h2
        simp only [hb, Bool.false_eq_true, if_false]
        rw [ih]
        generalize runMax key m ts = M at hle ⊢
        have : ¬ (key t = M) := by omega
        simp [this]

/-- the arg-min fold of `worstStratFrom`, abstractly -/
theorem argmin_fold (key : β → Int) (act : β → String) (row : List β) (m : Int)
    (l : List String) :
    row.foldl (fun (acc : Int × List String) t =>
      if key t < acc.1 then (key t, [act t])
      else if key t == acc.1 then (acc.1, acc.2 ++ [act t]) else acc) (m, l)
    = (runMin key m row,
       (if runMin key m row = m then l else []) ++
         (row.filter (fun t => key t == runMin key m row)).map act) := by
  induction row generalizing m l with
  | nil => simp [runMin_nil]
  | cons t ts ih =>
    rw [List.foldl_cons, runMin_cons]
    have hle := runMin_le key ts (min m (key t))
    by_cases h1 : key t < m
    · have hmx : min m (key t) = key t := by omega
      rw [hmx] at hle ⊢
      simp only [h1, if_true]
      rw [ih]
      generalize runMin key (key t) ts = M at hle ⊢
      have hne : ¬ (M = m) := by omega
      by_cases h2 : M = key t
      · subst h2; simp [hne]
      · have : ¬ (key t = M) := fun h => h2 h.symm
        simp [hne, h2, this]
    · have hmx : min m (key t) = m := by omega
      rw [hmx] at hle ⊢
      simp only [h1, if_false]
      by_cases h2 : key t = m
      · simp only [h2, beq_self_eq_true, if_true]
        rw [ih]
        generalize runMin key m ts = M at hle ⊢
        by_cases h3 : M = m
        · subst h3; simp [h2]
        · have : ¬ (m = M) := fun h => h3 h.symm
          simp [h3, h2, this]
      · have hb : (key t == m) = false := by simpa using h2
        simp only [hb, Bool.false_eq_true, if_false]
        rw [ih]
        generalize runMin key m ts = M at hle ⊢
        have : ¬ (key t = M) := by omega
        simp [this]

end Fold

/-! ## 2. the three strategy extractors -/

section Extract
variable {α : Type} [OfNat α 0]

/-- rounded value of the successor of a transition -/
abbrev rkey (rnd : α → Int) (vals : Array α) : Tr α → Int := fun t => rnd (vals.getD t.tgt 0)

theorem bestStrat_eq (rnd : α → Int) (vals : Array α) (row : List (Tr α)) :
    bestStrat rnd vals row =
      (row.filter (fun t => rkey rnd vals t == runMax (rkey rnd vals) 0 row)).map (·.act) := by
  have h := argmax_fold (rkey rnd vals) (·.act) row 0 []
  unfold bestStrat
  simp only [rkey] at h ⊢
  rw [h]
  simp

theorem worstStratFrom_eq (rnd : α → Int) (start : Int) (vals : Array α) (row : List (Tr α)) :
    worstStratFrom rnd start vals row =
      (row.filter (fun t => rkey rnd vals t == runMin (rkey rnd vals) start row)).map (·.act) := by
  have h := argmin_fold (rkey rnd vals) (·.act) row start []
  unfold worstStratFrom
  simp only [rkey] at h ⊢
  rw [h]
  simp

theorem worstStratRew_cons (rnd : α → Int) (vals : Array α) (t0 : Tr α) (rest : List (Tr α)) :
    worstStratRew rnd vals (t0 :: rest) =
      ((t0 :: rest).filter (fun t => rkey rnd vals t ==
        runMin (rkey rnd vals) (rkey rnd vals t0) (t0 :: rest))).map (·.act) := by
  unfold worstStratRew
  exact worstStratFrom_eq rnd _ vals _

theorem map_filter_ne_nil {β γ : Type} (f : β → γ) (p : β → Bool) (l : List β) (x : β)
    (hx : x ∈ l) (hp : p x = true) : (l.filter p).map f ≠ [] := by
  intro h
  have hm : x ∈ l.filter p := List.mem_filter.2 ⟨hx, hp⟩
  have : (l.filter p) = [] := by simpa using h
  rw [this] at hm
  cases hm

theorem map_filter_sublist {β γ : Type} (f : β → γ) (p : β → Bool) (l : List β) :
    ((l.filter p).map f).Sublist (l.map f) :=
  (List.filter_sublist).map f

theorem bestStrat_sublist (rnd : α → Int) (vals : Array α) (row : List (Tr α)) :
    (bestStrat rnd vals row).Sublist (row.map (·.act)) := by
  rw [bestStrat_eq]; exact map_filter_sublist _ _ _

theorem worstStratFrom_sublist (rnd : α → Int) (start : Int) (vals : Array α)
    (row : List (Tr α)) : (worstStratFrom rnd start vals row).Sublist (row.map (·.act)) := by
  rw [worstStratFrom_eq]; exact map_filter_sublist _ _ _

theorem worstStratRew_sublist (rnd : α → Int) (vals : Array α) (row : List (Tr α)) :
    (worstStratRew rnd vals row).Sublist (row.map (·.act)) := by
  cases row with
  | nil => simp [worstStratRew]
  | cons t ts => exact worstStratFrom_sublist rnd _ vals _

theorem bestStrat_nil (rnd : α → Int) (vals : Array α) : bestStrat rnd vals [] = [] := rfl
theorem worstStratRew_nil (rnd : α → Int) (vals : Array α) : worstStratRew rnd vals [] = [] := rfl
theorem worstStratFrom_nil (rnd : α → Int) (start : Int) (vals : Array α) :
    worstStratFrom rnd start vals [] = [] := rfl

theorem bestStrat_ne_nil (rnd : α → Int) (vals : Array α) (row : List (Tr α)) (hne : row ≠ [])
    (hpos : ∀ t ∈ row, 0 ≤ rnd (vals.getD t.tgt 0)) : bestStrat rnd vals row ≠ [] := by
  rw [bestStrat_eq]
  rcases runMax_mem (rkey rnd vals) row 0 with h | ⟨t, ht, h⟩
  · obtain ⟨t, ts, rfl⟩ := List.exists_cons_of_ne_nil hne
    have h1 := key_le_runMax (rkey rnd vals) (t :: ts) 0 t (by simp)
    have h2 := hpos t (by simp)
    exact map_filter_ne_nil _ _ _ t (by simp) (by simp only [rkey, beq_iff_eq] at h1 ⊢; omega)
  · exact map_filter_ne_nil _ _ _ t ht (by simpa using h)

theorem bestStrat_all_zero (rnd : α → Int) (vals : Array α) (row : List (Tr α))
    (hz : ∀ t ∈ row, rnd (vals.getD t.tgt 0) = 0) : bestStrat rnd vals row = row.map (·.act) := by
  rw [bestStrat_eq]
  have hM : runMax (rkey rnd vals) 0 row = 0 := by
    rcases runMax_mem (rkey rnd vals) row 0 with h | ⟨t, ht, h⟩
    · exact h
    · rw [← h]; exact hz t ht
  rw [hM]
  congr 1
  apply List.filter_eq_self.2
  intro t ht
  simpa [rkey] using hz t ht

theorem worstStratFrom_ne_nil (rnd : α → Int) (start : Int) (vals : Array α) (row : List (Tr α))
    (hne : row ≠ []) (hle : ∀ t ∈ row, rnd (vals.getD t.tgt 0) ≤ start) :
    worstStratFrom rnd start vals row ≠ [] := by
  rw [worstStratFrom_eq]
  rcases runMin_mem (rkey rnd vals) row start with h | ⟨t, ht, h⟩
  · obtain ⟨t, ts, rfl⟩ := List.exists_cons_of_ne_nil hne
    have h1 := runMin_le_key (rkey rnd vals) (t :: ts) start t (by simp)
    have h2 := hle t (by simp)
    exact map_filter_ne_nil _ _ _ t (by simp) (by simp only [rkey, beq_iff_eq] at h1 ⊢; omega)
  · exact map_filter_ne_nil _ _ _ t ht (by simpa using h)

theorem worstStratRew_ne_nil (rnd : α → Int) (vals : Array α) (row : List (Tr α))
    (hne : row ≠ []) : worstStratRew rnd vals row ≠ [] := by
  obtain ⟨t, ts, rfl⟩ := List.exists_cons_of_ne_nil hne
  rw [worstStratRew_cons]
  rcases runMin_mem (rkey rnd vals) (t :: ts) (rkey rnd vals t) with h | ⟨u, hu, h⟩
  · exact map_filter_ne_nil _ _ _ t (by simp) (by simp [h])
  · exact map_filter_ne_nil _ _ _ u hu (by simpa using h)

end Extract

/-! ## 3. arrays -/

section Arr

theorem getD_map_range {β : Type} (f : Nat → β) (n s : Nat) (d : β) :
    ((Array.range n).map f).getD s d = if s < n then f s else d := by
  by_cases h : s < n <;> simp [Array.getD, h]

theorem getD_mapIdx {β γ : Type} (f : Nat → β → γ) (a : Array β) (s : Nat) (db : β) (d : γ)
    (hf : f s db = d) : (a.mapIdx f).getD s d = f s (a.getD s db) := by
  by_cases h : s < a.size <;> simp [Array.getD, h, hf]

theorem owner_lt_size {owners : Array Owner} {s : Nat} (h : owners.getD s .prob ≠ .prob) :
    s < owners.size := by
  by_cases hs : s < owners.size
  · exact hs
  · exfalso; apply h; simp [Array.getD, hs]

theorem list_mapM_ok {ε β γ : Type} (f : β → Except ε γ) :
    ∀ (l : List β) (out : List γ), l.mapM f = .ok out →
      out.length = l.length ∧
        ∀ (i : Nat) (h : i < l.length) (h' : i < out.length), f l[i] = .ok out[i] := by
  intro l
  induction l with
  | nil =>
    intro out h
    have : out = [] := by
      have h' : (Except.ok [] : Except ε (List γ)) = .ok out := h
      cases h'; rfl
    subst this
    exact ⟨rfl, fun i h => absurd h (Nat.not_lt_zero _)⟩
  | cons a l ih =>
    intro out h
    rw [List.mapM_cons] at h
    cases ha : f a with
    | error e => rw [ha] at h; cases h
    | ok b =>
      rw [ha] at h
      cases hl : l.mapM f with
      | error e => rw [hl] at h; cases h
      | ok bs =>
        rw [hl] at h
        have : out = b :: bs := by
          have h' : (Except.ok (b :: bs) : Except ε (List γ)) = .ok out := h
          cases h'; rfl
        subst this
        obtain ⟨hlen, hpt⟩ := ih bs hl
        refine ⟨by simp [hlen], ?_⟩
        intro i h1 h2
        cases i with
        | zero => simpa using ha
        | succ i =>
          simp only [List.getElem_cons_succ]
          exact hpt i (by simpa using h1) (by simpa using h2)

theorem array_mapM_range_ok {ε γ : Type} (f : Nat → Except ε γ) (n : Nat) (out : Array γ)
    (h : (Array.range n).mapM f = .ok out) :
    out.size = n ∧ ∀ (i : Nat) (_ : i < n) (h' : i < out.size), f i = .ok out[i] := by
  have h2 : (Array.range n).toList.mapM f = .ok out.toList := by
    rw [← Array.toList_mapM, h]; rfl
  obtain ⟨hlen, hpt⟩ := list_mapM_ok f _ _ h2
  have hsz : out.size = n := by simpa using hlen
  refine ⟨hsz, ?_⟩
  intro i hi hi'
  have := hpt i (by simpa using hi) (by simpa using hi')
  simpa using this

end Arr

/-! ## 4. `reachStrategies`, `rewardStrategies` entry-wise -/

section Strategies
variable {α : Type} [OfNat α 0] [OfNat α 1]

theorem reachStrategies_size (rnd : α → Int) (owners : Array Owner) (nodes : Array (List (Tr α)))
    (reach : Array α) : (reachStrategies rnd owners nodes reach).size = owners.size := by
  simp [reachStrategies]

theorem reachStrategies_getD (rnd : α → Int) (owners : Array Owner) (nodes : Array (List (Tr α)))
    (reach : Array α) (s : Nat) :
    (reachStrategies rnd owners nodes reach).getD s none =
      match owners.getD s .prob with
      | .p1 => some (bestStrat rnd reach (nodes.getD s []))
      | .p2 => some (worstStratFrom rnd (rnd 1) reach (nodes.getD s []))
      | .prob => none := by
  unfold reachStrategies
  rw [getD_map_range]
  by_cases h : s < owners.size
  · rw [if_pos h]; rfl
  · rw [if_neg h]
    have : owners.getD s .prob = .prob := by simp [Array.getD, h]
    rw [this]

omit [OfNat α 1] in
theorem rewardStrategies_size (rnd : α → Int) (owners : Array Owner)
    (nodes : Array (List (Tr α))) (er : Array α) :
    (rewardStrategies rnd owners nodes er).size = owners.size := by
  simp [rewardStrategies]

omit [OfNat α 1] in
theorem rewardStrategies_getD (rnd : α → Int) (owners : Array Owner)
    (nodes : Array (List (Tr α))) (er : Array α) (s : Nat) :
    (rewardStrategies rnd owners nodes er).getD s none =
      match owners.getD s .prob with
      | .p1 => some (bestStrat rnd er (nodes.getD s []))
      | .p2 => some (worstStratRew rnd er (nodes.getD s []))
      | .prob => none := by
  unfold rewardStrategies
  rw [getD_map_range]
  by_cases h : s < owners.size
  · rw [if_pos h]; rfl
  · rw [if_neg h]
    have : owners.getD s .prob = .prob := by simp [Array.getD, h]
    rw [this]

end Strategies

/-! ## 5. inversion of `solveReach` -/

section SolveReach
variable {α : Type} [Add α] [Sub α] [Mul α] [Neg α] [LT α] [DecidableLT α]
  [BEq α] [OfNat α 0] [OfNat α 1]

/-- pruning mode = non-pruning mode followed by the `noSolution` test -/
theorem solveReach_true_eq (rnd : α → Int) (thr : α) (fuel : Nat) (g : Game α) :
    solveReach rnd thr fuel true g =
      (solveReach rnd thr fuel false g).bind (fun r =>
        if r.probs.getD 0 0 == 0 then .error .noSolution else .ok r) := by
  unfold solveReach
  cases checkGame g with
  | error e => rfl
  | ok u =>
    cases initStates g with
    | error e => rfl
    | ok u =>
      simp only [bind, Except.bind]
      split
      · rfl
      · rename_i x hx
        obtain ⟨reach, i⟩ := x
        simp only [Bool.true_and, Bool.false_and]
        by_cases h : (reach.getD 0 0 == 0) = true
        · rw [if_pos h, if_neg (by decide)]
          show Except.error _ = (if _ then _ else _)
          rw [if_pos h]
        · rw [if_neg h, if_neg (by decide)]
          show Except.ok _ = (if _ then _ else _)
          rw [if_neg h]

theorem solveReach_ok_inv {rnd : α → Int} {thr : α} {fuel : Nat} {prune : Bool} {g : Game α}
    {r : ReachOut α} (h : solveReach rnd thr fuel prune g = .ok r) :
    checkGame g = .ok () ∧ r.strat = reachStrategies rnd g.owners g.tl r.probs := by
  unfold solveReach at h
  cases hc : checkGame g with
  | error e => rw [hc] at h; cases h
  | ok u =>
    refine ⟨rfl, ?_⟩
    rw [hc] at h
    cases hi : initStates g with
    | error e => rw [hi] at h; cases h
    | ok u =>
      rw [hi] at h
      simp only [bind, Except.bind] at h
      split at h
      · cases h
      · rename_i x hx
        obtain ⟨reach, i⟩ := x
        split at h
        · cases h
        · cases h; rfl

end SolveReach

/-! ## 6. conditioning on the row of a Player-1 state -/

section Cond
variable {α : Type} [Add α] [Div α] [BEq α] [OfNat α 0]

omit [Add α] [Div α] [BEq α] [OfNat α 0] in
theorem pruneReachability_getD_p1 (owners : Array Owner) (strat : Array Strat)
    (nodes : Array (List (Tr α))) (s : Nat) (hp : owners.getD s .prob = .p1) :
    (pruneReachability owners strat nodes).getD s [] =
      (nodes.getD s []).filter (fun t => ((strat.getD s none).getD []).contains t.act) := by
  unfold pruneReachability
  rw [getD_mapIdx _ _ _ [] [] (by rw [hp]; rfl)]
  rw [hp]

theorem prunePaths_getD_p1 {owners : Array Owner} {reach : Array α}
    {nodes out : Array (List (Tr α))} (h : prunePaths owners reach nodes = .ok out) (s : Nat)
    (hp : owners.getD s .prob = .p1) :
    out.getD s [] = prunePathsP1 reach (nodes.getD s []) := by
  unfold prunePaths at h
  obtain ⟨hsz, hpt⟩ := array_mapM_range_ok _ _ _ h
  by_cases hs : s < nodes.size
  · have hs' : s < out.size := by omega
    have := hpt s hs hs'
    simp only [hp] at this
    have h2 : out.getD s [] = out[s] := by simp [Array.getD, hs']
    rw [h2, ← Except.ok.inj this]
  · have h1 : out.getD s [] = [] := by simp [Array.getD, hsz, hs]
    have h2 : nodes.getD s [] = [] := by simp [Array.getD, hs]
    rw [h1, h2]; rfl

omit [Add α] [Div α] [BEq α] [OfNat α 0] in
theorem pruneStatesRound_getD_p1 (owners : Array Owner) (nodes : Array (List (Tr α))) (s : Nat)
    (hp : owners.getD s .prob = .p1) :
    (pruneStatesRound owners nodes).1.getD s [] = nodes.getD s [] := by
  unfold pruneStatesRound
  simp only
  rw [getD_mapIdx _ _ _ [] [] (by simp)]
  simp [hp]

omit [Add α] [Div α] [BEq α] [OfNat α 0] in
theorem pruneStates_getD_p1 (owners : Array Owner) (s : Nat) (hp : owners.getD s .prob = .p1) :
    ∀ (fuel : Nat) (prev : List Nat) (nodes out : Array (List (Tr α))),
      pruneStates owners fuel prev nodes = .ok out → out.getD s [] = nodes.getD s [] := by
  intro fuel
  induction fuel with
  | zero => intro prev nodes out h; cases h
  | succ n ih =>
    intro prev nodes out h
    unfold pruneStates at h
    simp only at h
    split at h
    · cases h
      exact pruneStatesRound_getD_p1 owners nodes s hp
    · rw [ih _ _ _ h]
      exact pruneStatesRound_getD_p1 owners nodes s hp

/-- the conditioned row of a Player-1 state: the reachability-optimal actions, and when pruning
is on, of those only the ones whose successor has a non-zero reachability value -/
theorem condition_getD_p1 {prune : Bool} {g : Game α} {strat : Array Strat} {reach : Array α}
    {nodes : Array (List (Tr α))} (h : condition prune g strat reach = .ok nodes) (s : Nat)
    (hp : g.owners.getD s .prob = .p1) :
    nodes.getD s [] =
      if prune then
        ((g.tl.getD s []).filter (fun t => ((strat.getD s none).getD []).contains t.act)).filter
          (fun t => !(reach.getD t.tgt 0 == 0))
      else (g.tl.getD s []).filter (fun t => ((strat.getD s none).getD []).contains t.act) := by
  unfold condition at h
  cases prune with
  | false =>
    simp only [Bool.false_eq_true, if_false] at h ⊢
    cases h
    exact pruneReachability_getD_p1 _ _ _ s hp
  | true =>
    simp only [if_true] at h ⊢
    cases hpp : prunePaths g.owners reach (pruneReachability g.owners strat g.tl) with
    | error e => rw [hpp] at h; cases h
    | ok mid =>
      rw [hpp] at h
      have h' : pruneStates g.owners (g.owners.size + 2) [] mid = .ok nodes := h
      rw [pruneStates_getD_p1 g.owners s hp _ _ _ _ h', prunePaths_getD_p1 hpp s hp,
        pruneReachability_getD_p1 _ _ _ s hp]
      rfl

theorem condition_p1_sublist {prune : Bool} {g : Game α} {strat : Array Strat} {reach : Array α}
    {nodes : Array (List (Tr α))} (h : condition prune g strat reach = .ok nodes) (s : Nat)
    (hp : g.owners.getD s .prob = .p1) :
    (nodes.getD s []).Sublist
      ((g.tl.getD s []).filter (fun t => ((strat.getD s none).getD []).contains t.act)) := by
  rw [condition_getD_p1 h s hp]
  cases prune with
  | false => exact List.Sublist.refl _
  | true => exact List.filter_sublist

end Cond

/-! ## 7. inversion of `solve` -/

section Solve
variable {α : Type} [Add α] [Sub α] [Mul α] [Div α] [Neg α] [LT α] [DecidableLT α]
  [LE α] [DecidableLE α] [BEq α] [OfNat α 0] [OfNat α 1]

theorem solve_ok_inv {rnd : α → Int} {thr : α} {fuel : Nat} {prune : Bool} {g : Game α}
    {out : SolveOut α} (h : solve rnd thr fuel prune g = .ok out) :
    ∃ (ro : ReachOut α) (v : RewVecs α) (j : Nat),
      solveReach rnd thr fuel prune g = .ok ro ∧
      condition prune g ro.strat ro.probs = .ok out.nodes ∧
      viRew rnd g.owners g.rewards out.nodes ro.probs thr fuel 1
        { er := g.rewards, ermr := g.rewards, pmr := ro.probs } 0 = .ok (v, j) ∧
      out.finalStrat = rewardStrategies rnd g.owners out.nodes v.er ∧
      out.reachStrat = ro.strat ∧ out.rewards = v.er ∧ out.probs = ro.probs := by
  unfold solve at h
  cases hr : solveReach rnd thr fuel prune g with
  | error e => rw [hr] at h; cases h
  | ok ro =>
    rw [hr] at h
    cases hc : condition prune g ro.strat ro.probs with
    | error e =>
      simp only [bind, Except.bind] at h
      rw [hc] at h; cases h
    | ok nodes =>
      simp only [bind, Except.bind] at h
      rw [hc] at h
      simp only at h
      split at h
      · cases h
      · rename_i x hx
        obtain ⟨v, j⟩ := x
        cases h
        exact ⟨ro, v, j, rfl, hc, hx, rfl, rfl, rfl, rfl⟩

end Solve

/-! ## 8. concrete games for the non-vacuity examples -/

namespace Examples

theorem exists_ok_of_toOption_map {ε σ τ : Type} {r : Except ε σ} {f : σ → τ} {x : τ}
    (h : r.toOption.map f = some x) : ∃ o, r = .ok o ∧ f o = x := by
  cases r with
  | error e => cases h
  | ok o => exact ⟨o, rfl, by simpa [Except.toOption] using h⟩

def tr (a : String) (p : Rat) (t : Nat) : Tr Rat := ⟨a, p, t⟩

def thr : Rat := 1 / 1000000

/-- the 7-state example game (Player 1 owns states 0 and 3; state 5 is final) -/
def g7 : Game Rat where
  rewards := #[0, 0, 0, 2, 0, 0, 0]
  owners := #[.p1, .prob, .prob, .p1, .prob, .prob, .prob]
  tl := #[[tr "alfa" 0 1, tr "beta" 0 2], [tr "" (3/4) 3, tr "" (1/4) 4],
          [tr "" (1/2) 5, tr "" (1/2) 6], [tr "delta" 0 4, tr "gamma" 0 5],
          [tr "" 1 4], [tr "" 1 5], [tr "" 1 6]]
  finals := [5]

/-- `reverseDfs` is defined by well-founded recursion and does not reduce in the kernel; its
value on `g7` is computed by rewriting with the equation lemmas -/
theorem g7_ord : reverseDfs (g7.tl.toList.map (fun row => row.map (·.tgt))) g7.finals
    = [0, 1, 2, 3] := by
  have hrev : revTable (g7.tl.toList.map (fun row => row.map (·.tgt)))
      = #[[], [0], [0], [1], [1, 3, 4], [2, 3, 5], [2, 6]] := by decide +kernel
  have hdfs : dfsLoop #[[], [0], [0], [1], [1, 3, 4], [2, 3, 5], [2, 6]] [5] [] = [1, 3, 0, 2, 5] := by
    simp [dfsLoop]
  unfold reverseDfs
  rw [hrev]
  simp only [g7, List.foldl_cons, List.foldl_nil, hdfs]
  simp [List.mergeSort]

/-- a 6-state game with a tie at a Player-1 state and a Player-2 state:
0 (P1): a→1, b→2, c→3;  1 (P2): x→4, y→2;  2, 3 (prob): ½→4, ½→5;  4 final; 5 sink;
state 3 carries reward 1 -/
def g6 : Game Rat where
  rewards := #[0, 0, 0, 1, 0, 0]
  owners := #[.p1, .p2, .prob, .prob, .prob, .prob]
  tl := #[[tr "a" 0 1, tr "b" 0 2, tr "c" 0 3], [tr "x" 0 4, tr "y" 0 2],
          [tr "" (1/2) 4, tr "" (1/2) 5], [tr "" (1/2) 4, tr "" (1/2) 5],
          [tr "" 1 4], [tr "" 1 5]]
  finals := [4]

theorem g6_ord : reverseDfs (g6.tl.toList.map (fun row => row.map (·.tgt))) g6.finals
    = [0, 1, 2, 3] := by
  have hrev : revTable (g6.tl.toList.map (fun row => row.map (·.tgt)))
      = #[[], [0], [0, 1], [0], [1, 2, 3, 4], [2, 3, 5]] := by decide +kernel
  have hdfs : dfsLoop #[[], [0], [0, 1], [0], [1, 2, 3, 4], [2, 3, 5]] [4] [] = [3, 2, 0, 1, 4] := by
    simp [dfsLoop]
  unfold reverseDfs
  rw [hrev]
  simp only [g6, List.foldl_cons, List.foldl_nil, hdfs]
  simp [List.mergeSort]

end Examples

end CR
