/-
Glue lemmas for `CR/Props/C04Exact.lean`: folds and filters only depend on the values of the
key function on the members of the list.  No Mathlib import.
-/
import CR.Model.Solver

namespace CR.GlueStrat

theorem foldl_congr_mem {β γ : Type} (f f' : γ → β → γ) (l : List β)
    (h : ∀ m, ∀ t ∈ l, f m t = f' m t) (init : γ) : l.foldl f init = l.foldl f' init := by
  induction l generalizing init with
  | nil => rfl
  | cons a l ih =>
    simp only [List.foldl_cons]
    rw [h init a (by simp)]
    exact ih (fun m t ht => h m t (by simp [ht])) _

/-- the arg-max / arg-min list of a row only depends on the keys of the row's members -/
theorem argList_congr {β : Type} (key key' : β → Int) (op : Int → Int → Int) (start : Int)
    (name : β → String) (row : List β) (h : ∀ t ∈ row, key t = key' t) :
    (row.filter (fun t => key t == row.foldl (fun m t => op m (key t)) start)).map name =
    (row.filter (fun t => key' t == row.foldl (fun m t => op m (key' t)) start)).map name := by
  have hf : row.foldl (fun m t => op m (key t)) start = row.foldl (fun m t => op m (key' t)) start :=
    foldl_congr_mem _ _ row (fun m t ht => by rw [h t ht]) start
  rw [hf]
  congr 1
  apply List.filter_congr
  intro t ht
  rw [h t ht]

end CR.GlueStrat
