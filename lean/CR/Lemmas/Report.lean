/-
Helper lemmas for property C16 (report writer, `CR/Model/Report.lean`).

* `splitOn_char`: `String.splitOn` with a one-character separator is `List.splitOn` on the
  characters (Batteries only has a `TODO: splitOn`; proved here from the `*_of_valid` lemmas).
* `fieldOfLine_append`, `readBlocks_block`: the line-level reader undoes `blockLines`.
* `outName_*`: the report file name.
* `WFVal`, `renderVal_inj`: the printed text of a well-formed value determines the value
  (`renderVal_prefix`/`renderList_prefix`: unique decomposition of `text ++ delimiter-led rest`).
-/
import CR.Model.Report
import Batteries.Data.String.Lemmas

namespace CR.ReportLemmas

open CR.Report String

/-! ### `String.splitOn` with a single-character separator -/

theorem splitOnAux_char (c : Char) (rest l m : List Char) (r : List String) :
    String.splitOnAux (ofList (l ++ m ++ rest)) (ofList [c]) ⟨utf8Len l⟩
        ⟨utf8Len l + utf8Len m⟩ 0 r =
      r.reverse ++ (List.splitOnPPrepend (· == c) rest m.reverse).map ofList := by
  induction rest generalizing l m r with
  | nil =>
    rw [String.splitOnAux]
    have h1 : Pos.Raw.atEnd (ofList (l ++ m ++ [])) ⟨utf8Len l + utf8Len m⟩ = true := by
      have := (atEnd_of_valid (l ++ m) []).2 rfl
      simpa only [utf8Len_append] using this
    have h2 := extract_of_valid l m []
    rw [if_pos h1, h2]
    simp
  | cons c' rest ih =>
    rw [String.splitOnAux]
    have h1 : ¬ Pos.Raw.atEnd (ofList (l ++ m ++ c' :: rest)) ⟨utf8Len l + utf8Len m⟩ = true := by
      have := (atEnd_of_valid (l ++ m) (c' :: rest))
      simp only [utf8Len_append] at this
      rw [this]; exact List.cons_ne_nil _ _
    have h2 : Pos.Raw.get (ofList (l ++ m ++ c' :: rest)) ⟨utf8Len l + utf8Len m⟩ = c' := by
      have := get_of_valid (l ++ m) (c' :: rest)
      simpa only [utf8Len_append, List.headD_cons] using this
    have h3 : Pos.Raw.next (ofList (l ++ m ++ c' :: rest)) ⟨utf8Len l + utf8Len m⟩ =
        ⟨utf8Len l + utf8Len m + c'.utf8Size⟩ := by
      have := next_of_valid (l ++ m) c' rest
      simpa only [utf8Len_append] using this
    have h4 : Pos.Raw.get (ofList [c]) 0 = c := by
      simpa using get_of_valid [] [c]
    have h5 : Pos.Raw.next (ofList [c]) 0 = ⟨c.utf8Size⟩ := by
      simpa using next_of_valid [] c []
    have h6 : Pos.Raw.atEnd (ofList [c]) ⟨c.utf8Size⟩ = true := by
      simpa using (atEnd_of_valid [c] []).2 rfl
    rw [if_neg h1, h2, h4]
    by_cases hc : c' = c
    · subst hc
      simp only [beq_self_eq_true, if_true, h3, h5, h6]
      have e : (Pos.Raw.unoffsetBy ⟨utf8Len l + utf8Len m + c'.utf8Size⟩ ⟨c'.utf8Size⟩) =
          ⟨utf8Len l + utf8Len m⟩ := by simp [Pos.Raw.unoffsetBy]
      rw [e, extract_of_valid l m (c' :: rest)]
      have := ih (l ++ m ++ [c']) [] (ofList m :: r)
      simp only [utf8Len_append, utf8Len_cons, utf8Len_nil, List.append_nil, Nat.add_zero,
        Nat.zero_add, List.append_assoc, List.cons_append, List.nil_append] at this
      simp only [List.append_assoc, Nat.add_assoc]
      rw [this]
      simp [List.splitOnPPrepend_cons_eq_if]
    · have hb : (c' == c) = false := by simpa using hc
      simp only [hb]
      have e : Pos.Raw.unoffsetBy ⟨utf8Len l + utf8Len m⟩ 0 = ⟨utf8Len l + utf8Len m⟩ := by
        simp [Pos.Raw.unoffsetBy]
      simp only [Bool.false_eq_true, if_false, e, h3]
      have := ih l (m ++ [c']) r
      simp only [utf8Len_append, utf8Len_cons, utf8Len_nil, List.append_assoc, Nat.add_assoc,
        Nat.zero_add, List.cons_append, List.nil_append] at this ⊢
      rw [this]
      simp [List.splitOnPPrepend_cons_eq_if, hb]

/-- `String.splitOn` with a one-character separator splits the character list at that character -/
theorem splitOn_char (s : String) (c : Char) :
    s.splitOn (String.singleton c) = (s.toList.splitOn c).map ofList := by
  have := splitOnAux_char c s.toList [] [] []
  simp only [List.nil_append, utf8Len_nil, Nat.add_zero, String.ofList_toList,
    List.reverse_nil] at this
  have hne : (String.singleton c == "") = false := by
    have : String.singleton c ≠ "" := by
      intro h
      have := congrArg String.toList h
      simp at this
    simp [this]
  rw [String.splitOn, hne]
  simp only [Bool.false_eq_true, if_false]
  show s.splitOnAux (String.singleton c) 0 0 0 [] = _
  rw [show String.singleton c = ofList [c] by simp]
  exact this

theorem splitOn_slash (s : String) : s.splitOn "/" = (s.toList.splitOn '/').map ofList :=
  splitOn_char s '/'

theorem splitOn_dot (s : String) : s.splitOn "." = (s.toList.splitOn '.').map ofList :=
  splitOn_char s '.'

theorem splitOn_newline (s : String) : s.splitOn "\n" = (s.toList.splitOn '\n').map ofList :=
  splitOn_char s '\n'

/-! ### labels, blocks, reader -/

theorem labels_length : labels.length = 14 := rfl

theorem labels_width : ∀ l ∈ labels, l.length = 26 := by decide

theorem fieldTexts_length (name : String) (e : Entry) : (fieldTexts name e).length = 14 := rfl

theorem blockLines_eq (name : String) (e : Entry) :
    blockLines name e = separator :: List.zipWith (· ++ ·) labels (fieldTexts name e) := by
  rfl

theorem blockLines_length (name : String) (e : Entry) : (blockLines name e).length = 15 := rfl

/-- dropping a 26-character prefix -/
theorem fieldOfLine_append (l t : String) (h : l.length = 26) : fieldOfLine (l ++ t) = t := by
  unfold fieldOfLine
  apply String.toList_inj.1
  show ((l ++ t).drop 26).copy.toList = _
  rw [String.toList_copy_drop, String.toList_append]
  rw [← String.length_toList] at h
  simp [h]

theorem fieldOfLine_label (l : String) (hl : l ∈ labels) (t : String) :
    fieldOfLine (l ++ t) = t :=
  fieldOfLine_append l t (labels_width l hl)

theorem readBlocks_nil : readBlocks [] = [] := by
  rw [readBlocks]

theorem readBlocks_cons (sep : String) (rest : List String) :
    readBlocks (sep :: rest) = (rest.take 14).map fieldOfLine :: readBlocks (rest.drop 14) := by
  rw [readBlocks]

theorem map_fieldOfLine_zipWith :
    ∀ (ls ts : List String), (∀ l ∈ ls, l.length = 26) → ls.length = ts.length →
      (List.zipWith (· ++ ·) ls ts).map fieldOfLine = ts
  | [], [], _, _ => rfl
  | [], _ :: _, _, h => by simp at h
  | _ :: _, [], _, h => by simp at h
  | l :: ls, t :: ts, hw, h => by
    simp only [List.zipWith_cons_cons, List.map_cons]
    rw [fieldOfLine_append l t (hw l (by simp)),
      map_fieldOfLine_zipWith ls ts (fun x hx => hw x (by simp [hx])) (by simpa using h)]

theorem readBlocks_block (name : String) (e : Entry) (rest : List String) :
    readBlocks (blockLines name e ++ rest) = fieldTexts name e :: readBlocks rest := by
  rw [blockLines_eq, List.cons_append, readBlocks_cons]
  have hlen : (List.zipWith (· ++ ·) labels (fieldTexts name e)).length = 14 := rfl
  rw [List.take_append_of_le_length (by omega), List.drop_append_of_le_length (by omega)]
  rw [List.take_of_length_le (by omega), List.drop_of_length_le (by omega)]
  rw [map_fieldOfLine_zipWith labels (fieldTexts name e) labels_width rfl]
  simp

theorem readBlocks_flatMap (rs : List (String × Entry)) :
    readBlocks (rs.flatMap (fun ne => blockLines ne.1 ne.2)) =
      rs.map (fun ne => fieldTexts ne.1 ne.2) := by
  induction rs with
  | nil => simp [readBlocks_nil]
  | cons ne rs ih => simp [List.flatMap_cons, readBlocks_block, ih]

/-! ### the text of the report and its lines -/

theorem flatMap_append_singleton_eq_intercalate {α} (x : α) :
    ∀ (L : List (List α)), L.flatMap (· ++ [x]) = [x].intercalate (L ++ [[]])
  | [] => by simp [List.intercalate]
  | [l] => by simp [List.intercalate]
  | l :: l' :: L => by
    have ih := flatMap_append_singleton_eq_intercalate x (l' :: L)
    rw [List.flatMap_cons, ih]
    simp [List.intercalate_cons_cons]

theorem splitOn_join_lines (ls : List String) (h : ∀ l ∈ ls, '\n' ∉ l.toList) :
    (String.join (ls.map (· ++ "\n"))).splitOn "\n" = ls ++ [""] := by
  rw [splitOn_newline, String.toList_join]
  have : (ls.map (· ++ "\n")).flatMap String.toList = (ls.map String.toList).flatMap (· ++ ['\n']) := by
    simp [List.flatMap_map, String.toList_append]
  rw [this, flatMap_append_singleton_eq_intercalate, List.splitOn_intercalate]
  · simp
  · intro l hl
    simp only [List.mem_append, List.mem_map, List.mem_singleton] at hl
    rcases hl with ⟨s, hs, rfl⟩ | rfl
    · exact h s hs
    · simp
  · simp

theorem separator_no_newline : '\n' ∉ separator.toList := by
  have : ∀ n, '\n' ∉ (String.ofList (List.replicate n '=')).toList := by
    intro n h
    rw [String.toList_ofList] at h
    exact absurd (List.eq_of_mem_replicate h) (by decide)
  exact this 160

theorem labels_no_newline : ∀ l ∈ labels, '\n' ∉ l.toList := by decide

theorem blockLines_no_newline (name : String) (e : Entry)
    (h : ∀ t ∈ fieldTexts name e, '\n' ∉ t.toList) :
    ∀ l ∈ blockLines name e, '\n' ∉ l.toList := by
  intro l hl
  simp only [blockLines, List.mem_cons, List.mem_map] at hl
  rcases hl with rfl | ⟨⟨a, b⟩, hab, rfl⟩
  · exact separator_no_newline
  · have := List.of_mem_zip hab
    simp only [String.toList_append, List.mem_append, not_or]
    exact ⟨labels_no_newline a this.1, h b this.2⟩

/-! ### the report file name -/

theorem splitOn_no_sep {c : Char} {l : List Char} (h : c ∉ l) : l.splitOn c = [l] :=
  List.splitOn_eq_singleton h

theorem outName_eq (path : String) :
    outName path =
      "outputs/" ++ ofList (((path.toList.splitOn '/').getLast!).splitOn '.').head! ++ ".txt" := by
  unfold outName
  simp only [splitOn_slash, splitOn_dot]
  have h1 : (List.map ofList (List.splitOn '/' path.toList)).getLast! =
      ofList (List.splitOn '/' path.toList).getLast! := by
    have hne := List.splitOn_ne_nil '/' path.toList
    generalize List.splitOn '/' path.toList = L at hne
    rw [List.getLast!_eq_getLast?_getD, List.getLast!_eq_getLast?_getD, List.getLast?_map]
    cases h : L.getLast? with
    | none => simp [List.getLast?_eq_none_iff] at h; exact absurd h hne
    | some a => simp
  rw [h1, String.toList_ofList]
  have h2 : ∀ L : List (List Char), L ≠ [] → (List.map ofList L).head! = ofList L.head! := by
    intro L hL
    cases L with
    | nil => exact absurd rfl hL
    | cons a L => rfl
  rw [h2 _ (List.splitOn_ne_nil _ _)]


theorem stem_aux (stem : List Char) (h2 : '.' ∉ stem) :
    ((stem ++ ['.', 'p', 'y']).splitOn '.').head! = stem := by
  have : stem ++ ['.', 'p', 'y'] = stem ++ '.' :: ['p', 'y'] := rfl
  rw [this, List.splitOn_append_cons_self, splitOn_no_sep h2]
  rfl

theorem outName_stem (stem : String) (h1 : '/' ∉ stem.toList) (h2 : '.' ∉ stem.toList) :
    outName (stem ++ ".py") = "outputs/" ++ stem ++ ".txt" := by
  rw [outName_eq]
  have e : (stem ++ ".py").toList = stem.toList ++ ['.', 'p', 'y'] := by
    rw [String.toList_append]; rfl
  have hs : '/' ∉ stem.toList ++ ['.', 'p', 'y'] := by
    simp only [List.mem_append, not_or]; exact ⟨h1, by decide⟩
  rw [e, splitOn_no_sep hs]
  show "outputs/" ++ ofList ((stem.toList ++ ['.', 'p', 'y']).splitOn '.').head! ++ ".txt" = _
  rw [stem_aux _ h2, String.ofList_toList]

theorem outName_dir_stem (d stem : String) (h1 : '/' ∉ stem.toList) (h2 : '.' ∉ stem.toList) :
    outName (d ++ "/" ++ stem ++ ".py") = "outputs/" ++ stem ++ ".txt" := by
  rw [outName_eq]
  have e : (d ++ "/" ++ stem ++ ".py").toList = d.toList ++ '/' :: (stem.toList ++ ['.', 'p', 'y']) := by
    simp only [String.toList_append, List.append_assoc]; rfl
  have hs : '/' ∉ stem.toList ++ ['.', 'p', 'y'] := by
    simp only [List.mem_append, not_or]; exact ⟨h1, by decide⟩
  rw [e, List.splitOn_append_cons_self, splitOn_no_sep hs]
  have : (List.splitOn '/' d.toList ++ [stem.toList ++ ['.', 'p', 'y']]).getLast! = stem.toList ++ ['.', 'p', 'y'] := by
    simp
  rw [this, stem_aux _ h2, String.ofList_toList]

/-! ### injectivity of `renderVal` -/

theorem nat_repr_inj {n m : Nat} (h : n.repr = m.repr) : n = m := by
  have := congrArg (fun s => Nat.ofDigitChars 10 s.toList 0) h
  simpa using this

theorem int_toString_chars (i : Int) : ∀ c ∈ (toString i).toList, c.isDigit = true ∨ c = '-' := by
  intro c hc
  rw [Int.toString_eq_repr, Int.repr_eq_if] at hc
  split at hc
  · rw [Nat.toList_repr] at hc
    exact Or.inl (Nat.isDigit_of_mem_toDigits (by decide) (by decide) hc)
  · rw [String.toList_append, Nat.toList_repr, List.mem_append] at hc
    rcases hc with hc | hc
    · right; simpa using hc
    · exact Or.inl (Nat.isDigit_of_mem_toDigits (by decide) (by decide) hc)

theorem int_toString_ne_nil (i : Int) : (toString i).toList ≠ [] := by
  rw [Int.toString_eq_repr, Int.repr_eq_if]
  split
  · rw [Nat.toList_repr]; exact Nat.toDigits_ne_nil
  · simp

theorem int_toString_inj {i j : Int} (h : (toString i : String) = toString j) : i = j := by
  rw [Int.toString_eq_repr, Int.toString_eq_repr, Int.repr_eq_if, Int.repr_eq_if] at h
  have hd : ∀ n : Nat, ¬ ('-' ∈ n.repr.toList) := by
    intro n hn
    rw [Nat.toList_repr] at hn
    have := Nat.isDigit_of_mem_toDigits (by decide) (by decide) hn
    exact absurd this (by decide)
  split at h <;> split at h
  · have := nat_repr_inj h; omega
  · exfalso
    apply hd i.toNat
    rw [h]; simp
  · exfalso
    apply hd j.toNat
    rw [← h]; simp
  · have h' := congrArg String.toList h
    simp only [String.toList_append, List.append_cancel_left_eq, String.toList_inj] at h'
    have := nat_repr_inj h'; omega

/-- the string part: no quote, backslash, comma, bracket, newline; printable ASCII -/
def StrOK (s : String) : Prop :=
  ∀ c ∈ s.toList, c ≠ '\'' ∧ c ≠ '\\' ∧ c ≠ ',' ∧ c ≠ '[' ∧ c ≠ ']' ∧ c ≠ '\n' ∧
    32 ≤ c.toNat ∧ c.toNat < 127

/-- characters that may occur in an atom (`None`, `True`, `False`, ints, float texts) -/
def AtomCh (c : Char) : Prop := c ≠ ',' ∧ c ≠ '[' ∧ c ≠ ']' ∧ c ≠ '\'' ∧ c ≠ ' '

instance : DecidablePred AtomCh := fun c => by unfold AtomCh; infer_instance

/-- float texts: non-empty, no separators, and not the text of another atom -/
def FloatOK (r : String) : Prop :=
  r.toList ≠ [] ∧ (∀ c ∈ r.toList, AtomCh c) ∧ r ≠ "None" ∧ r ≠ "True" ∧ r ≠ "False" ∧
    ∀ i : Int, r ≠ toString i

mutual
def WFVal : RVal → Prop
  | .none => True
  | .bool _ => True
  | .int _ => True
  | .float r => FloatOK r
  | .str s => StrOK s
  | .list xs => WFList xs
def WFList : List RVal → Prop
  | [] => True
  | x :: xs => WFVal x ∧ WFList xs
end

def rv (a : RVal) : List Char := (renderVal a).toList
def rl (xs : List RVal) : List Char := (renderList xs).toList

theorem rv_none : rv .none = ['N', 'o', 'n', 'e'] := rfl
theorem rv_bool (b : Bool) : rv (.bool b) = if b then ['T', 'r', 'u', 'e'] else ['F', 'a', 'l', 's', 'e'] := by
  cases b <;> rfl
theorem rv_int (i : Int) : rv (.int i) = (toString i).toList := by simp [rv, renderVal]
theorem rv_float (r : String) : rv (.float r) = r.toList := by simp [rv, renderVal]
theorem rv_str (s : String) : rv (.str s) = '\'' :: (s.toList ++ ['\'']) := by
  simp [rv, renderVal, CR.Report.reprStr]
theorem rv_list (xs : List RVal) : rv (.list xs) = '[' :: (rl xs ++ [']']) := by
  simp [rv, rl, renderVal]
theorem rl_nil : rl [] = [] := by simp [rl, renderList]
theorem rl_one (x : RVal) : rl [x] = rv x := by simp [rl, rv, renderList]
theorem rl_cons2 (x y : RVal) (r : List RVal) :
    rl (x :: y :: r) = rv x ++ ',' :: ' ' :: rl (y :: r) := by
  simp [rl, rv, renderList]


/-- a continuation that is empty or starts with a list delimiter -/
def Tail (s : List Char) : Prop := ∀ c ∈ s.head?, c = ',' ∨ c = ']'

theorem tail_nil : Tail [] := by simp [Tail]
theorem tail_comma (s) : Tail (',' :: s) := by simp [Tail]
theorem tail_close (s) : Tail (']' :: s) := by simp [Tail]

def NoDelim (l : List Char) : Prop := ∀ c ∈ l, c ≠ ',' ∧ c ≠ ']'

theorem split_unique : ∀ (l1 l2 s t : List Char), NoDelim l1 → NoDelim l2 → Tail s → Tail t →
    l1 ++ s = l2 ++ t → l1 = l2 ∧ s = t
  | [], [], s, t, _, _, _, _, h => ⟨rfl, by simpa using h⟩
  | [], c :: l2, s, t, _, h2, hs, _, h => by
    exfalso
    have hc := h2 c (by simp)
    simp only [List.nil_append] at h
    subst h
    have := hs c (by simp)
    rcases this with rfl | rfl
    · exact hc.1 rfl
    · exact hc.2 rfl
  | c :: l1, [], s, t, h1, _, _, ht, h => by
    exfalso
    have hc := h1 c (by simp)
    simp only [List.nil_append] at h
    subst h
    have := ht c (by simp)
    rcases this with rfl | rfl
    · exact hc.1 rfl
    · exact hc.2 rfl
  | c :: l1, c' :: l2, s, t, h1, h2, hs, ht, h => by
    simp only [List.cons_append, List.cons.injEq] at h
    obtain ⟨rfl, h⟩ := h
    have := split_unique l1 l2 s t (fun x hx => h1 x (by simp [hx])) (fun x hx => h2 x (by simp [hx])) hs ht h
    exact ⟨by rw [this.1], this.2⟩

theorem quote_unique : ∀ (l1 l2 s t : List Char), '\'' ∉ l1 → '\'' ∉ l2 →
    l1 ++ '\'' :: s = l2 ++ '\'' :: t → l1 = l2 ∧ s = t
  | [], [], s, t, _, _, h => ⟨rfl, by simpa using h⟩
  | [], c :: l2, s, t, _, h2, h => by
    simp only [List.nil_append, List.cons_append, List.cons.injEq] at h
    exact (h2 (by rw [← h.1]; simp)).elim
  | c :: l1, [], s, t, h1, _, h => by
    simp only [List.nil_append, List.cons_append, List.cons.injEq] at h
    exact (h1 (by rw [h.1]; simp)).elim
  | c :: l1, c' :: l2, s, t, h1, h2, h => by
    simp only [List.cons_append, List.cons.injEq] at h
    obtain ⟨rfl, h⟩ := h
    have := quote_unique l1 l2 s t (by intro e; apply h1; simp [e]) (by intro e; apply h2; simp [e]) h
    exact ⟨by rw [this.1], this.2⟩

def isAtom : RVal → Bool
  | .none | .bool _ | .int _ | .float _ => true
  | _ => false

/-- 0 = atom, 1 = string, 2 = list -/
def kind : RVal → Nat
  | .str _ => 1
  | .list _ => 2
  | _ => 0

def KindCh : Nat → Char → Prop
  | 0, c => AtomCh c
  | 1, c => c = '\''
  | _, c => c = '['

theorem atomCh_of_digit {c : Char} (h : c.isDigit = true ∨ c = '-') : AtomCh c := by
  rcases h with h | rfl
  · refine ⟨?_, ?_, ?_, ?_, ?_⟩ <;> (intro e; subst e; exact absurd h (by decide))
  · decide

theorem atom_chars (a : RVal) (hk : isAtom a = true) (hw : WFVal a) :
    rv a ≠ [] ∧ ∀ c ∈ rv a, AtomCh c := by
  cases a with
  | none => rw [rv_none]; decide
  | bool b => rw [rv_bool]; cases b <;> decide
  | int i =>
    rw [rv_int]
    exact ⟨int_toString_ne_nil i, fun c hc => atomCh_of_digit (int_toString_chars i c hc)⟩
  | float r => rw [rv_float]; exact ⟨hw.1, hw.2.1⟩
  | str s => simp [isAtom] at hk
  | list xs => simp [isAtom] at hk

theorem rv_head (a : RVal) (hw : WFVal a) : ∃ c r, rv a = c :: r ∧ KindCh (kind a) c := by
  by_cases hk : isAtom a = true
  · obtain ⟨h1, h2⟩ := atom_chars a hk hw
    obtain ⟨c, r, hcr⟩ := List.exists_cons_of_ne_nil h1
    refine ⟨c, r, hcr, ?_⟩
    have : kind a = 0 := by cases a <;> simp_all [isAtom, kind]
    rw [this]
    exact h2 c (by simp [hcr])
  · cases a with
    | str s => exact ⟨_, _, rv_str s, rfl⟩
    | list xs => exact ⟨_, _, rv_list xs, rfl⟩
    | _ => simp [isAtom] at hk

theorem kindCh_noDelim {k : Nat} {c : Char} (h : KindCh k c) : c ≠ ',' ∧ c ≠ ']' := by
  match k, h with
  | 0, h => exact ⟨h.1, h.2.2.1⟩
  | 1, h => subst h; decide
  | _ + 2, h => subst h; decide

theorem kindCh_inj {k k' : Nat} {c : Char} (hk : k ≤ 2) (hk' : k' ≤ 2) (h : KindCh k c)
    (h' : KindCh k' c) : k = k' := by
  match k, k', hk, hk', h, h' with
  | 0, 0, _, _, _, _ => rfl
  | 1, 1, _, _, _, _ => rfl
  | 2, 2, _, _, _, _ => rfl
  | 0, 1, _, _, h, h' => exact absurd h' h.2.2.2.1
  | 0, 2, _, _, h, h' => exact absurd h' h.2.1
  | 1, 0, _, _, h, h' => exact absurd h h'.2.2.2.1
  | 2, 0, _, _, h, h' => exact absurd h h'.2.1
  | 1, 2, _, _, h, h' => exact absurd (h.symm.trans h') (by decide)
  | 2, 1, _, _, h, h' => exact absurd (h.symm.trans h') (by decide)
  | _ + 3, _, hk, _, _, _ => omega
  | _, _ + 3, _, hk', _, _ => omega

theorem kind_le (a : RVal) : kind a ≤ 2 := by cases a <;> simp [kind]

theorem head_clash (a b : RVal) (ha : WFVal a) (hb : WFVal b) (s t : List Char)
    (h : rv a ++ s = rv b ++ t) : kind a = kind b := by
  obtain ⟨c, r, hc, hk⟩ := rv_head a ha
  obtain ⟨c', r', hc', hk'⟩ := rv_head b hb
  rw [hc, hc'] at h
  simp only [List.cons_append, List.cons.injEq] at h
  obtain ⟨rfl, _⟩ := h
  exact kindCh_inj (kind_le a) (kind_le b) hk hk'

theorem atom_inj (a b : RVal) (ha : isAtom a = true) (hb : isAtom b = true)
    (wa : WFVal a) (wb : WFVal b) (h : rv a = rv b) : a = b := by
  have intNe : ∀ (i : Int) (l : List Char), l ≠ [] → (∀ c ∈ l.head?, ¬ (c.isDigit = true ∨ c = '-')) →
      (toString i).toList ≠ l := by
    intro i l hl hh e
    obtain ⟨c, r, rfl⟩ := List.exists_cons_of_ne_nil hl
    exact hh c (by simp) (int_toString_chars i c (by rw [e]; simp))
  cases a <;> cases b <;> simp only [isAtom, Bool.false_eq_true] at ha hb
  all_goals simp only [rv_none, rv_bool, rv_int, rv_float] at h
  · rfl
  · rename_i b; cases b <;> exact absurd h (by decide)
  · exact absurd h.symm (intNe _ _ (by decide) (by decide))
  · exact absurd (String.toList_inj.1 (show String.toList _ = String.toList "None" from h.symm)) wb.2.2.1
  · rename_i b; cases b <;> exact absurd h (by decide)
  · rename_i b b'; cases b <;> cases b' <;> first | rfl | exact absurd h (by decide)
  · rename_i b i; cases b
    · exact absurd h.symm (intNe _ _ (by decide) (by decide))
    · exact absurd h.symm (intNe _ _ (by decide) (by decide))
  · rename_i b r; cases b
    · exact absurd (String.toList_inj.1 (show String.toList _ = String.toList "False" from h.symm)) wb.2.2.2.2.1
    · exact absurd (String.toList_inj.1 (show String.toList _ = String.toList "True" from h.symm)) wb.2.2.2.1
  · exact absurd h (intNe _ _ (by decide) (by decide))
  · rename_i i b; cases b
    · exact absurd h (intNe _ _ (by decide) (by decide))
    · exact absurd h (intNe _ _ (by decide) (by decide))
  · rw [int_toString_inj (String.toList_inj.1 h)]
  · rename_i i r
    exact absurd (String.toList_inj.1 h.symm) (wb.2.2.2.2.2 i)
  · exact absurd (String.toList_inj.1 (show String.toList _ = String.toList "None" from h)) wa.2.2.1
  · rename_i r b; cases b
    · exact absurd (String.toList_inj.1 (show String.toList _ = String.toList "False" from h)) wa.2.2.2.2.1
    · exact absurd (String.toList_inj.1 (show String.toList _ = String.toList "True" from h)) wa.2.2.2.1
  · rename_i r i
    exact absurd (String.toList_inj.1 h) (wa.2.2.2.2.2 i)
  · rw [String.toList_inj.1 h]


theorem atom_noDelim (a : RVal) (hk : isAtom a = true) (hw : WFVal a) : NoDelim (rv a) :=
  fun c hc => let h := (atom_chars a hk hw).2 c hc; ⟨h.1, h.2.2.1⟩

theorem isAtom_of_kind {a : RVal} (h : kind a = 0) : isAtom a = true := by
  cases a <;> simp_all [kind, isAtom]

/-- values that are not both lists -/
theorem nonlist_case (a b : RVal) (hab : kind a ≠ 2 ∨ kind b ≠ 2) (wa : WFVal a) (wb : WFVal b)
    (s t : List Char) (hs : Tail s) (ht : Tail t) (h : rv a ++ s = rv b ++ t) : a = b ∧ s = t := by
  have hk := head_clash a b wa wb s t h
  have hka := kind_le a
  have : kind a = 0 ∨ kind a = 1 := by omega
  rcases this with h0 | h1
  · have ia := isAtom_of_kind h0
    have ib := isAtom_of_kind (hk ▸ h0)
    have := split_unique _ _ s t (atom_noDelim a ia wa) (atom_noDelim b ib wb) hs ht h
    exact ⟨atom_inj a b ia ib wa wb this.1, this.2⟩
  · cases a <;> simp only [kind] at h1 <;> try omega
    cases b <;> simp only [kind] at hk <;> try omega
    rename_i s1 s2
    simp only [rv_str, List.cons_append, List.cons.injEq, true_and, List.append_assoc,
      List.nil_append] at h
    have q1 : '\'' ∉ s1.toList := fun hc => (wa _ hc).1 rfl
    have q2 : '\'' ∉ s2.toList := fun hc => (wb _ hc).1 rfl
    have := quote_unique _ _ _ _ q1 q2 h
    exact ⟨by rw [String.toList_inj.1 this.1], this.2⟩

theorem rv_append_ne_close (y : RVal) (wy : WFVal y) (u s : List Char) : rv y ++ u ≠ ']' :: s := by
  obtain ⟨c, r, hc, hk⟩ := rv_head y wy
  rw [hc]
  intro h
  simp only [List.cons_append, List.cons.injEq] at h
  exact (kindCh_noDelim hk).2 h.1

mutual
theorem renderVal_prefix : (a : RVal) → WFVal a → (b : RVal) → WFVal b →
    ∀ s t : List Char, Tail s → Tail t → rv a ++ s = rv b ++ t → a = b ∧ s = t
  | .list xs, wa, .list ys, wb, s, t, _, _, h => by
    simp only [rv_list, List.cons_append, List.cons.injEq, true_and, List.append_assoc,
      List.nil_append] at h
    have := renderList_prefix xs wa ys wb s t h
    exact ⟨by rw [this.1], this.2⟩
  | .list xs, wa, .none, wb, s, t, hs, ht, h => nonlist_case _ _ (Or.inr (by simp [kind])) wa wb s t hs ht h
  | .list xs, wa, .bool _, wb, s, t, hs, ht, h => nonlist_case _ _ (Or.inr (by simp [kind])) wa wb s t hs ht h
  | .list xs, wa, .int _, wb, s, t, hs, ht, h => nonlist_case _ _ (Or.inr (by simp [kind])) wa wb s t hs ht h
  | .list xs, wa, .float _, wb, s, t, hs, ht, h => nonlist_case _ _ (Or.inr (by simp [kind])) wa wb s t hs ht h
  | .list xs, wa, .str _, wb, s, t, hs, ht, h => nonlist_case _ _ (Or.inr (by simp [kind])) wa wb s t hs ht h
  | .none, wa, b, wb, s, t, hs, ht, h => nonlist_case _ _ (Or.inl (by simp [kind])) wa wb s t hs ht h
  | .bool _, wa, b, wb, s, t, hs, ht, h => nonlist_case _ _ (Or.inl (by simp [kind])) wa wb s t hs ht h
  | .int _, wa, b, wb, s, t, hs, ht, h => nonlist_case _ _ (Or.inl (by simp [kind])) wa wb s t hs ht h
  | .float _, wa, b, wb, s, t, hs, ht, h => nonlist_case _ _ (Or.inl (by simp [kind])) wa wb s t hs ht h
  | .str _, wa, b, wb, s, t, hs, ht, h => nonlist_case _ _ (Or.inl (by simp [kind])) wa wb s t hs ht h
theorem renderList_prefix : (xs : List RVal) → WFList xs → (ys : List RVal) → WFList ys →
    ∀ s t : List Char, rl xs ++ ']' :: s = rl ys ++ ']' :: t → xs = ys ∧ s = t
  | [], _, [], _, s, t, h => by simpa [rl_nil] using h
  | [], _, [y], wy, s, t, h => by
    rw [rl_nil, rl_one] at h
    exact absurd h.symm (rv_append_ne_close y wy.1 _ _)
  | [], _, y :: y' :: r, wy, s, t, h => by
    rw [rl_nil, rl_cons2, List.append_assoc] at h
    exact absurd h.symm (rv_append_ne_close y wy.1 _ _)
  | [x], wx, [], _, s, t, h => by
    rw [rl_nil, rl_one] at h
    exact absurd h (rv_append_ne_close x wx.1 _ _)
  | [x], wx, [y], wy, s, t, h => by
    rw [rl_one, rl_one] at h
    have := renderVal_prefix x wx.1 y wy.1 _ _ (tail_close s) (tail_close t) h
    simp only [List.cons.injEq, true_and] at this
    exact ⟨by rw [this.1], this.2⟩
  | [x], wx, y :: y' :: r, wy, s, t, h => by
    rw [rl_one, rl_cons2, List.append_assoc] at h
    have := renderVal_prefix x wx.1 y wy.1 _ _ (tail_close s) (tail_comma _) h
    simp at this
  | x :: x' :: r, wx, [], _, s, t, h => by
    rw [rl_nil, rl_cons2, List.append_assoc] at h
    exact absurd h (rv_append_ne_close x wx.1 _ _)
  | x :: x' :: r, wx, [y], wy, s, t, h => by
    rw [rl_one, rl_cons2, List.append_assoc] at h
    have := renderVal_prefix x wx.1 y wy.1 _ _ (tail_comma _) (tail_close t) h
    simp at this
  | x :: x' :: r, wx, y :: y' :: r', wy, s, t, h => by
    rw [rl_cons2, rl_cons2, List.append_assoc, List.append_assoc] at h
    simp only [List.cons_append] at h
    have h1 := renderVal_prefix x wx.1 y wy.1 _ _ (tail_comma _) (tail_comma _) h
    have h2 := h1.2
    simp only [List.cons.injEq, true_and] at h2
    have h3 := renderList_prefix (x' :: r) wx.2 (y' :: r') wy.2 s t h2
    exact ⟨by rw [h1.1, h3.1], h3.2⟩
end

theorem renderVal_inj (a b : RVal) (wa : WFVal a) (wb : WFVal b) (h : renderVal a = renderVal b) :
    a = b := by
  have := renderVal_prefix a wa b wb [] [] tail_nil tail_nil
    (by simp only [List.append_nil]; exact congrArg String.toList h)
  exact this.1


/-- a decidable sufficient condition for `FloatOK`: some character is neither a digit nor `-`
(Python's float `repr` always contains `.`, `e`, or is `inf`/`-inf`/`nan`) -/
def FloatMark (r : String) : Prop :=
  r.toList ≠ [] ∧ (∀ c ∈ r.toList, AtomCh c) ∧ r ≠ "None" ∧ r ≠ "True" ∧ r ≠ "False" ∧
    ∃ c ∈ r.toList, ¬ (c.isDigit = true ∨ c = '-')

instance : DecidablePred FloatMark := fun r => by unfold FloatMark; infer_instance

instance : DecidablePred StrOK := fun s => by unfold StrOK; infer_instance

theorem floatOK_of_floatMark {r : String} (h : FloatMark r) : FloatOK r := by
  obtain ⟨h1, h2, h3, h4, h5, c, hc, hn⟩ := h
  refine ⟨h1, h2, h3, h4, h5, ?_⟩
  rintro i rfl
  exact hn (int_toString_chars i c hc)

theorem boolText_inj {q q' : Bool}
    (h : (if q then "True" else "False" : String) = (if q' then "True" else "False")) : q = q' := by
  revert h; cases q <;> cases q' <;> decide

theorem wfList_iff (xs : List RVal) : WFList xs ↔ ∀ x ∈ xs, WFVal x := by
  induction xs with
  | nil => simp [WFList]
  | cons x xs ih => simp [WFList, ih]

end CR.ReportLemmas
