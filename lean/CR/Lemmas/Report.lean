/-
Helper lemmas for property C16 (report writer, `CR/Model/Report.lean`).

* `splitOn_char`: `String.splitOn` with a one-character separator is `List.splitOn` on the
  characters (Batteries only has a `TODO: splitOn`; proved here from the `*_of_valid` lemmas).
* `fieldOfLine_append`, `readBlocks_block`: the line-level reader undoes `blockLines`.
* `outName_*`: the report file name.
-/
import CR.Model.Report
import Batteries.Data.String.Lemmas

namespace CR.ReportLemmas

open CR.Report String

/-! ### `String.splitOn` with a single-character separator -/

theorem splitOnAux_char (c : Char) (rest l m : List Char) (r : List String) :
    String.splitOnAux (ofList (l ++ m ++ rest)) (ofList [c]) ⟨utf8Len l⟩
        ⟨utf8Len l + utf8Len m⟩ 0 r =
      r.reverse ++ (List.splitOnPPrepend (· == c) rest m.reverse).map ofList := by
  induction rest generalizing l m r with
  | nil =>
    rw [String.splitOnAux]
    have h1 : Pos.Raw.atEnd (ofList (l ++ m ++ [])) ⟨utf8Len l + utf8Len m⟩ = true := by
      have := (atEnd_of_valid (l ++ m) []).2 rfl
      simpa only [utf8Len_append] using this
    have h2 := extract_of_valid l m []
    rw [if_pos h1, h2]
    simp
  | cons c' rest ih =>
    rw [String.splitOnAux]
    have h1 : ¬ Pos.Raw.atEnd (ofList (l ++ m ++ c' :: rest)) ⟨utf8Len l + utf8Len m⟩ = true := by
      have := (atEnd_of_valid (l ++ m) (c' :: rest))
      simp only [utf8Len_append] at this
      rw [this]; exact List.cons_ne_nil _ _
    have h2 : Pos.Raw.get (ofList (l ++ m ++ c' :: rest)) ⟨utf8Len l + utf8Len m⟩ = c' := by
      have := get_of_valid (l ++ m) (c' :: rest)
      simpa only [utf8Len_append, List.headD_cons] using this
    have h3 : Pos.Raw.next (ofList (l ++ m ++ c' :: rest)) ⟨utf8Len l + utf8Len m⟩ =
        ⟨utf8Len l + utf8Len m + c'.utf8Size⟩ := by
      have := next_of_valid (l ++ m) c' rest
      simpa only [utf8Len_append] using this
    have h4 : Pos.Raw.get (ofList [c]) 0 = c := by
      simpa using get_of_valid [] [c]
    have h5 : Pos.Raw.next (ofList [c]) 0 = ⟨c.utf8Size⟩ := by
      simpa using next_of_valid [] c []
    have h6 : Pos.Raw.atEnd (ofList [c]) ⟨c.utf8Size⟩ = true := by
      simpa using (atEnd_of_valid [c] []).2 rfl
    rw [if_neg h1, h2, h4]
    by_cases hc : c' = c
    · subst hc
      simp only [beq_self_eq_true, if_true, h3, h5, h6]
      have e : (Pos.Raw.unoffsetBy ⟨utf8Len l + utf8Len m + c'.utf8Size⟩ ⟨c'.utf8Size⟩) =
          ⟨utf8Len l + utf8Len m⟩ := by simp [Pos.Raw.unoffsetBy]
      rw [e, extract_of_valid l m (c' :: rest)]
      have := ih (l ++ m ++ [c']) [] (ofList m :: r)
      simp only [utf8Len_append, utf8Len_cons, utf8Len_nil, List.append_nil, Nat.add_zero,
        Nat.zero_add, List.append_assoc, List.cons_append, List.nil_append] at this
      simp only [List.append_assoc, Nat.add_assoc]
      rw [this]
      simp [List.splitOnPPrepend_cons_eq_if]
    · have hb : (c' == c) = false := by simpa using hc
      simp only [hb]
      have e : Pos.Raw.unoffsetBy ⟨utf8Len l + utf8Len m⟩ 0 = ⟨utf8Len l + utf8Len m⟩ := by
        simp [Pos.Raw.unoffsetBy]
      simp only [Bool.false_eq_true, if_false, e, h3]
      have := ih l (m ++ [c']) r
      simp only [utf8Len_append, utf8Len_cons, utf8Len_nil, List.append_assoc, Nat.add_assoc,
        Nat.zero_add, List.cons_append, List.nil_append] at this ⊢
      rw [this]
      simp [List.splitOnPPrepend_cons_eq_if, hb]

/-- `String.splitOn` with a one-character separator splits the character list at that character -/
theorem splitOn_char (s : String) (c : Char) :
    s.splitOn (String.singleton c) = (s.toList.splitOn c).map ofList := by
  have := splitOnAux_char c s.toList [] [] []
  simp only [List.nil_append, utf8Len_nil, Nat.add_zero, String.ofList_toList,
    List.reverse_nil] at this
  have hne : (String.singleton c == "") = false := by
    have : String.singleton c ≠ "" := by
      intro h
      have := congrArg String.toList h
      simp at this
    simp [this]
  rw [String.splitOn, hne]
  simp only [Bool.false_eq_true, if_false]
  show s.splitOnAux (String.singleton c) 0 0 0 [] = _
  rw [show String.singleton c = ofList [c] by simp]
  exact this

theorem splitOn_slash (s : String) : s.splitOn "/" = (s.toList.splitOn '/').map ofList :=
  splitOn_char s '/'

theorem splitOn_dot (s : String) : s.splitOn "." = (s.toList.splitOn '.').map ofList :=
  splitOn_char s '.'

theorem splitOn_newline (s : String) : s.splitOn "\n" = (s.toList.splitOn '\n').map ofList :=
  splitOn_char s '\n'

/-! ### labels, blocks, reader -/

theorem labels_length : labels.length = 14 := rfl

theorem labels_width : ∀ l ∈ labels, l.length = 26 := by decide

theorem fieldTexts_length (name : String) (e : Entry) : (fieldTexts name e).length = 14 := rfl

theorem blockLines_eq (name : String) (e : Entry) :
    blockLines name e = separator :: List.zipWith (· ++ ·) labels (fieldTexts name e) := by
  rfl

theorem blockLines_length (name : String) (e : Entry) : (blockLines name e).length = 15 := rfl

/-- dropping a 26-character prefix -/
theorem fieldOfLine_append (l t : String) (h : l.length = 26) : fieldOfLine (l ++ t) = t := by
  unfold fieldOfLine
  apply String.toList_inj.1
  show ((l ++ t).drop 26).copy.toList = _
  rw [String.toList_copy_drop, String.toList_append]
  rw [← String.length_toList] at h
  simp [h]

theorem fieldOfLine_label (l : String) (hl : l ∈ labels) (t : String) :
    fieldOfLine (l ++ t) = t :=
  fieldOfLine_append l t (labels_width l hl)

theorem readBlocks_nil : readBlocks [] = [] := by
  rw [readBlocks]

theorem readBlocks_cons (sep : String) (rest : List String) :
    readBlocks (sep :: rest) = (rest.take 14).map fieldOfLine :: readBlocks (rest.drop 14) := by
  rw [readBlocks]

theorem map_fieldOfLine_zipWith :
    ∀ (ls ts : List String), (∀ l ∈ ls, l.length = 26) → ls.length = ts.length →
      (List.zipWith (· ++ ·) ls ts).map fieldOfLine = ts
  | [], [], _, _ => rfl
  | [], _ :: _, _, h => by simp at h
  | _ :: _, [], _, h => by simp at h
  | l :: ls, t :: ts, hw, h => by
    simp only [List.zipWith_cons_cons, List.map_cons]
    rw [fieldOfLine_append l t (hw l (by simp)),
      map_fieldOfLine_zipWith ls ts (fun x hx => hw x (by simp [hx])) (by simpa using h)]

theorem readBlocks_block (name : String) (e : Entry) (rest : List String) :
    readBlocks (blockLines name e ++ rest) = fieldTexts name e :: readBlocks rest := by
  rw [blockLines_eq, List.cons_append, readBlocks_cons]
  have hlen : (List.zipWith (· ++ ·) labels (fieldTexts name e)).length = 14 := rfl
  rw [List.take_append_of_le_length (by omega), List.drop_append_of_le_length (by omega)]
  rw [List.take_of_length_le (by omega), List.drop_of_length_le (by omega)]
  rw [map_fieldOfLine_zipWith labels (fieldTexts name e) labels_width rfl]
  simp

theorem readBlocks_flatMap (rs : List (String × Entry)) :
    readBlocks (rs.flatMap (fun ne => blockLines ne.1 ne.2)) =
      rs.map (fun ne => fieldTexts ne.1 ne.2) := by
  induction rs with
  | nil => simp [readBlocks_nil]
  | cons ne rs ih => simp [List.flatMap_cons, readBlocks_block, ih]

/-! ### the text of the report and its lines -/

theorem flatMap_append_singleton_eq_intercalate {α} (x : α) :
    ∀ (L : List (List α)), L.flatMap (· ++ [x]) = [x].intercalate (L ++ [[]])
  | [] => by simp [List.intercalate]
  | [l] => by simp [List.intercalate]
  | l :: l' :: L => by
    have ih := flatMap_append_singleton_eq_intercalate x (l' :: L)
    rw [List.flatMap_cons, ih]
    simp [List.intercalate_cons_cons]

theorem splitOn_join_lines (ls : List String) (h : ∀ l ∈ ls, '\n' ∉ l.toList) :
    (String.join (ls.map (· ++ "\n"))).splitOn "\n" = ls ++ [""] := by
  rw [splitOn_newline, String.toList_join]
  have : (ls.map (· ++ "\n")).flatMap String.toList = (ls.map String.toList).flatMap (· ++ ['\n']) := by
    simp [List.flatMap_map, String.toList_append]
  rw [this, flatMap_append_singleton_eq_intercalate, List.splitOn_intercalate]
  · simp
  · intro l hl
    simp only [List.mem_append, List.mem_map, List.mem_singleton] at hl
    rcases hl with ⟨s, hs, rfl⟩ | rfl
    · exact h s hs
    · simp
  · simp

theorem separator_no_newline : '\n' ∉ separator.toList := by
  have : ∀ n, '\n' ∉ (String.ofList (List.replicate n '=')).toList := by
    intro n h
    rw [String.toList_ofList] at h
    exact absurd (List.eq_of_mem_replicate h) (by decide)
  exact this 160

theorem labels_no_newline : ∀ l ∈ labels, '\n' ∉ l.toList := by decide

theorem blockLines_no_newline (name : String) (e : Entry)
    (h : ∀ t ∈ fieldTexts name e, '\n' ∉ t.toList) :
    ∀ l ∈ blockLines name e, '\n' ∉ l.toList := by
  intro l hl
  simp only [blockLines, List.mem_cons, List.mem_map] at hl
  rcases hl with rfl | ⟨⟨a, b⟩, hab, rfl⟩
  · exact separator_no_newline
  · have := List.of_mem_zip hab
    simp only [String.toList_append, List.mem_append, not_or]
    exact ⟨labels_no_newline a this.1, h b this.2⟩

/-! ### the report file name -/

theorem splitOn_no_sep {c : Char} {l : List Char} (h : c ∉ l) : l.splitOn c = [l] :=
  List.splitOn_eq_singleton h

theorem outName_eq (path : String) :
    outName path =
      "outputs/" ++ ofList (((path.toList.splitOn '/').getLast!).splitOn '.').head! ++ ".txt" := by
  unfold outName
  simp only [splitOn_slash, splitOn_dot]
  have h1 : (List.map ofList (List.splitOn '/' path.toList)).getLast! =
      ofList (List.splitOn '/' path.toList).getLast! := by
    have hne := List.splitOn_ne_nil '/' path.toList
    generalize List.splitOn '/' path.toList = L at hne
    rw [List.getLast!_eq_getLast?_getD, List.getLast!_eq_getLast?_getD, List.getLast?_map]
    cases h : L.getLast? with
    | none => simp [List.getLast?_eq_none_iff] at h; exact absurd h hne
    | some a => simp
  rw [h1, String.toList_ofList]
  have h2 : ∀ L : List (List Char), L ≠ [] → (List.map ofList L).head! = ofList L.head! := by
    intro L hL
    cases L with
    | nil => exact absurd rfl hL
    | cons a L => rfl
  rw [h2 _ (List.splitOn_ne_nil _ _)]


theorem stem_aux (stem : List Char) (h2 : '.' ∉ stem) :
    ((stem ++ ['.', 'p', 'y']).splitOn '.').head! = stem := by
  have : stem ++ ['.', 'p', 'y'] = stem ++ '.' :: ['p', 'y'] := rfl
  rw [this, List.splitOn_append_cons_self, splitOn_no_sep h2]
  rfl

theorem outName_stem (stem : String) (h1 : '/' ∉ stem.toList) (h2 : '.' ∉ stem.toList) :
    outName (stem ++ ".py") = "outputs/" ++ stem ++ ".txt" := by
  rw [outName_eq]
  have e : (stem ++ ".py").toList = stem.toList ++ ['.', 'p', 'y'] := by
    rw [String.toList_append]; rfl
  have hs : '/' ∉ stem.toList ++ ['.', 'p', 'y'] := by
    simp only [List.mem_append, not_or]; exact ⟨h1, by decide⟩
  rw [e, splitOn_no_sep hs]
  show "outputs/" ++ ofList ((stem.toList ++ ['.', 'p', 'y']).splitOn '.').head! ++ ".txt" = _
  rw [stem_aux _ h2, String.ofList_toList]

theorem outName_dir_stem (d stem : String) (h1 : '/' ∉ stem.toList) (h2 : '.' ∉ stem.toList) :
    outName (d ++ "/" ++ stem ++ ".py") = "outputs/" ++ stem ++ ".txt" := by
  rw [outName_eq]
  have e : (d ++ "/" ++ stem ++ ".py").toList = d.toList ++ '/' :: (stem.toList ++ ['.', 'p', 'y']) := by
    simp only [String.toList_append, List.append_assoc]; rfl
  have hs : '/' ∉ stem.toList ++ ['.', 'p', 'y'] := by
    simp only [List.mem_append, not_or]; exact ⟨h1, by decide⟩
  rw [e, List.splitOn_append_cons_self, splitOn_no_sep hs]
  have : (List.splitOn '/' d.toList ++ [stem.toList ++ ['.', 'p', 'y']]).getLast! = stem.toList ++ ['.', 'p', 'y'] := by
    simp
  rw [this, stem_aux _ h2, String.ofList_toList]

end CR.ReportLemmas
