/-
Helper lemmas for the "ranked" parts of properties C02 / C05: on conditioned games that are
acyclic apart from absorbing zero-reward self-loops, the expected rewards reported by `solve` are
exact and the final strategies are the optimal ones.  The property theorems themselves are in
`CR.Props.C02Ranked` and `CR.Props.C05Ranked`.

Contents
* `Ranked`: the hypothesis bundle of `C06.rewards_terminate_of_ranked` as a structure; `Low`: the
  states that are absorbing or of rank `< k`; `ExactRew`: "fixed point of `Brew` that is 0 at the
  absorbing states";
* `Brew` reads its argument only at the successors of the state; at an absorbing state it is the
  identity; local non-expansiveness;
* uniqueness of the fixed point of `Brew` on `Low k` (strong induction on the rank), existence
  (Jacobi iteration from 0), error bound `(rank + 1)·ε` for an `ε`-approximate fixed point;
* the reward loop: after `k` sweeps the states of `Low k` are settled (`Term.stab_sweep`), hence
  an `.ok` run of `solve` with `out.itRew` sweeps reports a vector that is a fixed point of `Brew`
  on `Low out.itRew`; absorbing states keep the value 0; a sweep with reported change 0 produces a
  fixed point (no hypothesis on the probabilities);
* arg-max / arg-min lists: dependence on the successors only; under a rounding function that is
  strictly monotone on the successors' values they are the arg-max / arg-min lists of the values
  themselves.
-/
import CR.Props.C02
import CR.Props.C05
import CR.Props.C06

set_option linter.unusedSectionVars false

namespace CR.Rank

open CR CR.VI CR.Rew CR.C06

variable {K : Type} [Field K] [LinearOrder K] [IsStrictOrderedRing K]

/-! ### definitions used in the statements -/

/-- the node lists `nodes` are acyclic apart from absorbing states: every non-absorbing state has
all its successors in range and either absorbing or of strictly smaller rank `rk`; ranks are
bounded by `R`.  (This is the hypothesis bundle of `C06.rewards_terminate_of_ranked`.) -/
structure Ranked (o : Array Owner) (rewards : Array K) (nodes : Array (List (Tr K)))
    (rk : Nat → Nat) (R : Nat) : Prop where
  bound : ∀ s < o.size, rk s ≤ R
  step : ∀ s < o.size, ¬ Absorbing o rewards nodes s → ∀ t ∈ nodes.getD s [],
    t.tgt < o.size ∧ (Absorbing o rewards nodes t.tgt ∨ rk t.tgt < rk s)

/-- the states that are absorbing or of rank `< k` -/
def Low (o : Array Owner) (rewards : Array K) (nodes : Array (List (Tr K))) (rk : Nat → Nat)
    (k s : Nat) : Prop :=
  Absorbing o rewards nodes s ∨ rk s < k

/-- `w` solves the reward equations of the game with transition lists `nodes` exactly: it is a
fixed point of the Bellman operator `Brew` at every state, and it is 0 at the absorbing states
(where the equation `w[s] = 0 + 1·w[s]` says nothing) -/
def ExactRew (o : Array Owner) (rewards : Array K) (nodes : Array (List (Tr K))) (w : Array K) :
    Prop :=
  (∀ s < o.size, Brew o rewards nodes w s = w.getD s 0) ∧
    ∀ s < o.size, Absorbing o rewards nodes s → w.getD s 0 = 0

section Brew
variable {o : Array Owner} {rewards : Array K} {nodes : Array (List (Tr K))} {rk : Nat → Nat}
  {R : Nat}

theorem Low.mono {k k' s : Nat} (h : Low o rewards nodes rk k s) (hk : k ≤ k') :
    Low o rewards nodes rk k' s :=
  h.elim Or.inl (fun h => Or.inr (by omega))

theorem Ranked.low_all (hrk : Ranked o rewards nodes rk R) {k : Nat} (hk : R + 1 ≤ k) :
    ∀ s < o.size, Low o rewards nodes rk k s :=
  fun s hs => Or.inr (by have := hrk.bound s hs; omega)

/-- the successors of a state of `Low (k+1)` that is not in `Low k` are in `Low k` -/
theorem Ranked.low_dep (hrk : Ranked o rewards nodes rk R) (k : Nat) :
    ∀ s < o.size, Low o rewards nodes rk (k + 1) s → ¬ Low o rewards nodes rk k s →
      ∀ t ∈ nodes.getD s [], t.tgt < o.size ∧ Low o rewards nodes rk k t.tgt := by
  intro s hs hD' hnD t ht
  have hna : ¬ Absorbing o rewards nodes s := fun h => hnD (Or.inl h)
  have hks : ¬ rk s < k := fun h => hnD (Or.inr h)
  obtain ⟨h1, h2⟩ := hrk.step s hs hna t ht
  refine ⟨h1, h2.elim Or.inl (fun h => Or.inr ?_)⟩
  rcases hD' with h' | h'
  · exact absurd h' hna
  · omega

/-- the successors of a non-absorbing state of `Low k` are in `Low k` -/
theorem Ranked.low_succ (hrk : Ranked o rewards nodes rk R) (k : Nat) :
    ∀ s < o.size, Low o rewards nodes rk k s → ¬ Absorbing o rewards nodes s →
      ∀ t ∈ nodes.getD s [], t.tgt < o.size ∧ Low o rewards nodes rk k t.tgt := by
  intro s hs hD hna t ht
  obtain ⟨h1, h2⟩ := hrk.step s hs hna t ht
  refine ⟨h1, h2.elim Or.inl (fun h => Or.inr ?_)⟩
  have := hD.resolve_left hna
  omega

theorem sumOver_congr (x y : Array K) (row : List (Tr K))
    (h : ∀ t ∈ row, x.getD t.tgt 0 = y.getD t.tgt 0) : sumOver x row = sumOver y row := by
  unfold sumOver
  congr 1
  exact List.map_congr_left (fun t ht => by rw [h t ht])

theorem maxOver_congr (x y : Array K) (row : List (Tr K)) (m0 : K)
    (h : ∀ t ∈ row, x.getD t.tgt 0 = y.getD t.tgt 0) : maxOver x row m0 = maxOver y row m0 := by
  unfold maxOver
  exact List.foldl_ext _ _ _ (fun a t ht => by rw [h t ht])

theorem minOver_congr (x y : Array K) (row : List (Tr K)) (m0 : K)
    (h : ∀ t ∈ row, x.getD t.tgt 0 = y.getD t.tgt 0) : minOver x row m0 = minOver y row m0 := by
  unfold minOver
  exact List.foldl_ext _ _ _ (fun a t ht => by rw [h t ht])

/-- `Brew … x s` reads `x` only at the successors of `s` -/
theorem Brew_congr (o : Array Owner) (rewards : Array K) (nodes : Array (List (Tr K)))
    (x y : Array K) (s : Nat) (h : ∀ t ∈ nodes.getD s [], x.getD t.tgt 0 = y.getD t.tgt 0) :
    Brew o rewards nodes x s = Brew o rewards nodes y s := by
  cases hrow : nodes.getD s [] with
  | nil => rw [Brew_nil o rewards nodes _ s hrow, Brew_nil o rewards nodes _ s hrow]
  | cons t0 rest =>
    have hne : nodes.getD s [] ≠ [] := by rw [hrow]; simp
    cases ho : o.getD s .prob with
    | prob =>
      rw [Brew_prob o rewards nodes _ s hne ho, Brew_prob o rewards nodes _ s hne ho,
        sumOver_congr x y _ h]
    | p1 =>
      rw [Brew_p1 o rewards nodes _ s hne ho, Brew_p1 o rewards nodes _ s hne ho,
        maxOver_congr x y _ 0 h]
    | p2 =>
      rw [hrow] at h
      rw [Brew_p2 o rewards nodes _ s t0 rest hrow ho, Brew_p2 o rewards nodes _ s t0 rest hrow ho,
        minOver_congr x y _ _ h, h t0 List.mem_cons_self]

/-- at an absorbing state the reward equation is `x[s] = 0 + 1·x[s]` -/
theorem Brew_absorbing (x : Array K) {s : Nat} (h : Absorbing o rewards nodes s) :
    Brew o rewards nodes x s = x.getD s 0 := by
  obtain ⟨ho, hr, t, hrow, ht, hp⟩ := h
  rw [Brew_prob o rewards nodes x s (by rw [hrow]; simp) ho, hrow, hr]
  simp [ht, hp]

/-- `Brew` is non-expansive in the sup norm over the successors of the state -/
theorem Brew_nonexp_local (x y : Array K) (s : Nat) (ε : K) (hε : 0 ≤ ε)
    (hp : o.getD s .prob = .prob → nodes.getD s [] = [] ∨
      ((∀ t ∈ nodes.getD s [], 0 ≤ t.p) ∧ ((nodes.getD s []).map (·.p)).sum = 1))
    (h : ∀ t ∈ nodes.getD s [], |x.getD t.tgt 0 - y.getD t.tgt 0| ≤ ε) :
    |Brew o rewards nodes x s - Brew o rewards nodes y s| ≤ ε := by
  cases hrow : nodes.getD s [] with
  | nil =>
    rw [Brew_nil o rewards nodes _ s hrow, Brew_nil o rewards nodes _ s hrow]
    simpa using hε
  | cons t0 rest =>
    have hne : nodes.getD s [] ≠ [] := by rw [hrow]; simp
    cases ho : o.getD s .prob with
    | prob =>
      rw [Brew_prob o rewards nodes _ s hne ho, Brew_prob o rewards nodes _ s hne ho]
      rcases hp ho with h0 | ⟨h1, h2⟩
      · exact absurd h0 hne
      · have := sumOver_nonexp x y (nodes.getD s []) ε h1 h
        rw [show psum (nodes.getD s []) = 1 from h2, mul_one] at this
        rwa [add_sub_add_left_eq_sub]
    | p1 =>
      rw [Brew_p1 o rewards nodes _ s hne ho, Brew_p1 o rewards nodes _ s hne ho,
        add_sub_add_left_eq_sub]
      exact maxOver_nonexp _ _ _ _ _ _ (by simpa using hε) h
    | p2 =>
      rw [hrow] at h
      rw [Brew_p2 o rewards nodes _ s t0 rest hrow ho,
        Brew_p2 o rewards nodes _ s t0 rest hrow ho, add_sub_add_left_eq_sub]
      exact minOver_nonexp _ _ _ _ _ _ (h t0 List.mem_cons_self) h

/-! ### uniqueness, error bound, existence -/

/-- two vectors that satisfy the reward equations on `Low k` and agree on the absorbing states
agree on `Low k` (strong induction on the rank) -/
theorem brew_unique_low (hrk : Ranked o rewards nodes rk R) (k : Nat) (x y : Array K)
    (hx : ∀ s < o.size, Low o rewards nodes rk k s → Brew o rewards nodes x s = x.getD s 0)
    (hy : ∀ s < o.size, Low o rewards nodes rk k s → Brew o rewards nodes y s = y.getD s 0)
    (hxy : ∀ s < o.size, Absorbing o rewards nodes s → x.getD s 0 = y.getD s 0) :
    ∀ s < o.size, Low o rewards nodes rk k s → x.getD s 0 = y.getD s 0 := by
  have key : ∀ m, ∀ s < o.size, rk s < m → Low o rewards nodes rk k s →
      x.getD s 0 = y.getD s 0 := by
    intro m
    induction m with
    | zero => intro s _ h; omega
    | succ m ih =>
      intro s hs hm hlow
      by_cases ha : Absorbing o rewards nodes s
      · exact hxy s hs ha
      · have hk : rk s < k := hlow.resolve_left ha
        rw [← hx s hs hlow, ← hy s hs hlow]
        apply Brew_congr
        intro t ht
        obtain ⟨htn, h⟩ := hrk.step s hs ha t ht
        rcases h with h | h
        · exact hxy _ htn h
        · exact ih _ htn (by omega) (Or.inr (by omega))
  intro s hs
  exact key (rk s + 1) s hs (by omega)

/-- an `ε`-approximate fixed point of `Brew` that agrees with an exact fixed point `w` on the
absorbing states is within `(rank + 1)·ε` of `w` -/
theorem brew_error_bound (hrk : Ranked o rewards nodes rk R) (hwf : NodesWF o nodes)
    (x w : Array K) (ε : K) (hε : 0 ≤ ε)
    (hx : ∀ s < o.size, |Brew o rewards nodes x s - x.getD s 0| ≤ ε)
    (hw : ∀ s < o.size, Brew o rewards nodes w s = w.getD s 0)
    (hxw : ∀ s < o.size, Absorbing o rewards nodes s → x.getD s 0 = w.getD s 0) :
    ∀ s < o.size, |x.getD s 0 - w.getD s 0| ≤ ((rk s : K) + 1) * ε := by
  have key : ∀ m, ∀ s < o.size, rk s < m →
      |x.getD s 0 - w.getD s 0| ≤ ((rk s : K) + 1) * ε := by
    intro m
    induction m with
    | zero => intro s _ h; omega
    | succ m ih =>
      intro s hs hm
      have hrk0 : (0 : K) ≤ (rk s : K) := Nat.cast_nonneg _
      by_cases ha : Absorbing o rewards nodes s
      · rw [hxw s hs ha, sub_self, abs_zero]
        exact mul_nonneg (by linarith) hε
      · have hsucc : ∀ t ∈ nodes.getD s [], |x.getD t.tgt 0 - w.getD t.tgt 0| ≤ (rk s : K) * ε := by
          intro t ht
          obtain ⟨htn, h⟩ := hrk.step s hs ha t ht
          rcases h with h | h
          · rw [hxw _ htn h, sub_self, abs_zero]
            exact mul_nonneg hrk0 hε
          · refine le_trans (ih _ htn (by omega)) (mul_le_mul_of_nonneg_right ?_ hε)
            exact_mod_cast h
        have h1 := Brew_nonexp_local (o := o) (rewards := rewards) (nodes := nodes) x w s
          ((rk s : K) * ε) (mul_nonneg hrk0 hε) (hwf s hs) hsucc
        have h2 := hx s hs
        rw [hw s hs] at h1
        have h3 : x.getD s 0 - w.getD s 0 =
            (Brew o rewards nodes x s - w.getD s 0) - (Brew o rewards nodes x s - x.getD s 0) := by
          ring
        rw [h3]
        refine le_trans (abs_sub _ _) ?_
        linarith
  intro s hs
  exact key (rk s + 1) s hs (by omega)

/-- one Jacobi step of the reward equations -/
def jac (o : Array Owner) (rewards : Array K) (nodes : Array (List (Tr K))) (x : Array K) :
    Array K :=
  (Array.range o.size).map (fun s => Brew o rewards nodes x s)

theorem jac_size (x : Array K) : (jac o rewards nodes x).size = o.size := by simp [jac]

theorem jac_getD (x : Array K) {s : Nat} (hs : s < o.size) :
    (jac o rewards nodes x).getD s 0 = Brew o rewards nodes x s := by
  simp [jac, Array.getD, hs]

/-- a ranked node list has an exact solution of its reward equations: `R + 1` Jacobi steps from
the zero vector -/
theorem exactRew_exists (hrk : Ranked o rewards nodes rk R) :
    ∃ w : Array K, w.size = o.size ∧ ExactRew o rewards nodes w := by
  have key : ∀ k, ∃ x : Array K, x.size = o.size ∧
      (∀ s < o.size, Low o rewards nodes rk k s → Brew o rewards nodes x s = x.getD s 0) ∧
      ∀ s < o.size, Absorbing o rewards nodes s → x.getD s 0 = 0 := by
    intro k
    induction k with
    | zero =>
      refine ⟨Array.replicate o.size 0, by simp, ?_, ?_⟩
      · intro s hs hlow
        have ha : Absorbing o rewards nodes s := hlow.elim id (fun h => absurd h (Nat.not_lt_zero _))
        exact Brew_absorbing _ ha
      · intro s hs _
        simp [Array.getD, hs]
    | succ k ih =>
      obtain ⟨x, hsz, hfix, habs⟩ := ih
      have hagree : ∀ s < o.size, Low o rewards nodes rk k s →
          (jac o rewards nodes x).getD s 0 = x.getD s 0 := by
        intro s hs hlow
        rw [jac_getD x hs, hfix s hs hlow]
      refine ⟨jac o rewards nodes x, jac_size x, ?_, ?_⟩
      · intro s hs hlow
        rw [jac_getD x hs]
        by_cases hk : Low o rewards nodes rk k s
        · by_cases ha : Absorbing o rewards nodes s
          · rw [Brew_absorbing _ ha, Brew_absorbing _ ha]
            exact hagree s hs hk
          · apply Brew_congr
            intro t ht
            obtain ⟨htn, hlt⟩ := hrk.low_succ k s hs hk ha t ht
            exact hagree _ htn hlt
        · apply Brew_congr
          intro t ht
          obtain ⟨htn, hlt⟩ := hrk.low_dep k s hs hlow hk t ht
          exact hagree _ htn hlt
      · intro s hs ha
        rw [hagree s hs (Or.inl ha)]
        exact habs s hs ha
  obtain ⟨w, hsz, hfix, habs⟩ := key (R + 1)
  exact ⟨w, hsz, fun s hs => hfix s hs (hrk.low_all le_rfl s hs), habs⟩

end Brew

/-! ### the reward loop -/

section Loop
variable {rnd : K → Int} {o : Array Owner} {rewards : Array K} {nodes : Array (List (Tr K))}
  {reach : Array K} {rk : Nat → Nat} {R : Nat}

/-- the absorbing states are settled from the start -/
theorem stab_low_zero (n : Nat) (rk : Nat → Nat) (v : RewVecs K) :
    Term.Stab rnd o rewards nodes reach n (Low o rewards nodes rk 0) v := by
  intro s hs hD w hw
  have ha : Absorbing o rewards nodes s := hD.elim id (fun h => absurd h (Nat.not_lt_zero _))
  obtain ⟨ho, hr0, t, hrow, ht, hp1⟩ := ha
  rw [Term.stepRew_absorbing s ho hr0 t hrow ht hp1 w, hw s hs hD]

/-- an `.ok` run of the reward loop on a ranked node list, started with the states of `Low k`
settled, performs some number `m` of sweeps and ends with the states of `Low (k + m)` settled -/
theorem viRew_low (hrk : Ranked o rewards nodes rk R) (thr : K) (fuel : Nat) :
    ∀ (k : Nat) (diff : K) (v : RewVecs K) (i : Nat) (r : RewVecs K × Nat),
      Term.Sz o.size v →
      Term.Stab rnd o rewards nodes reach o.size (Low o rewards nodes rk k) v →
      viRew rnd o rewards nodes reach thr fuel diff v i = .ok r →
      ∃ m, r.2 = i + m ∧ Term.Sz o.size r.1 ∧
        Term.Stab rnd o rewards nodes reach o.size (Low o rewards nodes rk (k + m)) r.1 := by
  induction fuel with
  | zero =>
    intro k diff v i r hsz hst h
    unfold viRew at h
    split_ifs at h
    cases h
    exact ⟨0, rfl, hsz, hst⟩
  | succ fuel ih =>
    intro k diff v i r hsz hst h
    unfold viRew at h
    split_ifs at h with hd
    · simp only [bind, Except.bind] at h
      cases hs : sweepRew rnd o rewards nodes reach v with
      | error e => rw [hs] at h; cases h
      | ok r' =>
        rw [hs] at h
        obtain ⟨hsz', hst'⟩ := Term.stab_sweep rfl (D' := Low o rewards nodes rk (k + 1)) hsz hst
          (fun s h => h.mono (Nat.le_succ k)) (hrk.low_dep k) hs
        obtain ⟨m, hm, h1, h2⟩ := ih (k + 1) _ _ _ _ hsz' hst' h
        refine ⟨m + 1, by omega, h1, ?_⟩
        rwa [show k + (m + 1) = k + 1 + m by omega]
    · cases h
      exact ⟨0, rfl, hsz, hst⟩

/-- a settled state satisfies its reward equation -/
theorem stab_fixed {n : Nat} {D : Nat → Prop} {v : RewVecs K}
    (h : Term.Stab rnd o rewards nodes reach n D v) (s : Nat) (hs : s < n) (hD : D s) :
    Brew o rewards nodes v.er s = v.er.getD s 0 := by
  have := h s hs hD v (fun _ _ _ => rfl)
  exact (stepRew_fst rnd o rewards nodes reach v s _ _ _ this).symm

/-- a sweep whose reported change is 0 produces a fixed point of `Brew` (whatever the
probabilities) -/
theorem sweep_zero_fixed {v w : RewVecs K}
    (h : sweepRew rnd o rewards nodes reach v = .ok (w, 0)) (s : Nat) (hs : s < o.size)
    (hlt : s < v.er.size) : Brew o rewards nodes w.er s = w.er.getD s 0 := by
  obtain ⟨a, t, hst, hval, _, hor⟩ := sweepRew_expose Comp.er h s hs hlt
  obtain ⟨e, m, p⟩ := t
  have he := stepRew_fst rnd o rewards nodes reach a s e m p hst
  change w.er.getD s 0 = e at hval
  rw [hval, he]
  apply Brew_congr
  intro t _
  rcases hor t.tgt with h1 | h1
  · rw [h1]
    have := sweepRew_change_le Comp.er h t.tgt
    change |w.er.getD t.tgt 0 - v.er.getD t.tgt 0| ≤ 0 at this
    exact sub_eq_zero.mp (abs_nonpos_iff.mp this)
  · exact h1.symm

/-- a sweep leaves the expected reward of an absorbing state alone -/
theorem sweep_absorbing_keep {s : Nat} (ha : Absorbing o rewards nodes s) (c : K) {x y : RewVecs K}
    {d : K} (hx : x.er.getD s 0 = c)
    (h : sweepRew rnd o rewards nodes reach x = .ok (y, d)) : y.er.getD s 0 = c := by
  refine sweepRewFrom_inv (fun x => x.er.getD s 0 = c) (List.range o.size) ?_ (x, 0) (y, d) hx h
  intro a s' t _ ha' hst
  have hv := vec_updAcc Comp.er a s' t
  change (updAcc a s' t).1.er = a.1.er.setIfInBounds s' t.1 at hv
  rw [hv, getD_setIfInBounds]
  split_ifs with hc
  · obtain ⟨rfl, _⟩ := hc
    obtain ⟨ho, hr0, u, hrow, hu, hp1⟩ := ha
    rw [Term.stepRew_absorbing s' ho hr0 u hrow hu hp1 a.1] at hst
    injection hst with hst
    rw [← hst]
    exact ha'
  · exact ha'

end Loop

/-! ### the reward phase of `solve` -/

section Solve
variable {rnd : K → Int} {thr : K} {fuel : Nat} {prune : Bool} {g : Game K} {out : SolveOut K}
  {rk : Nat → Nat} {R : Nat}

/-- the reported expected reward of an absorbing state of the conditioned game is 0 -/
theorem solve_absorbing_zero (H : solve rnd thr fuel prune g = .ok out) :
    ∀ s, Absorbing g.owners g.rewards out.nodes s → out.rewards.getD s 0 = 0 := by
  intro s ha
  exact (solve_run H (fun x => x.er.getD s 0 = 0) ha.2.1
    (fun x y d hx h => sweep_absorbing_keep ha 0 hx h)).1

/-- on ranked conditioned lists, the reported expected rewards satisfy the reward equation at
every state that is absorbing or of rank below the number of sweeps performed -/
theorem solve_low_fixed (H : solve rnd thr fuel prune g = .ok out)
    (hrk : Ranked g.owners g.rewards out.nodes rk R) :
    ∀ s < g.owners.size, Low g.owners g.rewards out.nodes rk out.itRew s →
      Brew g.owners g.rewards out.nodes out.rewards s = out.rewards.getD s 0 := by
  have hvi := (C02.rew_result H).2.2
  obtain ⟨m, hm, _, hst⟩ := viRew_low hrk thr fuel 0 1 _ 0 _ (init_sized H)
    (stab_low_zero _ rk _) hvi
  simp only [Nat.zero_add] at hm hst
  rw [← hm] at hst
  intro s hs hlow
  exact stab_fixed hst s hs hlow

/-- the reported expected rewards of a run whose last sweep reported change 0 are a fixed point -/
theorem solve_zero_fixed (H : solve rnd thr fuel prune g = .ok out) (v : RewVecs K)
    (hsw : sweepRew rnd g.owners g.rewards out.nodes out.probs v =
      .ok ({ er := out.rewards, ermr := out.rewMinReach, pmr := out.probMinRew }, 0)) :
    ∀ s < g.owners.size,
      Brew g.owners g.rewards out.nodes out.rewards s = out.rewards.getD s 0 := by
  intro s hs
  have hsz : v.er.size = g.owners.size := by
    rw [← (C02.rew_size H).1]; exact (sweepRew_size Comp.er hsw).symm
  exact sweep_zero_fixed hsw s hs (by rw [hsz]; exact hs)

/-- with threshold 0 the last sweep of an `.ok` run reported change 0 -/
theorem solve_thr_zero_sweep (hthr : thr = 0) (H : solve rnd thr fuel prune g = .ok out) :
    ∃ v : RewVecs K, sweepRew rnd g.owners g.rewards out.nodes out.probs v =
      .ok ({ er := out.rewards, ermr := out.rewMinReach, pmr := out.probMinRew }, 0) := by
  rcases C02.rew_stop H with ⟨h, _⟩ | ⟨v, d, _, _, _, _, _, hsw, hd, hd0, _⟩
  · exact absurd (by rw [hthr]; exact zero_lt_one) h
  · have : d = 0 := le_antisymm (by rw [hthr] at hd; exact not_lt.mp hd) hd0
    exact ⟨v, by rw [← this]; exact hsw⟩

end Solve

/-! ### arg-max / arg-min lists -/

section ArgMax

/-- the arg-max list of the rounded values depends on the values of the successors only -/
theorem argmax_congr (rnd : K → Int) (x w : Array K) (row : List (Tr K))
    (h : ∀ t ∈ row, x.getD t.tgt 0 = w.getD t.tgt 0) :
    row.filter (fun t => rnd (x.getD t.tgt 0) ==
        row.foldl (fun m t => max m (rnd (x.getD t.tgt 0))) 0) =
      row.filter (fun t => rnd (w.getD t.tgt 0) ==
        row.foldl (fun m t => max m (rnd (w.getD t.tgt 0))) 0) := by
  have hf : row.foldl (fun m t => max m (rnd (x.getD t.tgt 0))) 0 =
      row.foldl (fun m t => max m (rnd (w.getD t.tgt 0))) 0 :=
    List.foldl_ext _ _ _ (fun a t ht => by rw [h t ht])
  rw [hf]
  exact List.filter_congr (fun t ht => by rw [h t ht])

/-- the arg-min list of the rounded values depends on the values of the successors only -/
theorem argmin_congr (rnd : K → Int) (x w : Array K) (t0 : Tr K) (rest : List (Tr K))
    (h : ∀ t ∈ t0 :: rest, x.getD t.tgt 0 = w.getD t.tgt 0) :
    (t0 :: rest).filter (fun t => rnd (x.getD t.tgt 0) ==
        (t0 :: rest).foldl (fun m t => min m (rnd (x.getD t.tgt 0))) (rnd (x.getD t0.tgt 0))) =
      (t0 :: rest).filter (fun t => rnd (w.getD t.tgt 0) ==
        (t0 :: rest).foldl (fun m t => min m (rnd (w.getD t.tgt 0))) (rnd (w.getD t0.tgt 0))) := by
  have hf : (t0 :: rest).foldl (fun m t => min m (rnd (x.getD t.tgt 0))) (rnd (x.getD t0.tgt 0)) =
      (t0 :: rest).foldl (fun m t => min m (rnd (w.getD t.tgt 0))) (rnd (w.getD t0.tgt 0)) := by
    rw [h t0 List.mem_cons_self]
    exact List.foldl_ext _ _ _ (fun a t ht => by rw [h t ht])
  rw [hf]
  exact List.filter_congr (fun t ht => by rw [h t ht])

/-- a rounding function that is strictly monotone on the values of the row is monotone there -/
theorem rnd_mono_of_strict (rnd : K → Int) (w : Array K) (row : List (Tr K))
    (hmono : ∀ t ∈ row, ∀ t' ∈ row, w.getD t.tgt 0 < w.getD t'.tgt 0 →
      rnd (w.getD t.tgt 0) < rnd (w.getD t'.tgt 0)) :
    ∀ t ∈ row, ∀ t' ∈ row, w.getD t.tgt 0 ≤ w.getD t'.tgt 0 →
      rnd (w.getD t.tgt 0) ≤ rnd (w.getD t'.tgt 0) := by
  intro t ht t' ht' hle
  rcases lt_or_eq_of_le hle with h | h
  · exact le_of_lt (hmono t ht t' ht' h)
  · rw [h]

/-- under a rounding function that is strictly monotone on the values of the row and does not
round them below 0, the arg-max list of the rounded values (maximum clamped below by 0) is the
arg-max list of the values themselves, ties included -/
theorem argmax_exact (rnd : K → Int) (w : Array K) (row : List (Tr K))
    (hmono : ∀ t ∈ row, ∀ t' ∈ row, w.getD t.tgt 0 < w.getD t'.tgt 0 →
      rnd (w.getD t.tgt 0) < rnd (w.getD t'.tgt 0))
    (hnn : ∀ t ∈ row, 0 ≤ rnd (w.getD t.tgt 0)) :
    row.filter (fun t => rnd (w.getD t.tgt 0) ==
        row.foldl (fun m t => max m (rnd (w.getD t.tgt 0))) 0) =
      row.filter (fun t => decide (∀ t' ∈ row, w.getD t'.tgt 0 ≤ w.getD t.tgt 0)) := by
  obtain ⟨h0, hub, hatt⟩ := C04.foldl_max_spec (fun t : Tr K => rnd (w.getD t.tgt 0)) 0 row
  have hle := rnd_mono_of_strict rnd w row hmono
  apply List.filter_congr
  intro t ht
  rw [Bool.eq_iff_iff]
  simp only [beq_iff_eq, decide_eq_true_eq]
  constructor
  · intro hM t' ht'
    by_contra hlt
    have := hmono t ht t' ht' (not_le.mp hlt)
    have := hub t' ht'
    omega
  · intro hall
    rcases hatt with hM | ⟨u, hu, hM⟩
    · have := hub t ht
      have := hnn t ht
      omega
    · have h1 := hle u hu t ht (hall u hu)
      have h2 := hub t ht
      omega

/-- dually: the arg-min list of the rounded values, started at the first successor, is the
arg-min list of the values themselves -/
theorem argmin_exact (rnd : K → Int) (w : Array K) (t0 : Tr K) (rest : List (Tr K))
    (hmono : ∀ t ∈ t0 :: rest, ∀ t' ∈ t0 :: rest, w.getD t.tgt 0 < w.getD t'.tgt 0 →
      rnd (w.getD t.tgt 0) < rnd (w.getD t'.tgt 0)) :
    (t0 :: rest).filter (fun t => rnd (w.getD t.tgt 0) ==
        (t0 :: rest).foldl (fun m t => min m (rnd (w.getD t.tgt 0))) (rnd (w.getD t0.tgt 0))) =
      (t0 :: rest).filter
        (fun t => decide (∀ t' ∈ t0 :: rest, w.getD t.tgt 0 ≤ w.getD t'.tgt 0)) := by
  obtain ⟨h0, hlb, hatt⟩ := C04.foldl_min_spec (fun t : Tr K => rnd (w.getD t.tgt 0))
    (rnd (w.getD t0.tgt 0)) (t0 :: rest)
  have hle := rnd_mono_of_strict rnd w (t0 :: rest) hmono
  apply List.filter_congr
  intro t ht
  rw [Bool.eq_iff_iff]
  simp only [beq_iff_eq, decide_eq_true_eq]
  constructor
  · intro hM t' ht'
    by_contra hlt
    have := hmono t' ht' t ht (not_le.mp hlt)
    have := hlb t' ht'
    omega
  · intro hall
    have key : ∀ u ∈ t0 :: rest, rnd (w.getD u.tgt 0) =
        (t0 :: rest).foldl (fun m t => min m (rnd (w.getD t.tgt 0))) (rnd (w.getD t0.tgt 0)) →
        rnd (w.getD t.tgt 0) =
          (t0 :: rest).foldl (fun m t => min m (rnd (w.getD t.tgt 0))) (rnd (w.getD t0.tgt 0)) := by
      intro u hu hM
      have h1 := hle t ht u hu (hall u hu)
      have h2 := hlb t ht
      omega
    rcases hatt with hM | ⟨u, hu, hM⟩
    · exact key t0 List.mem_cons_self hM.symm
    · exact key u hu hM

end ArgMax


/-! ### concrete data for the non-vacuity examples of C02Ranked / C05Ranked -/

namespace Examples
open CR.Examples CR.Rew.Examples

/-- ranks of the conditioned lists `g7nodes` of the 7-state game: `0 → 1 → 3 → 5`, state 5 (the
final state) is absorbing, states 2, 4, 6 are emptied -/
def rk7 : Nat → Nat := fun s => if s = 0 then 2 else if s = 1 then 1 else 0

theorem g7_ranked : Ranked g7.owners g7.rewards g7nodes rk7 2 := by
  refine ⟨fun s _ => by unfold rk7; split_ifs <;> omega, ?_⟩
  intro s hs hna t ht
  have hs' : s < 7 := hs
  have : s = 0 ∨ s = 1 ∨ s = 2 ∨ s = 3 ∨ s = 4 ∨ s = 5 ∨ s = 6 := by omega
  rcases this with rfl | rfl | rfl | rfl | rfl | rfl | rfl
  · simp [g7nodes, tr] at ht; subst ht; exact ⟨by decide, Or.inr (by decide)⟩
  · simp [g7nodes, tr] at ht; subst ht; exact ⟨by decide, Or.inr (by decide)⟩
  · simp [g7nodes] at ht
  · simp [g7nodes, tr] at ht; subst ht
    exact ⟨by decide, Or.inl ⟨rfl, rfl, tr "" 1 5, rfl, rfl, rfl⟩⟩
  · simp [g7nodes] at ht
  · exact absurd ⟨rfl, rfl, tr "" 1 5, rfl, rfl, rfl⟩ hna
  · simp [g7nodes] at ht

set_option synthInstance.maxSize 400 in
/-- the run of the 6-state game (pruning on): three sweeps of the reward loop -/
theorem g6_run_aux : ∃ out, solve (roundRat 6) thr 1000 true g6 = .ok out ∧
    ((out.rewards, out.rewMinReach, out.probMinRew), (out.itRew, out.probs),
        (out.nodes, out.finalStrat)) =
      ((g6vecs.er, g6vecs.ermr, g6vecs.pmr), (3, g6probs),
        (g6nodes, #[some ["c"], some ["x", "y"], none, none, none, none])) :=
  exists_ok_of_toOption_map (by unfold solve solveReach; rw [g6_ord]; decide +kernel)

theorem g6_run : ∃ out, solve (roundRat 6) thr 1000 true g6 = .ok out ∧
    out.rewards = g6vecs.er ∧ out.rewMinReach = g6vecs.ermr ∧ out.probMinRew = g6vecs.pmr ∧
    out.itRew = 3 ∧ out.probs = g6probs ∧ out.nodes = g6nodes ∧
    out.finalStrat = #[some ["c"], some ["x", "y"], none, none, none, none] := by
  obtain ⟨out, H, h⟩ := g6_run_aux
  simp only [Prod.mk.injEq] at h
  obtain ⟨⟨h1, h2, h3⟩, ⟨h4, h5⟩, h6, h7⟩ := h
  exact ⟨out, H, h1, h2, h3, h4, h5, h6, h7⟩

/-- ranks of the conditioned lists `g6nodes`: `0 → {1, 2, 3}`, `1 → {4, 2}`, `2 → 4`, `3 → 4`,
state 4 (the final state) is absorbing, state 5 is emptied -/
def rk6 : Nat → Nat := fun s => if s = 0 then 2 else if s = 1 then 1 else 0

theorem g6_absorbing : Absorbing g6.owners g6.rewards g6nodes 4 :=
  ⟨rfl, rfl, tr "" 1 4, rfl, rfl, rfl⟩

theorem g6_ranked : Ranked g6.owners g6.rewards g6nodes rk6 2 := by
  refine ⟨fun s _ => by unfold rk6; split_ifs <;> omega, ?_⟩
  intro s hs hna t ht
  have hs' : s < 6 := hs
  have : s = 0 ∨ s = 1 ∨ s = 2 ∨ s = 3 ∨ s = 4 ∨ s = 5 := by omega
  rcases this with rfl | rfl | rfl | rfl | rfl | rfl
  · simp [g6nodes, tr] at ht
    rcases ht with rfl | rfl | rfl <;> exact ⟨by decide, Or.inr (by decide)⟩
  · simp [g6nodes, tr] at ht
    rcases ht with rfl | rfl
    · exact ⟨by decide, Or.inl g6_absorbing⟩
    · exact ⟨by decide, Or.inr (by decide)⟩
  · simp [g6nodes, tr] at ht; subst ht; exact ⟨by decide, Or.inl g6_absorbing⟩
  · simp [g6nodes, tr] at ht; subst ht; exact ⟨by decide, Or.inl g6_absorbing⟩
  · exact absurd g6_absorbing hna
  · simp [g6nodes] at ht

/-- a chain `0 → 1 → 2 → 3` of probabilistic states with rewards 1/4, 1/4, 1/4, 0 into the
absorbing state 3: with threshold 1/2 the reward loop stops after ONE sweep (reported change 1/4)
at the value 1/2 for state 0, whose exact expected reward is 3/4 -/
def chainO : Array Owner := #[.prob, .prob, .prob, .prob]
def chainR : Array Rat := #[1/4, 1/4, 1/4, 0]
def chainN : Array (List (Tr Rat)) := #[[tr "" 1 1], [tr "" 1 2], [tr "" 1 3], [tr "" 1 3]]

theorem chain_ranked : Ranked chainO chainR chainN (fun s => 3 - s) 3 := by
  refine ⟨fun s _ => by omega, ?_⟩
  intro s hs hna t ht
  have hs' : s < 4 := hs
  have : s = 0 ∨ s = 1 ∨ s = 2 ∨ s = 3 := by omega
  rcases this with rfl | rfl | rfl | rfl
  · simp [chainN, tr] at ht; subst ht; exact ⟨by decide, Or.inr (by decide)⟩
  · simp [chainN, tr] at ht; subst ht; exact ⟨by decide, Or.inr (by decide)⟩
  · simp [chainN, tr] at ht; subst ht; exact ⟨by decide, Or.inr (by decide)⟩
  · exact absurd ⟨rfl, rfl, tr "" 1 3, rfl, rfl, rfl⟩ hna

end Examples

end CR.Rank
