/-
Helper lemmas for C08 / C11: indexing of `grid` / `gridOpt`, of concatenations of groups of a
common length, and of the three generated games.  No Mathlib import.
-/
import CR.Model.Gen
import CR.Spec.Roborta

namespace CR.GridLemmas
open CR CR.Gen CR.Roborta

/-! ### `getD` over `++`, `replicate`, uniform `flatten` -/

theorem getD_append_left {β : Type} (l r : List β) (x : Nat) (d : β) (h : x < l.length) :
    (l ++ r).getD x d = l.getD x d := by
  simp [List.getD_eq_getElem?_getD, List.getElem?_append_left h]

theorem getD_append_right {β : Type} (l r : List β) (x : Nat) (d : β) (h : l.length ≤ x) :
    (l ++ r).getD x d = r.getD (x - l.length) d := by
  simp [List.getD_eq_getElem?_getD, List.getElem?_append_right h]

theorem getD_append_add {β : Type} (l r : List β) (y : Nat) (d : β) :
    (l ++ r).getD (l.length + y) d = r.getD y d := by
  rw [getD_append_right _ _ _ _ (Nat.le_add_right _ _), Nat.add_sub_cancel_left]

theorem getD_replicate_append {β : Type} (m : Nat) (a : β) (l : List β) (x : Nat) (d : β) :
    (List.replicate m a ++ l).getD x d = if x < m then a else l.getD (x - m) d := by
  by_cases h : x < m
  · rw [getD_append_left _ _ _ _ (by simpa using h)]
    simp [List.getD_eq_getElem?_getD, h]
  · rw [getD_append_right _ _ _ _ (by simpa using Nat.le_of_not_lt h)]
    simp [h]

theorem getD_replicate_self {β : Type} (m : Nat) (a : β) (x : Nat) :
    (List.replicate m a).getD x a = a := by
  simp [List.getD_eq_getElem?_getD, List.getElem?_replicate]
  split <;> rfl

theorem getD_mem_of_lt {β : Type} (l : List β) (x : Nat) (d : β) (h : x < l.length) :
    l.getD x d ∈ l := by
  simp [List.getD_eq_getElem?_getD, List.getElem?_eq_getElem h]

theorem idx_lt {L W i j : Nat} (hi : i < L) (hj : j < W) : i * W + j < L * W := by
  calc i * W + j < i * W + W := by omega
    _ = (i + 1) * W := by rw [Nat.succ_mul]
    _ ≤ L * W := Nat.mul_le_mul_right W hi

/-- `gs` is a list of groups of length `n`: element `x` of group `k` sits at `k * n + x` -/
theorem getD_flatten_uniform {β : Type} (n : Nat) (d : β) :
    ∀ (gs : List (List β)), (∀ g ∈ gs, g.length = n) → ∀ (k x : Nat), x < n →
      gs.flatten.getD (k * n + x) d = (gs.getD k []).getD x d
  | [], _, k, x, _ => by simp
  | g :: gs, h, 0, x, hx => by
    have hg : g.length = n := h g (by simp)
    simp only [List.flatten_cons, Nat.zero_mul, Nat.zero_add, List.getD_cons_zero]
    exact getD_append_left _ _ _ _ (by omega)
  | g :: gs, h, k + 1, x, hx => by
    have hg : g.length = n := h g (by simp)
    have : (k + 1) * n + x = g.length + (k * n + x) := by rw [Nat.succ_mul, hg]; omega
    rw [List.flatten_cons, this, getD_append_add, List.getD_cons_succ]
    exact getD_flatten_uniform n d gs (fun g' hg' => h g' (by simp [hg'])) k x hx

theorem length_flatten_uniform {β : Type} (n : Nat) :
    ∀ (gs : List (List β)), (∀ g ∈ gs, g.length = n) → gs.flatten.length = gs.length * n
  | [], _ => by simp
  | g :: gs, h => by
    have hg : g.length = n := h g (by simp)
    have := length_flatten_uniform n gs (fun g' hg' => h g' (by simp [hg']))
    rw [List.flatten_cons, List.length_append, this, hg, List.length_cons, Nat.succ_mul]
    omega

/-! ### `grid`, `gridOpt` -/

theorem grid_eq_flatten {β : Type} (L W : Nat) (f : Nat → Nat → β) :
    grid L W f = ((List.range L).map (fun i => (List.range W).map (fun j => f i j))).flatten := by
  simp [grid, List.flatMap]

@[simp] theorem grid_length {β : Type} (L W : Nat) (f : Nat → Nat → β) :
    (grid L W f).length = L * W := by
  rw [grid_eq_flatten, length_flatten_uniform W]
  · simp
  · intro g hg
    simp only [List.mem_map] at hg
    obtain ⟨i, _, rfl⟩ := hg
    simp

theorem grid_getD {β : Type} (L W : Nat) (f : Nat → Nat → β) (i j : Nat) (d : β)
    (hi : i < L) (hj : j < W) : (grid L W f).getD (i * W + j) d = f i j := by
  rw [grid_eq_flatten, getD_flatten_uniform W d _ _ i j hj]
  · simp [List.getD_eq_getElem?_getD, List.getElem?_range hi, List.getElem?_range hj]
  · intro g hg
    simp only [List.mem_map] at hg
    obtain ⟨i, _, rfl⟩ := hg
    simp

theorem mem_grid {β : Type} {L W : Nat} {f : Nat → Nat → β} {y : β} :
    y ∈ grid L W f ↔ ∃ i, i < L ∧ ∃ j, j < W ∧ y = f i j := by
  simp only [grid, List.mem_flatMap, List.mem_range, List.mem_map]
  constructor
  · rintro ⟨i, hi, j, hj, rfl⟩; exact ⟨i, hi, j, hj, rfl⟩
  · rintro ⟨i, hi, j, hj, rfl⟩; exact ⟨i, hi, j, hj, rfl⟩

theorem filterMap_eq_map_of_some {β γ : Type} (f : β → Option γ) (g : β → γ) :
    ∀ (l : List β), (∀ x ∈ l, f x = some (g x)) → l.filterMap f = l.map g
  | [], _ => rfl
  | x :: l, h => by
    have hx : f x = some (g x) := h x (by simp)
    rw [List.filterMap_cons, hx, List.map_cons,
      filterMap_eq_map_of_some f g l (fun y hy => h y (by simp [hy]))]

/-- when no iteration skips, `gridOpt` is a `grid` -/
theorem gridOpt_eq_grid {β : Type} (L W : Nat) (f : Nat → Nat → Option β) (g : Nat → Nat → β)
    (h : ∀ i, i < L → ∀ j, j < W → f i j = some (g i j)) : gridOpt L W f = grid L W g := by
  unfold gridOpt grid
  rw [List.flatMap_def, List.flatMap_def]
  congr 1
  apply List.map_congr_left
  intro i hi
  exact filterMap_eq_map_of_some _ _ _ (fun j hj => h i (by simpa using hi) j (by simpa using hj))

/-! ### the row functions of the transition builders -/

section Rows
set_option linter.unusedSectionVars false
variable {α : Type} [Sub α] [OfNat α 0] [OfNat α 1]

def p2Row (W : Nat) (b : Board) (offR offY i j : Nat) : List (Tr α) :=
  if b.mv i j = 3 then [act "Green" (offR + i * W + j)]
  else [act "Green" (offR + i * W + j), act "Yellow" (offY + i * W + j)]

def downRow (L W off : Nat) (winning : Option Nat) (i j : Nat) : List (Tr α) :=
  match winning with
  | none => [act "Down" (off + i * W + j)]
  | some w => if i < L - 1 then [act "Down" (off + i * W + j + W)] else [act "Down" w]

def lrPair (W offL offR i j : Nat) : Tr α × Tr α :=
  if offL ≠ offR then (act "Left" (offL + i * W + j), act "Right" (offR + i * W + j))
  else if j = 0 then (act "Left" (offL + i * W + W - 1), act "Right" (offR + i * W + (j + 1) % W))
  else if j = W - 1 then (act "Left" (offL + i * W + j - 1), act "Right" (offR + i * W))
  else (act "Left" (offL + i * W + j - 1), act "Right" (offR + i * W + j + 1))

def lrRow (W : Nat) (b : Board) (offL offR i j : Nat) : List (Tr α) :=
  match b.mv i j with
  | 0 => [(lrPair W offL offR i j).1]
  | 1 => [(lrPair W offL offR i j).1, (lrPair W offL offR i j).2]
  | 2 => [(lrPair W offL offR i j).2]
  | _ => [act "Etha" 0]

def tileRow (W : Nat) (p : α) (b : Board) (off lose i j : Nat) : List (Tr α) :=
  if b.ls i j = 1 then [pr p lose, pr (1 - p) (off + i * W + j)]
  else [pr 1 (off + i * W + j)]

def rdRow (L W : Nat) (p : α) (off win i j : Nat) : List (Tr α) :=
  [pr p (off + i * W + j),
   if i < L - 1 then pr (1 - p) (off + i * W + j + W) else pr (1 - p) win]

def rlRow (W : Nat) (p : α) (off i j : Nat) : List (Tr α) :=
  [pr p (off + i * W + j),
   if j = 0 then pr (1 - p) (off + i * W + W - 1) else pr (1 - p) (off + i * W + j - 1)]

def rrRow (W : Nat) (p : α) (off i j : Nat) : List (Tr α) :=
  [pr p (off + i * W + j),
   if j = W - 1 then pr (1 - p) (off + i * W) else pr (1 - p) (off + i * W + j + 1)]

def dlrRow (W : Nat) (b : Board) (offD offL offR i j : Nat) : List (Tr α) :=
  match b.mv i j with
  | 0 => [act "Down" (offD + i * W + j), act "Left" (offL + i * W + j)]
  | 1 => [act "Down" (offD + i * W + j), act "Left" (offL + i * W + j),
          act "Right" (offR + i * W + j)]
  | 2 => [act "Down" (offD + i * W + j), act "Right" (offR + i * W + j)]
  | _ => [act "Down" (offD + i * W + j)]

def lightRow (W : Nat) (p : α) (offOk offBreak i j : Nat) : List (Tr α) :=
  [pr p (offBreak + i * W + j), pr (1 - p) (offOk + i * W + j)]

theorem playerTwo_eq (L W : Nat) (b : Board) (offR offY : Nat) :
    (playerTwo L W b offR offY : List (List (Tr α))) = grid L W (p2Row W b offR offY) := rfl

theorem playerOneDown_eq (L W off : Nat) (w : Option Nat) :
    (playerOneDown L W off w : List (List (Tr α))) = grid L W (downRow L W off w) := rfl

theorem probTileBreak_eq (L W : Nat) (p : α) (b : Board) (off lose : Nat) :
    probTileBreak L W p b off lose = grid L W (tileRow W p b off lose) := rfl

theorem probRobotDownBreak_eq (L W : Nat) (p : α) (off win : Nat) :
    probRobotDownBreak L W p off win = grid L W (rdRow L W p off win) := rfl

theorem probRobotLeftBreak_eq (L W : Nat) (p : α) (off : Nat) :
    probRobotLeftBreak L W p off = grid L W (rlRow W p off) := rfl

theorem probRobotRightBreak_eq (L W : Nat) (p : α) (off : Nat) :
    probRobotRightBreak L W p off = grid L W (rrRow W p off) := rfl

theorem probLightBreak_eq (L W : Nat) (p : α) (offOk offBreak : Nat) :
    probLightBreak L W p offOk offBreak = grid L W (lightRow W p offOk offBreak) := rfl

theorem mv_cases {L W : Nat} {b : Board} (hmv : ∀ i < L, ∀ j < W, b.mv i j ≤ 3) {i j : Nat}
    (hi : i < L) (hj : j < W) : b.mv i j = 0 ∨ b.mv i j = 1 ∨ b.mv i j = 2 ∨ b.mv i j = 3 := by
  have := hmv i hi j hj
  omega

theorem playerOneLeftRight_eq {L W : Nat} {b : Board} (hmv : ∀ i < L, ∀ j < W, b.mv i j ≤ 3)
    (offL offR : Nat) :
    (playerOneLeftRight L W b offL offR : List (List (Tr α)))
      = grid L W (lrRow W b offL offR) := by
  unfold playerOneLeftRight
  apply gridOpt_eq_grid
  intro i hi j hj
  rcases mv_cases hmv hi hj with h | h | h | h <;> simp [lrRow, lrPair, h]

theorem playerOneDownLeftRight_eq {L W : Nat} {b : Board}
    (hmv : ∀ i < L, ∀ j < W, b.mv i j ≤ 3) (offD offL offR : Nat) :
    (playerOneDownLeftRight L W b offD offL offR : List (List (Tr α)))
      = grid L W (dlrRow W b offD offL offR) := by
  unfold playerOneDownLeftRight
  apply gridOpt_eq_grid
  intro i hi j hj
  rcases mv_cases hmv hi hj with h | h | h | h <;> simp [dlrRow, h]

/-- groups that are all grids, followed by a tail -/
theorem gridGroups_getD {β : Type} (L W : Nat) (fs : List (Nat → Nat → β)) (tail : List β)
    (d : β) (k i j : Nat) (hk : k < fs.length) (hi : i < L) (hj : j < W) :
    ((fs.map (grid L W)).flatten ++ tail).getD (k * (L * W) + (i * W + j)) d
      = (fs.getD k (fun _ _ => d)) i j := by
  have hu : ∀ g ∈ fs.map (grid L W), g.length = L * W := by
    intro g hg
    simp only [List.mem_map] at hg
    obtain ⟨f, _, rfl⟩ := hg
    simp
  have hx := idx_lt hi hj (L := L) (W := W)
  rw [getD_append_left, getD_flatten_uniform (L * W) d _ hu k _ hx]
  · have : (fs.map (grid L W)).getD k [] = grid L W (fs.getD k (fun _ _ => d)) := by
      simp [List.getD_eq_getElem?_getD, List.getElem?_eq_getElem hk]
    rw [this, grid_getD _ _ _ _ _ _ hi hj]
  · rw [length_flatten_uniform (L * W) _ hu, List.length_map]
    calc k * (L * W) + (i * W + j) < k * (L * W) + L * W := by omega
      _ = (k + 1) * (L * W) := by rw [Nat.succ_mul]
      _ ≤ fs.length * (L * W) := Nat.mul_le_mul_right _ hk

theorem gridGroups_getD_tail {β : Type} (L W : Nat) (fs : List (Nat → Nat → β)) (tail : List β)
    (d : β) (y : Nat) :
    ((fs.map (grid L W)).flatten ++ tail).getD (fs.length * (L * W) + y) d = tail.getD y d := by
  have hu : ∀ g ∈ fs.map (grid L W), g.length = L * W := by
    intro g hg
    simp only [List.mem_map] at hg
    obtain ⟨f, _, rfl⟩ := hg
    simp
  have := length_flatten_uniform (L * W) _ hu
  rw [List.length_map] at this
  rw [← this, getD_append_add]

theorem gridGroups_length {β : Type} (L W : Nat) (fs : List (Nat → Nat → β)) (tail : List β) :
    ((fs.map (grid L W)).flatten ++ tail).length = fs.length * (L * W) + tail.length := by
  have hu : ∀ g ∈ fs.map (grid L W), g.length = L * W := by
    intro g hg
    simp only [List.mem_map] at hg
    obtain ⟨f, _, rfl⟩ := hg
    simp
  rw [List.length_append, length_flatten_uniform (L * W) _ hu, List.length_map]

/-! ### the three games as groups -/

def rowsA (L W : Nat) (b : Board) (p : α) : List (Nat → Nat → List (Tr α)) :=
  [p2Row W b (1 * (L * W)) (2 * (L * W)),
   downRow L W (3 * (L * W)) (some (L * W * 4 + 1)),
   lrRow W b (3 * (L * W)) (3 * (L * W)),
   tileRow W p b 0 (L * W * 4)]

def rowsB (L W : Nat) (b : Board) (pT pR : α) : List (Nat → Nat → List (Tr α)) :=
  [p2Row W b (1 * (L * W)) (2 * (L * W)),
   downRow L W (4 * (L * W)) none,
   lrRow W b (5 * (L * W)) (6 * (L * W)),
   tileRow W pT b 0 (L * W * 7),
   rdRow L W pR (3 * (L * W)) (L * W * 7 + 1),
   rlRow W pR (3 * (L * W)),
   rrRow W pR (3 * (L * W))]

def rowsC (L W : Nat) (b : Board) (pT pR pL : α) : List (Nat → Nat → List (Tr α)) :=
  [p2Row W b (8 * (L * W)) (9 * (L * W)),
   downRow L W (5 * (L * W)) none,
   lrRow W b (6 * (L * W)) (7 * (L * W)),
   dlrRow W b (5 * (L * W)) (6 * (L * W)) (7 * (L * W)),
   tileRow W pT b 0 (L * W * 10),
   rdRow L W pR (4 * (L * W)) (L * W * 10 + 1),
   rlRow W pR (4 * (L * W)),
   rrRow W pR (4 * (L * W)),
   lightRow W pL (1 * (L * W)) (3 * (L * W)),
   lightRow W pL (2 * (L * W)) (3 * (L * W))]

theorem gameA_tl {L W : Nat} {b : Board} (hmv : ∀ i < L, ∀ j < W, b.mv i j ≤ 3) (p : α) :
    (gameA L W b p).tl = ((rowsA L W b p).map (grid L W)).flatten
      ++ [[pr 1 (L * W * 4)], [pr 1 (L * W * 4 + 1)]] := by
  simp only [gameA, rowsA, playerOneLeftRight_eq (α := α) hmv, playerTwo_eq, playerOneDown_eq,
    probTileBreak_eq, List.map_cons, List.map_nil, List.flatten_cons, List.flatten_nil, List.append_assoc,
    List.append_nil]

theorem gameB_tl {L W : Nat} {b : Board} (hmv : ∀ i < L, ∀ j < W, b.mv i j ≤ 3) (pT pR : α) :
    (gameB L W b pT pR).tl = ((rowsB L W b pT pR).map (grid L W)).flatten
      ++ [[pr 1 (L * W * 7)], [pr 1 (L * W * 7 + 1)]] := by
  simp only [gameB, rowsB, playerOneLeftRight_eq (α := α) hmv, playerTwo_eq, playerOneDown_eq,
    probTileBreak_eq, probRobotDownBreak_eq, probRobotLeftBreak_eq, probRobotRightBreak_eq,
    List.map_cons, List.map_nil, List.flatten_cons, List.flatten_nil, List.append_assoc,
    List.append_nil]

theorem gameC_tl {L W : Nat} {b : Board} (hmv : ∀ i < L, ∀ j < W, b.mv i j ≤ 3) (pT pR pL : α) :
    (gameC L W b pT pR pL).tl = ((rowsC L W b pT pR pL).map (grid L W)).flatten
      ++ [[pr 1 (L * W * 10)], [pr 1 (L * W * 10 + 1)]] := by
  simp only [gameC, rowsC, playerOneLeftRight_eq (α := α) hmv, playerOneDownLeftRight_eq (α := α) hmv,
    playerTwo_eq, playerOneDown_eq, probLightBreak_eq,
    probTileBreak_eq, probRobotDownBreak_eq, probRobotLeftBreak_eq, probRobotRightBreak_eq,
    List.map_cons, List.map_nil, List.flatten_cons, List.flatten_nil, List.append_assoc,
    List.append_nil]

end Rows

end CR.GridLemmas
