/-
Helper lemmas for C08 / C11: indexing of `grid` / `gridOpt`, of concatenations of groups of a
common length, and of the three generated games.  No Mathlib import.
-/
import CR.Model.Gen
import CR.Spec.Roborta

namespace CR.GridLemmas
open CR CR.Gen CR.Roborta

/-! ### `getD` over `++`, `replicate`, uniform `flatten` -/

theorem getD_append_left {β : Type} (l r : List β) (x : Nat) (d : β) (h : x < l.length) :
    (l ++ r).getD x d = l.getD x d := by
  simp [List.getD_eq_getElem?_getD, List.getElem?_append_left h]

theorem getD_append_right {β : Type} (l r : List β) (x : Nat) (d : β) (h : l.length ≤ x) :
    (l ++ r).getD x d = r.getD (x - l.length) d := by
  simp [List.getD_eq_getElem?_getD, List.getElem?_append_right h]

theorem getD_append_add {β : Type} (l r : List β) (y : Nat) (d : β) :
    (l ++ r).getD (l.length + y) d = r.getD y d := by
  rw [getD_append_right _ _ _ _ (Nat.le_add_right _ _), Nat.add_sub_cancel_left]

theorem getD_replicate_append {β : Type} (m : Nat) (a : β) (l : List β) (x : Nat) (d : β) :
    (List.replicate m a ++ l).getD x d = if x < m then a else l.getD (x - m) d := by
  by_cases h : x < m
  · rw [getD_append_left _ _ _ _ (by simpa using h)]
    simp [List.getD_eq_getElem?_getD, h]
  · rw [getD_append_right _ _ _ _ (by simpa using Nat.le_of_not_lt h)]
    simp [h]

theorem getD_replicate_self {β : Type} (m : Nat) (a : β) (x : Nat) :
    (List.replicate m a).getD x a = a := by
  simp [List.getD_eq_getElem?_getD, List.getElem?_replicate]
  split <;> rfl

theorem getD_mem_of_lt {β : Type} (l : List β) (x : Nat) (d : β) (h : x < l.length) :
    l.getD x d ∈ l := by
  simp [List.getD_eq_getElem?_getD, List.getElem?_eq_getElem h]

theorem idx_lt {L W i j : Nat} (hi : i < L) (hj : j < W) : i * W + j < L * W := by
  calc i * W + j < i * W + W := by omega
    _ = (i + 1) * W := by rw [Nat.succ_mul]
    _ ≤ L * W := Nat.mul_le_mul_right W hi

/-- `gs` is a list of groups of length `n`: element `x` of group `k` sits at `k * n + x` -/
theorem getD_flatten_uniform {β : Type} (n : Nat) (d : β) :
    ∀ (gs : List (List β)), (∀ g ∈ gs, g.length = n) → ∀ (k x : Nat), x < n →
      gs.flatten.getD (k * n + x) d = (gs.getD k []).getD x d
  | [], _, k, x, _ => by simp
  | g :: gs, h, 0, x, hx => by
    have hg : g.length = n := h g (by simp)
    simp only [List.flatten_cons, Nat.zero_mul, Nat.zero_add, List.getD_cons_zero]
    exact getD_append_left _ _ _ _ (by omega)
  | g :: gs, h, k + 1, x, hx => by
    have hg : g.length = n := h g (by simp)
    have : (k + 1) * n + x = g.length + (k * n + x) := by rw [Nat.succ_mul, hg]; omega
    rw [List.flatten_cons, this, getD_append_add, List.getD_cons_succ]
    exact getD_flatten_uniform n d gs (fun g' hg' => h g' (by simp [hg'])) k x hx

theorem length_flatten_uniform {β : Type} (n : Nat) :
    ∀ (gs : List (List β)), (∀ g ∈ gs, g.length = n) → gs.flatten.length = gs.length * n
  | [], _ => by simp
  | g :: gs, h => by
    have hg : g.length = n := h g (by simp)
    have := length_flatten_uniform n gs (fun g' hg' => h g' (by simp [hg']))
    rw [List.flatten_cons, List.length_append, this, hg, List.length_cons, Nat.succ_mul]
    omega

/-! ### `grid`, `gridOpt` -/

theorem grid_eq_flatten {β : Type} (L W : Nat) (f : Nat → Nat → β) :
    grid L W f = ((List.range L).map (fun i => (List.range W).map (fun j => f i j))).flatten := by
  simp [grid, List.flatMap]

@[simp] theorem grid_length {β : Type} (L W : Nat) (f : Nat → Nat → β) :
    (grid L W f).length = L * W := by
  rw [grid_eq_flatten, length_flatten_uniform W]
  · simp
  · intro g hg
    simp only [List.mem_map] at hg
    obtain ⟨i, _, rfl⟩ := hg
    simp

theorem grid_getD {β : Type} (L W : Nat) (f : Nat → Nat → β) (i j : Nat) (d : β)
    (hi : i < L) (hj : j < W) : (grid L W f).getD (i * W + j) d = f i j := by
  rw [grid_eq_flatten, getD_flatten_uniform W d _ _ i j hj]
  · simp [List.getD_eq_getElem?_getD, List.getElem?_range hi, List.getElem?_range hj]
  · intro g hg
    simp only [List.mem_map] at hg
    obtain ⟨i, _, rfl⟩ := hg
    simp

theorem mem_grid {β : Type} {L W : Nat} {f : Nat → Nat → β} {y : β} :
    y ∈ grid L W f ↔ ∃ i, i < L ∧ ∃ j, j < W ∧ y = f i j := by
  simp only [grid, List.mem_flatMap, List.mem_range, List.mem_map]
  constructor
  · rintro ⟨i, hi, j, hj, rfl⟩; exact ⟨i, hi, j, hj, rfl⟩
  · rintro ⟨i, hi, j, hj, rfl⟩; exact ⟨i, hi, j, hj, rfl⟩

theorem filterMap_eq_map_of_some {β γ : Type} (f : β → Option γ) (g : β → γ) :
    ∀ (l : List β), (∀ x ∈ l, f x = some (g x)) → l.filterMap f = l.map g
  | [], _ => rfl
  | x :: l, h => by
    have hx : f x = some (g x) := h x (by simp)
    rw [List.filterMap_cons, hx, List.map_cons,
      filterMap_eq_map_of_some f g l (fun y hy => h y (by simp [hy]))]

/-- when no iteration skips, `gridOpt` is a `grid` -/
theorem gridOpt_eq_grid {β : Type} (L W : Nat) (f : Nat → Nat → Option β) (g : Nat → Nat → β)
    (h : ∀ i, i < L → ∀ j, j < W → f i j = some (g i j)) : gridOpt L W f = grid L W g := by
  unfold gridOpt grid
  rw [List.flatMap_def, List.flatMap_def]
  congr 1
  apply List.map_congr_left
  intro i hi
  exact filterMap_eq_map_of_some _ _ _ (fun j hj => h i (by simpa using hi) j (by simpa using hj))

/-! ### the row functions of the transition builders -/

section Rows
set_option linter.unusedSectionVars false
variable {α : Type} [Sub α] [OfNat α 0] [OfNat α 1]

def p2Row (W : Nat) (b : Board) (offR offY i j : Nat) : List (Tr α) :=
  if b.mv i j = 3 then [act "Green" (offR + i * W + j)]
  else [act "Green" (offR + i * W + j), act "Yellow" (offY + i * W + j)]

def downRow (L W off : Nat) (winning : Option Nat) (i j : Nat) : List (Tr α) :=
  match winning with
  | none => [act "Down" (off + i * W + j)]
  | some w => if i < L - 1 then [act "Down" (off + i * W + j + W)] else [act "Down" w]

def lrPair (W offL offR i j : Nat) : Tr α × Tr α :=
  if offL ≠ offR then (act "Left" (offL + i * W + j), act "Right" (offR + i * W + j))
  else if j = 0 then (act "Left" (offL + i * W + W - 1), act "Right" (offR + i * W + (j + 1) % W))
  else if j = W - 1 then (act "Left" (offL + i * W + j - 1), act "Right" (offR + i * W))
  else (act "Left" (offL + i * W + j - 1), act "Right" (offR + i * W + j + 1))

def lrRow (W : Nat) (b : Board) (offL offR i j : Nat) : List (Tr α) :=
  match b.mv i j with
  | 0 => [(lrPair W offL offR i j).1]
  | 1 => [(lrPair W offL offR i j).1, (lrPair W offL offR i j).2]
  | 2 => [(lrPair W offL offR i j).2]
  | _ => [act "Etha" 0]

def tileRow (W : Nat) (p : α) (b : Board) (off lose i j : Nat) : List (Tr α) :=
  if b.ls i j = 1 then [pr p lose, pr (1 - p) (off + i * W + j)]
  else [pr 1 (off + i * W + j)]

def rdRow (L W : Nat) (p : α) (off win i j : Nat) : List (Tr α) :=
  [pr p (off + i * W + j),
   if i < L - 1 then pr (1 - p) (off + i * W + j + W) else pr (1 - p) win]

def rlRow (W : Nat) (p : α) (off i j : Nat) : List (Tr α) :=
  [pr p (off + i * W + j),
   if j = 0 then pr (1 - p) (off + i * W + W - 1) else pr (1 - p) (off + i * W + j - 1)]

def rrRow (W : Nat) (p : α) (off i j : Nat) : List (Tr α) :=
  [pr p (off + i * W + j),
   if j = W - 1 then pr (1 - p) (off + i * W) else pr (1 - p) (off + i * W + j + 1)]

def dlrRow (W : Nat) (b : Board) (offD offL offR i j : Nat) : List (Tr α) :=
  match b.mv i j with
  | 0 => [act "Down" (offD + i * W + j), act "Left" (offL + i * W + j)]
  | 1 => [act "Down" (offD + i * W + j), act "Left" (offL + i * W + j),
          act "Right" (offR + i * W + j)]
  | 2 => [act "Down" (offD + i * W + j), act "Right" (offR + i * W + j)]
  | _ => [act "Down" (offD + i * W + j)]

def lightRow (W : Nat) (p : α) (offOk offBreak i j : Nat) : List (Tr α) :=
  [pr p (offBreak + i * W + j), pr (1 - p) (offOk + i * W + j)]

theorem playerTwo_eq (L W : Nat) (b : Board) (offR offY : Nat) :
    (playerTwo L W b offR offY : List (List (Tr α))) = grid L W (p2Row W b offR offY) := rfl

theorem playerOneDown_eq (L W off : Nat) (w : Option Nat) :
    (playerOneDown L W off w : List (List (Tr α))) = grid L W (downRow L W off w) := rfl

theorem probTileBreak_eq (L W : Nat) (p : α) (b : Board) (off lose : Nat) :
    probTileBreak L W p b off lose = grid L W (tileRow W p b off lose) := rfl

theorem probRobotDownBreak_eq (L W : Nat) (p : α) (off win : Nat) :
    probRobotDownBreak L W p off win = grid L W (rdRow L W p off win) := rfl

theorem probRobotLeftBreak_eq (L W : Nat) (p : α) (off : Nat) :
    probRobotLeftBreak L W p off = grid L W (rlRow W p off) := rfl

theorem probRobotRightBreak_eq (L W : Nat) (p : α) (off : Nat) :
    probRobotRightBreak L W p off = grid L W (rrRow W p off) := rfl

theorem probLightBreak_eq (L W : Nat) (p : α) (offOk offBreak : Nat) :
    probLightBreak L W p offOk offBreak = grid L W (lightRow W p offOk offBreak) := rfl

theorem mv_cases {L W : Nat} {b : Board} (hmv : ∀ i < L, ∀ j < W, b.mv i j ≤ 3) {i j : Nat}
    (hi : i < L) (hj : j < W) : b.mv i j = 0 ∨ b.mv i j = 1 ∨ b.mv i j = 2 ∨ b.mv i j = 3 := by
  have := hmv i hi j hj
  omega

theorem playerOneLeftRight_eq {L W : Nat} {b : Board} (hmv : ∀ i < L, ∀ j < W, b.mv i j ≤ 3)
    (offL offR : Nat) :
    (playerOneLeftRight L W b offL offR : List (List (Tr α)))
      = grid L W (lrRow W b offL offR) := by
  unfold playerOneLeftRight
  apply gridOpt_eq_grid
  intro i hi j hj
  rcases mv_cases hmv hi hj with h | h | h | h <;> simp [lrRow, lrPair, h]

theorem playerOneDownLeftRight_eq {L W : Nat} {b : Board}
    (hmv : ∀ i < L, ∀ j < W, b.mv i j ≤ 3) (offD offL offR : Nat) :
    (playerOneDownLeftRight L W b offD offL offR : List (List (Tr α)))
      = grid L W (dlrRow W b offD offL offR) := by
  unfold playerOneDownLeftRight
  apply gridOpt_eq_grid
  intro i hi j hj
  rcases mv_cases hmv hi hj with h | h | h | h <;> simp [dlrRow, h]

/-- groups that are all grids, followed by a tail -/
theorem gridGroups_getD {β : Type} (L W : Nat) (fs : List (Nat → Nat → β)) (tail : List β)
    (d : β) (k i j : Nat) (hk : k < fs.length) (hi : i < L) (hj : j < W) :
    ((fs.map (grid L W)).flatten ++ tail).getD (k * (L * W) + (i * W + j)) d
      = (fs.getD k (fun _ _ => d)) i j := by
  have hu : ∀ g ∈ fs.map (grid L W), g.length = L * W := by
    intro g hg
    simp only [List.mem_map] at hg
    obtain ⟨f, _, rfl⟩ := hg
    simp
  have hx := idx_lt hi hj (L := L) (W := W)
  rw [getD_append_left, getD_flatten_uniform (L * W) d _ hu k _ hx]
  · have : (fs.map (grid L W)).getD k [] = grid L W (fs.getD k (fun _ _ => d)) := by
      simp [List.getD_eq_getElem?_getD, List.getElem?_eq_getElem hk]
    rw [this, grid_getD _ _ _ _ _ _ hi hj]
  · rw [length_flatten_uniform (L * W) _ hu, List.length_map]
    calc k * (L * W) + (i * W + j) < k * (L * W) + L * W := by omega
      _ = (k + 1) * (L * W) := by rw [Nat.succ_mul]
      _ ≤ fs.length * (L * W) := Nat.mul_le_mul_right _ hk

theorem gridGroups_getD_tail {β : Type} (L W : Nat) (fs : List (Nat → Nat → β)) (tail : List β)
    (d : β) (y : Nat) :
    ((fs.map (grid L W)).flatten ++ tail).getD (fs.length * (L * W) + y) d = tail.getD y d := by
  have hu : ∀ g ∈ fs.map (grid L W), g.length = L * W := by
    intro g hg
    simp only [List.mem_map] at hg
    obtain ⟨f, _, rfl⟩ := hg
    simp
  have := length_flatten_uniform (L * W) _ hu
  rw [List.length_map] at this
  rw [← this, getD_append_add]

theorem gridGroups_length {β : Type} (L W : Nat) (fs : List (Nat → Nat → β)) (tail : List β) :
    ((fs.map (grid L W)).flatten ++ tail).length = fs.length * (L * W) + tail.length := by
  have hu : ∀ g ∈ fs.map (grid L W), g.length = L * W := by
    intro g hg
    simp only [List.mem_map] at hg
    obtain ⟨f, _, rfl⟩ := hg
    simp
  rw [List.length_append, length_flatten_uniform (L * W) _ hu, List.length_map]

/-! ### the three games as groups -/

def rowsA (L W : Nat) (b : Board) (p : α) : List (Nat → Nat → List (Tr α)) :=
  [p2Row W b (1 * (L * W)) (2 * (L * W)),
   downRow L W (3 * (L * W)) (some (L * W * 4 + 1)),
   lrRow W b (3 * (L * W)) (3 * (L * W)),
   tileRow W p b 0 (L * W * 4)]

def rowsB (L W : Nat) (b : Board) (pT pR : α) : List (Nat → Nat → List (Tr α)) :=
  [p2Row W b (1 * (L * W)) (2 * (L * W)),
   downRow L W (4 * (L * W)) none,
   lrRow W b (5 * (L * W)) (6 * (L * W)),
   tileRow W pT b 0 (L * W * 7),
   rdRow L W pR (3 * (L * W)) (L * W * 7 + 1),
   rlRow W pR (3 * (L * W)),
   rrRow W pR (3 * (L * W))]

def rowsC (L W : Nat) (b : Board) (pT pR pL : α) : List (Nat → Nat → List (Tr α)) :=
  [p2Row W b (8 * (L * W)) (9 * (L * W)),
   downRow L W (5 * (L * W)) none,
   lrRow W b (6 * (L * W)) (7 * (L * W)),
   dlrRow W b (5 * (L * W)) (6 * (L * W)) (7 * (L * W)),
   tileRow W pT b 0 (L * W * 10),
   rdRow L W pR (4 * (L * W)) (L * W * 10 + 1),
   rlRow W pR (4 * (L * W)),
   rrRow W pR (4 * (L * W)),
   lightRow W pL (1 * (L * W)) (3 * (L * W)),
   lightRow W pL (2 * (L * W)) (3 * (L * W))]

theorem gameA_tl {L W : Nat} {b : Board} (hmv : ∀ i < L, ∀ j < W, b.mv i j ≤ 3) (p : α) :
    (gameA L W b p).tl = ((rowsA L W b p).map (grid L W)).flatten
      ++ [[pr 1 (L * W * 4)], [pr 1 (L * W * 4 + 1)]] := by
  simp only [gameA, rowsA, playerOneLeftRight_eq (α := α) hmv, playerTwo_eq, playerOneDown_eq,
    probTileBreak_eq, List.map_cons, List.map_nil, List.flatten_cons, List.flatten_nil, List.append_assoc,
    List.append_nil]

theorem gameB_tl {L W : Nat} {b : Board} (hmv : ∀ i < L, ∀ j < W, b.mv i j ≤ 3) (pT pR : α) :
    (gameB L W b pT pR).tl = ((rowsB L W b pT pR).map (grid L W)).flatten
      ++ [[pr 1 (L * W * 7)], [pr 1 (L * W * 7 + 1)]] := by
  simp only [gameB, rowsB, playerOneLeftRight_eq (α := α) hmv, playerTwo_eq, playerOneDown_eq,
    probTileBreak_eq, probRobotDownBreak_eq, probRobotLeftBreak_eq, probRobotRightBreak_eq,
    List.map_cons, List.map_nil, List.flatten_cons, List.flatten_nil, List.append_assoc,
    List.append_nil]

theorem gameC_tl {L W : Nat} {b : Board} (hmv : ∀ i < L, ∀ j < W, b.mv i j ≤ 3) (pT pR pL : α) :
    (gameC L W b pT pR pL).tl = ((rowsC L W b pT pR pL).map (grid L W)).flatten
      ++ [[pr 1 (L * W * 10)], [pr 1 (L * W * 10 + 1)]] := by
  simp only [gameC, rowsC, playerOneLeftRight_eq (α := α) hmv, playerOneDownLeftRight_eq (α := α) hmv,
    playerTwo_eq, playerOneDown_eq, probLightBreak_eq,
    probTileBreak_eq, probRobotDownBreak_eq, probRobotLeftBreak_eq, probRobotRightBreak_eq,
    List.map_cons, List.map_nil, List.flatten_cons, List.flatten_nil, List.append_assoc,
    List.append_nil]

theorem leftOf_zero {W : Nat} (hW : 0 < W) : leftOf W 0 = W - 1 := by
  unfold leftOf; rw [Nat.zero_add]; exact Nat.mod_eq_of_lt (by omega)
theorem leftOf_pos {W j : Nat} (h0 : 0 < j) (hj : j < W) : leftOf W j = j - 1 := by
  unfold leftOf
  have : j + W - 1 = (j - 1) + W := by omega
  rw [this, Nat.add_mod_right, Nat.mod_eq_of_lt (by omega)]
theorem rightOf_last {W : Nat} (hW : 0 < W) : rightOf W (W - 1) = 0 := by
  unfold rightOf; rw [Nat.sub_add_cancel hW, Nat.mod_self]
theorem rightOf_lt {W j : Nat} (h : j + 1 < W) : rightOf W j = j + 1 := Nat.mod_eq_of_lt h

theorem lrPair_wrap {W j : Nat} (hW : 0 < W) (hj : j < W) (off i : Nat) :
    (lrPair W off off i j : Tr α × Tr α)
      = (act "Left" (off + i * W + leftOf W j), act "Right" (off + i * W + rightOf W j)) := by
  unfold lrPair
  simp only [ne_eq, not_true_eq_false, if_false]
  by_cases h0 : j = 0
  · subst h0
    rw [if_pos rfl, leftOf_zero hW]
    simp only [act, rightOf, Prod.mk.injEq, Tr.mk.injEq, true_and, and_true]
    omega
  · by_cases h1 : j = W - 1
    · have hr : rightOf W j = 0 := by rw [h1]; exact rightOf_last hW
      rw [if_neg h0, if_pos h1, hr, leftOf_pos (by omega) hj]
      simp only [act, Prod.mk.injEq, Tr.mk.injEq, true_and]
      omega
    · rw [if_neg h0, if_neg h1, leftOf_pos (Nat.pos_of_ne_zero h0) hj,
        rightOf_lt (show j + 1 < W by omega)]
      simp only [act, Prod.mk.injEq, Tr.mk.injEq, true_and]
      omega

theorem lrPair_ne {W offL offR : Nat} (h : offL ≠ offR) (i j : Nat) :
    (lrPair W offL offR i j : Tr α × Tr α)
      = (act "Left" (offL + i * W + j), act "Right" (offR + i * W + j)) := by
  simp [lrPair, h]
end Rows

/-! ### `enc`, case by case -/

@[simp] theorem enc_A_light (L W i j : Nat) : enc .A L W (.light i j) = i * W + j := rfl
@[simp] theorem enc_A_down (L W i j : Nat) : enc .A L W (.down i j) = 1 * (L * W) + i * W + j := rfl
@[simp] theorem enc_A_lr (L W i j : Nat) : enc .A L W (.lr i j) = 2 * (L * W) + i * W + j := rfl
@[simp] theorem enc_A_land (L W i j : Nat) : enc .A L W (.land i j) = 3 * (L * W) + i * W + j := rfl
@[simp] theorem enc_A_lose (L W : Nat) : enc .A L W .lose = 4 * (L * W) := rfl
@[simp] theorem enc_A_win (L W : Nat) : enc .A L W .win = 4 * (L * W) + 1 := rfl
@[simp] theorem enc_B_light (L W i j : Nat) : enc .B L W (.light i j) = i * W + j := rfl
@[simp] theorem enc_B_down (L W i j : Nat) : enc .B L W (.down i j) = 1 * (L * W) + i * W + j := rfl
@[simp] theorem enc_B_lr (L W i j : Nat) : enc .B L W (.lr i j) = 2 * (L * W) + i * W + j := rfl
@[simp] theorem enc_B_land (L W i j : Nat) : enc .B L W (.land i j) = 3 * (L * W) + i * W + j := rfl
@[simp] theorem enc_B_tryDown (L W i j : Nat) : enc .B L W (.tryDown i j) = 4 * (L * W) + i * W + j := rfl
@[simp] theorem enc_B_tryLeft (L W i j : Nat) : enc .B L W (.tryLeft i j) = 5 * (L * W) + i * W + j := rfl
@[simp] theorem enc_B_tryRight (L W i j : Nat) : enc .B L W (.tryRight i j) = 6 * (L * W) + i * W + j := rfl
@[simp] theorem enc_B_lose (L W : Nat) : enc .B L W .lose = 7 * (L * W) := rfl
@[simp] theorem enc_B_win (L W : Nat) : enc .B L W .win = 7 * (L * W) + 1 := rfl
@[simp] theorem enc_C_light (L W i j : Nat) : enc .C L W (.light i j) = i * W + j := rfl
@[simp] theorem enc_C_down (L W i j : Nat) : enc .C L W (.down i j) = 1 * (L * W) + i * W + j := rfl
@[simp] theorem enc_C_lr (L W i j : Nat) : enc .C L W (.lr i j) = 2 * (L * W) + i * W + j := rfl
@[simp] theorem enc_C_free (L W i j : Nat) : enc .C L W (.free i j) = 3 * (L * W) + i * W + j := rfl
@[simp] theorem enc_C_land (L W i j : Nat) : enc .C L W (.land i j) = 4 * (L * W) + i * W + j := rfl
@[simp] theorem enc_C_tryDown (L W i j : Nat) : enc .C L W (.tryDown i j) = 5 * (L * W) + i * W + j := rfl
@[simp] theorem enc_C_tryLeft (L W i j : Nat) : enc .C L W (.tryLeft i j) = 6 * (L * W) + i * W + j := rfl
@[simp] theorem enc_C_tryRight (L W i j : Nat) : enc .C L W (.tryRight i j) = 7 * (L * W) + i * W + j := rfl
@[simp] theorem enc_C_lightG (L W i j : Nat) : enc .C L W (.lightG i j) = 8 * (L * W) + i * W + j := rfl
@[simp] theorem enc_C_lightY (L W i j : Nat) : enc .C L W (.lightY i j) = 9 * (L * W) + i * W + j := rfl
@[simp] theorem enc_C_lose (L W : Nat) : enc .C L W .lose = 10 * (L * W) := rfl
@[simp] theorem enc_C_win (L W : Nat) : enc .C L W .win = 10 * (L * W) + 1 := rfl


theorem enc_below (v : Variant) (L W i j : Nat) :
    enc v L W (below L i j)
      = if i + 1 < L then enc v L W (.land (i + 1) j) else enc v L W .win := by
  unfold below; split <;> rfl

section Bisim
variable {α : Type} [Sub α] [OfNat α 0] [OfNat α 1]

theorem tl_bisim_A {L W : Nat} {b : Board} (hb : BoardOK L W b) (q : Params α) (s : RState)
    (hs : Valid .A L W b s) :
    (gameA L W b q.pTile).tl.getD (enc .A L W s) []
      = (rules .A L W b q s).map
          (fun x => ({ act := x.act, p := x.p, tgt := enc .A L W x.tgt } : Tr α)) := by
  obtain ⟨hL, hW, -, -, -, -, -, -, hmv⟩ := hb
  rw [gameA_tl hmv]
  cases s with
  | light i j =>
    obtain ⟨hi, hj⟩ := hs
    have e : enc .A L W (.light i j) = 0 * (L * W) + (i * W + j) := by simp
    rw [e, gridGroups_getD L W _ _ _ 0 i j (by simp [rowsA]) hi hj]
    simp [rowsA, p2Row, rules, a, act]
    split <;> simp
  | down i j =>
    obtain ⟨hi, hj⟩ := hs
    have e : enc .A L W (.down i j) = 1 * (L * W) + (i * W + j) := by simp; omega
    rw [e, gridGroups_getD L W _ _ _ 1 i j (by simp [rowsA]) hi hj]
    by_cases h : i + 1 < L
    · have h' : i < L - 1 := by omega
      simp [rowsA, downRow, rules, a, act, enc_below, h, h', Nat.add_mul]
      omega
    · have h' : ¬ i < L - 1 := by omega
      simp [rowsA, downRow, rules, a, act, enc_below, h, h']
      omega
  | lr i j =>
    obtain ⟨hi, hj, h3⟩ := hs
    have e : enc .A L W (.lr i j) = 2 * (L * W) + (i * W + j) := by simp; omega
    rw [e, gridGroups_getD L W _ _ _ 2 i j (by simp [rowsA]) hi hj]
    rcases mv_cases hmv hi hj with h | h | h | h
    · simp [rowsA, lrRow, lrPair_wrap (α := α) hW hj, rules, a, act, h]
    · simp [rowsA, lrRow, lrPair_wrap (α := α) hW hj, rules, a, act, h]
    · simp [rowsA, lrRow, lrPair_wrap (α := α) hW hj, rules, a, act, h]
    · exact absurd h h3
  | land i j =>
    obtain ⟨hi, hj⟩ := hs
    have e : enc .A L W (.land i j) = 3 * (L * W) + (i * W + j) := by simp; omega
    rw [e, gridGroups_getD L W _ _ _ 3 i j (by simp [rowsA]) hi hj]
    simp [rowsA, tileRow, rules, c, pr]
    split <;> simp <;> omega
  | lose =>
    have e : enc .A L W .lose = (rowsA L W b q.pTile).length * (L * W) + 0 := by simp [rowsA]
    rw [e, gridGroups_getD_tail]
    simp [rules, c, pr]; omega
  | win =>
    have e : enc .A L W .win = (rowsA L W b q.pTile).length * (L * W) + 1 := by simp [rowsA]
    rw [e, gridGroups_getD_tail]
    simp [rules, c, pr]; omega
  | free i j => exact absurd hs.1 (by decide)
  | lightG i j => exact absurd hs.1 (by decide)
  | lightY i j => exact absurd hs.1 (by decide)
  | tryDown i j => exact absurd rfl hs.1
  | tryLeft i j => exact absurd rfl hs.1
  | tryRight i j => exact absurd rfl hs.1

theorem tl_bisim_B {L W : Nat} {b : Board} (hb : BoardOK L W b) (q : Params α) (s : RState)
    (hs : Valid .B L W b s) :
    (gameB L W b q.pTile q.pRobot).tl.getD (enc .B L W s) []
      = (rules .B L W b q s).map
          (fun x => ({ act := x.act, p := x.p, tgt := enc .B L W x.tgt } : Tr α)) := by
  obtain ⟨hL, hW, -, -, -, -, -, -, hmv⟩ := hb
  have hn : 0 < L * W := Nat.mul_pos hL hW
  rw [gameB_tl hmv]
  cases s with
  | light i j =>
    obtain ⟨hi, hj⟩ := hs
    have e : enc .B L W (.light i j) = 0 * (L * W) + (i * W + j) := by simp
    rw [e, gridGroups_getD L W _ _ _ 0 i j (by simp [rowsB]) hi hj]
    simp [rowsB, p2Row, rules, a, act]
    split <;> simp
  | down i j =>
    obtain ⟨hi, hj⟩ := hs
    have e : enc .B L W (.down i j) = 1 * (L * W) + (i * W + j) := by simp; omega
    rw [e, gridGroups_getD L W _ _ _ 1 i j (by simp [rowsB]) hi hj]
    simp [rowsB, downRow, rules, a, act]
  | lr i j =>
    obtain ⟨hi, hj, h3⟩ := hs
    have e : enc .B L W (.lr i j) = 2 * (L * W) + (i * W + j) := by simp; omega
    rw [e, gridGroups_getD L W _ _ _ 2 i j (by simp [rowsB]) hi hj]
    have hne : 5 * (L * W) ≠ 6 * (L * W) := by omega
    rcases mv_cases hmv hi hj with h | h | h | h
    · simp [rowsB, lrRow, lrPair_ne (α := α) hne, rules, a, act, h]
    · simp [rowsB, lrRow, lrPair_ne (α := α) hne, rules, a, act, h]
    · simp [rowsB, lrRow, lrPair_ne (α := α) hne, rules, a, act, h]
    · exact absurd h h3
  | land i j =>
    obtain ⟨hi, hj⟩ := hs
    have e : enc .B L W (.land i j) = 3 * (L * W) + (i * W + j) := by simp; omega
    rw [e, gridGroups_getD L W _ _ _ 3 i j (by simp [rowsB]) hi hj]
    simp [rowsB, tileRow, rules, c, pr]
    split <;> simp <;> omega
  | tryDown i j =>
    obtain ⟨-, hi, hj⟩ := hs
    have e : enc .B L W (.tryDown i j) = 4 * (L * W) + (i * W + j) := by simp; omega
    rw [e, gridGroups_getD L W _ _ _ 4 i j (by simp [rowsB]) hi hj]
    by_cases h : i + 1 < L
    · have h' : i < L - 1 := by omega
      simp [rowsB, rdRow, rules, c, pr, enc_below, h, h', Nat.add_mul]
      omega
    · have h' : ¬ i < L - 1 := by omega
      simp [rowsB, rdRow, rules, c, pr, enc_below, h, h']
      omega
  | tryLeft i j =>
    obtain ⟨-, hi, hj⟩ := hs
    have e : enc .B L W (.tryLeft i j) = 5 * (L * W) + (i * W + j) := by simp; omega
    rw [e, gridGroups_getD L W _ _ _ 5 i j (by simp [rowsB]) hi hj]
    by_cases h : j = 0
    · subst h
      simp [rowsB, rlRow, rules, c, pr, leftOf_zero hW]
      omega
    · simp [rowsB, rlRow, rules, c, pr, leftOf_pos (Nat.pos_of_ne_zero h) hj, h]
      omega
  | tryRight i j =>
    obtain ⟨-, hi, hj⟩ := hs
    have e : enc .B L W (.tryRight i j) = 6 * (L * W) + (i * W + j) := by simp; omega
    rw [e, gridGroups_getD L W _ _ _ 6 i j (by simp [rowsB]) hi hj]
    by_cases h : j = W - 1
    · have hr : rightOf W j = 0 := by rw [h]; exact rightOf_last hW
      simp [rowsB, rrRow, rules, c, pr, hr, ← h]
    · simp [rowsB, rrRow, rules, c, pr, rightOf_lt (show j + 1 < W by omega), h]
      omega
  | lose =>
    have e : enc .B L W .lose = (rowsB L W b q.pTile q.pRobot).length * (L * W) + 0 := by
      simp [rowsB]
    rw [e, gridGroups_getD_tail]
    simp [rules, c, pr]; omega
  | win =>
    have e : enc .B L W .win = (rowsB L W b q.pTile q.pRobot).length * (L * W) + 1 := by
      simp [rowsB]
    rw [e, gridGroups_getD_tail]
    simp [rules, c, pr]; omega
  | free i j => exact absurd hs.1 (by decide)
  | lightG i j => exact absurd hs.1 (by decide)
  | lightY i j => exact absurd hs.1 (by decide)

theorem tl_bisim_C {L W : Nat} {b : Board} (hb : BoardOK L W b) (q : Params α) (s : RState)
    (hs : Valid .C L W b s) :
    (gameC L W b q.pTile q.pRobot q.pLight).tl.getD (enc .C L W s) []
      = (rules .C L W b q s).map
          (fun x => ({ act := x.act, p := x.p, tgt := enc .C L W x.tgt } : Tr α)) := by
  obtain ⟨hL, hW, -, -, -, -, -, -, hmv⟩ := hb
  have hn : 0 < L * W := Nat.mul_pos hL hW
  rw [gameC_tl hmv]
  cases s with
  | light i j =>
    obtain ⟨hi, hj⟩ := hs
    have e : enc .C L W (.light i j) = 0 * (L * W) + (i * W + j) := by simp
    rw [e, gridGroups_getD L W _ _ _ 0 i j (by simp [rowsC]) hi hj]
    simp [rowsC, p2Row, rules, a, act]
    split <;> simp
  | down i j =>
    obtain ⟨hi, hj⟩ := hs
    have e : enc .C L W (.down i j) = 1 * (L * W) + (i * W + j) := by simp; omega
    rw [e, gridGroups_getD L W _ _ _ 1 i j (by simp [rowsC]) hi hj]
    simp [rowsC, downRow, rules, a, act]
  | lr i j =>
    obtain ⟨hi, hj, h3⟩ := hs
    have e : enc .C L W (.lr i j) = 2 * (L * W) + (i * W + j) := by simp; omega
    rw [e, gridGroups_getD L W _ _ _ 2 i j (by simp [rowsC]) hi hj]
    have hne : 6 * (L * W) ≠ 7 * (L * W) := by omega
    rcases mv_cases hmv hi hj with h | h | h | h
    · simp [rowsC, lrRow, lrPair_ne (α := α) hne, rules, a, act, h]
    · simp [rowsC, lrRow, lrPair_ne (α := α) hne, rules, a, act, h]
    · simp [rowsC, lrRow, lrPair_ne (α := α) hne, rules, a, act, h]
    · exact absurd h h3
  | free i j =>
    obtain ⟨-, hi, hj⟩ := hs
    have e : enc .C L W (.free i j) = 3 * (L * W) + (i * W + j) := by simp; omega
    rw [e, gridGroups_getD L W _ _ _ 3 i j (by simp [rowsC]) hi hj]
    rcases mv_cases hmv hi hj with h | h | h | h
    · simp [rowsC, dlrRow, rules, a, act, h]
    · simp [rowsC, dlrRow, rules, a, act, h]
    · simp [rowsC, dlrRow, rules, a, act, h]
    · simp [rowsC, dlrRow, rules, a, act, h]
  | land i j =>
    obtain ⟨hi, hj⟩ := hs
    have e : enc .C L W (.land i j) = 4 * (L * W) + (i * W + j) := by simp; omega
    rw [e, gridGroups_getD L W _ _ _ 4 i j (by simp [rowsC]) hi hj]
    simp [rowsC, tileRow, rules, c, pr]
    split <;> simp <;> omega
  | tryDown i j =>
    obtain ⟨-, hi, hj⟩ := hs
    have e : enc .C L W (.tryDown i j) = 5 * (L * W) + (i * W + j) := by simp; omega
    rw [e, gridGroups_getD L W _ _ _ 5 i j (by simp [rowsC]) hi hj]
    by_cases h : i + 1 < L
    · have h' : i < L - 1 := by omega
      simp [rowsC, rdRow, rules, c, pr, enc_below, h, h', Nat.add_mul]
      omega
    · have h' : ¬ i < L - 1 := by omega
      simp [rowsC, rdRow, rules, c, pr, enc_below, h, h']
      omega
  | tryLeft i j =>
    obtain ⟨-, hi, hj⟩ := hs
    have e : enc .C L W (.tryLeft i j) = 6 * (L * W) + (i * W + j) := by simp; omega
    rw [e, gridGroups_getD L W _ _ _ 6 i j (by simp [rowsC]) hi hj]
    by_cases h : j = 0
    · subst h
      simp [rowsC, rlRow, rules, c, pr, leftOf_zero hW]
      omega
    · simp [rowsC, rlRow, rules, c, pr, leftOf_pos (Nat.pos_of_ne_zero h) hj, h]
      omega
  | tryRight i j =>
    obtain ⟨-, hi, hj⟩ := hs
    have e : enc .C L W (.tryRight i j) = 7 * (L * W) + (i * W + j) := by simp; omega
    rw [e, gridGroups_getD L W _ _ _ 7 i j (by simp [rowsC]) hi hj]
    by_cases h : j = W - 1
    · have hr : rightOf W j = 0 := by rw [h]; exact rightOf_last hW
      simp [rowsC, rrRow, rules, c, pr, hr, ← h]
    · simp [rowsC, rrRow, rules, c, pr, rightOf_lt (show j + 1 < W by omega), h]
      omega
  | lightG i j =>
    obtain ⟨-, hi, hj⟩ := hs
    have e : enc .C L W (.lightG i j) = 8 * (L * W) + (i * W + j) := by simp; omega
    rw [e, gridGroups_getD L W _ _ _ 8 i j (by simp [rowsC]) hi hj]
    simp [rowsC, lightRow, rules, c, pr]
  | lightY i j =>
    obtain ⟨-, hi, hj, -⟩ := hs
    have e : enc .C L W (.lightY i j) = 9 * (L * W) + (i * W + j) := by simp; omega
    rw [e, gridGroups_getD L W _ _ _ 9 i j (by simp [rowsC]) hi hj]
    simp [rowsC, lightRow, rules, c, pr]
  | lose =>
    have e : enc .C L W .lose
        = (rowsC L W b q.pTile q.pRobot q.pLight).length * (L * W) + 0 := by
      simp [rowsC]
    rw [e, gridGroups_getD_tail]
    simp [rules, c, pr]; omega
  | win =>
    have e : enc .C L W .win
        = (rowsC L W b q.pTile q.pRobot q.pLight).length * (L * W) + 1 := by
      simp [rowsC]
    rw [e, gridGroups_getD_tail]
    simp [rules, c, pr]; omega

end Bisim
/-! ### a left inverse of `enc` on the valid situations -/

theorem div_mod_group {n x : Nat} (k : Nat) (hx : x < n) :
    (k * n + x) / n = k ∧ (k * n + x) % n = x := by
  have hn : 0 < n := by omega
  constructor
  · rw [Nat.add_comm, Nat.add_mul_div_right _ _ hn, Nat.div_eq_of_lt hx, Nat.zero_add]
  · rw [Nat.add_comm, Nat.add_mul_mod_self_right, Nat.mod_eq_of_lt hx]

def kindA (k i j : Nat) : RState :=
  match k with
  | 0 => .light i j | 1 => .down i j | 2 => .lr i j | _ => .land i j

def kindB (k i j : Nat) : RState :=
  match k with
  | 0 => .light i j | 1 => .down i j | 2 => .lr i j | 3 => .land i j
  | 4 => .tryDown i j | 5 => .tryLeft i j | _ => .tryRight i j

def kindC (k i j : Nat) : RState :=
  match k with
  | 0 => .light i j | 1 => .down i j | 2 => .lr i j | 3 => .free i j | 4 => .land i j
  | 5 => .tryDown i j | 6 => .tryLeft i j | 7 => .tryRight i j | 8 => .lightG i j
  | _ => .lightY i j

/-- decode a state number (total; only its values on `enc` of valid situations matter) -/
def dec (v : Variant) (L W : Nat) (e : Nat) : RState :=
  let n := L * W
  let k := e / n
  let i := (e % n) / W
  let j := (e % n) % W
  match v with
  | .A => if e = 4 * n then .lose else if e = 4 * n + 1 then .win else kindA k i j
  | .B => if e = 7 * n then .lose else if e = 7 * n + 1 then .win else kindB k i j
  | .C => if e = 10 * n then .lose else if e = 10 * n + 1 then .win else kindC k i j

set_option hygiene false in
/-- from `hs : Valid v L W b (_ i j)` get `hx : i * W + j < L * W`, `hi`, `hj` -/
local macro "vbounds" : tactic =>
  `(tactic| first
    | (have hi := hs.1; have hj := hs.2; have hx := idx_lt hi hj)
    | (have hi := hs.1; have hj := hs.2.1; have hx := idx_lt hi hj)
    | (have hi := hs.2.1; have hj := hs.2.2; have hx := idx_lt hi hj)
    | (have hi := hs.2.1; have hj := hs.2.2.1; have hx := idx_lt hi hj))

theorem dec_A_group {L W i j : Nat} (k : Nat) (hk : k < 4) (hi : i < L) (hj : j < W) :
    dec .A L W (k * (L * W) + (i * W + j))
      = kindA k i j := by
  have hx := idx_lt hi hj
  obtain ⟨h1, h2⟩ := div_mod_group k hx
  obtain ⟨h3, h4⟩ := div_mod_group i hj
  have hle : k * (L * W) ≤ 3 * (L * W) := Nat.mul_le_mul_right _ (by omega)
  unfold dec
  simp only []
  rw [if_neg (by omega), if_neg (by omega), h1, h2, h3, h4]

theorem dec_B_group {L W i j : Nat} (k : Nat) (hk : k < 7) (hi : i < L) (hj : j < W) :
    dec .B L W (k * (L * W) + (i * W + j))
      = kindB k i j := by
  have hx := idx_lt hi hj
  obtain ⟨h1, h2⟩ := div_mod_group k hx
  obtain ⟨h3, h4⟩ := div_mod_group i hj
  have hle : k * (L * W) ≤ 6 * (L * W) := Nat.mul_le_mul_right _ (by omega)
  unfold dec
  simp only []
  rw [if_neg (by omega), if_neg (by omega), h1, h2, h3, h4]

theorem dec_C_group {L W i j : Nat} (k : Nat) (hk : k < 10) (hi : i < L) (hj : j < W) :
    dec .C L W (k * (L * W) + (i * W + j))
      = kindC k i j := by
  have hx := idx_lt hi hj
  obtain ⟨h1, h2⟩ := div_mod_group k hx
  obtain ⟨h3, h4⟩ := div_mod_group i hj
  have hle : k * (L * W) ≤ 9 * (L * W) := Nat.mul_le_mul_right _ (by omega)
  unfold dec
  simp only []
  rw [if_neg (by omega), if_neg (by omega), h1, h2, h3, h4]

theorem dec_enc {v : Variant} {L W : Nat} {b : Board} {s : RState} (hs : Valid v L W b s) :
    dec v L W (enc v L W s) = s := by
  cases v <;> cases s <;>
    first
    | exact absurd hs.1 (by decide)
    | exact absurd rfl hs.1
    | (simp [dec]; done)
    | (simp [dec]; omega)
    | (vbounds
       first
       | exact dec_A_group 0 (by omega) hi hj
       | (simp only [enc_A_light, enc_A_down, enc_A_lr, enc_A_land, enc_B_light, enc_B_down, enc_B_lr, enc_B_land, enc_B_tryDown, enc_B_tryLeft, enc_B_tryRight, enc_C_light, enc_C_down, enc_C_lr, enc_C_free, enc_C_land, enc_C_tryDown, enc_C_tryLeft, enc_C_tryRight, enc_C_lightG, enc_C_lightY]
          first
          | (have h := dec_A_group 0 (by omega) hi hj; rw [Nat.zero_mul, Nat.zero_add] at h; exact h)
          | (have h := dec_B_group 0 (by omega) hi hj; rw [Nat.zero_mul, Nat.zero_add] at h; exact h)
          | (have h := dec_C_group 0 (by omega) hi hj; rw [Nat.zero_mul, Nat.zero_add] at h; exact h)
          | (rw [Nat.add_assoc]; exact dec_A_group _ (by omega) hi hj)
          | (rw [Nat.add_assoc]; exact dec_B_group _ (by omega) hi hj)
          | (rw [Nat.add_assoc]; exact dec_C_group _ (by omega) hi hj)))

theorem enc_injective' {v : Variant} {L W : Nat} {b : Board} {s s' : RState}
    (hs : Valid v L W b s) (hs' : Valid v L W b s') (h : enc v L W s = enc v L W s') : s = s' := by
  rw [← dec_enc hs, ← dec_enc hs', h]

/-! ### owners, rewards, sizes -/

theorem getD_of_forall_eq {β : Type} (l : List β) (d : β) (h : ∀ y ∈ l, y = d) (x : Nat) :
    l.getD x d = d := by
  by_cases hx : x < l.length
  · exact h _ (getD_mem_of_lt l x d hx)
  · simp [List.getD_eq_getElem?_getD, List.getElem?_eq_none (Nat.le_of_not_lt hx)]

theorem owners_shape (n m1 mp e : Nat) :
    (List.replicate n Owner.p2 ++ List.replicate m1 Owner.p1 ++ List.replicate mp Owner.prob
        ++ [Owner.prob, Owner.prob]).getD e Owner.prob
      = if e < n then Owner.p2 else if e < n + m1 then Owner.p1 else Owner.prob := by
  rw [List.append_assoc, List.append_assoc, getD_replicate_append]
  split
  · rfl
  · rw [getD_replicate_append]
    have : (List.replicate mp Owner.prob ++ [Owner.prob, Owner.prob]).getD (e - n - m1) Owner.prob
        = Owner.prob := by
      apply getD_of_forall_eq
      intro y hy
      simp at hy
      rcases hy with ⟨_, rfl⟩ | rfl | rfl <;> rfl
    rw [this]
    split <;> split <;> first | rfl | omega

theorem rewards_shape (fr : List Nat) (m e : Nat) :
    (fr ++ List.replicate m 0 ++ [0, 0]).getD e 0 = if e < fr.length then fr.getD e 0 else 0 := by
  rw [List.append_assoc]
  split
  · next h => exact getD_append_left _ _ _ _ h
  · next h =>
    rw [getD_append_right _ _ _ _ (Nat.le_of_not_lt h)]
    apply getD_of_forall_eq
    intro y hy
    simp at hy
    rcases hy with ⟨_, rfl⟩ | rfl | rfl <;> rfl

theorem flatRewards_eq (b : Board) : flatRewards b = b.rewards.flatten := by
  simp [flatRewards, List.flatMap_def]

theorem flatRewards_length {L W : Nat} {b : Board} (hb : BoardOK L W b) :
    (flatRewards b).length = L * W := by
  obtain ⟨-, -, -, -, h1, h2, -⟩ := hb
  rw [flatRewards_eq, length_flatten_uniform W _ h2, h1]

theorem flatRewards_getD {L W : Nat} {b : Board} (hb : BoardOK L W b) {i j : Nat}
    (hj : j < W) : (flatRewards b).getD (i * W + j) 0 = b.rw i j := by
  obtain ⟨-, -, -, -, h1, h2, -⟩ := hb
  rw [flatRewards_eq, getD_flatten_uniform W 0 _ h2 i j hj]
  rfl

/-- number of `L * W`-sized groups of states -/
def nGroups : Variant → Nat
  | .A => 4 | .B => 7 | .C => 10

set_option hygiene false in
local macro "vbounds'" : tactic => `(tactic| first | vbounds | skip)

section Bisim2
variable {α : Type} [Sub α] [OfNat α 0] [OfNat α 1]

theorem enc_lt {v : Variant} {L W : Nat} {b : Board} {s : RState} (hs : Valid v L W b s) :
    enc v L W s < nGroups v * (L * W) + 2 := by
  cases v <;> cases s <;>
    first
    | exact absurd hs.1 (by decide)
    | exact absurd rfl hs.1
    | (vbounds'
       simp only [enc_A_light, enc_A_down, enc_A_lr, enc_A_land, enc_A_lose, enc_A_win, enc_B_light, enc_B_down, enc_B_lr, enc_B_land, enc_B_tryDown, enc_B_tryLeft, enc_B_tryRight, enc_B_lose, enc_B_win, enc_C_light, enc_C_down, enc_C_lr, enc_C_free, enc_C_land, enc_C_tryDown, enc_C_tryLeft, enc_C_tryRight, enc_C_lightG, enc_C_lightY, enc_C_lose, enc_C_win, nGroups]
       omega)

theorem owners_bisim {v : Variant} {L W : Nat} {b : Board} (q : Params α) {s : RState}
    (hs : Valid v L W b s) :
    (genGame v L W b q).owners.getD (enc v L W s) .prob = owner s := by
  cases v <;> cases s <;>
    first
    | exact absurd hs.1 (by decide)
    | exact absurd rfl hs.1
    | (vbounds'
       simp only [genGame, gameA, gameB, gameC, owners_shape, owner, enc_A_light, enc_A_down, enc_A_lr, enc_A_land, enc_A_lose, enc_A_win, enc_B_light, enc_B_down, enc_B_lr, enc_B_land, enc_B_tryDown, enc_B_tryLeft, enc_B_tryRight, enc_B_lose, enc_B_win, enc_C_light, enc_C_down, enc_C_lr, enc_C_free, enc_C_land, enc_C_tryDown, enc_C_tryLeft, enc_C_tryRight, enc_C_lightG, enc_C_lightY, enc_C_lose, enc_C_win]
       repeat' split
       all_goals first | rfl | omega)

theorem rewards_bisim {v : Variant} {L W : Nat} {b : Board} (hb : BoardOK L W b) (q : Params α)
    {s : RState} (hs : Valid v L W b s) :
    (genGame v L W b q).rewards.getD (enc v L W s) 0 = reward b s := by
  cases v <;> cases s <;>
    first
    | exact absurd hs.1 (by decide)
    | exact absurd rfl hs.1
    | (vbounds'
       simp only [genGame, gameA, gameB, gameC, rewards_shape, flatRewards_length hb, reward, enc_A_light, enc_A_down, enc_A_lr, enc_A_land, enc_A_lose, enc_A_win, enc_B_light, enc_B_down, enc_B_lr, enc_B_land, enc_B_tryDown, enc_B_tryLeft, enc_B_tryRight, enc_B_lose, enc_B_win, enc_C_light, enc_C_down, enc_C_lr, enc_C_free, enc_C_land, enc_C_tryDown, enc_C_tryLeft, enc_C_tryRight, enc_C_lightG, enc_C_lightY, enc_C_lose, enc_C_win]
       first
       | (rw [if_pos hx, flatRewards_getD hb hj])
       | (rw [if_neg (by omega)]))

theorem valid_closed' {v : Variant} {L W : Nat} {b : Board} (hb : BoardOK L W b) (q : Params α)
    {s : RState} (hs : Valid v L W b s) : ∀ x ∈ rules v L W b q s, Valid v L W b x.tgt := by
  obtain ⟨hL, hW, -, -, -, -, -, -, hmv⟩ := hb
  have hl : ∀ j, leftOf W j < W := fun j => Nat.mod_lt _ hW
  have hr : ∀ j, rightOf W j < W := fun j => Nat.mod_lt _ hW
  cases v <;> cases s <;>
    simp only [rules, a, c, below, reduceCtorEq, if_true, if_false] <;> repeat' split
  all_goals simp_all [Valid]
end Bisim2

section Sizes
variable {α : Type} [Sub α] [OfNat α 0] [OfNat α 1]

theorem genGame_finals (v : Variant) (L W : Nat) (b : Board) (q : Params α) :
    (genGame v L W b q).finals = [enc v L W .win] := by
  cases v <;> simp [genGame, gameA, gameB, gameC] <;> omega

theorem genGame_tl_length {v : Variant} {L W : Nat} {b : Board} (hb : BoardOK L W b)
    (q : Params α) : (genGame v L W b q).tl.length = nGroups v * (L * W) + 2 := by
  have hmv := hb.2.2.2.2.2.2.2.2
  cases v
  · simp only [genGame]; rw [gameA_tl hmv, gridGroups_length]; rfl
  · simp only [genGame]; rw [gameB_tl hmv, gridGroups_length]; rfl
  · simp only [genGame]; rw [gameC_tl hmv, gridGroups_length]; rfl

theorem genGame_owners_length (v : Variant) (L W : Nat) (b : Board) (q : Params α) :
    (genGame v L W b q).owners.length = nGroups v * (L * W) + 2 := by
  cases v <;> simp [genGame, gameA, gameB, gameC, nGroups] <;> omega

theorem genGame_rewards_length {v : Variant} {L W : Nat} {b : Board} (hb : BoardOK L W b)
    (q : Params α) : (genGame v L W b q).rewards.length = nGroups v * (L * W) + 2 := by
  cases v <;> simp [genGame, gameA, gameB, gameC, nGroups, flatRewards_length hb] <;> omega

theorem tl_bisim {v : Variant} {L W : Nat} {b : Board} (hb : BoardOK L W b) (q : Params α)
    (s : RState) (hs : Valid v L W b s) :
    (genGame v L W b q).tl.getD (enc v L W s) []
      = (rules v L W b q s).map
          (fun x => ({ act := x.act, p := x.p, tgt := enc v L W x.tgt } : Tr α)) := by
  cases v
  · exact tl_bisim_A hb q s hs
  · exact tl_bisim_B hb q s hs
  · exact tl_bisim_C hb q s hs

end Sizes

/-! ### the solver's typed validation -/

section Validate
variable {α : Type} [LT α] [DecidableLT α] [OfNat α 0]

theorem checkGame_ok (g : Game α) (h1 : g.tl.size = g.owners.size)
    (h2 : g.rewards.size = g.owners.size) (h3 : 0 < g.rewards.size)
    (h4 : ∀ x ∈ g.rewards, ¬ x < 0) (h5 : g.finals ≠ [])
    (h6 : ∀ f ∈ g.finals, f < g.owners.size) : checkGame g = .ok () := by
  have ha : anyNeg g.rewards = some false := by
    unfold anyNeg
    rw [if_neg (by omega)]
    congr 1
    rw [Array.any_eq_false]
    intro i hi
    simpa using h4 _ (Array.getElem_mem hi)
  have hf : g.finals.isEmpty = false := by
    cases hfin : g.finals with
    | nil => exact absurd hfin h5
    | cons x xs => rfl
  have hr : (g.finals.any fun f => decide (f ≥ g.owners.size)) = false := by
    rw [List.any_eq_false]
    intro f hf
    simpa using h6 f hf
  unfold checkGame
  simp only [ha, hf, hr, h1, h2, ne_eq, not_true_eq_false, if_false, Bool.false_eq_true]
  rfl

theorem forIn_check_ok {β : Type} (cnd : β → Bool) (e : Err) :
    ∀ (l : List β), (∀ x ∈ l, cnd x = false) →
      forIn (m := Except Err) l PUnit.unit (fun row _ =>
        if cnd row = true then do
          throw e
          pure (ForInStep.yield PUnit.unit)
        else pure (ForInStep.yield PUnit.unit)) = pure PUnit.unit
  | [], _ => rfl
  | x :: l, h => by
    rw [List.forIn_cons, h x (by simp)]
    simp only [Bool.false_eq_true, if_false]
    exact forIn_check_ok cnd e l (fun y hy => h y (by simp [hy]))

omit [LT α] [DecidableLT α] [OfNat α 0] in
theorem initStates_ok (g : Game α)
    (h : ∀ row ∈ g.tl, row ≠ [] ∧ ∀ t ∈ row, t.tgt < g.owners.size) :
    initStates g = .ok () := by
  have hl : ∀ row ∈ g.tl.toList, (row.any fun t => decide (t.tgt ≥ g.owners.size)) = false := by
    intro row hrow
    rw [List.any_eq_false]
    intro t ht
    simpa using (h row (by simpa using hrow)).2 t ht
  have he : (g.tl.any fun row => row.isEmpty) = false := by
    rw [Array.any_eq_false]
    intro i hi
    have := (h _ (Array.getElem_mem hi)).1
    simpa using this
  unfold initStates
  simp only [he, Bool.false_eq_true, if_false]
  rw [← Array.forIn_toList, forIn_check_ok _ _ _ hl]
  rfl
end Validate

/-! ### all rows of the generated games (C11) -/

theorem mem_gridGroups {β : Type} {L W : Nat} {fs : List (Nat → Nat → β)} {tail : List β}
    {y : β} :
    y ∈ (fs.map (grid L W)).flatten ++ tail
      ↔ (∃ f ∈ fs, ∃ i, i < L ∧ ∃ j, j < W ∧ y = f i j) ∨ y ∈ tail := by
  simp only [List.mem_append, List.mem_flatten, List.mem_map]
  constructor
  · rintro (⟨_, ⟨f, hf, rfl⟩, hy⟩ | h)
    · exact Or.inl ⟨f, hf, mem_grid.1 hy⟩
    · exact Or.inr h
  · rintro (⟨f, hf, h⟩ | h)
    · exact Or.inl ⟨_, ⟨f, hf, rfl⟩, mem_grid.2 h⟩
    · exact Or.inr h

section Rows2
set_option linter.unusedSectionVars false
set_option linter.unusedSimpArgs false
variable {α : Type} [Sub α] [OfNat α 0] [OfNat α 1]

/-- a row is non-empty and all its targets are below `N` -/
def RowOK (N : Nat) (row : List (Tr α)) : Prop := row ≠ [] ∧ ∀ t ∈ row, t.tgt < N

theorem p2Row_ok {L W i j N : Nat} (hi : i < L) (hj : j < W) (b : Board) {offR offY : Nat}
    (h1 : offR + L * W ≤ N) (h2 : offY + L * W ≤ N) :
    RowOK (α := α) N (p2Row W b offR offY i j) := by
  have hx := idx_lt hi hj
  have hrow : i * W + W ≤ L * W := by
    have := Nat.mul_le_mul_right W (show i + 1 ≤ L by omega); rwa [Nat.succ_mul] at this
  have hrow2 : i < L - 1 → i * W + W + W ≤ L * W := by
    intro h
    have := Nat.mul_le_mul_right W (show i + 2 ≤ L by omega)
    rw [Nat.add_mul] at this; omega
  have hm : (j + 1) % W < W := Nat.mod_lt _ (by omega)
  simp only [p2Row, RowOK]
  repeat' split
  all_goals simp [act, pr]
  all_goals omega

theorem downRow_ok {L W i j N : Nat} (hi : i < L) (hj : j < W) {off : Nat} {w : Option Nat}
    (h1 : off + L * W ≤ N) (h2 : ∀ x, w = some x → x < N) :
    RowOK (α := α) N (downRow L W off w i j) := by
  have hx := idx_lt hi hj
  have hrow : i * W + W ≤ L * W := by
    have := Nat.mul_le_mul_right W (show i + 1 ≤ L by omega); rwa [Nat.succ_mul] at this
  have hrow2 : i < L - 1 → i * W + W + W ≤ L * W := by
    intro h
    have := Nat.mul_le_mul_right W (show i + 2 ≤ L by omega)
    rw [Nat.add_mul] at this; omega
  have hm : (j + 1) % W < W := Nat.mod_lt _ (by omega)
  cases w with
  | none => simp [downRow, RowOK, act]; omega
  | some x =>
  have h3 := h2 x rfl
  simp only [downRow, RowOK]
  repeat' split
  all_goals simp [act, pr]
  all_goals omega

theorem lrRow_ok {L W i j N : Nat} (hi : i < L) (hj : j < W) (b : Board) {offL offR : Nat}
    (h1 : offL + L * W ≤ N) (h2 : offR + L * W ≤ N) :
    RowOK (α := α) N (lrRow W b offL offR i j) := by
  have hx := idx_lt hi hj
  have hrow : i * W + W ≤ L * W := by
    have := Nat.mul_le_mul_right W (show i + 1 ≤ L by omega); rwa [Nat.succ_mul] at this
  have hrow2 : i < L - 1 → i * W + W + W ≤ L * W := by
    intro h
    have := Nat.mul_le_mul_right W (show i + 2 ≤ L by omega)
    rw [Nat.add_mul] at this; omega
  have hm : (j + 1) % W < W := Nat.mod_lt _ (by omega)
  simp only [lrRow, lrPair, RowOK]
  repeat' split
  all_goals simp [act, pr]
  all_goals omega

theorem tileRow_ok {L W i j N : Nat} (hi : i < L) (hj : j < W) (p : α) (b : Board) {off lose : Nat}
    (h1 : off + L * W ≤ N) (h2 : lose < N) :
    RowOK (α := α) N (tileRow W p b off lose i j) := by
  have hx := idx_lt hi hj
  have hrow : i * W + W ≤ L * W := by
    have := Nat.mul_le_mul_right W (show i + 1 ≤ L by omega); rwa [Nat.succ_mul] at this
  have hrow2 : i < L - 1 → i * W + W + W ≤ L * W := by
    intro h
    have := Nat.mul_le_mul_right W (show i + 2 ≤ L by omega)
    rw [Nat.add_mul] at this; omega
  have hm : (j + 1) % W < W := Nat.mod_lt _ (by omega)
  simp only [tileRow, RowOK]
  repeat' split
  all_goals simp [act, pr]
  all_goals omega

theorem rdRow_ok {L W i j N : Nat} (hi : i < L) (hj : j < W) (p : α) {off win : Nat}
    (h1 : off + L * W ≤ N) (h2 : win < N) :
    RowOK (α := α) N (rdRow L W p off win i j) := by
  have hx := idx_lt hi hj
  have hrow : i * W + W ≤ L * W := by
    have := Nat.mul_le_mul_right W (show i + 1 ≤ L by omega); rwa [Nat.succ_mul] at this
  have hrow2 : i < L - 1 → i * W + W + W ≤ L * W := by
    intro h
    have := Nat.mul_le_mul_right W (show i + 2 ≤ L by omega)
    rw [Nat.add_mul] at this; omega
  have hm : (j + 1) % W < W := Nat.mod_lt _ (by omega)
  simp only [rdRow, RowOK]
  repeat' split
  all_goals simp [act, pr]
  all_goals omega

theorem rlRow_ok {L W i j N : Nat} (hi : i < L) (hj : j < W) (p : α) {off : Nat}
    (h1 : off + L * W ≤ N) :
    RowOK (α := α) N (rlRow W p off i j) := by
  have hx := idx_lt hi hj
  have hrow : i * W + W ≤ L * W := by
    have := Nat.mul_le_mul_right W (show i + 1 ≤ L by omega); rwa [Nat.succ_mul] at this
  have hrow2 : i < L - 1 → i * W + W + W ≤ L * W := by
    intro h
    have := Nat.mul_le_mul_right W (show i + 2 ≤ L by omega)
    rw [Nat.add_mul] at this; omega
  have hm : (j + 1) % W < W := Nat.mod_lt _ (by omega)
  simp only [rlRow, RowOK]
  repeat' split
  all_goals simp [act, pr]
  all_goals omega

theorem rrRow_ok {L W i j N : Nat} (hi : i < L) (hj : j < W) (p : α) {off : Nat}
    (h1 : off + L * W ≤ N) :
    RowOK (α := α) N (rrRow W p off i j) := by
  have hx := idx_lt hi hj
  have hrow : i * W + W ≤ L * W := by
    have := Nat.mul_le_mul_right W (show i + 1 ≤ L by omega); rwa [Nat.succ_mul] at this
  have hrow2 : i < L - 1 → i * W + W + W ≤ L * W := by
    intro h
    have := Nat.mul_le_mul_right W (show i + 2 ≤ L by omega)
    rw [Nat.add_mul] at this; omega
  have hm : (j + 1) % W < W := Nat.mod_lt _ (by omega)
  simp only [rrRow, RowOK]
  repeat' split
  all_goals simp [act, pr]
  all_goals omega

theorem dlrRow_ok {L W i j N : Nat} (hi : i < L) (hj : j < W) (b : Board) {offD offL offR : Nat}
    (h1 : offD + L * W ≤ N) (h2 : offL + L * W ≤ N) (h3 : offR + L * W ≤ N) :
    RowOK (α := α) N (dlrRow W b offD offL offR i j) := by
  have hx := idx_lt hi hj
  have hrow : i * W + W ≤ L * W := by
    have := Nat.mul_le_mul_right W (show i + 1 ≤ L by omega); rwa [Nat.succ_mul] at this
  have hrow2 : i < L - 1 → i * W + W + W ≤ L * W := by
    intro h
    have := Nat.mul_le_mul_right W (show i + 2 ≤ L by omega)
    rw [Nat.add_mul] at this; omega
  have hm : (j + 1) % W < W := Nat.mod_lt _ (by omega)
  simp only [dlrRow, RowOK]
  repeat' split
  all_goals simp [act, pr]
  all_goals omega

theorem lightRow_ok {L W i j N : Nat} (hi : i < L) (hj : j < W) (p : α) {offOk offBreak : Nat}
    (h1 : offOk + L * W ≤ N) (h2 : offBreak + L * W ≤ N) :
    RowOK (α := α) N (lightRow W p offOk offBreak i j) := by
  have hx := idx_lt hi hj
  have hrow : i * W + W ≤ L * W := by
    have := Nat.mul_le_mul_right W (show i + 1 ≤ L by omega); rwa [Nat.succ_mul] at this
  have hrow2 : i < L - 1 → i * W + W + W ≤ L * W := by
    intro h
    have := Nat.mul_le_mul_right W (show i + 2 ≤ L by omega)
    rw [Nat.add_mul] at this; omega
  have hm : (j + 1) % W < W := Nat.mod_lt _ (by omega)
  simp only [lightRow, RowOK]
  repeat' split
  all_goals simp [act, pr]
  all_goals omega

/-- shape of the rows of chance states: `[(1,t)]` or `[(p,t),(1-p,t')]` -/
def ProbShape (q : Params α) (row : List (Tr α)) : Prop :=
  (∃ t, row = [pr 1 t]) ∨
  ∃ p t t', (p = q.pTile ∨ p = q.pRobot ∨ p = q.pLight) ∧ row = [pr p t, pr (1 - p) t']

theorem tileRow_shape (q : Params α) {p : α} (hp : p = q.pTile ∨ p = q.pRobot ∨ p = q.pLight)
    (W : Nat) (b : Board) (off lose i j : Nat) : ProbShape q (tileRow W p b off lose i j) := by
  unfold tileRow; split
  · exact Or.inr ⟨p, _, _, hp, rfl⟩
  · exact Or.inl ⟨_, rfl⟩

theorem rdRow_shape (q : Params α) {p : α} (hp : p = q.pTile ∨ p = q.pRobot ∨ p = q.pLight)
    (L W off win i j : Nat) : ProbShape q (rdRow L W p off win i j) := by
  unfold rdRow; split <;> exact Or.inr ⟨p, _, _, hp, rfl⟩

theorem rlRow_shape (q : Params α) {p : α} (hp : p = q.pTile ∨ p = q.pRobot ∨ p = q.pLight)
    (W off i j : Nat) : ProbShape q (rlRow W p off i j) := by
  unfold rlRow; split <;> exact Or.inr ⟨p, _, _, hp, rfl⟩

theorem rrRow_shape (q : Params α) {p : α} (hp : p = q.pTile ∨ p = q.pRobot ∨ p = q.pLight)
    (W off i j : Nat) : ProbShape q (rrRow W p off i j) := by
  unfold rrRow; split <;> exact Or.inr ⟨p, _, _, hp, rfl⟩

theorem lightRow_shape (q : Params α) {p : α} (hp : p = q.pTile ∨ p = q.pRobot ∨ p = q.pLight)
    (W offOk offBreak i j : Nat) : ProbShape q (lightRow W p offOk offBreak i j) :=
  Or.inr ⟨p, _, _, hp, rfl⟩

theorem gridGroups_getD_mem_drop {β : Type} (L W : Nat) (fs : List (Nat → Nat → β))
    (tail : List β) (d : β) (k s : Nat) (hk : k ≤ fs.length) (h1 : k * (L * W) ≤ s)
    (h2 : s < fs.length * (L * W) + tail.length) :
    ((fs.map (grid L W)).flatten ++ tail).getD s d
      ∈ ((fs.drop k).map (grid L W)).flatten ++ tail := by
  have hl : ((fs.take k).map (grid L W)).flatten.length = k * (L * W) := by
    have := gridGroups_length L W (fs.take k) []
    rw [List.append_nil, List.length_take, Nat.min_eq_left hk] at this
    simpa using this
  have hsplit : (fs.map (grid L W)).flatten ++ tail
      = ((fs.take k).map (grid L W)).flatten ++ (((fs.drop k).map (grid L W)).flatten ++ tail) := by
    conv => lhs; rw [← List.take_append_drop k fs]
    rw [List.map_append, List.flatten_append, List.append_assoc]
  rw [hsplit, getD_append_right _ _ _ _ (by omega)]
  apply getD_mem_of_lt
  rw [gridGroups_length, List.length_drop, hl, Nat.sub_mul]
  have := Nat.mul_le_mul_right (L * W) hk
  omega

theorem owners_prob_ge {n m1 mp e : Nat}
    (h : (List.replicate n Owner.p2 ++ List.replicate m1 Owner.p1 ++ List.replicate mp Owner.prob
        ++ [Owner.prob, Owner.prob]).getD e Owner.prob = Owner.prob) : n + m1 ≤ e := by
  rw [owners_shape] at h
  split at h
  · exact absurd h (by decide)
  · split at h
    · exact absurd h (by decide)
    · omega

end Rows2

section Rows3
variable {α : Type} [Sub α] [OfNat α 0] [OfNat α 1]

theorem tl_rows_ok {v : Variant} {L W : Nat} {b : Board} (hb : BoardOK L W b) (q : Params α) :
    ∀ row ∈ (genGame v L W b q).tl, RowOK (nGroups v * (L * W) + 2) row := by
  obtain ⟨hL, hW, -, -, -, -, -, -, hmv⟩ := hb
  intro row hrow
  cases v
  · simp only [genGame] at hrow
    rw [gameA_tl hmv, mem_gridGroups] at hrow
    simp only [nGroups]
    rcases hrow with ⟨f, hf, i, hi, j, hj, rfl⟩ | hrow
    · simp only [rowsA, List.mem_cons, List.not_mem_nil, or_false] at hf
      rcases hf with rfl | rfl | rfl | rfl
      · apply p2Row_ok hi hj <;> omega
      · apply downRow_ok hi hj
        · omega
        · intro x hx; cases hx; omega
      · apply lrRow_ok hi hj <;> omega
      · apply tileRow_ok hi hj <;> omega
    · simp only [List.mem_cons, List.not_mem_nil, or_false] at hrow
      rcases hrow with rfl | rfl <;> simp [RowOK, pr] <;> omega
  · simp only [genGame] at hrow
    rw [gameB_tl hmv, mem_gridGroups] at hrow
    simp only [nGroups]
    rcases hrow with ⟨f, hf, i, hi, j, hj, rfl⟩ | hrow
    · simp only [rowsB, List.mem_cons, List.not_mem_nil, or_false] at hf
      rcases hf with rfl | rfl | rfl | rfl | rfl | rfl | rfl
      · apply p2Row_ok hi hj <;> omega
      · apply downRow_ok hi hj
        · omega
        · intro x hx; cases hx
      · apply lrRow_ok hi hj <;> omega
      · apply tileRow_ok hi hj <;> omega
      · apply rdRow_ok hi hj <;> omega
      · apply rlRow_ok hi hj; omega
      · apply rrRow_ok hi hj; omega
    · simp only [List.mem_cons, List.not_mem_nil, or_false] at hrow
      rcases hrow with rfl | rfl <;> simp [RowOK, pr] <;> omega
  · simp only [genGame] at hrow
    rw [gameC_tl hmv, mem_gridGroups] at hrow
    simp only [nGroups]
    rcases hrow with ⟨f, hf, i, hi, j, hj, rfl⟩ | hrow
    · simp only [rowsC, List.mem_cons, List.not_mem_nil, or_false] at hf
      rcases hf with rfl | rfl | rfl | rfl | rfl | rfl | rfl | rfl | rfl | rfl
      · apply p2Row_ok hi hj <;> omega
      · apply downRow_ok hi hj
        · omega
        · intro x hx; cases hx
      · apply lrRow_ok hi hj <;> omega
      · apply dlrRow_ok hi hj <;> omega
      · apply tileRow_ok hi hj <;> omega
      · apply rdRow_ok hi hj <;> omega
      · apply rlRow_ok hi hj; omega
      · apply rrRow_ok hi hj; omega
      · apply lightRow_ok hi hj <;> omega
      · apply lightRow_ok hi hj <;> omega
    · simp only [List.mem_cons, List.not_mem_nil, or_false] at hrow
      rcases hrow with rfl | rfl <;> simp [RowOK, pr] <;> omega

theorem prob_rows_shape {v : Variant} {L W : Nat} {b : Board} (hb : BoardOK L W b) (q : Params α)
    (s : Nat) (hs : s < nGroups v * (L * W) + 2)
    (ho : (genGame v L W b q).owners.getD s .prob = .prob) :
    ProbShape q ((genGame v L W b q).tl.getD s []) := by
  obtain ⟨hL, hW, -, -, -, -, -, -, hmv⟩ := hb
  have tailShape : ∀ (x y : Nat) (row : List (Tr α)), row ∈ [[pr 1 x], [pr 1 y]] →
      ProbShape q row := by
    intro x y row hrow
    simp only [List.mem_cons, List.not_mem_nil, or_false] at hrow
    rcases hrow with rfl | rfl <;> exact Or.inl ⟨_, rfl⟩
  cases v
  · simp only [genGame] at ho ⊢
    have hge := owners_prob_ge ho
    rw [gameA_tl hmv]
    have hm := gridGroups_getD_mem_drop L W (rowsA L W b q.pTile)
      [[pr 1 (L * W * 4)], [pr 1 (L * W * 4 + 1)]] [] 3 s (by simp [rowsA]) (by omega)
      (by simp [rowsA, nGroups] at hs ⊢; omega)
    rw [mem_gridGroups] at hm
    rcases hm with ⟨f, hf, i, hi, j, hj, he⟩ | hm
    · rw [he]
      simp only [rowsA, List.drop_succ_cons, List.drop_zero, List.mem_cons, List.not_mem_nil,
        or_false] at hf
      subst hf
      exact tileRow_shape q (Or.inl rfl) ..
    · exact tailShape _ _ _ hm
  · simp only [genGame] at ho ⊢
    have hge := owners_prob_ge ho
    rw [gameB_tl hmv]
    have hm := gridGroups_getD_mem_drop L W (rowsB L W b q.pTile q.pRobot)
      [[pr 1 (L * W * 7)], [pr 1 (L * W * 7 + 1)]] [] 3 s (by simp [rowsB]) (by omega)
      (by simp [rowsB, nGroups] at hs ⊢; omega)
    rw [mem_gridGroups] at hm
    rcases hm with ⟨f, hf, i, hi, j, hj, he⟩ | hm
    · rw [he]
      simp only [rowsB, List.drop_succ_cons, List.drop_zero, List.mem_cons, List.not_mem_nil,
        or_false] at hf
      rcases hf with rfl | rfl | rfl | rfl
      · exact tileRow_shape q (Or.inl rfl) ..
      · exact rdRow_shape q (Or.inr (Or.inl rfl)) ..
      · exact rlRow_shape q (Or.inr (Or.inl rfl)) ..
      · exact rrRow_shape q (Or.inr (Or.inl rfl)) ..
    · exact tailShape _ _ _ hm
  · simp only [genGame] at ho ⊢
    have hge := owners_prob_ge ho
    rw [gameC_tl hmv]
    have hm := gridGroups_getD_mem_drop L W (rowsC L W b q.pTile q.pRobot q.pLight)
      [[pr 1 (L * W * 10)], [pr 1 (L * W * 10 + 1)]] [] 4 s (by simp [rowsC]) (by omega)
      (by simp [rowsC, nGroups] at hs ⊢; omega)
    rw [mem_gridGroups] at hm
    rcases hm with ⟨f, hf, i, hi, j, hj, he⟩ | hm
    · rw [he]
      simp only [rowsC, List.drop_succ_cons, List.drop_zero, List.mem_cons, List.not_mem_nil,
        or_false] at hf
      rcases hf with rfl | rfl | rfl | rfl | rfl | rfl
      · exact tileRow_shape q (Or.inl rfl) ..
      · exact rdRow_shape q (Or.inr (Or.inl rfl)) ..
      · exact rlRow_shape q (Or.inr (Or.inl rfl)) ..
      · exact rrRow_shape q (Or.inr (Or.inl rfl)) ..
      · exact lightRow_shape q (Or.inr (Or.inr rfl)) ..
      · exact lightRow_shape q (Or.inr (Or.inr rfl)) ..
    · exact tailShape _ _ _ hm

end Rows3

section Absorbing
variable {α : Type} [Sub α] [OfNat α 0] [OfNat α 1]

theorem enc_lose_eq (v : Variant) (L W : Nat) : enc v L W .lose = nGroups v * (L * W) := by
  cases v <;> rfl

theorem enc_win_eq (v : Variant) (L W : Nat) : enc v L W .win = nGroups v * (L * W) + 1 := by
  cases v <;> rfl

/-- the losing and the winning state are absorbing and carry no reward -/
theorem lose_win_rows {v : Variant} {L W : Nat} {b : Board} (hb : BoardOK L W b) (q : Params α) :
    (genGame v L W b q).tl.getD (nGroups v * (L * W)) [] = [pr 1 (nGroups v * (L * W))] ∧
    (genGame v L W b q).tl.getD (nGroups v * (L * W) + 1) []
      = [pr 1 (nGroups v * (L * W) + 1)] ∧
    (genGame v L W b q).rewards.getD (nGroups v * (L * W)) 0 = 0 ∧
    (genGame v L W b q).rewards.getD (nGroups v * (L * W) + 1) 0 = 0 := by
  have h1 := tl_bisim hb q .lose (show Valid v L W b .lose from trivial)
  have h2 := tl_bisim hb q .win (show Valid v L W b .win from trivial)
  have h3 := rewards_bisim hb q (show Valid v L W b .lose from trivial)
  have h4 := rewards_bisim hb q (show Valid v L W b .win from trivial)
  rw [enc_lose_eq] at h1 h3
  rw [enc_win_eq] at h2 h4
  exact ⟨by simpa [rules, c, pr, enc_lose_eq] using h1, by simpa [rules, c, pr, enc_win_eq] using h2,
    h3, h4⟩

end Absorbing

end CR.GridLemmas
