/-
Helper lemmas about `CR/Model/Validate.lean` (`checkNextStates`, `validate`, `solvePy`) and
`CR/Model/Batch.lean` (`dictSet`, `runOne`, `runGames`).
The property theorems built on top of these live in `CR/Props/C09.lean` and `CR/Props/C12.lean`.
-/
import CR.Model.Batch

namespace CR
namespace ValidateLemmas
open CR CR.Py CR.Batch

/-! ## `List.forM` in `Except` -/

theorem forM_ok_iff {ε α : Type} (f : α → Except ε Unit) (l : List α) :
    l.forM f = .ok () ↔ ∀ x ∈ l, f x = .ok () := by
  induction l with
  | nil => simp [pure, Except.pure]
  | cons a l ih =>
    simp only [List.forM_cons, bind, Except.bind, List.mem_cons, forall_eq_or_imp]
    cases h : f a with
    | error e => simp
    | ok u => cases u; simpa using ih

theorem forM_error {ε α : Type} (f : α → Except ε Unit) (l : List α) (e : ε)
    (h : l.forM f = .error e) : ∃ x ∈ l, f x = .error e := by
  induction l with
  | nil => simp [pure, Except.pure] at h
  | cons a l ih =>
    simp only [List.forM_cons, bind, Except.bind] at h
    cases h' : f a with
    | error e' =>
      rw [h'] at h
      simp only [Except.error.injEq] at h
      exact ⟨a, by simp, by rw [h', h]⟩
    | ok u =>
      rw [h'] at h
      obtain ⟨x, hx, hfx⟩ := ih h
      exact ⟨x, by simp [hx], hfx⟩

/-! ## `checkNextStates` -/

/-- the documented rule for one entry of a state's transition list -/
def GoodTr (n : Nat) (owner : Owner) (e : PyVal) : Prop :=
  ∃ a b i, e = .tuple [a, b] ∧ (owner = .prob → isNumber a = true) ∧
    (owner ≠ .prob → isStr a = true) ∧ asInt b = some i ∧ 0 ≤ i ∧ i < (n : Int)

/-- the per-entry check inside `checkNextStates` -/
def checkTr (n : Nat) (owner : Owner) (e : PyVal) : Except Err Unit :=
  match e with
  | .tuple [a, b] => do
    match owner with
    | .prob => if !isNumber a then throw (.malformed "probability must be a number")
    | _ => if !isStr a then throw (.malformed "action must be a str")
    match asInt b with
    | Option.none => throw (.malformed "next state must be an int")
    | some i => if i < 0 || i ≥ (n : Int) then throw (.malformed "next state out of range")
  | .tuple _ => throw (.malformed "tuples of length 2")
  | _ => throw (.malformed "list of tuples")

theorem checkNextStates_list (n : Nat) (o : Owner) (xs : List PyVal) :
    checkNextStates n o (.list xs) = xs.forM (checkTr n o) := rfl

end ValidateLemmas
end CR
