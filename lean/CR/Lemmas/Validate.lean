/-
Helper lemmas about `CR/Model/Validate.lean` (`checkNextStates`, `validate`, `solvePy`) and
`CR/Model/Batch.lean` (`dictSet`, `runOne`, `runGames`).
The property theorems built on top of these live in `CR/Props/C09.lean` and `CR/Props/C12.lean`.
-/
import CR.Model.Batch

namespace CR
namespace ValidateLemmas
open CR CR.Py CR.Batch

/-! ## `List.forM` in `Except` -/

theorem forM_nil' {ε α : Type} (f : α → Except ε Unit) : ([] : List α).forM f = .ok () := rfl

theorem forM_cons' {ε α : Type} (f : α → Except ε Unit) (a : α) (l : List α) :
    (a :: l).forM f = match f a with
      | .error e => .error e
      | .ok _ => l.forM f := by
  show (f a >>= fun _ => l.forM f) = _
  cases f a <;> rfl

theorem forM_ok_iff {ε α : Type} (f : α → Except ε Unit) (l : List α) :
    l.forM f = .ok () ↔ ∀ x ∈ l, f x = .ok () := by
  induction l with
  | nil => simp [forM_nil']
  | cons a l ih =>
    rw [forM_cons']
    simp only [List.mem_cons, forall_eq_or_imp]
    cases h : f a with
    | error e => simp
    | ok u => cases u; simpa using ih

theorem forM_error {ε α : Type} (f : α → Except ε Unit) (l : List α) (e : ε)
    (h : l.forM f = .error e) : ∃ x ∈ l, f x = .error e := by
  induction l with
  | nil => simp [forM_nil'] at h
  | cons a l ih =>
    rw [forM_cons'] at h
    cases h' : f a with
    | error e' =>
      rw [h'] at h
      simp only [Except.error.injEq] at h
      exact ⟨a, by simp, by rw [h', h]⟩
    | ok u =>
      rw [h'] at h
      obtain ⟨x, hx, hfx⟩ := ih h
      exact ⟨x, by simp [hx], hfx⟩

/-! ## `checkNextStates` -/

/-- the documented rule for one entry of a state's transition list -/
def GoodTr (n : Nat) (owner : Owner) (e : PyVal) : Prop :=
  ∃ a b i, e = .tuple [a, b] ∧ (owner = .prob → isNumber a = true) ∧
    (owner ≠ .prob → isStr a = true) ∧ asInt b = some i ∧ 0 ≤ i ∧ i < (n : Int)

/-- the per-entry check inside `checkNextStates` -/
def checkTr (n : Nat) (owner : Owner) (e : PyVal) : Except Err Unit :=
  match e with
  | .tuple [a, b] => do
    match owner with
    | .prob => if !isNumber a then throw (.malformed "probability must be a number")
    | _ => if !isStr a then throw (.malformed "action must be a str")
    match asInt b with
    | Option.none => throw (.malformed "next state must be an int")
    | some i => if i < 0 || i ≥ (n : Int) then throw (.malformed "next state out of range")
  | .tuple _ => throw (.malformed "tuples of length 2")
  | _ => throw (.malformed "list of tuples")

theorem checkNextStates_list (n : Nat) (o : Owner) (xs : List PyVal) :
    checkNextStates n o (.list xs) = xs.forM (checkTr n o) := rfl

/-- the first slot of a transition tuple has the type required by the owner of the state -/
def okA (o : Owner) (a : PyVal) : Bool := if o = .prob then isNumber a else isStr a

theorem checkTr_pair (n : Nat) (o : Owner) (a b : PyVal) :
    checkTr n o (.tuple [a, b]) =
      if okA o a = false then
        .error (.malformed (if o = .prob then "probability must be a number" else "action must be a str"))
      else match asInt b with
        | none => .error (.malformed "next state must be an int")
        | some i => if i < 0 ∨ (n : Int) ≤ i then .error (.malformed "next state out of range") else .ok () := by
  cases o <;> cases h1 : isNumber a <;> cases h2 : isStr a <;> cases h3 : asInt b <;>
    simp [checkTr, okA, h1, h2, h3, bind, Except.bind, pure, Except.pure, throw, throwThe, MonadExceptOf.throw]

theorem checkTr_not_pair (n : Nat) (o : Owner) (e : PyVal) (h : ∀ a b, e ≠ .tuple [a, b]) :
    ∃ rule, checkTr n o e = .error (.malformed rule) := by
  unfold checkTr
  split
  · exact absurd rfl (h _ _)
  · exact ⟨_, rfl⟩
  · exact ⟨_, rfl⟩

theorem checkTr_error (n : Nat) (o : Owner) (e : PyVal) (err : Err)
    (h : checkTr n o e = .error err) : ∃ rule, err = .malformed rule := by
  by_cases hp : ∃ a b, e = .tuple [a, b]
  · obtain ⟨a, b, rfl⟩ := hp
    rw [checkTr_pair] at h
    cases hA : okA o a
    · simp only [hA, if_true] at h
      exact ⟨_, (Except.error.inj h).symm⟩
    · cases hB : asInt b with
      | none =>
        simp [hA, hB] at h
        exact ⟨_, h.symm⟩
      | some i =>
        by_cases hr : i < 0 ∨ (n : Int) ≤ i
        · simp [hA, hB, hr] at h
          exact ⟨_, h.symm⟩
        · simp [hA, hB, hr] at h
  · obtain ⟨r, hr⟩ := checkTr_not_pair n o e (fun a b he => hp ⟨a, b, he⟩)
    rw [hr] at h
    exact ⟨r, (Except.error.inj h).symm⟩

theorem okA_iff (o : Owner) (a : PyVal) :
    okA o a = true ↔ (o = .prob → isNumber a = true) ∧ (o ≠ .prob → isStr a = true) := by
  unfold okA
  by_cases ho : o = .prob <;> simp [ho]

theorem checkTr_ok_iff (n : Nat) (o : Owner) (e : PyVal) :
    checkTr n o e = .ok () ↔ GoodTr n o e := by
  by_cases hp : ∃ a b, e = .tuple [a, b]
  · obtain ⟨a, b, rfl⟩ := hp
    rw [checkTr_pair]
    unfold GoodTr
    constructor
    · intro h
      cases hA : okA o a
      · simp [hA] at h
      · cases hB : asInt b with
        | none => simp [hA, hB] at h
        | some i =>
          by_cases hr : i < 0 ∨ (n : Int) ≤ i
          · simp [hA, hB, hr] at h
          · have := (okA_iff o a).1 hA
            exact ⟨a, b, i, rfl, this.1, this.2, hB, by omega, by omega⟩
    · rintro ⟨a', b', i, he, h1, h2, h3, h4, h5⟩
      simp only [PyVal.tuple.injEq, List.cons.injEq, and_true] at he
      obtain ⟨rfl, rfl⟩ := he
      have hA : okA o a = true := (okA_iff o a).2 ⟨h1, h2⟩
      have hr : ¬ (i < 0 ∨ (n : Int) ≤ i) := by omega
      simp [hA, h3, hr]
  · constructor
    · intro h
      obtain ⟨r, hr⟩ := checkTr_not_pair n o e (fun a b he => hp ⟨a, b, he⟩)
      rw [hr] at h; cases h
    · rintro ⟨a, b, _, he, _⟩
      exact absurd ⟨a, b, he⟩ hp

theorem checkNextStates_not_list (n : Nat) (o : Owner) (v : PyVal) (h : ∀ xs, v ≠ .list xs) :
    checkNextStates n o v = .error (.malformed "next states must be a list") := by
  cases v <;> first | rfl | exact absurd rfl (h _)

theorem checkNextStates_error (n : Nat) (o : Owner) (v : PyVal) (err : Err)
    (h : checkNextStates n o v = .error err) : ∃ rule, err = .malformed rule := by
  by_cases hl : ∃ xs, v = .list xs
  · obtain ⟨xs, rfl⟩ := hl
    rw [checkNextStates_list] at h
    obtain ⟨x, _, hx⟩ := forM_error _ _ _ h
    exact checkTr_error n o x err hx
  · rw [checkNextStates_not_list n o v (fun xs he => hl ⟨xs, he⟩)] at h
    exact ⟨_, (Except.error.inj h).symm⟩

theorem checkNextStates_ok_iff (n : Nat) (o : Owner) (v : PyVal) :
    checkNextStates n o v = .ok () ↔ ∃ xs, v = .list xs ∧ ∀ e ∈ xs, GoodTr n o e := by
  by_cases hl : ∃ xs, v = .list xs
  · obtain ⟨xs, rfl⟩ := hl
    rw [checkNextStates_list, forM_ok_iff]
    simp only [checkTr_ok_iff, PyVal.list.injEq, exists_eq_left']
  · rw [checkNextStates_not_list n o v (fun xs he => hl ⟨xs, he⟩)]
    constructor
    · intro h; cases h
    · rintro ⟨xs, he, _⟩; exact absurd ⟨xs, he⟩ hl

/-! ## `validate` -/

/-- the per-state step of `init_states` -/
def checkState (n : Nat) (pv : String × PyVal) : Except Err Unit :=
  if truthy pv.2 then checkNextStates n ((playerOf pv.1).getD .prob) pv.2 else .ok ()

/-- `validate` without join points -/
def validate' (g : PyGame) : Except Err Unit :=
  if g.tl.length ≠ g.players.length then .error (.malformed "transition list length") else
  if g.rewards.length ≠ g.players.length then .error (.malformed "reward list length") else
  if g.rewards.isEmpty then .error (.malformed "min of empty rewards") else
  if g.rewards.any PyNum.isNeg then .error (.malformed "negative reward") else
  if g.finals.isEmpty then .error (.malformed "max of empty final states") else
  if g.finals.any (fun f => f ≥ (g.players.length : Int) || f < 0) then
    .error (.malformed "final state out of range") else
  if g.players.any (fun p => (playerOf p).isNone) then .error (.malformed "unknown player") else
  match (g.players.zip g.tl).forM (checkState g.players.length) with
  | .error e => .error e
  | .ok _ =>
    if g.tl.any (fun v => !truthy v) then .error (.malformed "missing transitions") else .ok ()

theorem validate_eq (g : PyGame) : validate g = validate' g := by
  unfold validate validate'
  dsimp only []
  by_cases h1 : g.tl.length ≠ g.players.length
  · rw [if_pos h1, if_pos h1]; rfl
  rw [if_neg h1, if_neg h1]
  by_cases h2 : g.rewards.length ≠ g.players.length
  · rw [if_pos h2, if_pos h2]; rfl
  rw [if_neg h2, if_neg h2]
  by_cases h3 : g.rewards.isEmpty = true
  · rw [if_pos h3, if_pos h3]; rfl
  rw [if_neg h3, if_neg h3]
  by_cases h4 : g.rewards.any PyNum.isNeg = true
  · rw [if_pos h4, if_pos h4]; rfl
  rw [if_neg h4, if_neg h4]
  by_cases h5 : g.finals.isEmpty = true
  · rw [if_pos h5, if_pos h5]; rfl
  rw [if_neg h5, if_neg h5]
  by_cases h6 : g.finals.any (fun f => f ≥ (g.players.length : Int) || f < 0) = true
  · rw [if_pos h6, if_pos h6]; rfl
  rw [if_neg h6, if_neg h6]
  by_cases h7 : g.players.any (fun p => (playerOf p).isNone) = true
  · rw [if_pos h7, if_pos h7]; rfl
  rw [if_neg h7, if_neg h7]
  show ((g.players.zip g.tl).forM (checkState g.players.length) >>= fun _ => _) = _
  cases (g.players.zip g.tl).forM (checkState g.players.length) <;> rfl

/-! ## the documented well-formedness rules -/

/-- `p` is one of the three documented player names -/
def Known (p : String) : Prop := p = "Player 1" ∨ p = "Player 2" ∨ p = "Probabilistic"

theorem playerOf_isNone (p : String) : (playerOf p).isNone = false ↔ Known p := by
  unfold playerOf Known
  by_cases h1 : p = "Player 1"
  · simp [h1]
  by_cases h2 : p = "Player 2"
  · simp [h2]
  by_cases h3 : p = "Probabilistic"
  · simp [h3]
  simp [h1, h2, h3]

theorem owner_prob_iff (p : String) (h : Known p) :
    (playerOf p).getD .prob = .prob ↔ p = "Probabilistic" := by
  rcases h with rfl | rfl | rfl <;> simp [playerOf] <;> decide

/-- the documented rule for the transition-list entry `v` of a state owned by `p` -/
def GoodState (n : Nat) (p : String) (v : PyVal) : Prop :=
  ∃ xs, v = .list xs ∧ xs ≠ [] ∧
    ∀ e ∈ xs, ∃ a b i, e = .tuple [a, b] ∧
      (p = "Probabilistic" → isNumber a = true) ∧
      (p ≠ "Probabilistic" → isStr a = true) ∧
      asInt b = some i ∧ 0 ≤ i ∧ i < (n : Int)

theorem goodState_iff (n : Nat) (p : String) (v : PyVal) (hp : Known p) :
    (checkState n (p, v) = .ok () ∧ truthy v = true) ↔ GoodState n p v := by
  have ho := owner_prob_iff p hp
  unfold checkState GoodState
  constructor
  · rintro ⟨h1, h2⟩
    simp only [h2, if_true] at h1
    obtain ⟨xs, rfl, hxs⟩ := (checkNextStates_ok_iff _ _ _).1 h1
    refine ⟨xs, rfl, ?_, ?_⟩
    · rintro rfl; simp [truthy] at h2
    · intro e he
      obtain ⟨a, b, i, h⟩ := hxs e he
      simp only [ne_eq, ho] at h
      exact ⟨a, b, i, h⟩
  · rintro ⟨xs, rfl, hne, hxs⟩
    have ht : truthy (.list xs) = true := by
      cases xs with
      | nil => exact absurd rfl hne
      | cons => rfl
    refine ⟨?_, ht⟩
    simp only [ht, if_true]
    refine (checkNextStates_ok_iff _ _ _).2 ⟨xs, rfl, ?_⟩
    intro e he
    obtain ⟨a, b, i, h⟩ := hxs e he
    simp only [GoodTr, ne_eq, ho]
    exact ⟨a, b, i, h⟩

theorem forall_mem_zip {α β : Type} (l1 : List α) (l2 : List β) (P : α × β → Prop) :
    (∀ x ∈ l1.zip l2, P x) ↔ ∀ k (h1 : k < l1.length) (h2 : k < l2.length), P (l1[k], l2[k]) := by
  constructor
  · intro h k h1 h2
    have hk : k < (l1.zip l2).length := by simp [List.length_zip]; omega
    have := h _ (List.getElem_mem hk)
    simpa [List.getElem_zip] using this
  · intro h x hx
    obtain ⟨k, hk, rfl⟩ := List.mem_iff_getElem.1 hx
    have hk' := hk
    simp only [List.length_zip] at hk'
    rw [List.getElem_zip]
    exact h k (by omega) (by omega)

theorem checkState_error (n : Nat) (pv : String × PyVal) (e : Err)
    (h : checkState n pv = .error e) : ∃ rule, e = .malformed rule := by
  unfold checkState at h
  split at h
  · exact checkNextStates_error _ _ _ _ h
  · cases h

theorem validate'_error (g : PyGame) (e : Err) (h : validate' g = .error e) :
    ∃ rule, e = .malformed rule := by
  unfold validate' at h
  repeat' split at h
  all_goals first
    | exact ⟨_, (Except.error.inj h).symm⟩
    | (cases h; rename_i heq
       obtain ⟨x, _, hx⟩ := forM_error _ _ _ heq
       exact checkState_error _ _ _ hx)
    | cases h

theorem validate'_ok_iff_checks (g : PyGame) : validate' g = .ok () ↔
    (g.tl.length = g.players.length ∧ g.rewards.length = g.players.length ∧
     g.rewards.isEmpty = false ∧ g.rewards.any PyNum.isNeg = false ∧ g.finals.isEmpty = false ∧
     g.finals.any (fun f => f ≥ (g.players.length : Int) || f < 0) = false ∧
     g.players.any (fun p => (playerOf p).isNone) = false ∧
     (g.players.zip g.tl).forM (checkState g.players.length) = .ok () ∧
     g.tl.any (fun v => !truthy v) = false) := by
  unfold validate'
  by_cases h1 : g.tl.length = g.players.length <;> simp only [h1, ne_eq, not_true_eq_false, not_false_eq_true, if_true, if_false, false_and, true_and, reduceCtorEq]
  by_cases h2 : g.rewards.length = g.players.length <;> simp only [h2, not_true_eq_false, not_false_eq_true, if_true, if_false, false_and, true_and, reduceCtorEq]
  cases h3 : g.rewards.isEmpty <;> simp only [ if_true, if_false, false_and, true_and, reduceCtorEq, Bool.false_eq_true, Bool.true_eq_false]
  cases h4 : g.rewards.any PyNum.isNeg <;> simp only [ if_true, if_false, false_and, true_and, reduceCtorEq, Bool.false_eq_true, Bool.true_eq_false]
  cases h5 : g.finals.isEmpty <;> simp only [ if_true, if_false, false_and, true_and, reduceCtorEq, Bool.false_eq_true, Bool.true_eq_false]
  cases h6 : g.finals.any (fun f => decide (f ≥ (g.players.length : Int)) || decide (f < 0)) <;> simp only [ if_true, if_false, false_and, true_and, reduceCtorEq, Bool.false_eq_true, Bool.true_eq_false]
  cases h7 : g.players.any (fun p => (playerOf p).isNone) <;> simp only [ if_true, if_false, false_and, true_and, reduceCtorEq, Bool.false_eq_true, Bool.true_eq_false]
  cases h8 : (g.players.zip g.tl).forM (checkState g.players.length) with
  | error e => simp
  | ok u =>
    cases u
    cases h9 : g.tl.any (fun v => !truthy v) <;> simp

/-- the documented well-formedness rules, independent of the order of checks
(same body as `CR.C09.DocWellFormed`) -/
def WF (g : PyGame) : Prop :=
  g.tl.length = g.players.length ∧ g.rewards.length = g.players.length ∧
  (∀ r ∈ g.rewards, r.isNeg = false) ∧
  g.finals ≠ [] ∧ (∀ f ∈ g.finals, 0 ≤ f ∧ f < (g.players.length : Int)) ∧
  (∀ p ∈ g.players, p = "Player 1" ∨ p = "Player 2" ∨ p = "Probabilistic") ∧
  (∀ k, k < g.players.length → ∃ xs, g.tl.getD k .none = .list xs ∧ xs ≠ [] ∧
    ∀ e ∈ xs, ∃ a b i, e = .tuple [a, b] ∧
      (g.players.getD k "" = "Probabilistic" → isNumber a = true) ∧
      (g.players.getD k "" ≠ "Probabilistic" → isStr a = true) ∧
      asInt b = some i ∧ 0 ≤ i ∧ i < (g.players.length : Int))

theorem checks_iff_WF (g : PyGame) :
    (g.tl.length = g.players.length ∧ g.rewards.length = g.players.length ∧
     g.rewards.isEmpty = false ∧ g.rewards.any PyNum.isNeg = false ∧ g.finals.isEmpty = false ∧
     g.finals.any (fun f => f ≥ (g.players.length : Int) || f < 0) = false ∧
     g.players.any (fun p => (playerOf p).isNone) = false ∧
     (g.players.zip g.tl).forM (checkState g.players.length) = .ok () ∧
     g.tl.any (fun v => !truthy v) = false) ↔ WF g := by
  constructor
  · rintro ⟨h1, h2, h3, h4, h5, h6, h7, h8, h9⟩
    have hK : ∀ p ∈ g.players, Known p := by
      intro p hp
      rw [List.any_eq_false] at h7
      exact (playerOf_isNone p).1 (Bool.eq_false_iff.2 (h7 p hp))
    refine ⟨h1, h2, ?_, ?_, ?_, hK, ?_⟩
    · intro r hr
      rw [List.any_eq_false] at h4
      simpa using h4 r hr
    · rintro hf; rw [hf] at h5; cases h5
    · intro f hf
      rw [List.any_eq_false] at h6
      have := h6 f hf
      simp at this
      omega
    · intro k hk
      have hk' : k < g.tl.length := by omega
      rw [← List.getElem_eq_getD (h := hk'), ← List.getElem_eq_getD (h := hk)]
      rw [forM_ok_iff, forall_mem_zip] at h8
      rw [List.any_eq_false] at h9
      have ht : truthy g.tl[k] = true := by simpa using h9 _ (List.getElem_mem hk')
      exact (goodState_iff _ _ _ (hK _ (List.getElem_mem hk))).1 ⟨h8 k hk hk', ht⟩
  · rintro ⟨h1, h2, h3, h4, h5, h6, h7⟩
    have hS : ∀ k (hk : k < g.players.length) (hk' : k < g.tl.length),
        GoodState g.players.length g.players[k] g.tl[k] := by
      intro k hk hk'
      have := h7 k hk
      rw [← List.getElem_eq_getD (h := hk'), ← List.getElem_eq_getD (h := hk)] at this
      exact this
    have hn : 0 < g.players.length := by
      cases hf : g.finals with
      | nil => exact absurd hf h4
      | cons f fs =>
        have := h5 f (by simp [hf])
        omega
    refine ⟨h1, h2, ?_, ?_, ?_, ?_, ?_, ?_, ?_⟩
    · cases hr : g.rewards with
      | nil => rw [hr] at h2; simp at h2; omega
      | cons => rfl
    · rw [List.any_eq_false]; intro r hr; simp [h3 r hr]
    · cases hf : g.finals with
      | nil => exact absurd hf h4
      | cons => rfl
    · rw [List.any_eq_false]; intro f hf
      have := h5 f hf
      simp; omega
    · rw [List.any_eq_false]; intro p hp
      simp [(playerOf_isNone p).2 (h6 p hp)]
    · rw [forM_ok_iff, forall_mem_zip]
      intro k hk hk'
      exact ((goodState_iff _ _ _ (h6 _ (List.getElem_mem hk))).2 (hS k hk hk')).1
    · rw [List.any_eq_false]; intro v hv
      obtain ⟨k, hk', rfl⟩ := List.mem_iff_getElem.1 hv
      have hk : k < g.players.length := by omega
      simp [((goodState_iff _ _ _ (h6 _ (List.getElem_mem hk))).2 (hS k hk hk')).2]

theorem validate_ok_iff (g : PyGame) : validate g = .ok () ↔ WF g := by
  rw [validate_eq, validate'_ok_iff_checks, checks_iff_WF]

theorem validate_error (g : PyGame) (e : Err) (h : validate g = .error e) :
    ∃ rule, e = .malformed rule := by
  rw [validate_eq] at h
  exact validate'_error g e h

theorem validate_of_not_WF (g : PyGame) (h : ¬ WF g) :
    ∃ rule, validate g = .error (.malformed rule) := by
  cases hv : validate g with
  | error e =>
    obtain ⟨r, rfl⟩ := validate_error g e hv
    exact ⟨r, rfl⟩
  | ok u => cases u; exact absurd ((validate_ok_iff g).1 hv) h

/-! ## `solvePy` -/

theorem solvePy_eq (thr : Float) (fuel : Nat) (prune : Bool) (g : PyGame) :
    solvePy thr fuel prune g = match validate g with
      | .error e => .error e
      | .ok _ => solve (roundFloat 6) thr fuel prune (toGame g) := by
  show (validate g >>= fun _ => _) = _
  cases validate g <;> rfl

theorem solvePy_ok_WF (thr : Float) (fuel : Nat) (prune : Bool) (g : PyGame) (out : SolveOut Float)
    (h : solvePy thr fuel prune g = .ok out) : WF g := by
  rw [solvePy_eq] at h
  cases hv : validate g with
  | error e => rw [hv] at h; cases h
  | ok u => cases u; exact (validate_ok_iff g).1 hv

theorem solvePy_of_not_WF (thr : Float) (fuel : Nat) (prune : Bool) (g : PyGame) (h : ¬ WF g) :
    ∃ rule, solvePy thr fuel prune g = .error (.malformed rule) := by
  obtain ⟨r, hr⟩ := validate_of_not_WF g h
  exact ⟨r, by rw [solvePy_eq, hr]⟩

/-! ## `runOne` -/

theorem runOne_failure (thr : Float) (fuel : Nat) (g : PyGame) (e : Err)
    (h : solvePy thr fuel true g = .error e) (hv : isValueError e = true) :
    runOne thr fuel g = .ok
      (⟨g.players.length, countTransitions g, .error e, none⟩,
       ⟨g.players.length, countTransitions g, .notSolved, none⟩) := by
  unfold runOne
  simp only [h, hv, if_true]

theorem runOne_counts (thr : Float) (fuel : Nat) (g : PyGame) (e1 e2 : Entry)
    (h : runOne thr fuel g = .ok (e1, e2)) :
    e1.nStates = g.players.length ∧ e1.nTransitions = countTransitions g ∧
    e2.nStates = g.players.length ∧ e2.nTransitions = countTransitions g := by
  unfold runOne at h
  repeat' split at h
  all_goals first
    | (cases h; exact ⟨rfl, rfl, rfl, rfl⟩)
    | cases h

/-! ## `dictSet`, `runGames` -/

def keysOf (games : List (String × PyGame)) : List String :=
  games.flatMap (fun ng => [ng.1, ng.1 ++ "_no_prune"])

def lookup (d : List (String × Entry)) (k : String) : Option Entry :=
  (d.find? (fun kv => kv.1 == k)).map (·.2)

theorem dictSet_new {β : Type} (d : List (String × β)) (k : String) (v : β)
    (h : k ∉ d.map (·.1)) : dictSet d k v = d ++ [(k, v)] := by
  unfold dictSet
  have : d.any (fun kv => kv.1 == k) = false := by
    rw [List.any_eq_false]
    intro x hx hk
    exact h (List.mem_map.2 ⟨x, hx, by simpa using hk⟩)
  simp [this]

/-- one iteration of the loop in `runGames` -/
def step (thr : Float) (fuel : Nat) (d : List (String × Entry)) (ng : String × PyGame) :
    Except Err (List (String × Entry)) :=
  match runOne thr fuel ng.2 with
  | .ok p => .ok (dictSet (dictSet d ng.1 p.1) (ng.1 ++ "_no_prune") p.2)
  | .error e => .error e

theorem runGames_eq (thr : Float) (fuel : Nat) (games : List (String × PyGame)) :
    runGames thr fuel games = games.foldlM (step thr fuel) [] := by
  unfold runGames
  congr 1
  funext d ng
  unfold step
  show (runOne thr fuel ng.2 >>= fun p => _) = _
  cases runOne thr fuel ng.2 <;> rfl

/-- the two result entries of one game (nothing if its run aborts the batch) -/
def entriesOf (thr : Float) (fuel : Nat) (ng : String × PyGame) : List (String × Entry) :=
  match runOne thr fuel ng.2 with
  | .ok p => [(ng.1, p.1), (ng.1 ++ "_no_prune", p.2)]
  | .error _ => []

theorem foldlM_step_iff (thr : Float) (fuel : Nat) (games : List (String × PyGame))
    (d0 d : List (String × Entry)) (hnd : (d0.map (·.1) ++ keysOf games).Nodup) :
    games.foldlM (step thr fuel) d0 = .ok d ↔
      (∀ ng ∈ games, ∃ p, runOne thr fuel ng.2 = .ok p) ∧
        d = d0 ++ games.flatMap (entriesOf thr fuel) := by
  induction games generalizing d0 with
  | nil => simp [pure, Except.pure, eq_comm]
  | cons ng rest ih =>
    rw [List.foldlM_cons]
    simp only [keysOf, List.flatMap_cons] at hnd
    cases hr : runOne thr fuel ng.2 with
    | error e =>
      simp only [step, hr, bind, Except.bind]
      constructor
      · intro h; cases h
      · rintro ⟨h, _⟩
        obtain ⟨p, hp⟩ := h ng (by simp)
        rw [hr] at hp; cases hp
    | ok p =>
      have hk1 : ng.1 ∉ d0.map (·.1) := by
        intro hm
        rw [List.nodup_append] at hnd
        exact hnd.2.2 _ hm _ (by simp) rfl
      have hd1 : dictSet d0 ng.1 p.1 = d0 ++ [(ng.1, p.1)] := dictSet_new _ _ _ hk1
      have hk2 : (ng.1 ++ "_no_prune") ∉ (d0 ++ [(ng.1, p.1)]).map (·.1) := by
        intro hm
        simp only [List.map_append, List.map_cons, List.map_nil, List.mem_append,
          List.mem_singleton] at hm
        rw [List.nodup_append] at hnd
        rcases hm with hm | hm
        · exact hnd.2.2 _ hm _ (by simp) rfl
        · have := hnd.2.1
          simp only [List.cons_append, List.nil_append, List.nodup_cons, List.mem_cons] at this
          exact this.1 (Or.inl hm.symm)
      have hd2 : dictSet (dictSet d0 ng.1 p.1) (ng.1 ++ "_no_prune") p.2 =
          d0 ++ entriesOf thr fuel ng := by
        rw [hd1, dictSet_new _ _ _ hk2]
        simp [entriesOf, hr]
      simp only [step, hr, bind, Except.bind, hd2]
      have hnd' : ((d0 ++ entriesOf thr fuel ng).map (·.1) ++ keysOf rest).Nodup := by
        simpa [entriesOf, hr, keysOf] using hnd
      rw [ih _ hnd']
      simp only [List.mem_cons, forall_eq_or_imp, List.flatMap_cons, List.append_assoc]
      constructor
      · rintro ⟨h1, h2⟩; exact ⟨⟨⟨p, hr⟩, h1⟩, h2⟩
      · rintro ⟨⟨_, h1⟩, h2⟩; exact ⟨h1, h2⟩

theorem lookup_eq_some_iff (d : List (String × Entry)) (k : String) (v : Entry)
    (hnd : (d.map (·.1)).Nodup) : lookup d k = some v ↔ (k, v) ∈ d := by
  unfold lookup
  induction d with
  | nil => simp
  | cons kv d ih =>
    obtain ⟨k', v'⟩ := kv
    simp only [List.map_cons, List.nodup_cons] at hnd
    by_cases hk : k' = k
    · subst hk
      simp only [List.find?_cons, beq_self_eq_true, Option.map_some, Option.some.injEq,
        List.mem_cons, Prod.mk.injEq, true_and]
      constructor
      · intro h; exact Or.inl h.symm
      · rintro (h | h)
        · exact h.symm
        · exact absurd (List.mem_map.2 ⟨_, h, rfl⟩) hnd.1
    · have : (k' == k) = false := by simpa using hk
      simp only [List.find?_cons, this, List.mem_cons, Prod.mk.injEq]
      rw [ih hnd.2]
      constructor
      · intro h; exact Or.inr h
      · rintro (h | h)
        · exact absurd h.1.symm hk
        · exact h

theorem lookup_perm (d d' : List (String × Entry)) (hnd : (d.map (·.1)).Nodup)
    (hp : d'.Perm d) (k : String) : lookup d' k = lookup d k := by
  have hnd' : (d'.map (·.1)).Nodup := ((hp.map _).nodup_iff).2 hnd
  apply Option.ext
  intro v
  rw [lookup_eq_some_iff _ _ _ hnd, lookup_eq_some_iff _ _ _ hnd', hp.mem_iff]

theorem keys_flatMap_entriesOf (thr : Float) (fuel : Nat) (games : List (String × PyGame))
    (h : ∀ ng ∈ games, ∃ p, runOne thr fuel ng.2 = .ok p) :
    (games.flatMap (entriesOf thr fuel)).map (·.1) = keysOf games := by
  induction games with
  | nil => rfl
  | cons ng rest ih =>
    obtain ⟨p, hp⟩ := h ng (by simp)
    simp only [List.flatMap_cons, List.map_append, keysOf]
    rw [ih (fun x hx => h x (by simp [hx]))]
    simp [entriesOf, hp, keysOf]

theorem runGames_ok_iff (thr : Float) (fuel : Nat) (games : List (String × PyGame))
    (d : List (String × Entry)) (hnd : (keysOf games).Nodup) :
    runGames thr fuel games = .ok d ↔
      (∀ ng ∈ games, ∃ p, runOne thr fuel ng.2 = .ok p) ∧
        d = games.flatMap (entriesOf thr fuel) := by
  rw [runGames_eq, foldlM_step_iff thr fuel games [] d (by simpa using hnd)]
  simp

theorem keysOf_perm (games games' : List (String × PyGame)) (hp : games'.Perm games) :
    (keysOf games').Perm (keysOf games) := hp.flatMap_right _

theorem runGames_total (thr : Float) (fuel : Nat) (games : List (String × PyGame))
    (h : ∀ ng ∈ games, ∃ p, runOne thr fuel ng.2 = .ok p) :
    ∃ d, runGames thr fuel games = .ok d := by
  rw [runGames_eq]
  generalize ([] : List (String × Entry)) = d0
  induction games generalizing d0 with
  | nil => exact ⟨d0, rfl⟩
  | cons ng rest ih =>
    obtain ⟨p, hp⟩ := h ng (by simp)
    rw [List.foldlM_cons]
    simp only [step, hp, bind, Except.bind]
    exact ih (fun x hx => h x (by simp [hx])) _

theorem runGames_isolated (thr : Float) (fuel : Nat) (games : List (String × PyGame))
    (d : List (String × Entry)) (hnd : (keysOf games).Nodup)
    (h : runGames thr fuel games = .ok d) (ng : String × PyGame) (hng : ng ∈ games) :
    ∃ e1 e2, runOne thr fuel ng.2 = .ok (e1, e2) ∧ lookup d ng.1 = some e1 ∧
      lookup d (ng.1 ++ "_no_prune") = some e2 := by
  obtain ⟨hall, rfl⟩ := (runGames_ok_iff thr fuel games d hnd).1 h
  obtain ⟨⟨e1, e2⟩, hp⟩ := hall ng hng
  have hk : ((games.flatMap (entriesOf thr fuel)).map (·.1)).Nodup := by
    rw [keys_flatMap_entriesOf thr fuel games hall]; exact hnd
  refine ⟨e1, e2, hp, ?_, ?_⟩
  · rw [lookup_eq_some_iff _ _ _ hk]
    exact List.mem_flatMap.2 ⟨ng, hng, by simp [entriesOf, hp]⟩
  · rw [lookup_eq_some_iff _ _ _ hk]
    exact List.mem_flatMap.2 ⟨ng, hng, by simp [entriesOf, hp]⟩

theorem runGames_order (thr : Float) (fuel : Nat) (games : List (String × PyGame))
    (d : List (String × Entry)) (hnd : (keysOf games).Nodup)
    (h : runGames thr fuel games = .ok d) : d.map (·.1) = keysOf games := by
  obtain ⟨hall, rfl⟩ := (runGames_ok_iff thr fuel games d hnd).1 h
  exact keys_flatMap_entriesOf thr fuel games hall

theorem runGames_perm (thr : Float) (fuel : Nat) (games games' : List (String × PyGame))
    (d : List (String × Entry)) (hnd : (keysOf games).Nodup) (hp : games'.Perm games)
    (h : runGames thr fuel games = .ok d) :
    ∃ d', runGames thr fuel games' = .ok d' ∧ ∀ k, lookup d' k = lookup d k := by
  obtain ⟨hall, rfl⟩ := (runGames_ok_iff thr fuel games d hnd).1 h
  have hnd' : (keysOf games').Nodup := ((keysOf_perm games games' hp).nodup_iff).2 hnd
  have hall' : ∀ ng ∈ games', ∃ p, runOne thr fuel ng.2 = .ok p :=
    fun ng hng => hall ng (hp.mem_iff.1 hng)
  refine ⟨_, (runGames_ok_iff thr fuel games' _ hnd').2 ⟨hall', rfl⟩, ?_⟩
  intro k
  refine lookup_perm _ _ ?_ (hp.flatMap_right _) k
  rw [keys_flatMap_entriesOf thr fuel games hall]; exact hnd

end ValidateLemmas
end CR
