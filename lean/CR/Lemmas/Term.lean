/-
Helper lemmas for property C06 (termination and error-freeness of the solver on well-formed
games).  The property theorems themselves are in `CR.Props.C06`.

Contents
* validation (`checkGame`, `initStates`) succeeds on a well-formed game;
* the reachability loop `viReach` terminates: the iterates increase, stay in `[0,1]`, and a sweep
  that does not end the loop raises `Σ_s x[s]` by more than the threshold;
* `viReach` can only fail with `outOfFuel`;
* invariant principles for the reward loop `sweepRew` / `viRew`; all expected rewards stay `≥ 0`, so
  `stepRew` never raises `unbound`; the three tracked vectors keep their lengths;
* conditioned probabilistic rows have positive weights; conditioning never fails;
* case analysis of `solveReach` and `solve`;
* the reward loop on node lists that are acyclic apart from absorbing states: the step at `s` reads
  the tracked vectors only at the successors of `s`; a sweep keeps settled states settled and
  settles every state whose successors were settled; once all states are settled the next sweep
  reports `diff = 0`, so the loop exits within `max rank + 2` sweeps.
-/
import CR.Lemmas.VI
import CR.Lemmas.Prune
import CR.Lemmas.Strat
import Mathlib.Algebra.Order.Field.Basic
import Mathlib.Tactic.Linarith

set_option linter.unusedSectionVars false

namespace CR.Term

open CR CR.VI

variable {K : Type} [Field K] [LinearOrder K] [IsStrictOrderedRing K]

/-! ### validation -/

theorem forIn_yield_ok {ε β : Type} (l : List β) (c : β → Bool) (e : ε)
    (h : ∀ x ∈ l, c x = false) :
    forIn l PUnit.unit (fun row (_ : PUnit) =>
      if c row = true then (Except.error e : Except ε (ForInStep PUnit))
      else Except.ok (ForInStep.yield PUnit.unit)) = Except.ok PUnit.unit := by
  induction l with
  | nil => rfl
  | cons a l ih =>
    rw [List.forIn_cons]
    simp only [h a List.mem_cons_self, Bool.false_eq_true, if_false, bind, Except.bind]
    exact ih (fun x hx => h x (List.mem_cons_of_mem _ hx))

theorem initStates_of (g : Game K) (hsz : g.tl.size = g.owners.size)
    (h : ∀ s < g.owners.size, g.tl.getD s [] ≠ [] ∧ ∀ t ∈ g.tl.getD s [], t.tgt < g.owners.size) :
    initStates g = .ok () := by
  have hrow : ∀ row ∈ g.tl.toList, row ≠ [] ∧ ∀ t ∈ row, t.tgt < g.owners.size := by
    intro row hr
    rw [Array.mem_toList_iff] at hr
    obtain ⟨i, hi, rfl⟩ := Array.mem_iff_getElem.mp hr
    have := h i (hsz ▸ hi)
    simpa [Array.getD, hi] using this
  unfold initStates
  simp only [bind, Except.bind, pure, Except.pure, throw, throwThe, MonadExceptOf.throw]
  rw [← Array.forIn_toList, forIn_yield_ok]
  · simp only
    rw [if_neg]
    intro hany
    rw [Array.any_eq_true] at hany
    obtain ⟨i, hi, he⟩ := hany
    have := (hrow g.tl[i] (by rw [Array.mem_toList_iff]; exact Array.getElem_mem hi)).1
    simp at he
    exact this he
  · intro row hr
    have := (hrow row hr).2
    simp only [List.any_eq_false, decide_eq_true_eq, ge_iff_le, not_le]
    exact this

theorem checkGame_of (g : Game K) (hn : 0 < g.owners.size) (htl : g.tl.size = g.owners.size)
    (hr : g.rewards.size = g.owners.size) (hnn : ∀ s < g.owners.size, 0 ≤ g.rewards.getD s 0)
    (hf : g.finals ≠ []) (hfin : ∀ f ∈ g.finals, f < g.owners.size) :
    checkGame g = .ok () := by
  have hneg : anyNeg g.rewards = some false := by
    unfold anyNeg
    rw [if_neg (by omega)]
    congr 1
    rw [Array.any_eq_false]
    intro i hi
    have := hnn i (hr ▸ hi)
    simp only [Array.getD, hi, dite_true] at this
    simpa using this
  unfold checkGame
  simp only [bind, Except.bind, pure, Except.pure, throw, throwThe, MonadExceptOf.throw, hneg]
  rw [if_neg (by simpa using htl), if_neg (by simpa using hr)]
  rw [if_neg (by simpa using hf), if_neg]
  simp only [List.any_eq_true, decide_eq_true_eq, not_exists, not_and]
  intro f hf'; exact Nat.not_le.mpr (hfin f hf')

/-! ### termination of the reachability loop -/

/-- `Σ_{s<n} x[s]` -/
def vsum (x : Array K) (n : Nat) : K := ((List.range n).map (fun s => x.getD s 0)).sum

theorem vsum_succ (x : Array K) (n : Nat) : vsum x (n + 1) = vsum x n + x.getD n 0 := by
  unfold vsum
  rw [List.range_succ, List.map_append, List.sum_append]
  simp

theorem vsum_le (x : Array K) (n : Nat) (h : ∀ j, x.getD j 0 ≤ 1) : vsum x n ≤ (n : K) := by
  induction n with
  | zero => simp [vsum]
  | succ n ih => rw [vsum_succ]; push_cast; linarith [h n]

theorem vsum_mono (x y : Array K) (n : Nat) (h : ∀ j, x.getD j 0 ≤ y.getD j 0) :
    vsum x n ≤ vsum y n := by
  induction n with
  | zero => simp [vsum]
  | succ n ih => rw [vsum_succ, vsum_succ]; linarith [h n]

theorem vsum_gain (x y : Array K) (n : Nat) (h : ∀ j, x.getD j 0 ≤ y.getD j 0) (s : Nat)
    (hs : s < n) : vsum x n + (y.getD s 0 - x.getD s 0) ≤ vsum y n := by
  induction n with
  | zero => omega
  | succ n ih =>
    rw [vsum_succ, vsum_succ]
    by_cases hsn : s = n
    · subst hsn; linarith [vsum_mono x y s h]
    · linarith [ih (by omega), h n]

section Reach
variable {o : Array Owner} {tl : Array (List (Tr K))}

/-- the invariant of the reachability loop -/
def RInv (o : Array Owner) (tl : Array (List (Tr K))) (ord : List Nat) (n : Nat) (x : Array K) :
    Prop :=
  x.size = n ∧ SubSol o tl ord x ∧ ∀ j, 0 ≤ x.getD j 0 ∧ x.getD j 0 ≤ 1

theorem sweep_RInv (ord : List Nat) (n : Nat) (hp : ∀ s < n, RowNonneg o tl s)
    (hs1 : ∀ s < n, RowSumOne o tl s) (x : Array K) (h : RInv o tl ord n x) :
    RInv o tl ord n (sweepReach o tl ord x).1 ∧
      ∀ j, x.getD j 0 ≤ (sweepReach o tl ord x).1.getD j 0 := by
  obtain ⟨hn, hsub, hr⟩ := h
  obtain ⟨h1, h2, h3⟩ := subSol_sweep (o := o) (tl := tl) ord n (fun s _ hs => hp s hs) x hn hsub
  refine ⟨⟨h1, h2, ?_⟩, h3⟩
  have := sweepReach_inv (o := o) (tl := tl)
    (fun x => x.size = n ∧ ∀ j, 0 ≤ x.getD j 0 ∧ x.getD j 0 ≤ 1) ord
    (fun x s _ ⟨hn, hb⟩ => ⟨by simpa using hn, fun j => by
      rw [getD_setIfInBounds]
      by_cases hc : s = j ∧ s < x.size
      · rw [if_pos hc]
        have hs : s < n := hn ▸ hc.2
        exact ⟨stepReach_nonneg (hp s hs) x (fun j => (hb j).1),
          stepReach_le_one (hp s hs) (hs1 s hs) x (fun j => (hb j).2)⟩
      · rw [if_neg hc]; exact hb j⟩) x ⟨hn, hr⟩
  exact this.2

theorem sweep_gain (ord : List Nat) (hnd : ord.Nodup) (n : Nat) (ho : o.size = n)
    (htl : tl.size = n) (hp : ∀ s < n, RowNonneg o tl s) (hs1 : ∀ s < n, RowSumOne o tl s)
    (x : Array K) (h : RInv o tl ord n x) :
    vsum x n + (sweepReach o tl ord x).2 ≤ vsum (sweepReach o tl ord x).1 n := by
  have hmono := (sweep_RInv ord n hp hs1 x h).2
  rcases sweepFrom_diff_attained (o := o) (tl := tl) ord hnd (x, 0) le_rfl
      (fun y s hs => stepReach_out_of_range (by rw [ho, ← h.1]; exact hs)
        (by rw [htl, ← h.1]; exact hs) y) with hd | ⟨s, _, hlt, hd⟩
  · rw [sweepReach_eq] at hmono ⊢
    rw [hd]; simpa using vsum_mono _ _ n hmono
  · rw [sweepReach_eq] at hmono ⊢
    rw [hd, abs_of_nonneg (by linarith [hmono s])]
    exact vsum_gain _ _ n hmono s (h.1 ▸ hlt)

/-- after a sweep from `x`, the loop still has `fuel` sweeps available: it cannot run out -/
theorem viReach_aux (ord : List Nat) (hnd : ord.Nodup) (n : Nat) (ho : o.size = n)
    (htl : tl.size = n) (hp : ∀ s < n, RowNonneg o tl s) (hs1 : ∀ s < n, RowSumOne o tl s)
    (thr : K) (fuel : Nat) :
    ∀ (x : Array K) (i : Nat), RInv o tl ord n x → (n : K) - vsum x n < ((fuel : K) + 1) * thr →
      viReach o tl ord thr fuel (sweepReach o tl ord x).2 (sweepReach o tl ord x).1 i
        ≠ .error .outOfFuel := by
  induction fuel with
  | zero =>
    intro x i hx hpot
    have hg := sweep_gain ord hnd n ho htl hp hs1 x hx
    have hx' := (sweep_RInv ord n hp hs1 x hx).1
    have hle := vsum_le _ n (fun j => (hx'.2.2 j).2)
    unfold viReach
    rw [if_neg]
    · simp
    · intro hd
      have : (sweepReach o tl ord x).2 > thr := hd
      simp only [Nat.cast_zero, zero_add, one_mul] at hpot
      linarith
  | succ fuel ih =>
    intro x i hx hpot
    have hg := sweep_gain ord hnd n ho htl hp hs1 x hx
    have hx' := (sweep_RInv ord n hp hs1 x hx).1
    unfold viReach
    split_ifs with hd
    · apply ih _ _ hx'
      have : (sweepReach o tl ord x).2 > thr := hd
      push_cast at hpot
      linarith
    · simp

theorem viReach_terminates (ord : List Nat) (hnd : ord.Nodup) (n : Nat) (ho : o.size = n)
    (htl : tl.size = n) (hp : ∀ s < n, RowNonneg o tl s) (hs1 : ∀ s < n, RowSumOne o tl s)
    (thr : K) (fuel : Nat) (x : Array K) (i : Nat) (hx : RInv o tl ord n x)
    (hfuel : (n : K) - vsum x n < (fuel : K) * thr) :
    viReach o tl ord thr fuel 1 x i ≠ .error .outOfFuel := by
  cases fuel with
  | zero =>
    exfalso
    have hle := vsum_le _ n (fun j => (hx.2.2 j).2)
    simp only [Nat.cast_zero, zero_mul] at hfuel
    linarith
  | succ fuel =>
    unfold viReach
    split_ifs with hd
    · exact viReach_aux ord hnd n ho htl hp hs1 thr fuel x (i + 1) hx (by push_cast at hfuel; exact hfuel)
    · simp

theorem viReach_error (ord : List Nat) (thr : K) (fuel : Nat) (diff : K) (x : Array K) (i : Nat)
    (e : Err) (h : viReach o tl ord thr fuel diff x i = .error e) : e = .outOfFuel := by
  induction fuel generalizing diff x i with
  | zero =>
    unfold viReach at h
    split_ifs at h
    exact (Except.error.inj h).symm
  | succ fuel ih =>
    unfold viReach at h
    split_ifs at h
    exact ih _ _ _ h

end Reach

/-! ### the reward loop -/

section Rew
variable (rnd : K → Int) (o : Array Owner) (rewards : Array K) (nodes : Array (List (Tr K)))
  (reach : Array K)

/-- the in-place update of the three tracked vectors at state `s` -/
def updRew (v : RewVecs K) (s : Nat) (x : K × K × K) : RewVecs K :=
  { er := v.er.setIfInBounds s x.1, ermr := v.ermr.setIfInBounds s x.2.1,
    pmr := v.pmr.setIfInBounds s x.2.2 }

/-- the new running `diff` -/
def updDiff (v : RewVecs K) (d : K) (s : Nat) (x : K × K × K) : K :=
  let d' := max3 (absv (x.1 - v.er.getD s 0)) (absv (x.2.1 - v.ermr.getD s 0))
      (absv (x.2.2 - v.pmr.getD s 0))
  if d' > d then d' else d

/-- the body of the loop of `sweepRew` -/
def rewBody (acc : RewVecs K × K) (s : Nat) : Except Err (RewVecs K × K) :=
  match stepRew rnd o rewards nodes reach acc.1 s with
  | .error e => .error e
  | .ok x => .ok (updRew acc.1 s x, updDiff acc.1 acc.2 s x)

theorem sweepRew_eq (v : RewVecs K) :
    sweepRew rnd o rewards nodes reach v =
      (List.range o.size).foldlM (rewBody rnd o rewards nodes reach) (v, 0) := by
  unfold sweepRew
  congr 1
  funext acc s
  unfold rewBody
  simp only [bind, Except.bind, pure, Except.pure]
  cases stepRew rnd o rewards nodes reach acc.1 s with
  | error e => rfl
  | ok x => obtain ⟨e, m, p⟩ := x; rfl

variable {rnd o rewards nodes reach}

theorem foldRew_inv (P : RewVecs K → Prop) (l : List Nat)
    (hstep : ∀ v s x, s ∈ l → P v → stepRew rnd o rewards nodes reach v s = .ok x →
      P (updRew v s x)) :
    ∀ (acc r : RewVecs K × K), P acc.1 →
      l.foldlM (rewBody rnd o rewards nodes reach) acc = .ok r → P r.1 := by
  induction l with
  | nil =>
    intro acc r h hr
    rw [List.foldlM_nil] at hr
    cases hr; exact h
  | cons s l ih =>
    intro acc r h hr
    rw [List.foldlM_cons] at hr
    cases hb : rewBody rnd o rewards nodes reach acc s with
    | error e => rw [hb] at hr; cases hr
    | ok acc' =>
      rw [hb] at hr
      unfold rewBody at hb
      cases hst : stepRew rnd o rewards nodes reach acc.1 s with
      | error e => rw [hst] at hb; cases hb
      | ok x =>
        rw [hst] at hb
        cases hb
        exact ih (fun v s' x' hs' => hstep v s' x' (List.mem_cons_of_mem _ hs')) _ r
          (hstep acc.1 s x List.mem_cons_self h hst) hr

theorem foldRew_total (P : RewVecs K → Prop) (l : List Nat)
    (hstep : ∀ v s, s ∈ l → P v →
      ∃ x, stepRew rnd o rewards nodes reach v s = .ok x ∧ P (updRew v s x)) :
    ∀ (acc : RewVecs K × K), P acc.1 →
      ∃ r, l.foldlM (rewBody rnd o rewards nodes reach) acc = .ok r ∧ P r.1 := by
  induction l with
  | nil => intro acc h; exact ⟨acc, rfl, h⟩
  | cons s l ih =>
    intro acc h
    obtain ⟨x, hx, hP⟩ := hstep acc.1 s List.mem_cons_self h
    rw [List.foldlM_cons]
    have hb : rewBody rnd o rewards nodes reach acc s
        = .ok (updRew acc.1 s x, updDiff acc.1 acc.2 s x) := by
      unfold rewBody; rw [hx]
    rw [hb]
    exact ih (fun v s' hs' => hstep v s' (List.mem_cons_of_mem _ hs')) _ hP

/-- invariant principle for an `.ok` run of the reward loop -/
theorem viRew_inv (P : RewVecs K → Prop)
    (hstep : ∀ v s x, s < o.size → P v → stepRew rnd o rewards nodes reach v s = .ok x →
      P (updRew v s x)) (thr : K) (fuel : Nat) :
    ∀ (diff : K) (v : RewVecs K) (i : Nat) (r : RewVecs K × Nat), P v →
      viRew rnd o rewards nodes reach thr fuel diff v i = .ok r → P r.1 := by
  induction fuel with
  | zero =>
    intro diff v i r h hr
    unfold viRew at hr
    split_ifs at hr
    cases hr; exact h
  | succ fuel ih =>
    intro diff v i r h hr
    unfold viRew at hr
    split_ifs at hr with hd
    · simp only [bind, Except.bind] at hr
      cases hs : sweepRew rnd o rewards nodes reach v with
      | error e => rw [hs] at hr; cases hr
      | ok r' =>
        rw [hs] at hr
        rw [sweepRew_eq] at hs
        exact ih _ _ _ _ (foldRew_inv P _
          (fun v s x hs => hstep v s x (List.mem_range.mp hs)) _ _ h hs) hr
    · cases hr; exact h

/-- if every step succeeds under the invariant, the loop can only fail by running out of fuel -/
theorem viRew_error (P : RewVecs K → Prop)
    (hstep : ∀ v s, s < o.size → P v →
      ∃ x, stepRew rnd o rewards nodes reach v s = .ok x ∧ P (updRew v s x)) (thr : K)
    (fuel : Nat) :
    ∀ (diff : K) (v : RewVecs K) (i : Nat) (e : Err), P v →
      viRew rnd o rewards nodes reach thr fuel diff v i = .error e → e = .outOfFuel := by
  induction fuel with
  | zero =>
    intro diff v i e h hr
    unfold viRew at hr
    split_ifs at hr
    exact (Except.error.inj hr).symm
  | succ fuel ih =>
    intro diff v i e h hr
    unfold viRew at hr
    split_ifs at hr with hd
    simp only [bind, Except.bind] at hr
    obtain ⟨r', hs, hP⟩ := foldRew_total P (List.range o.size)
      (fun v s hs => hstep v s (List.mem_range.mp hs)) (v, 0) h
    rw [sweepRew_eq, hs] at hr
    exact ih _ _ _ _ hP hr

/-! #### all expected rewards stay non-negative, so Player 1 always finds a successor -/

theorem p1_fold (er : Array K) (her : ∀ j, 0 ≤ er.getD j 0) (row : List (Tr K)) :
    ∀ (acc : K × Option (Tr K)), 0 ≤ acc.1 → (acc.2.isSome = true ∨ (acc.1 ≤ 0 ∧ row ≠ [])) →
      0 ≤ (row.foldl (fun (acc : K × Option (Tr K)) t =>
          if er.getD t.tgt 0 ≥ acc.1 then (er.getD t.tgt 0, some t) else acc) acc).1 ∧
      (row.foldl (fun (acc : K × Option (Tr K)) t =>
          if er.getD t.tgt 0 ≥ acc.1 then (er.getD t.tgt 0, some t) else acc) acc).2.isSome
        = true := by
  induction row with
  | nil =>
    intro acc h0 h
    rcases h with h | ⟨_, h⟩
    · exact ⟨h0, h⟩
    · exact absurd rfl h
  | cons t row ih =>
    intro acc h0 h
    rw [List.foldl_cons]
    apply ih
    · split_ifs
      · exact her _
      · exact h0
    · left
      split_ifs with hc
      · rfl
      · rcases h with h | ⟨h, _⟩
        · exact h
        · exact absurd (le_trans h (her t.tgt)) hc

theorem p2_fold (er : Array K) (her : ∀ j, 0 ≤ er.getD j 0) (row : List (Tr K)) :
    ∀ (acc : K × Tr K), 0 ≤ acc.1 →
      0 ≤ (row.foldl (fun (acc : K × Tr K) t =>
          if er.getD t.tgt 0 ≤ acc.1 then (er.getD t.tgt 0, t) else acc) acc).1 := by
  induction row with
  | nil => intro acc h0; exact h0
  | cons t row ih =>
    intro acc h0
    rw [List.foldl_cons]
    apply ih
    split_ifs
    · exact her _
    · exact h0

variable (rnd o rewards nodes reach) in
/-- with non-negative rewards, non-negative probabilities and non-negative current expected
rewards, the step at `s` succeeds (no `unbound`) and produces a non-negative expected reward -/
theorem stepRew_ok_nonneg (s : Nat) (hr : 0 ≤ rewards.getD s 0)
    (hp : o.getD s .prob = .prob → ∀ t ∈ nodes.getD s [], 0 ≤ t.p) (v : RewVecs K)
    (hv : ∀ j, 0 ≤ v.er.getD j 0) :
    ∃ x, stepRew rnd o rewards nodes reach v s = .ok x ∧ 0 ≤ x.1 := by
  unfold stepRew
  by_cases hemp : (nodes.getD s []).isEmpty = true
  · simp only [hemp, if_true]; exact ⟨_, rfl, le_rfl⟩
  · simp only [hemp, Bool.false_eq_true, if_false]
    cases ho : o.getD s .prob with
    | prob =>
      simp only
      refine ⟨_, rfl, ?_⟩
      simp only
      rw [foldl_sum_eq]
      have := sumOver_lower v.er (nodes.getD s []) 0 (hp ho) (fun t _ => hv _)
      rw [zero_mul] at this
      linarith
    | p1 =>
      simp only
      have hne : nodes.getD s [] ≠ [] := by simpa using hemp
      obtain ⟨h1, h2⟩ := p1_fold v.er hv (nodes.getD s []) (0, none) le_rfl
        (Or.inr ⟨le_rfl, hne⟩)
      rw [Option.isSome_iff_exists] at h2
      obtain ⟨t, ht⟩ := h2
      simp only [ht]
      exact ⟨_, rfl, by simp only; linarith⟩
    | p2 =>
      simp only
      cases hrow : nodes.getD s [] with
      | nil => exact ⟨_, rfl, le_rfl⟩
      | cons t0 rest =>
        simp only
        refine ⟨_, rfl, ?_⟩
        have := p2_fold v.er hv (t0 :: rest) (v.er.getD t0.tgt 0, t0) (hv _)
        simp only
        linarith

theorem updRew_er_nonneg (v : RewVecs K) (s : Nat) (x : K × K × K) (hx : 0 ≤ x.1)
    (hv : ∀ j, 0 ≤ v.er.getD j 0) : ∀ j, 0 ≤ (updRew v s x).er.getD j 0 := by
  intro j
  unfold updRew
  simp only
  rw [getD_setIfInBounds]
  split_ifs
  · exact hx
  · exact hv j

/-- the reward loop can only fail by running out of fuel -/
theorem viRew_error_outOfFuel (hr : ∀ s, 0 ≤ rewards.getD s 0)
    (hp : ∀ s, o.getD s .prob = .prob → ∀ t ∈ nodes.getD s [], 0 ≤ t.p)
    (thr : K) (fuel : Nat) (diff : K) (v : RewVecs K) (i : Nat) (e : Err)
    (hv : ∀ j, 0 ≤ v.er.getD j 0)
    (h : viRew rnd o rewards nodes reach thr fuel diff v i = .error e) : e = .outOfFuel := by
  refine viRew_error (fun v => ∀ j, 0 ≤ v.er.getD j 0) ?_ thr fuel diff v i e hv h
  intro v s _ hv
  obtain ⟨x, hx, hx0⟩ := stepRew_ok_nonneg rnd o rewards nodes reach s (hr s) (hp s) v hv
  exact ⟨x, hx, updRew_er_nonneg v s x hx0 hv⟩

/-- the three tracked vectors keep their lengths -/
theorem viRew_sizes (thr : K) (fuel : Nat) (diff : K) (v : RewVecs K) (i : Nat)
    (r : RewVecs K × Nat) (h : viRew rnd o rewards nodes reach thr fuel diff v i = .ok r) :
    r.1.er.size = v.er.size ∧ r.1.ermr.size = v.ermr.size ∧ r.1.pmr.size = v.pmr.size := by
  refine viRew_inv (fun v' => v'.er.size = v.er.size ∧ v'.ermr.size = v.ermr.size ∧
    v'.pmr.size = v.pmr.size) ?_ thr fuel diff v i r ⟨rfl, rfl, rfl⟩ h
  intro v' s x _ hv' _
  simpa [updRew] using hv'

end Rew

/-! ### conditioning; the pipeline -/

section Cond

/-- the renormalised probabilities of a conditioned probabilistic row are positive (the divisor is
the sum of the surviving probabilities: the row need not sum to 1) -/
theorem condProb_pos_of_pos (reach : Array K) {row : List (Tr K)} (hpos : ∀ t ∈ row, 0 < t.p) :
    ∀ t ∈ condProb reach row, 0 < t.p := by
  intro t ht
  by_cases hl : (row.filter (fun t => !dead reach t)).length = row.length
  · rw [condProb_of_eq hl] at ht
    exact hpos t ht
  · rw [condProb_field_of_removed reach hl] at ht
    obtain ⟨t', ht', rfl⟩ := List.mem_map.mp ht
    have hne : row.filter (fun t => !dead reach t) ≠ [] := List.ne_nil_of_mem ht'
    exact div_pos (hpos t' (List.mem_filter.mp ht').1) (live_sum_pos reach hpos hne)

/-- the renormalised probabilities of a conditioned probabilistic row are positive -/
theorem condProb_pos (reach : Array K) {row : List (Tr K)} (hpos : ∀ t ∈ row, 0 < t.p)
    (_hsum : (row.map (·.p)).sum = 1) : ∀ t ∈ condProb reach row, 0 < t.p :=
  condProb_pos_of_pos reach hpos

/-- after conditioning (with or without pruning) every probabilistic row has positive weights, as
soon as the original probabilistic rows have (they need not sum to 1) -/
theorem condition_prob_pos_of_pos {g : Game K} (hg : Shape g)
    (hrows : ∀ s, s < g.owners.size → g.owners.getD s .prob = .prob →
      ∀ t ∈ g.tl.getD s [], 0 < t.p) {prune : Bool}
    {strat : Array Strat} {reach : Array K} {nodes : Array (List (Tr K))}
    (h : condition prune g strat reach = .ok nodes) :
    ∀ s, g.owners.getD s .prob = .prob → ∀ t ∈ nodes.getD s [], 0 < t.p := by
  intro s ho t ht
  by_cases hs : s < g.owners.size
  · have hpos := hrows s hs ho
    cases prune with
    | false =>
      rw [condition_false_eq] at h
      cases h
      rw [pruneReachability_getD, ho] at ht
      exact hpos t ht
    | true =>
      rcases (condition_spec hg h).2 s with hrow | ⟨hnil, _, _⟩
      · rw [hrow, condRow_prob ho] at ht
        exact condProb_pos_of_pos reach hpos t ht
      · rw [hnil] at ht; exact absurd ht List.not_mem_nil
  · exfalso
    have hs' : g.owners.size ≤ s := Nat.le_of_not_lt hs
    cases prune with
    | false =>
      rw [condition_false_eq] at h
      cases h
      rw [pruneReachability_getD, ho] at ht
      simp only [getD_of_ge g.tl s [] (by rw [hg]; exact hs')] at ht
      exact absurd ht List.not_mem_nil
    | true =>
      rcases (condition_spec hg h).2 s with hrow | ⟨hnil, _, _⟩
      · rw [hrow, condRow_of_ge hg _ _ hs'] at ht; exact absurd ht List.not_mem_nil
      · rw [hnil] at ht; exact absurd ht List.not_mem_nil

/-- after conditioning (with or without pruning) every probabilistic row has positive weights -/
theorem condition_prob_pos {g : Game K} (hg : Shape g) (hrows : ProbRowsOK g) {prune : Bool}
    {strat : Array Strat} {reach : Array K} {nodes : Array (List (Tr K))}
    (h : condition prune g strat reach = .ok nodes) :
    ∀ s, g.owners.getD s .prob = .prob → ∀ t ∈ nodes.getD s [], 0 < t.p :=
  condition_prob_pos_of_pos hg (fun s hs ho => (hrows s hs ho).1) h

/-- conditioning never fails on a game whose probabilistic rows have positive probabilities on
their transitions into states of non-zero reachability probability: the divisor of `prune_paths`
is the sum of the surviving probabilities (the rows need not sum to 1) -/
theorem condition_ok_of_pos {g : Game K} (hg : Shape g) {reach : Array K}
    (hrows : ∀ s, s < g.owners.size → g.owners.getD s .prob = .prob →
      ∀ t ∈ g.tl.getD s [], dead reach t = false → 0 < t.p)
    (prune : Bool) (strat : Array Strat) :
    ∃ nodes, condition prune g strat reach = .ok nodes := by
  cases prune with
  | false => exact ⟨_, condition_false_eq g strat reach⟩
  | true =>
    obtain ⟨base, hb⟩ := prunePaths_pos hg hrows strat
    exact condition_total_of_prunePaths hg hb

/-- conditioning never fails on a game whose probabilistic rows are positive distributions -/
theorem condition_ok {g : Game K} (hg : Shape g) (hrows : ProbRowsOK g) (prune : Bool)
    (strat : Array Strat) (reach : Array K) :
    ∃ nodes, condition prune g strat reach = .ok nodes :=
  condition_ok_of_pos hg (fun s hs ho t ht _ => (hrows s hs ho).1 t ht) prune strat

end Cond

section Pipeline
variable {rnd : K → Int} {thr : K} {fuel : Nat} {prune : Bool} {g : Game K}

/-- `solveReach` once validation has passed -/
theorem solveReach_eq (hc : checkGame g = .ok ()) (hi : initStates g = .ok ()) :
    solveReach rnd thr fuel prune g =
      match viReach g.owners g.tl (gameOrder g) thr fuel 1 (initVec g) 0 with
      | .error e => .error e
      | .ok x =>
        if (prune && (x.1.getD 0 0 == 0)) = true then .error .noSolution
        else .ok { probs := x.1, strat := reachStrategies rnd g.owners g.tl x.1, iters := x.2,
                   order := gameOrder g } := by
  unfold solveReach
  simp only [bind, Except.bind, hc, hi, gameOrder, initVec]
  generalize viReach g.owners g.tl _ thr fuel 1 _ 0 = r
  cases r with
  | error e => rfl
  | ok x =>
    obtain ⟨reach, i⟩ := x
    simp only
    split_ifs <;> rfl

theorem solve_error {e : Err} (h : solve rnd thr fuel prune g = .error e) :
    solveReach rnd thr fuel prune g = .error e ∨
    ∃ ro, solveReach rnd thr fuel prune g = .ok ro ∧
      (condition prune g ro.strat ro.probs = .error e ∨
       ∃ nodes, condition prune g ro.strat ro.probs = .ok nodes ∧
        viRew rnd g.owners g.rewards nodes ro.probs thr fuel 1
          { er := g.rewards, ermr := g.rewards, pmr := ro.probs } 0 = .error e) := by
  unfold solve at h
  cases hr : solveReach rnd thr fuel prune g with
  | error e' =>
    rw [hr] at h; left
    simp only [bind, Except.bind] at h
    cases h; rfl
  | ok ro =>
    right
    refine ⟨ro, rfl, ?_⟩
    rw [hr] at h
    simp only [bind, Except.bind] at h
    cases hc : condition prune g ro.strat ro.probs with
    | error e' => rw [hc] at h; left; cases h; rfl
    | ok nodes =>
      right
      refine ⟨nodes, rfl, ?_⟩
      rw [hc] at h
      simp only at h
      split at h
      · rename_i e' he; rw [he]; cases h; rfl
      · cases h

theorem solve_of_solveReach_error {e : Err} (h : solveReach rnd thr fuel prune g = .error e) :
    solve rnd thr fuel prune g = .error e := by
  unfold solve; rw [h]; rfl

theorem solve_ok {out : SolveOut K} (h : solve rnd thr fuel prune g = .ok out) :
    ∃ (ro : ReachOut K) (v : RewVecs K) (j : Nat),
      solveReach rnd thr fuel prune g = .ok ro ∧
      condition prune g ro.strat ro.probs = .ok out.nodes ∧
      viRew rnd g.owners g.rewards out.nodes ro.probs thr fuel 1
        { er := g.rewards, ermr := g.rewards, pmr := ro.probs } 0 = .ok (v, j) ∧
      out.finalStrat = rewardStrategies rnd g.owners out.nodes v.er ∧
      out.reachStrat = ro.strat ∧ out.rewards = v.er ∧ out.probs = ro.probs ∧
      out.probMinRew = v.pmr ∧ out.rewMinReach = v.ermr := by
  unfold solve at h
  cases hr : solveReach rnd thr fuel prune g with
  | error e => rw [hr] at h; cases h
  | ok ro =>
    rw [hr] at h
    cases hc : condition prune g ro.strat ro.probs with
    | error e =>
      simp only [bind, Except.bind] at h
      rw [hc] at h; cases h
    | ok nodes =>
      simp only [bind, Except.bind] at h
      rw [hc] at h
      simp only at h
      split at h
      · cases h
      · rename_i x hx
        obtain ⟨v, j⟩ := x
        cases h
        exact ⟨ro, v, j, rfl, hc, hx, rfl, rfl, rfl, rfl, rfl, rfl⟩

/-- what `check_game` guarantees about the reward list -/
theorem checkGame_rewards_size (h : checkGame g = .ok ()) : g.rewards.size = g.owners.size := by
  unfold checkGame at h
  simp only [bind, Except.bind, pure, Except.pure, throw, throwThe, MonadExceptOf.throw] at h
  split_ifs at h with h1 h2
  · split at h <;> simp at h
  · split at h <;> simp at h
  · simpa using h2

end Pipeline

/-! ### the reachability phase of `solveReach` -/

section ReachPhase
variable {rnd : K → Int} {thr : K} {fuel : Nat} {prune : Bool} {g : Game K}

theorem vsum_nonneg (x : Array K) (n : Nat) (h : ∀ j, 0 ≤ x.getD j 0) : 0 ≤ vsum x n := by
  induction n with
  | zero => simp [vsum]
  | succ n ih => rw [vsum_succ]; linarith [h n]

/-- the initial vector satisfies the loop invariant -/
theorem initVec_RInv (g : Game K) (hp : ∀ s < g.owners.size, RowNonneg g.owners g.tl s) :
    RInv g.owners g.tl (gameOrder g) g.owners.size (initVec g) := by
  have hr : ∀ j, 0 ≤ (initVec g).getD j 0 ∧ (initVec g).getD j 0 ≤ 1 := by
    intro j
    rw [getD_initVec]
    split_ifs
    · exact ⟨zero_le_one, le_rfl⟩
    · exact ⟨le_rfl, zero_le_one⟩
  refine ⟨initVec_size g, ?_, hr⟩
  intro s hs hlt
  rw [initVec_size] at hlt
  have hnf : g.finals.contains s = false := by
    simpa using not_final_of_mem_reverseDfs _ _ s hs
  rw [getD_initVec, hnf]
  simp only [Bool.false_eq_true, and_false, if_false]
  exact stepReach_nonneg (hp s hlt) _ (fun j => (hr j).1)

/-- the reachability loop of `solveReach` does not run out of fuel -/
theorem solveReach_viReach_terminates (g : Game K) (htl : g.tl.size = g.owners.size)
    (hp : ∀ s < g.owners.size, RowNonneg g.owners g.tl s)
    (hs1 : ∀ s < g.owners.size, RowSumOne g.owners g.tl s) (thr : K) (fuel : Nat)
    (hfuel : (g.owners.size : K) < (fuel : K) * thr) :
    viReach g.owners g.tl (gameOrder g) thr fuel 1 (initVec g) 0 ≠ .error .outOfFuel := by
  have hx := initVec_RInv g hp
  refine viReach_terminates (gameOrder g) (reverseDfs_nodup _ _) g.owners.size rfl htl hp hs1 thr
    fuel _ 0 hx ?_
  have := vsum_nonneg (initVec g) g.owners.size (fun j => (hx.2.2 j).1)
  linarith

end ReachPhase

/-! ### the reward loop on ranked (acyclic apart from absorbing states) node lists -/

section Ranked
variable {rnd : K → Int} {o : Array Owner} {rewards : Array K} {nodes : Array (List (Tr K))}
  {reach : Array K}

/-- the three tracked values of state `j` -/
def val (v : RewVecs K) (j : Nat) : K × K × K :=
  (v.er.getD j 0, v.ermr.getD j 0, v.pmr.getD j 0)

theorem p1_sel_mem (er : Array K) (row : List (Tr K)) :
    ∀ (acc : K × Option (Tr K)) (t : Tr K),
      (row.foldl (fun (acc : K × Option (Tr K)) t =>
          if er.getD t.tgt 0 ≥ acc.1 then (er.getD t.tgt 0, some t) else acc) acc).2 = some t →
      acc.2 = some t ∨ t ∈ row := by
  induction row with
  | nil => intro acc t h; exact Or.inl h
  | cons u row ih =>
    intro acc t h
    rw [List.foldl_cons] at h
    rcases ih _ t h with h1 | h1
    · split_ifs at h1
      · right; simp only [Option.some.injEq] at h1; subst h1; exact List.mem_cons_self
      · left; exact h1
    · right; exact List.mem_cons_of_mem _ h1

theorem p2_sel_mem (er : Array K) (row : List (Tr K)) :
    ∀ (acc : K × Tr K),
      (row.foldl (fun (acc : K × Tr K) t =>
          if er.getD t.tgt 0 ≤ acc.1 then (er.getD t.tgt 0, t) else acc) acc).2 = acc.2 ∨
      (row.foldl (fun (acc : K × Tr K) t =>
          if er.getD t.tgt 0 ≤ acc.1 then (er.getD t.tgt 0, t) else acc) acc).2 ∈ row := by
  induction row with
  | nil => intro acc; exact Or.inl rfl
  | cons u row ih =>
    intro acc
    rw [List.foldl_cons]
    rcases ih (if er.getD u.tgt 0 ≤ acc.1 then (er.getD u.tgt 0, u) else acc) with h1 | h1
    · rw [h1]
      split_ifs
      · right; exact List.mem_cons_self
      · left; rfl
    · right; exact List.mem_cons_of_mem _ h1

/-- the step at `s` reads the tracked vectors only at the successors of `s` -/
theorem stepRew_congr (s : Nat) (v w : RewVecs K)
    (h : ∀ t ∈ nodes.getD s [], val v t.tgt = val w t.tgt) :
    stepRew rnd o rewards nodes reach v s = stepRew rnd o rewards nodes reach w s := by
  have her : ∀ t ∈ nodes.getD s [], v.er.getD t.tgt 0 = w.er.getD t.tgt 0 :=
    fun t ht => congrArg (·.1) (h t ht)
  have hermr : ∀ t ∈ nodes.getD s [], v.ermr.getD t.tgt 0 = w.ermr.getD t.tgt 0 :=
    fun t ht => congrArg (·.2.1) (h t ht)
  have hpmr : ∀ t ∈ nodes.getD s [], v.pmr.getD t.tgt 0 = w.pmr.getD t.tgt 0 :=
    fun t ht => congrArg (·.2.2) (h t ht)
  unfold stepRew
  simp only
  split_ifs with hemp
  · rfl
  cases ho : o.getD s .prob with
  | prob =>
    simp only
    have e1 := List.foldl_ext (fun acc t => acc + v.er.getD t.tgt 0 * t.p)
      (fun acc t => acc + w.er.getD t.tgt 0 * t.p) (rewards.getD s 0) (l := nodes.getD s [])
      (fun a t ht => by rw [her t ht])
    have e2 := List.foldl_ext (fun acc t => acc + v.ermr.getD t.tgt 0 * t.p)
      (fun acc t => acc + w.ermr.getD t.tgt 0 * t.p) (rewards.getD s 0) (l := nodes.getD s [])
      (fun a t ht => by rw [hermr t ht])
    have e3 := List.foldl_ext (fun acc t => acc + v.pmr.getD t.tgt 0 * t.p)
      (fun acc t => acc + w.pmr.getD t.tgt 0 * t.p) 0 (l := nodes.getD s [])
      (fun a t ht => by rw [hpmr t ht])
    rw [e1, e2, e3]
  | p1 =>
    simp only
    rw [List.foldl_ext _ (fun (acc : K × Option (Tr K)) t =>
        if w.er.getD t.tgt 0 ≥ acc.1 then (w.er.getD t.tgt 0, some t) else acc) _
        (fun a t ht => by rw [her t ht])]
    cases hsel : ((nodes.getD s []).foldl (fun (acc : K × Option (Tr K)) t =>
        if w.er.getD t.tgt 0 ≥ acc.1 then (w.er.getD t.tgt 0, some t) else acc) (0, none)).2 with
    | none => rfl
    | some t =>
      simp only
      rcases p1_sel_mem w.er _ _ t hsel with h1 | h1
      · cases h1
      · rw [hermr t h1, hpmr t h1]
  | p2 =>
    simp only
    cases hrow : nodes.getD s [] with
    | nil => rfl
    | cons t0 rest =>
      simp only
      rw [hrow] at her hermr hpmr
      rw [List.foldl_ext _ (fun (acc : K × Tr K) t =>
        if w.er.getD t.tgt 0 ≤ acc.1 then (w.er.getD t.tgt 0, t) else acc) _
        (fun a t ht => by rw [her t ht]), her t0 List.mem_cons_self]
      have hp2 : p2RewMinReach (rewards.getD s 0) v.ermr (t0 :: rest)
            (worstStratFrom rnd (rnd 1) reach (t0 :: rest)) =
          p2RewMinReach (rewards.getD s 0) w.ermr (t0 :: rest)
            (worstStratFrom rnd (rnd 1) reach (t0 :: rest)) := by
        unfold p2RewMinReach
        cases hf : (t0 :: rest).filter
            (fun t => (worstStratFrom rnd (rnd 1) reach (t0 :: rest)).contains t.act) with
        | nil => rfl
        | cons u us =>
          simp only
          have hsub : ∀ t ∈ u :: us, t ∈ t0 :: rest := by
            intro t ht; rw [← hf] at ht; exact (List.mem_filter.mp ht).1
          rw [List.foldl_ext _ (fun m t => if w.ermr.getD t.tgt 0 < m then w.ermr.getD t.tgt 0 else m) _
            (fun a t ht => by rw [hermr t (hsub t ht)]), hermr u (hsub u List.mem_cons_self)]
      rw [hp2]
      have hmem : ((t0 :: rest).foldl (fun (acc : K × Tr K) t =>
          if w.er.getD t.tgt 0 ≤ acc.1 then (w.er.getD t.tgt 0, t) else acc)
          (w.er.getD t0.tgt 0, t0)).2 ∈ t0 :: rest := by
        rcases p2_sel_mem w.er (t0 :: rest) (w.er.getD t0.tgt 0, t0) with h1 | h1
        · rw [h1]; exact List.mem_cons_self
        · exact h1
      rw [hpmr _ hmem]


/-- invariant principle for one sweep of the reward loop, where the invariant may mention the
states still to be processed and the running `diff` -/
theorem foldRew_inv_list (P : List Nat → RewVecs K × K → Prop)
    (hstep : ∀ s l acc x, P (s :: l) acc → stepRew rnd o rewards nodes reach acc.1 s = .ok x →
      P l (updRew acc.1 s x, updDiff acc.1 acc.2 s x)) :
    ∀ (l : List Nat) (acc r : RewVecs K × K), P l acc →
      l.foldlM (rewBody rnd o rewards nodes reach) acc = .ok r → P [] r := by
  intro l
  induction l with
  | nil =>
    intro acc r h hr
    rw [List.foldlM_nil] at hr
    cases hr; exact h
  | cons s l ih =>
    intro acc r h hr
    rw [List.foldlM_cons] at hr
    cases hb : rewBody rnd o rewards nodes reach acc s with
    | error e => rw [hb] at hr; cases hr
    | ok acc' =>
      rw [hb] at hr
      unfold rewBody at hb
      cases hst : stepRew rnd o rewards nodes reach acc.1 s with
      | error e => rw [hst] at hb; cases hb
      | ok x =>
        rw [hst] at hb
        cases hb
        exact ih _ r (hstep s l acc x h hst) hr

/-- all three tracked vectors have length `n` -/
def Sz (n : Nat) (v : RewVecs K) : Prop := v.er.size = n ∧ v.ermr.size = n ∧ v.pmr.size = n

theorem Sz_updRew {n : Nat} {v : RewVecs K} (h : Sz n v) (s : Nat) (x : K × K × K) :
    Sz n (updRew v s x) := by
  simpa [Sz, updRew] using h

theorem val_updRew {n : Nat} {v : RewVecs K} (h : Sz n v) {s : Nat} (hs : s < n) (x : K × K × K)
    (j : Nat) : val (updRew v s x) j = if s = j then x else val v j := by
  obtain ⟨h1, h2, h3⟩ := h
  unfold val updRew
  simp only [getD_setIfInBounds, h1, h2, h3, hs, and_true]
  split_ifs <;> rfl

/-- `w` and `v` carry the same values on the states of `D` (below `n`) -/
def AgreeOn (n : Nat) (D : Nat → Prop) (w v : RewVecs K) : Prop :=
  ∀ j < n, D j → val w j = val v j

variable (rnd o rewards nodes reach) in
/-- the values of the states in `D` are settled: re-evaluating such a state from any vectors that
agree with `v` on `D` reproduces its value in `v` -/
def Stab (n : Nat) (D : Nat → Prop) (v : RewVecs K) : Prop :=
  ∀ s < n, D s → ∀ w, AgreeOn n D w v →
    stepRew rnd o rewards nodes reach w s = .ok (val v s)

/-- one sweep keeps the settled states and settles every state all of whose successors were
settled -/
theorem stab_sweep {n : Nat} (hn : o.size = n) {D D' : Nat → Prop} {v : RewVecs K} (hsz : Sz n v)
    (hD : Stab rnd o rewards nodes reach n D v) (hsub : ∀ s, D s → D' s)
    (hdep : ∀ s < n, D' s → ¬ D s → ∀ t ∈ nodes.getD s [], t.tgt < n ∧ D t.tgt)
    {r : RewVecs K × K} (hsw : sweepRew rnd o rewards nodes reach v = .ok r) :
    Sz n r.1 ∧ Stab rnd o rewards nodes reach n D' r.1 := by
  rw [sweepRew_eq, hn] at hsw
  have key := foldRew_inv_list (rnd := rnd) (o := o) (rewards := rewards) (nodes := nodes)
    (reach := reach)
    (fun l acc => Sz n acc.1 ∧ (∀ s ∈ l, s < n) ∧ AgreeOn n D acc.1 v ∧
      ∀ s < n, D' s → ¬ D s → s ∉ l → ∀ w', AgreeOn n D w' v →
        stepRew rnd o rewards nodes reach w' s = .ok (val acc.1 s)) ?_ (List.range n) (v, 0) r
    ⟨hsz, fun s hs => List.mem_range.mp hs, fun j _ _ => rfl,
      fun s hs _ _ hnot => absurd (List.mem_range.mpr hs) hnot⟩ hsw
  · obtain ⟨h1, _, h3, h4⟩ := key
    refine ⟨h1, fun s hs hDs w hw => ?_⟩
    have hw' : AgreeOn n D w v := fun j hj hDj => (hw j hj (hsub j hDj)).trans (h3 j hj hDj)
    by_cases hds : D s
    · rw [hD s hs hds w hw', h3 s hs hds]
    · exact h4 s hs hDs hds List.not_mem_nil w hw'
  · intro s l acc x ⟨h1, h2, h3, h4⟩ hx
    have hs : s < n := h2 s List.mem_cons_self
    simp only
    refine ⟨Sz_updRew h1 s x, fun s' hs' => h2 s' (List.mem_cons_of_mem _ hs'), ?_, ?_⟩
    · intro j hj hDj
      rw [val_updRew h1 hs]
      split_ifs with hsj
      · subst hsj
        rw [hD s hs hDj acc.1 h3] at hx
        exact (Except.ok.inj hx).symm
      · exact h3 j hj hDj
    · intro s' hs' hD's' hnD hnot w' hw'
      rw [val_updRew h1 hs]
      split_ifs with hsj
      · subst hsj
        rw [← hx]
        apply stepRew_congr
        intro t ht
        obtain ⟨htn, hDt⟩ := hdep s hs hD's' hnD t ht
        rw [hw' _ htn hDt, h3 _ htn hDt]
      · exact h4 s' hs' hD's' hnD (fun hmem => by
          rcases List.mem_cons.mp hmem with h | h
          · exact hsj h.symm
          · exact hnot h) w' hw'

/-- once every state is settled, a sweep reports `diff = 0` -/
theorem stab_all_sweep {n : Nat} (hn : o.size = n) {D : Nat → Prop} (hall : ∀ s < n, D s)
    {v : RewVecs K} (hsz : Sz n v) (hD : Stab rnd o rewards nodes reach n D v)
    {r : RewVecs K × K} (hsw : sweepRew rnd o rewards nodes reach v = .ok r) : r.2 = 0 := by
  rw [sweepRew_eq, hn] at hsw
  have key := foldRew_inv_list (rnd := rnd) (o := o) (rewards := rewards) (nodes := nodes)
    (reach := reach)
    (fun l acc => Sz n acc.1 ∧ (∀ s ∈ l, s < n) ∧ AgreeOn n D acc.1 v ∧ acc.2 = 0) ?_
    (List.range n) (v, 0) r
    ⟨hsz, fun s hs => List.mem_range.mp hs, fun j _ _ => rfl, rfl⟩ hsw
  · exact key.2.2.2
  · intro s l acc x ⟨h1, h2, h3, h4⟩ hx
    have hs : s < n := h2 s List.mem_cons_self
    rw [hD s hs (hall s hs) acc.1 h3, ← h3 s hs (hall s hs)] at hx
    have hx' := (Except.ok.inj hx).symm
    subst hx'
    simp only
    refine ⟨Sz_updRew h1 s _, fun s' hs' => h2 s' (List.mem_cons_of_mem _ hs'), ?_, ?_⟩
    · intro j hj hDj
      rw [val_updRew h1 hs]
      split_ifs with hsj
      · subst hsj; exact h3 s hs hDj
      · exact h3 j hj hDj
    · simp [updDiff, val, max3, absv, h4]

theorem viRew_exit (thr : K) (fuel : Nat) (diff : K) (v : RewVecs K) (i : Nat)
    (h : ¬ diff > thr) : viRew rnd o rewards nodes reach thr fuel diff v i = .ok (v, i) := by
  cases fuel <;> (unfold viRew; rw [if_neg h])

/-- a probabilistic state whose only transition is a self-loop of probability 1 and whose reward
is 0 keeps its three values -/
theorem stepRew_absorbing (s : Nat) (ho : o.getD s .prob = .prob) (hr : rewards.getD s 0 = 0)
    (t : Tr K) (hrow : nodes.getD s [] = [t]) (ht : t.tgt = s) (hp : t.p = 1) (w : RewVecs K) :
    stepRew rnd o rewards nodes reach w s = .ok (val w s) := by
  unfold stepRew
  simp [hrow, ho, hr, ht, hp, val]


/-- the reward loop on a ranked (acyclic apart from absorbing states) node list: from a state of
the loop in which the states `Abs s ∨ rk s < k` are settled, the loop exits after at most
`R + 2 - k` further sweeps -/
theorem viRew_ranked_aux {n : Nat} (hn : o.size = n) (Abs : Nat → Prop) (rk : Nat → Nat) (R : Nat)
    (hR : ∀ s < n, rk s ≤ R)
    (hrank : ∀ s < n, ¬ Abs s → ∀ t ∈ nodes.getD s [], t.tgt < n ∧ (Abs t.tgt ∨ rk t.tgt < rk s))
    (hr : ∀ s, 0 ≤ rewards.getD s 0)
    (hp : ∀ s, o.getD s .prob = .prob → ∀ t ∈ nodes.getD s [], 0 ≤ t.p)
    (thr : K) (hthr : 0 ≤ thr) (fuel : Nat) :
    ∀ (k : Nat) (diff : K) (v : RewVecs K) (i : Nat), k ≤ R + 1 → R + 1 - k < fuel → Sz n v →
      (∀ j, 0 ≤ v.er.getD j 0) →
      Stab rnd o rewards nodes reach n (fun s => Abs s ∨ rk s < k) v →
      ∃ r, viRew rnd o rewards nodes reach thr fuel diff v i = .ok r ∧ r.2 ≤ i + (R + 2 - k) := by
  induction fuel with
  | zero => intro k diff v i _ h; omega
  | succ fuel ih =>
    intro k diff v i hk hfuel hsz hv hst
    by_cases hd : diff > thr
    · obtain ⟨r', hs', hv'⟩ := foldRew_total (rnd := rnd) (o := o) (rewards := rewards)
        (nodes := nodes) (reach := reach) (fun v => ∀ j, 0 ≤ v.er.getD j 0) (List.range o.size)
        (fun v s _ hv => by
          obtain ⟨x, hx, hx0⟩ := stepRew_ok_nonneg rnd o rewards nodes reach s (hr s) (hp s) v hv
          exact ⟨x, hx, updRew_er_nonneg v s x hx0 hv⟩) (v, 0) hv
      rw [← sweepRew_eq] at hs'
      unfold viRew
      rw [if_pos hd]
      simp only [bind, Except.bind, hs']
      by_cases hkR : k = R + 1
      · have hz := stab_all_sweep hn (D := fun s => Abs s ∨ rk s < k)
          (fun s hs => Or.inr (by have := hR s hs; omega)) hsz hst hs'
        rw [hz, viRew_exit thr fuel 0 r'.1 (i + 1) (not_lt.mpr hthr)]
        exact ⟨_, rfl, by simp only; omega⟩
      · obtain ⟨hsz', hst'⟩ := stab_sweep hn (D' := fun s => Abs s ∨ rk s < k + 1) hsz hst
          (fun s h => h.elim Or.inl (fun h => Or.inr (by omega)))
          (fun s hs hD' hnD t ht => by
            have hna : ¬ Abs s := fun h => hnD (Or.inl h)
            have hks : ¬ rk s < k := fun h => hnD (Or.inr h)
            obtain ⟨h1, h2⟩ := hrank s hs hna t ht
            refine ⟨h1, h2.elim Or.inl (fun h => Or.inr ?_)⟩
            rcases hD' with h' | h'
            · exact absurd h' hna
            · omega) hs'
        obtain ⟨r, hr1, hr2⟩ := ih (k + 1) r'.2 r'.1 (i + 1) (by omega) (by omega) hsz' hv' hst'
        exact ⟨r, hr1, by omega⟩
    · rw [viRew_exit thr _ diff v i hd]
      exact ⟨_, rfl, by simp only; omega⟩

/-- the reward loop terminates within `R + 2` sweeps on a node list that is acyclic apart from
absorbing states, `R` being the maximal rank -/
theorem viRew_ranked {n : Nat} (hn : o.size = n) (Abs : Nat → Prop) (rk : Nat → Nat) (R : Nat)
    (hR : ∀ s < n, rk s ≤ R)
    (habs : ∀ s < n, Abs s → ∀ w, stepRew rnd o rewards nodes reach w s = .ok (val w s))
    (hrank : ∀ s < n, ¬ Abs s → ∀ t ∈ nodes.getD s [], t.tgt < n ∧ (Abs t.tgt ∨ rk t.tgt < rk s))
    (hr : ∀ s, 0 ≤ rewards.getD s 0)
    (hp : ∀ s, o.getD s .prob = .prob → ∀ t ∈ nodes.getD s [], 0 ≤ t.p)
    (thr : K) (hthr : 0 ≤ thr) (fuel : Nat) (hfuel : R + 2 ≤ fuel) (diff : K) (v : RewVecs K)
    (i : Nat) (hsz : Sz n v) (hv : ∀ j, 0 ≤ v.er.getD j 0) :
    ∃ r, viRew rnd o rewards nodes reach thr fuel diff v i = .ok r ∧ r.2 ≤ i + (R + 2) := by
  refine viRew_ranked_aux hn Abs rk R hR hrank hr hp thr hthr fuel 0 diff v i (by omega) (by omega)
    hsz hv ?_
  intro s hs hD w hw
  have ha : Abs s := hD.elim id (fun h => absurd h (Nat.not_lt_zero _))
  rw [habs s hs ha w, hw s hs hD]


end Ranked

section Pipeline2
variable {rnd : K → Int} {thr : K} {fuel : Nat} {prune : Bool} {g : Game K}

/-- conditioning creates no new targets -/
theorem condition_tgt_mem (hg : Shape g) {strat : Array Strat} {reach : Array K}
    {nodes : Array (List (Tr K))} (h : condition prune g strat reach = .ok nodes) :
    ∀ s, ∀ t ∈ nodes.getD s [], ∃ t' ∈ g.tl.getD s [], t'.tgt = t.tgt := by
  intro s t ht
  cases prune with
  | false =>
    rw [condition_false_eq] at h
    cases h
    rw [pruneReachability_getD] at ht
    cases ho : g.owners.getD s .prob <;> rw [ho] at ht <;> simp only at ht
    · exact ⟨t, ht, rfl⟩
    · exact ⟨t, (List.mem_filter.mp ht).1, rfl⟩
    · exact ⟨t, ht, rfl⟩
  | true =>
    rcases (condition_spec hg h).2 s with hrow | ⟨hnil, _, _⟩
    · rw [hrow] at ht
      cases ho : g.owners.getD s .prob with
      | p2 => rw [condRow_p2 ho] at ht; exact ⟨t, ht, rfl⟩
      | p1 =>
        rw [condRow_p1 ho] at ht
        exact ⟨t, (List.mem_filter.mp (List.mem_filter.mp ht).1).1, rfl⟩
      | prob =>
        rw [condRow_prob ho] at ht
        unfold condProb at ht
        simp only at ht
        split_ifs at ht
        · exact ⟨t, ht, rfl⟩
        · obtain ⟨t', ht', rfl⟩ := List.mem_map.mp ht
          exact ⟨t', (List.mem_filter.mp ht').1, rfl⟩
    · rw [hnil] at ht; exact absurd ht List.not_mem_nil

theorem solve_of_parts {ro : ReachOut K} {nodes : Array (List (Tr K))} {v : RewVecs K} {j : Nat}
    (hro : solveReach rnd thr fuel prune g = .ok ro)
    (hcond : condition prune g ro.strat ro.probs = .ok nodes)
    (hvi : viRew rnd g.owners g.rewards nodes ro.probs thr fuel 1
      { er := g.rewards, ermr := g.rewards, pmr := ro.probs } 0 = .ok (v, j)) :
    solve rnd thr fuel prune g =
      .ok { finalStrat := rewardStrategies rnd g.owners nodes v.er, reachStrat := ro.strat,
            rewards := v.er, probs := ro.probs, itReach := ro.iters, itRew := j,
            probMinRew := v.pmr, rewMinReach := v.ermr, nodes := nodes } := by
  unfold solve
  rw [hro]
  simp only [bind, Except.bind]
  rw [hcond]
  simp only
  rw [hvi]
  rfl

end Pipeline2

end CR.Term
