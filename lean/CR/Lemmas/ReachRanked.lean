/-
Helper definitions and lemmas for `CR/Props/C01Ranked.lean`: on games that are acyclic apart from
absorbing states ("reach-ranked") the Bellman equations of the reachability game have exactly one
solution that is 0 at the non-final absorbing states, that solution is the value (the least
pre-fixed point), and the Gauss–Seidel value iteration of `solveReach` settles the states rank by
rank.

Contents
* `Absorbing g s`: the row of `s` is non-empty and every transition of `s` returns to `s`;
  `Pinned g s`: `s` is final or absorbing; `ReachRanked g rk R`; `ExactReach g w`;
  `LowO g rk ord k s`: the states that are settled after `k` sweeps over `ord`;
* `stepReach` reads its argument only at the successors of the state (congruence, local
  monotonicity, local non-expansiveness);
* uniqueness of the fixed point of `Bell` (strong induction on the rank), error bound
  `(rank + 1)·ε` for an `ε`-approximate fixed point, existence (Jacobi iteration), the exact
  solution IS the value and conversely;
* one sweep over `ord` settles the states of `LowO (k+1)` if those of `LowO k` were settled.
-/
import CR.Props.C01Path
import CR.Props.C01Value

set_option linter.unusedSectionVars false

namespace CR.ReachRank

open CR CR.VI CR.C01

variable {K : Type} [Field K] [LinearOrder K] [IsStrictOrderedRing K]

/-! ### definitions used in the statements -/

/-- `s` is absorbing: it has at least one transition and every transition of `s` returns to `s`
(the sinks `[(1, s)]`, the final states of the example games, Player states that can only loop) -/
def Absorbing (g : Game K) (s : Nat) : Prop :=
  g.tl.getD s [] ≠ [] ∧ ∀ t ∈ g.tl.getD s [], t.tgt = s

/-- final or absorbing: the states whose value does not depend on any other state -/
def Pinned (g : Game K) (s : Nat) : Prop := s ∈ g.finals ∨ Absorbing g s

/-- the game is acyclic apart from final and absorbing states: ranks are bounded by `R`, and every
transition of a state that is neither final nor absorbing leads to a state in range that is final,
absorbing, or of strictly smaller rank -/
structure ReachRanked (g : Game K) (rk : Nat → Nat) (R : Nat) : Prop where
  bound : ∀ s < g.owners.size, rk s ≤ R
  step : ∀ s < g.owners.size, s ∉ g.finals → ¬ Absorbing g s → ∀ t ∈ g.tl.getD s [],
    t.tgt < g.owners.size ∧ (t.tgt ∈ g.finals ∨ Absorbing g t.tgt ∨ rk t.tgt < rk s)

/-- `w` solves the Bellman equations of the reachability game exactly: it is a fixed point of
`Bell` at every state (hence 1 at the final states), and it is 0 at the non-final absorbing states
(where the equation `w[s] = w[s]` says nothing) -/
def ExactReach (g : Game K) (w : Array K) : Prop :=
  (∀ s < g.owners.size, Bell g w s = w.getD s 0) ∧
    ∀ s < g.owners.size, s ∉ g.finals → Absorbing g s → w.getD s 0 = 0

/-- the states that are settled after `k` sweeps over `ord`: those outside `ord` (never updated),
the final and absorbing ones, and those of rank `< k` -/
def LowO (g : Game K) (rk : Nat → Nat) (ord : List Nat) (k s : Nat) : Prop :=
  s ∉ ord ∨ Pinned g s ∨ rk s < k

/-- `x` and `w` agree at the states `< n` that satisfy `D` -/
def AgreeOn (n : Nat) (D : Nat → Prop) (x w : Array K) : Prop :=
  ∀ s < n, D s → x.getD s 0 = w.getD s 0

/-! ### `stepReach` and `Bell` read the vector only at the successors -/

section Step
variable {o : Array Owner} {tl : Array (List (Tr K))}

theorem sumOver_congr (x y : Array K) (row : List (Tr K))
    (h : ∀ t ∈ row, x.getD t.tgt 0 = y.getD t.tgt 0) : sumOver x row = sumOver y row := by
  unfold sumOver
  congr 1
  exact List.map_congr_left (fun t ht => by rw [h t ht])

theorem maxOver_congr (x y : Array K) (row : List (Tr K)) (m0 : K)
    (h : ∀ t ∈ row, x.getD t.tgt 0 = y.getD t.tgt 0) : maxOver x row m0 = maxOver y row m0 := by
  unfold maxOver
  exact List.foldl_ext _ _ _ (fun a t ht => by rw [h t ht])

theorem minOver_congr (x y : Array K) (row : List (Tr K)) (m0 : K)
    (h : ∀ t ∈ row, x.getD t.tgt 0 = y.getD t.tgt 0) : minOver x row m0 = minOver y row m0 := by
  unfold minOver
  exact List.foldl_ext _ _ _ (fun a t ht => by rw [h t ht])

theorem stepReach_congr (x y : Array K) (s : Nat)
    (h : ∀ t ∈ tl.getD s [], x.getD t.tgt 0 = y.getD t.tgt 0) :
    stepReach o tl x s = stepReach o tl y s := by
  cases ho : o.getD s .prob with
  | p1 => rw [stepReach_p1 o tl x s ho, stepReach_p1 o tl y s ho]; exact maxOver_congr _ _ _ _ h
  | p2 => rw [stepReach_p2 o tl x s ho, stepReach_p2 o tl y s ho]; exact minOver_congr _ _ _ _ h
  | prob => rw [stepReach_prob o tl x s ho, stepReach_prob o tl y s ho]; exact sumOver_congr _ _ _ h

theorem stepReach_mono_local {s : Nat} (hp : RowNonneg o tl s) (x y : Array K)
    (h : ∀ t ∈ tl.getD s [], x.getD t.tgt 0 ≤ y.getD t.tgt 0) :
    stepReach o tl x s ≤ stepReach o tl y s := by
  cases ho : o.getD s .prob with
  | p1 => rw [stepReach_p1 o tl x s ho, stepReach_p1 o tl y s ho]
          exact maxOver_mono _ _ _ _ _ le_rfl h
  | p2 => rw [stepReach_p2 o tl x s ho, stepReach_p2 o tl y s ho]
          exact minOver_mono _ _ _ _ _ le_rfl h
  | prob => rw [stepReach_prob o tl x s ho, stepReach_prob o tl y s ho]
            exact sumOver_mono _ _ _ (hp ho) h

theorem stepReach_nonneg_local {s : Nat} (hp : RowNonneg o tl s) (x : Array K)
    (h : ∀ t ∈ tl.getD s [], 0 ≤ x.getD t.tgt 0) : 0 ≤ stepReach o tl x s := by
  cases ho : o.getD s .prob with
  | p1 => rw [stepReach_p1 o tl x s ho]; exact le_maxOver_init _ _ _
  | p2 => rw [stepReach_p2 o tl x s ho]; exact le_minOver _ _ _ _ zero_le_one h
  | prob =>
    rw [stepReach_prob o tl x s ho]
    have := sumOver_lower x (tl.getD s []) 0 (hp ho) h
    simpa using this

/-- non-expansiveness in the sup norm over the successors of the state -/
theorem stepReach_nonexp_local {s : Nat} (hp : RowNonneg o tl s) (hs : RowSumOne o tl s)
    (x y : Array K) (e : K) (he : 0 ≤ e)
    (h : ∀ t ∈ tl.getD s [], |x.getD t.tgt 0 - y.getD t.tgt 0| ≤ e) :
    |stepReach o tl x s - stepReach o tl y s| ≤ e := by
  cases ho : o.getD s .prob with
  | p1 => rw [stepReach_p1 o tl x s ho, stepReach_p1 o tl y s ho]
          exact maxOver_nonexp _ _ _ _ _ _ (by simpa using he) h
  | p2 => rw [stepReach_p2 o tl x s ho, stepReach_p2 o tl y s ho]
          exact minOver_nonexp _ _ _ _ _ _ (by simpa using he) h
  | prob =>
    rw [stepReach_prob o tl x s ho, stepReach_prob o tl y s ho]
    have := sumOver_nonexp x y (tl.getD s []) e (hp ho) h
    rw [hs ho] at this
    simpa using this

end Step

section Bell
variable {g : Game K} {rk : Nat → Nat} {R : Nat}

theorem Bell_final (x : Array K) {s : Nat} (h : s ∈ g.finals) : Bell g x s = 1 := by
  unfold Bell
  have : g.finals.contains s = true := by simpa using h
  rw [this]; rfl

theorem Bell_nonfinal (x : Array K) {s : Nat} (h : s ∉ g.finals) :
    Bell g x s = stepReach g.owners g.tl x s := by
  unfold Bell
  have : g.finals.contains s = false := by simpa using h
  rw [this]; rfl

theorem Bell_congr (x y : Array K) (s : Nat)
    (h : ∀ t ∈ g.tl.getD s [], x.getD t.tgt 0 = y.getD t.tgt 0) : Bell g x s = Bell g y s := by
  by_cases hf : s ∈ g.finals
  · rw [Bell_final x hf, Bell_final y hf]
  · rw [Bell_nonfinal x hf, Bell_nonfinal y hf]; exact stepReach_congr x y s h

/-- a fixed point of `Bell` is 1 at the final states -/
theorem fixed_final {w : Array K} (hw : ∀ s < g.owners.size, Bell g w s = w.getD s 0) {s : Nat}
    (hs : s < g.owners.size) (hf : s ∈ g.finals) : w.getD s 0 = 1 := by
  rw [← hw s hs, Bell_final w hf]

/-- an exact solution is pinned at the final and absorbing states -/
theorem ExactReach.pinned {w w' : Array K} (hw : ExactReach g w) (hw' : ExactReach g w') {s : Nat}
    (hs : s < g.owners.size) (hp : Pinned g s) : w.getD s 0 = w'.getD s 0 := by
  by_cases hf : s ∈ g.finals
  · rw [fixed_final hw.1 hs hf, fixed_final hw'.1 hs hf]
  · have ha := hp.resolve_left hf
    rw [hw.2 s hs hf ha, hw'.2 s hs hf ha]

/-- the rank condition in terms of `Pinned` -/
theorem ReachRanked.step' (hrk : ReachRanked g rk R) {s : Nat} (hs : s < g.owners.size)
    (hp : ¬ Pinned g s) : ∀ t ∈ g.tl.getD s [],
      t.tgt < g.owners.size ∧ (Pinned g t.tgt ∨ rk t.tgt < rk s) := by
  intro t ht
  obtain ⟨h1, h2⟩ := hrk.step s hs (fun h => hp (Or.inl h)) (fun h => hp (Or.inr h)) t ht
  refine ⟨h1, ?_⟩
  rcases h2 with h | h | h
  · exact Or.inl (Or.inl h)
  · exact Or.inl (Or.inr h)
  · exact Or.inr h

/-! ### uniqueness, error bound -/

/-- two fixed points of `Bell` that agree at the final and absorbing states agree everywhere
(strong induction on the rank) -/
theorem bell_unique (hrk : ReachRanked g rk R) (x y : Array K)
    (hx : ∀ s < g.owners.size, Bell g x s = x.getD s 0)
    (hy : ∀ s < g.owners.size, Bell g y s = y.getD s 0)
    (hxy : ∀ s < g.owners.size, Pinned g s → x.getD s 0 = y.getD s 0) :
    ∀ s < g.owners.size, x.getD s 0 = y.getD s 0 := by
  have key : ∀ m, ∀ s < g.owners.size, rk s < m → x.getD s 0 = y.getD s 0 := by
    intro m
    induction m with
    | zero => intro s _ h; omega
    | succ m ih =>
      intro s hs hm
      by_cases hp : Pinned g s
      · exact hxy s hs hp
      · rw [← hx s hs, ← hy s hs]
        apply Bell_congr
        intro t ht
        obtain ⟨htn, h⟩ := hrk.step' hs hp t ht
        rcases h with h | h
        · exact hxy _ htn h
        · exact ih _ htn (by omega)
  intro s hs
  exact key (rk s + 1) s hs (by omega)

/-- a vector that, at every state, either already agrees with the fixed point `w` or is an
`ε`-approximate fixed point of `Bell`, and that agrees with `w` at the final and absorbing states,
is within `(rank + 1)·ε` of `w` -/
theorem bell_error_bound (hwf : WF g) (hrk : ReachRanked g rk R) (x w : Array K) (ε : K)
    (hε : 0 ≤ ε)
    (hx : ∀ s < g.owners.size, x.getD s 0 = w.getD s 0 ∨ |Bell g x s - x.getD s 0| ≤ ε)
    (hw : ∀ s < g.owners.size, Bell g w s = w.getD s 0)
    (hxw : ∀ s < g.owners.size, Pinned g s → x.getD s 0 = w.getD s 0) :
    ∀ s < g.owners.size, |x.getD s 0 - w.getD s 0| ≤ ((rk s : K) + 1) * ε := by
  have key : ∀ m, ∀ s < g.owners.size, rk s < m →
      |x.getD s 0 - w.getD s 0| ≤ ((rk s : K) + 1) * ε := by
    intro m
    induction m with
    | zero => intro s _ h; omega
    | succ m ih =>
      intro s hs hm
      have hrk0 : (0 : K) ≤ (rk s : K) := Nat.cast_nonneg _
      have hexact : x.getD s 0 = w.getD s 0 → |x.getD s 0 - w.getD s 0| ≤ ((rk s : K) + 1) * ε := by
        intro h
        rw [h, sub_self, abs_zero]
        exact mul_nonneg (by linarith) hε
      by_cases hp : Pinned g s
      · exact hexact (hxw s hs hp)
      · rcases hx s hs with h | h2
        · exact hexact h
        · have hnf : s ∉ g.finals := fun h => hp (Or.inl h)
          have hsucc : ∀ t ∈ g.tl.getD s [], |x.getD t.tgt 0 - w.getD t.tgt 0| ≤ (rk s : K) * ε := by
            intro t ht
            obtain ⟨htn, h⟩ := hrk.step' hs hp t ht
            rcases h with h | h
            · rw [hxw _ htn h, sub_self, abs_zero]
              exact mul_nonneg hrk0 hε
            · refine le_trans (ih _ htn (by omega)) (mul_le_mul_of_nonneg_right ?_ hε)
              exact_mod_cast h
          have h1 := stepReach_nonexp_local (hwf.rowNonneg_pub hs) (hwf.rowSumOne_pub hs) x w
            ((rk s : K) * ε) (mul_nonneg hrk0 hε) hsucc
          rw [← Bell_nonfinal x hnf, ← Bell_nonfinal w hnf, hw s hs] at h1
          have h3 : x.getD s 0 - w.getD s 0 =
              (Bell g x s - w.getD s 0) - (Bell g x s - x.getD s 0) := by ring
          rw [h3]
          refine le_trans (abs_sub _ _) ?_
          linarith
  intro s hs
  exact key (rk s + 1) s hs (by omega)

/-! ### the exact solution is the value -/

/-- entries of an exact solution of a ranked game are non-negative -/
theorem exact_nonneg (hwf : WF g) (hrk : ReachRanked g rk R) (w : Array K) (hw : ExactReach g w) :
    ∀ s < g.owners.size, 0 ≤ w.getD s 0 := by
  have key : ∀ m, ∀ s < g.owners.size, rk s < m → 0 ≤ w.getD s 0 := by
    intro m
    induction m with
    | zero => intro s _ h; omega
    | succ m ih =>
      intro s hs hm
      have hpin : ∀ t < g.owners.size, Pinned g t → 0 ≤ w.getD t 0 := by
        intro t ht hp
        by_cases hf : t ∈ g.finals
        · rw [fixed_final hw.1 ht hf]; exact zero_le_one
        · rw [hw.2 t ht hf (hp.resolve_left hf)]
      by_cases hp : Pinned g s
      · exact hpin s hs hp
      · have hnf : s ∉ g.finals := fun h => hp (Or.inl h)
        rw [← hw.1 s hs, Bell_nonfinal w hnf]
        refine stepReach_nonneg_local (hwf.rowNonneg_pub hs) w (fun t ht => ?_)
        obtain ⟨htn, h⟩ := hrk.step' hs hp t ht
        rcases h with h | h
        · exact hpin _ htn h
        · exact ih _ htn (by omega)
  intro s hs
  exact key (rk s + 1) s hs (by omega)

/-- an exact solution of a ranked game is below every pre-fixed point -/
theorem exact_le_prefixed (hwf : WF g) (hrk : ReachRanked g rk R) (w : Array K)
    (hw : ExactReach g w) (y : Array K) (hy : PreFixed g y) :
    ∀ s < g.owners.size, w.getD s 0 ≤ y.getD s 0 := by
  have key : ∀ m, ∀ s < g.owners.size, rk s < m → w.getD s 0 ≤ y.getD s 0 := by
    intro m
    induction m with
    | zero => intro s _ h; omega
    | succ m ih =>
      intro s hs hm
      have hpin : ∀ t < g.owners.size, Pinned g t → w.getD t 0 ≤ y.getD t 0 := by
        intro t ht hp
        by_cases hf : t ∈ g.finals
        · rw [fixed_final hw.1 ht hf, ← Bell_final y hf]; exact hy.2.2 t ht
        · rw [hw.2 t ht hf (hp.resolve_left hf)]; exact hy.2.1 t ht
      by_cases hp : Pinned g s
      · exact hpin s hs hp
      · have hnf : s ∉ g.finals := fun h => hp (Or.inl h)
        refine le_trans ?_ (hy.2.2 s hs)
        rw [← hw.1 s hs, Bell_nonfinal w hnf, Bell_nonfinal y hnf]
        refine stepReach_mono_local (hwf.rowNonneg_pub hs) w y (fun t ht => ?_)
        obtain ⟨htn, h⟩ := hrk.step' hs hp t ht
        rcases h with h | h
        · exact hpin _ htn h
        · exact ih _ htn (by omega)
  intro s hs
  exact key (rk s + 1) s hs (by omega)

/-- on a ranked well-formed game an exact solution (one entry per state) is the value -/
theorem exact_isValue (hwf : WF g) (hrk : ReachRanked g rk R) (w : Array K)
    (hsz : w.size = g.owners.size) (hw : ExactReach g w) : IsValue g w :=
  ⟨⟨hsz, exact_nonneg hwf hrk w hw, fun s hs => le_of_eq (hw.1 s hs)⟩,
    fun y hy => exact_le_prefixed hwf hrk w hw y hy⟩

/-- the value of a well-formed game is 0 at every non-final absorbing state (no rank needed):
resetting that coordinate to 0 keeps a pre-fixed point pre-fixed -/
theorem value_absorbing_zero (hwf : WF g) (v : Array K) (hv : IsValue g v) {s : Nat}
    (hs : s < g.owners.size) (hnf : s ∉ g.finals) (ha : Absorbing g s) : v.getD s 0 = 0 := by
  have hvnn : ∀ j, 0 ≤ v.getD j 0 := fun j => (value_range g hwf v hv j).1
  set y : Array K := v.setIfInBounds s 0 with hy
  have hyget : ∀ j, y.getD j 0 = if s = j ∧ s < v.size then 0 else v.getD j 0 := by
    intro j; rw [hy, getD_setIfInBounds]
  have hys : y.getD s 0 = 0 := by
    rw [hyget, if_pos ⟨rfl, by rw [hv.1.1]; exact hs⟩]
  have hyle : ∀ j, y.getD j 0 ≤ v.getD j 0 := by
    intro j; rw [hyget]; split_ifs
    · exact hvnn j
    · exact le_rfl
  have hpre : PreFixed g y := by
    refine ⟨by rw [hy]; simpa using hv.1.1, fun t _ => ?_, fun t ht => ?_⟩
    · rw [hyget]; split_ifs
      · exact le_rfl
      · exact hvnn t
    · by_cases hts : s = t
      · subst hts
        rw [hys, Bell_nonfinal y hnf]
        apply le_of_eq
        refine stepReach_eq_zero (hwf.rowNonneg_pub hs) (fun _ => ha.1) y (fun t ht => ?_)
        rw [ha.2 t ht, hys]
      · rw [hyget, if_neg (fun h => hts h.1)]
        exact le_trans (Bell_mono hwf ht y v hyle) (hv.1.2.2 t ht)
  have := hv.2 y hpre s hs
  rw [hys] at this
  exact le_antisymm this (hvnn s)

/-- the value of a well-formed game is an exact solution -/
theorem value_exact (hwf : WF g) (v : Array K) (hv : IsValue g v) : ExactReach g v :=
  ⟨value_fixed g hwf v hv, fun _ hs hnf ha => value_absorbing_zero hwf v hv hs hnf ha⟩

/-! ### existence: Jacobi iteration from the initial vector -/

/-- the states that are final, absorbing or of rank `< k` -/
def Low (g : Game K) (rk : Nat → Nat) (k s : Nat) : Prop := Pinned g s ∨ rk s < k

/-- one Jacobi step of the Bellman equations -/
def jac (g : Game K) (x : Array K) : Array K :=
  (Array.range g.owners.size).map (fun s => Bell g x s)

theorem jac_size (x : Array K) : (jac g x).size = g.owners.size := by simp [jac]

theorem jac_getD (x : Array K) {s : Nat} (hs : s < g.owners.size) :
    (jac g x).getD s 0 = Bell g x s := by
  simp [jac, Array.getD, hs]

/-- the successors of a state of `Low (k+1)` are in range and in `Low k`, or the state is final -/
theorem ReachRanked.low_succ (hrk : ReachRanked g rk R) (k : Nat) {s : Nat}
    (hs : s < g.owners.size) (hnf : s ∉ g.finals) (hlow : Low g rk (k + 1) s) :
    ∀ t ∈ g.tl.getD s [], t.tgt < g.owners.size ∧ Low g rk k t.tgt := by
  intro t ht
  by_cases hp : Pinned g s
  · have ha := hp.resolve_left hnf
    rw [ha.2 t ht]
    exact ⟨hs, Or.inl hp⟩
  · obtain ⟨htn, h⟩ := hrk.step' hs hp t ht
    refine ⟨htn, h.elim Or.inl (fun h => Or.inr ?_)⟩
    have := hlow.resolve_left hp
    omega

/-- a ranked well-formed game has an exact solution: `R + 1` Jacobi steps from the initial
vector -/
theorem exactReach_exists (hwf : WF g) (hrk : ReachRanked g rk R) :
    ∃ w : Array K, w.size = g.owners.size ∧ ExactReach g w := by
  have key : ∀ k, ∃ x : Array K, x.size = g.owners.size ∧
      (∀ s < g.owners.size, Low g rk k s → Bell g x s = x.getD s 0) ∧
      ∀ s < g.owners.size, s ∉ g.finals → Absorbing g s → x.getD s 0 = 0 := by
    intro k
    induction k with
    | zero =>
      have h0 : ∀ s < g.owners.size, s ∉ g.finals → (initVec g).getD s 0 = 0 := by
        intro s _ hnf
        rw [getD_initVec]
        simp [hnf]
      refine ⟨initVec g, initVec_size g, ?_, fun s hs hnf _ => h0 s hs hnf⟩
      intro s hs hlow
      have hp : Pinned g s := hlow.elim id (fun h => absurd h (Nat.not_lt_zero _))
      by_cases hf : s ∈ g.finals
      · rw [Bell_final _ hf, getD_initVec]
        simp [hs, hf]
      · have ha := hp.resolve_left hf
        rw [h0 s hs hf, Bell_nonfinal _ hf]
        refine stepReach_eq_zero (hwf.rowNonneg_pub hs) (fun _ => ha.1) _ (fun t ht => ?_)
        rw [ha.2 t ht, h0 s hs hf]
    | succ k ih =>
      obtain ⟨x, hsz, hfix, habs⟩ := ih
      have hagree : ∀ s < g.owners.size, Low g rk k s → (jac g x).getD s 0 = x.getD s 0 := by
        intro s hs hlow
        rw [jac_getD x hs, hfix s hs hlow]
      refine ⟨jac g x, jac_size x, ?_, ?_⟩
      · intro s hs hlow
        rw [jac_getD x hs]
        by_cases hf : s ∈ g.finals
        · rw [Bell_final _ hf, Bell_final _ hf]
        · apply Bell_congr
          intro t ht
          obtain ⟨htn, hlt⟩ := hrk.low_succ k hs hf hlow t ht
          exact hagree _ htn hlt
      · intro s hs hnf ha
        rw [hagree s hs (Or.inl (Or.inr ha))]
        exact habs s hs hnf ha
  obtain ⟨w, hsz, hfix, habs⟩ := key (R + 1)
  exact ⟨w, hsz, fun s hs => hfix s hs (Or.inr (by have := hrk.bound s hs; omega)), habs⟩

end Bell

/-! ### the Gauss–Seidel sweep settles the states rank by rank -/

section Sweep
variable {g : Game K} {rk : Nat → Nat} {R : Nat}

theorem LowO.mono {ord : List Nat} {k k' s : Nat} (h : LowO g rk ord k s) (hk : k ≤ k') :
    LowO g rk ord k' s := by
  rcases h with h | h | h
  · exact Or.inl h
  · exact Or.inr (Or.inl h)
  · exact Or.inr (Or.inr (by omega))

/-- the successors of a swept state of `LowO (k+1)` are in range and in `LowO k` -/
theorem ReachRanked.lowO_succ (hrk : ReachRanked g rk R) {ord : List Nat}
    (hord : ∀ s ∈ ord, s ∉ g.finals) (k : Nat) {s : Nat} (hs : s < g.owners.size) (hso : s ∈ ord)
    (hlow : LowO g rk ord (k + 1) s) :
    ∀ t ∈ g.tl.getD s [], t.tgt < g.owners.size ∧ LowO g rk ord k t.tgt := by
  intro t ht
  by_cases hp : Pinned g s
  · have ha := hp.resolve_left (hord s hso)
    rw [ha.2 t ht]
    exact ⟨hs, Or.inr (Or.inl hp)⟩
  · obtain ⟨htn, h⟩ := hrk.step' hs hp t ht
    refine ⟨htn, Or.inr (h.elim Or.inl (fun h => Or.inr ?_))⟩
    have := (hlow.resolve_left (fun h => h hso)).resolve_left hp
    omega

/-- generalised sweep lemma: started from a vector that agrees with the fixed point `w` on a set
`D` between `LowO k` and `LowO (k+1)`, the sweep over `l ⊆ ord` keeps the agreement on `D` and
establishes it at the swept states of `LowO (k+1)` -/
theorem sweepFrom_agree (hrk : ReachRanked g rk R) (w : Array K)
    (hw : ∀ s < g.owners.size, Bell g w s = w.getD s 0) (ord : List Nat)
    (hord : ∀ s ∈ ord, s ∉ g.finals) (k : Nat) (l : List Nat) (hl : ∀ s ∈ l, s ∈ ord) :
    ∀ (D : Nat → Prop) (acc : Array K × K), acc.1.size = g.owners.size →
      (∀ s, LowO g rk ord k s → D s) → (∀ s, D s → LowO g rk ord (k + 1) s) →
      AgreeOn g.owners.size D acc.1 w →
      AgreeOn g.owners.size (fun s => D s ∨ (s ∈ l ∧ LowO g rk ord (k + 1) s))
        (sweepFrom g.owners g.tl l acc).1 w := by
  induction l with
  | nil =>
    intro D acc _ _ _ hag s hs hD
    rcases hD with hD | ⟨hmem, _⟩
    · exact hag s hs hD
    · simp at hmem
  | cons s0 l ih =>
    intro D acc hsz hlo hhi hag
    rw [sweepFrom_cons]
    set acc1 : Array K × K := (acc.1.setIfInBounds s0 (stepReach g.owners g.tl acc.1 s0),
      max acc.2 |stepReach g.owners g.tl acc.1 s0 - acc.1.getD s0 0|) with hacc1
    have hs0 : s0 ∈ ord := hl s0 List.mem_cons_self
    let D' : Nat → Prop := fun s => D s ∨ (s = s0 ∧ LowO g rk ord (k + 1) s0)
    have hag' : AgreeOn g.owners.size D' acc1.1 w := by
      intro j hj hD'j
      rw [hacc1]
      simp only []
      rw [getD_setIfInBounds]
      by_cases hc : s0 = j ∧ s0 < acc.1.size
      · rw [if_pos hc]
        obtain ⟨rfl, _⟩ := hc
        have hlow : LowO g rk ord (k + 1) s0 := by
          rcases hD'j with h | ⟨_, h⟩
          · exact hhi _ h
          · exact h
        rw [← hw s0 hj, Bell_nonfinal w (hord s0 hs0)]
        apply stepReach_congr
        intro t ht
        obtain ⟨htn, hlt⟩ := hrk.lowO_succ hord k hj hs0 hlow t ht
        exact hag _ htn (hlo _ hlt)
      · rw [if_neg hc]
        have hne : j ≠ s0 := fun e => hc ⟨e.symm, by rw [hsz, ← e]; exact hj⟩
        rcases hD'j with h | ⟨h, _⟩
        · exact hag j hj h
        · exact absurd h hne
    have := ih (fun s hs => hl s (List.mem_cons_of_mem _ hs)) D' acc1
      (by rw [hacc1]; simpa using hsz) (fun s h => Or.inl (hlo s h))
      (fun s h => by
        rcases h with h | ⟨rfl, h⟩
        · exact hhi s h
        · exact h) hag'
    intro j hj hDj
    apply this j hj
    rcases hDj with h | ⟨hmem, h⟩
    · exact Or.inl (Or.inl h)
    · rcases List.mem_cons.mp hmem with rfl | hmem
      · exact Or.inl (Or.inr ⟨rfl, h⟩)
      · exact Or.inr ⟨hmem, h⟩

/-- one sweep: agreement with the fixed point on `LowO k` becomes agreement on `LowO (k+1)` -/
theorem sweepVec_agree (hrk : ReachRanked g rk R) (w : Array K)
    (hw : ∀ s < g.owners.size, Bell g w s = w.getD s 0) (ord : List Nat)
    (hord : ∀ s ∈ ord, s ∉ g.finals) (k : Nat) (x : Array K) (hsz : x.size = g.owners.size)
    (hag : AgreeOn g.owners.size (LowO g rk ord k) x w) :
    (sweepVec g.owners g.tl ord x).size = g.owners.size ∧
      AgreeOn g.owners.size (LowO g rk ord (k + 1)) (sweepVec g.owners g.tl ord x) w := by
  refine ⟨by unfold sweepVec; rw [sweepReach_eq, sweepFrom_size]; exact hsz, ?_⟩
  have := sweepFrom_agree hrk w hw ord hord k ord (fun s h => h) (LowO g rk ord k) (x, 0) hsz
    (fun s h => h) (fun s h => h.mono (Nat.le_succ k)) hag
  intro s hs hlow
  apply this s hs
  by_cases hso : s ∈ ord
  · exact Or.inr ⟨hso, hlow⟩
  · exact Or.inl (Or.inl hso)

/-- after `k` sweeps the states of `LowO k` are settled -/
theorem iterate_agree (hrk : ReachRanked g rk R) (w : Array K)
    (hw : ∀ s < g.owners.size, Bell g w s = w.getD s 0) (ord : List Nat)
    (hord : ∀ s ∈ ord, s ∉ g.finals) (x : Array K) (hsz : x.size = g.owners.size)
    (hag : AgreeOn g.owners.size (LowO g rk ord 0) x w) (k : Nat) :
    ((sweepVec g.owners g.tl ord)^[k] x).size = g.owners.size ∧
      AgreeOn g.owners.size (LowO g rk ord k) ((sweepVec g.owners g.tl ord)^[k] x) w := by
  induction k with
  | zero => exact ⟨hsz, hag⟩
  | succ k ih =>
    rw [Function.iterate_succ_apply']
    exact sweepVec_agree hrk w hw ord hord k _ ih.1 ih.2

end Sweep

/-! ### the run of `solveReach` -/

section Solve
variable {rnd : K → Int} {thr : K} {fuel : Nat} {prune : Bool} {g : Game K} {r : ReachOut K}
  {rk : Nat → Nat} {R : Nat}

/-- on `.ok` every row is non-empty -/
theorem rows_nonempty (H : solveReach rnd thr fuel prune g = .ok r) :
    ∀ s < g.owners.size, g.tl.getD s [] ≠ [] := by
  obtain ⟨hcg, his, _, _⟩ := solveReach_ok H
  have hco := checkGame_ok g hcg
  intro s hlt
  have hlt' : s < g.tl.size := hco.1 ▸ hlt
  have : g.tl.getD s [] = g.tl[s] := by simp [Array.getD, hlt']
  rw [this]
  exact initStates_ok g his _ (Array.getElem_mem hlt')

theorem order_nonfinal (H : solveReach rnd thr fuel prune g = .ok r) :
    ∀ s ∈ r.order, s ∉ g.finals :=
  fun s hs hf => final_not_mem_order H s hf hs

/-- an exact solution of a ranked game is 0 at the non-final states outside the sweep order
(the states with no path to a final state) -/
theorem exact_zero_off_order (hwf : WF g) (H : solveReach rnd thr fuel prune g = .ok r)
    (hrk : ReachRanked g rk R) (w : Array K) (hw : ExactReach g w) :
    ∀ s < g.owners.size, s ∉ g.finals → s ∉ r.order → w.getD s 0 = 0 := by
  have key : ∀ m, ∀ s < g.owners.size, rk s < m → s ∉ g.finals → s ∉ r.order →
      w.getD s 0 = 0 := by
    intro m
    induction m with
    | zero => intro s _ h; omega
    | succ m ih =>
      intro s hs hm hnf hso
      by_cases ha : Absorbing g s
      · exact hw.2 s hs hnf ha
      · rw [← hw.1 s hs, Bell_nonfinal w hnf]
        refine stepReach_eq_zero (hwf.rowNonneg_pub hs) (fun _ => rows_nonempty H s hs) w
          (fun t ht => ?_)
        obtain ⟨hto, htf⟩ := order_closed H s hs hso hnf t ht
        obtain ⟨htn, h⟩ := hrk.step s hs hnf ha t ht
        rcases h with h | h | h
        · exact absurd h htf
        · exact hw.2 _ htn htf h
        · exact ih _ htn (by omega) htf hto
  intro s hs
  exact key (rk s + 1) s hs (by omega)

/-- the initial vector agrees with an exact solution at the states outside the sweep order and at
the final and absorbing states -/
theorem initVec_agree (hwf : WF g) (H : solveReach rnd thr fuel prune g = .ok r)
    (hrk : ReachRanked g rk R) (w : Array K) (hw : ExactReach g w) :
    AgreeOn g.owners.size (LowO g rk r.order 0) (initVec g) w := by
  intro s hs hlow
  rw [getD_initVec]
  by_cases hf : s ∈ g.finals
  · rw [fixed_final hw.1 hs hf]
    simp [hs, hf]
  · have : g.finals.contains s = false := by simpa using hf
    simp only [this, Bool.false_eq_true, and_false, if_false]
    rcases hlow with h | h | h
    · exact (exact_zero_off_order hwf H hrk w hw s hs hf h).symm
    · exact (hw.2 s hs hf (h.resolve_left hf)).symm
    · exact absurd h (Nat.not_lt_zero _)

/-- **settled after `k` sweeps**: every iterate from the `k`-th on carries the exact value at the
states of `LowO k` -/
theorem iterates_settled (hwf : WF g) (H : solveReach rnd thr fuel prune g = .ok r)
    (hrk : ReachRanked g rk R) (w : Array K) (hw : ExactReach g w) (k k' : Nat) (hk : k ≤ k') :
    AgreeOn g.owners.size (LowO g rk r.order k)
      ((sweepVec g.owners g.tl r.order)^[k'] (initVec g)) w := by
  have := (iterate_agree hrk w hw.1 r.order (order_nonfinal H) (initVec g) (initVec_size g)
    (initVec_agree hwf H hrk w hw) k').2
  exact fun s hs hlow => this s hs (hlow.mono hk)

/-- the reported vector carries the exact value at the states of `LowO r.iters` -/
theorem probs_settled (hwf : WF g) (H : solveReach rnd thr fuel prune g = .ok r)
    (hrk : ReachRanked g rk R) (w : Array K) (hw : ExactReach g w) :
    AgreeOn g.owners.size (LowO g rk r.order r.iters) r.probs w := by
  rw [reach_probs_eq_iterate H]
  exact iterates_settled hwf H hrk w hw r.iters r.iters le_rfl

end Solve

end CR.ReachRank
