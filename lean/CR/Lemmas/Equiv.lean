/-
Helper definitions and lemmas for property C13 (presentation independence).

A *re-presentation* of a game `g` as `g'` (`Presents π ρ g g'`) renumbers the states by a bijection
`π` of `0..n-1` fixing `0`, reorders the transitions inside every state arbitrarily
(`List.Perm`), and renames actions by an injective `ρ`.  This file shows that the
presentation-independent specifications the other property theorems relate the solver's output to
(graph reachability, the Bellman operator, pre-fixed points, the value, optimal-action sets, the
conditioned rows) commute with such a transformation.
-/
import CR.Props.C01
import CR.Props.C03
import CR.Props.C07
import CR.Lemmas.Strat
import Mathlib.Data.Fintype.Card
import Mathlib.Data.Fintype.EquivFin
import Mathlib.Data.List.Perm.Basic
import Mathlib.Data.Set.Image
import Mathlib.Algebra.BigOperators.Group.List.Basic

set_option linter.unusedSectionVars false

namespace CR.Present

open CR CR.VI

variable {K : Type} [Field K] [LinearOrder K] [IsStrictOrderedRing K]

/-! ### definitions -/

/-- a transition with its target renumbered and its action renamed -/
def trMap (π : Nat → Nat) (ρ : String → String) (t : Tr K) : Tr K :=
  { act := ρ t.act, p := t.p, tgt := π t.tgt }

/-- the successor lists handed to `reverseDfs` by `solveReach` -/
def targets (g : Game K) : List (List Nat) := g.tl.toList.map (fun row => row.map (·.tgt))

/-- one row per state and all targets are states (guaranteed by `check_game` / `init_states`;
implied by `C01.WF`) -/
def TgtOk (g : Game K) : Prop :=
  g.tl.size = g.owners.size ∧
    ∀ s < g.owners.size, ∀ t ∈ g.tl.getD s [], t.tgt < g.owners.size

/-- `g'` is `g` with the states renumbered by `π` (a permutation of `0..n-1` fixing `0`), the
transitions inside every state reordered arbitrarily, and the actions renamed by the injective
`ρ`. -/
structure Presents (π : Nat → Nat) (ρ : String → String) (g g' : Game K) : Prop where
  n_owners : g'.owners.size = g.owners.size
  n_tl : g'.tl.size = g.tl.size
  n_rewards : g'.rewards.size = g.rewards.size
  maps : ∀ s < g.owners.size, π s < g.owners.size
  inj : ∀ s < g.owners.size, ∀ s' < g.owners.size, π s = π s' → s = s'
  fix0 : π 0 = 0
  owners : ∀ s < g.owners.size, g'.owners.getD (π s) .prob = g.owners.getD s .prob
  rewards : ∀ s < g.owners.size, g'.rewards.getD (π s) 0 = g.rewards.getD s 0
  rows : ∀ s < g.owners.size,
    List.Perm (g'.tl.getD (π s) []) ((g.tl.getD s []).map (trMap π ρ))
  finals : ∀ s < g.owners.size, (π s ∈ g'.finals ↔ s ∈ g.finals)
  ρ_inj : ∀ a b, ρ a = ρ b → a = b

/-- `x'` is the vector `x` (one entry per state) renumbered by `π` -/
def Transports (π : Nat → Nat) (n : Nat) (x x' : Array K) : Prop :=
  x.size = n ∧ x'.size = n ∧ ∀ s < n, x'.getD (π s) 0 = x.getD s 0

/-- the inverse of `π` on `0..n-1`, by search -/
def invOn (π : Nat → Nat) (n u : Nat) : Nat :=
  ((List.range n).find? (fun s => π s = u)).getD 0

/-- renumber a vector of `g'` back to `g` : `(pull π n y')[s] = y'[π s]` -/
def pull (π : Nat → Nat) (n : Nat) (y' : Array K) : Array K :=
  Array.ofFn (n := n) (fun i => y'.getD (π i) 0)

/-- renumber a vector of `g` to `g'` : `(push π n y)[π s] = y[s]` -/
def push (π : Nat → Nat) (n : Nat) (y : Array K) : Array K :=
  Array.ofFn (n := n) (fun i => y.getD (invOn π n i) 0)

/-- the value-optimal actions of a maximising state: the actions of the transitions whose target
has the largest value -/
def OptActsMax (g : Game K) (v : Array K) (s : Nat) : Set String :=
  { a | ∃ t ∈ g.tl.getD s [], t.act = a ∧ ∀ t' ∈ g.tl.getD s [], v.getD t'.tgt 0 ≤ v.getD t.tgt 0 }

/-- the value-optimal actions of a minimising state -/
def OptActsMin (g : Game K) (v : Array K) (s : Nat) : Set String :=
  { a | ∃ t ∈ g.tl.getD s [], t.act = a ∧ ∀ t' ∈ g.tl.getD s [], v.getD t.tgt 0 ≤ v.getD t'.tgt 0 }

/-- two strategy tables name the same actions up to the renaming / renumbering -/
def StratRel (π : Nat → Nat) (ρ : String → String) (n : Nat) (st st' : Array Strat) : Prop :=
  ∀ s < n, ∀ a, ((st'.getD (π s) none).getD []).contains (ρ a)
    = ((st.getD s none).getD []).contains a

/-- two strategy entries are equal up to the renaming and the order of the listed actions -/
def StratPerm (ρ : String → String) : Strat → Strat → Prop
  | none, none => True
  | some l, some l' => l'.Perm (l.map ρ)
  | _, _ => False

variable {π : Nat → Nat} {ρ : String → String} {g g' : Game K}

/-! ### basic facts -/

theorem tgtOk_of_wf (h : C01.WF g) : TgtOk g := ⟨h.1, h.2.1⟩

@[simp] theorem trMap_tgt (t : Tr K) : (trMap π ρ t).tgt = π t.tgt := rfl
@[simp] theorem trMap_act (t : Tr K) : (trMap π ρ t).act = ρ t.act := rfl
@[simp] theorem trMap_p (t : Tr K) : (trMap π ρ t).p = t.p := rfl

/-- an injective self-map of `0..n-1` is onto -/
theorem Presents.surj (h : Presents π ρ g g') :
    ∀ u < g.owners.size, ∃ s < g.owners.size, π s = u := by
  intro u hu
  let f : Fin g.owners.size → Fin g.owners.size := fun i => ⟨π i, h.maps i i.2⟩
  have hf : Function.Injective f := fun a b hab =>
    Fin.ext (h.inj a a.2 b b.2 (by simpa [f] using congrArg Fin.val hab))
  obtain ⟨i, hi⟩ := Finite.surjective_of_injective hf ⟨u, hu⟩
  exact ⟨i, i.2, by simpa [f] using congrArg Fin.val hi⟩

theorem Presents.invOn_spec (h : Presents π ρ g g') {u : Nat} (hu : u < g.owners.size) :
    invOn π g.owners.size u < g.owners.size ∧ π (invOn π g.owners.size u) = u := by
  obtain ⟨s, hs, hsu⟩ := h.surj u hu
  unfold invOn
  cases hf : (List.range g.owners.size).find? (fun s => π s = u) with
  | none =>
    rw [List.find?_eq_none] at hf
    exact absurd (by simpa using hsu) (hf s (List.mem_range.mpr hs))
  | some s' =>
    have h1 := List.mem_of_find?_eq_some hf
    have h2 := List.find?_some hf
    exact ⟨List.mem_range.mp h1, by simpa using h2⟩

theorem Presents.invOn_left (h : Presents π ρ g g') {s : Nat} (hs : s < g.owners.size) :
    invOn π g.owners.size (π s) = s := by
  obtain ⟨h1, h2⟩ := h.invOn_spec (h.maps s hs)
  exact h.inj _ h1 _ hs h2

theorem getD_ofFn {n : Nat} (f : Fin n → K) (i : Nat) :
    (Array.ofFn f).getD i 0 = if h : i < n then f ⟨i, h⟩ else 0 := by
  by_cases h : i < n <;> simp [Array.getD, h]

theorem transports_pull {n : Nat} {y' : Array K} (hy : y'.size = n) :
    Transports π n (pull π n y') y' := by
  refine ⟨by simp [pull], hy, fun s hs => ?_⟩
  simp [pull, hs]

theorem transports_push (h : Presents π ρ g g') {y : Array K} (hy : y.size = g.owners.size) :
    Transports π g.owners.size y (push π g.owners.size y) := by
  refine ⟨hy, by simp [push], fun s hs => ?_⟩
  simp [push, h.maps s hs, h.invOn_left hs]

theorem Presents.tgtOk (h : Presents π ρ g g') (hr : TgtOk g) : TgtOk g' := by
  refine ⟨by rw [h.n_tl, h.n_owners, hr.1], fun u hu t' ht' => ?_⟩
  rw [h.n_owners] at hu ⊢
  obtain ⟨s, hs, rfl⟩ := h.surj u hu
  have := (h.rows s hs).mem_iff.mp ht'
  obtain ⟨t, ht, rfl⟩ := List.mem_map.mp this
  exact h.maps _ (hr.2 s hs t ht)

/-! ### folds over a permuted, renamed, renumbered row -/

theorem maxOver_perm (x : Array K) {r₁ r₂ : List (Tr K)} (hp : r₁.Perm r₂) (m : K) :
    maxOver x r₁ m = maxOver x r₂ m := by
  unfold maxOver
  exact hp.foldl_eq' (fun a _ b _ z => max_right_comm z (x.getD a.tgt 0) (x.getD b.tgt 0)) m

theorem minOver_perm (x : Array K) {r₁ r₂ : List (Tr K)} (hp : r₁.Perm r₂) (m : K) :
    minOver x r₁ m = minOver x r₂ m := by
  unfold minOver
  exact hp.foldl_eq' (fun a _ b _ z => min_right_comm z (x.getD a.tgt 0) (x.getD b.tgt 0)) m

theorem sumOver_perm (x : Array K) {r₁ r₂ : List (Tr K)} (hp : r₁.Perm r₂) :
    sumOver x r₁ = sumOver x r₂ := by
  unfold sumOver
  exact (hp.map _).sum_eq

theorem maxOver_map (x x' : Array K) (row : List (Tr K))
    (hx : ∀ t ∈ row, x'.getD (π t.tgt) 0 = x.getD t.tgt 0) (m : K) :
    maxOver x' (row.map (trMap π ρ)) m = maxOver x row m := by
  induction row generalizing m with
  | nil => rfl
  | cons t row ih =>
    simp only [List.map_cons, maxOver_cons, trMap_tgt]
    rw [hx t (List.mem_cons_self ..), ih (fun t' ht' => hx t' (List.mem_cons_of_mem _ ht'))]

theorem minOver_map (x x' : Array K) (row : List (Tr K))
    (hx : ∀ t ∈ row, x'.getD (π t.tgt) 0 = x.getD t.tgt 0) (m : K) :
    minOver x' (row.map (trMap π ρ)) m = minOver x row m := by
  induction row generalizing m with
  | nil => rfl
  | cons t row ih =>
    simp only [List.map_cons, minOver_cons, trMap_tgt]
    rw [hx t (List.mem_cons_self ..), ih (fun t' ht' => hx t' (List.mem_cons_of_mem _ ht'))]

theorem sumOver_map (x x' : Array K) (row : List (Tr K))
    (hx : ∀ t ∈ row, x'.getD (π t.tgt) 0 = x.getD t.tgt 0) :
    sumOver x' (row.map (trMap π ρ)) = sumOver x row := by
  induction row with
  | nil => rfl
  | cons t row ih =>
    simp only [List.map_cons, sumOver_cons, trMap_tgt, trMap_p]
    rw [hx t (List.mem_cons_self ..), ih (fun t' ht' => hx t' (List.mem_cons_of_mem _ ht'))]

/-! ### the Bellman operator -/

theorem Presents.finals_contains (h : Presents π ρ g g') {s : Nat} (hs : s < g.owners.size) :
    g'.finals.contains (π s) = g.finals.contains s := by
  rw [Bool.eq_iff_iff]
  simpa using h.finals s hs

theorem step_eq (h : Presents π ρ g g') (hr : TgtOk g) {x x' : Array K}
    (hx : ∀ s < g.owners.size, x'.getD (π s) 0 = x.getD s 0) {s : Nat}
    (hs : s < g.owners.size) :
    stepReach g'.owners g'.tl x' (π s) = stepReach g.owners g.tl x s := by
  have hrow : ∀ t ∈ g.tl.getD s [], x'.getD (π t.tgt) 0 = x.getD t.tgt 0 :=
    fun t ht => hx _ (hr.2 s hs t ht)
  have ho := h.owners s hs
  cases hog : g.owners.getD s .prob with
  | p1 =>
    rw [stepReach_p1 _ _ _ _ hog, stepReach_p1 _ _ _ _ (ho.trans hog),
      maxOver_perm x' (h.rows s hs), maxOver_map x x' _ hrow]
  | p2 =>
    rw [stepReach_p2 _ _ _ _ hog, stepReach_p2 _ _ _ _ (ho.trans hog),
      minOver_perm x' (h.rows s hs), minOver_map x x' _ hrow]
  | prob =>
    rw [stepReach_prob _ _ _ _ hog, stepReach_prob _ _ _ _ (ho.trans hog),
      sumOver_perm x' (h.rows s hs), sumOver_map x x' _ hrow]

theorem bell_eq (h : Presents π ρ g g') (hr : TgtOk g) {x x' : Array K}
    (hx : ∀ s < g.owners.size, x'.getD (π s) 0 = x.getD s 0) {s : Nat}
    (hs : s < g.owners.size) :
    C01.Bell g' x' (π s) = C01.Bell g x s := by
  unfold C01.Bell
  rw [h.finals_contains hs, step_eq h hr hx hs]

/-! ### pre-fixed points and the value -/

theorem preFixed_push (h : Presents π ρ g g') (hr : TgtOk g) {y y' : Array K}
    (ht : Transports π g.owners.size y y') (hy : C01.PreFixed g y) : C01.PreFixed g' y' := by
  refine ⟨by rw [h.n_owners]; exact ht.2.1, fun u hu => ?_, fun u hu => ?_⟩
  · rw [h.n_owners] at hu
    obtain ⟨s, hs, rfl⟩ := h.surj u hu
    rw [ht.2.2 s hs]; exact hy.2.1 s hs
  · rw [h.n_owners] at hu
    obtain ⟨s, hs, rfl⟩ := h.surj u hu
    rw [ht.2.2 s hs, bell_eq h hr ht.2.2 hs]; exact hy.2.2 s hs

theorem preFixed_pull (h : Presents π ρ g g') (hr : TgtOk g) {y y' : Array K}
    (ht : Transports π g.owners.size y y') (hy : C01.PreFixed g' y') : C01.PreFixed g y := by
  refine ⟨ht.1, fun s hs => ?_, fun s hs => ?_⟩
  · rw [← ht.2.2 s hs]; exact hy.2.1 _ (by rw [h.n_owners]; exact h.maps s hs)
  · rw [← ht.2.2 s hs, ← bell_eq h hr ht.2.2 hs]
    exact hy.2.2 _ (by rw [h.n_owners]; exact h.maps s hs)

theorem isValue_push (h : Presents π ρ g g') (hr : TgtOk g) {v v' : Array K}
    (ht : Transports π g.owners.size v v') (hv : C01.IsValue g v) : C01.IsValue g' v' := by
  refine ⟨preFixed_push h hr ht hv.1, fun y' hy' u hu => ?_⟩
  rw [h.n_owners] at hu
  obtain ⟨s, hs, rfl⟩ := h.surj u hu
  have hty := transports_pull (π := π) (hy'.1.trans h.n_owners)
  rw [ht.2.2 s hs, hty.2.2 s hs]
  exact hv.2 _ (preFixed_pull h hr hty hy') s hs

theorem isValue_pull (h : Presents π ρ g g') (hr : TgtOk g) {v v' : Array K}
    (ht : Transports π g.owners.size v v') (hv : C01.IsValue g' v') : C01.IsValue g v := by
  refine ⟨preFixed_pull h hr ht hv.1, fun y hy s hs => ?_⟩
  have hty := transports_push h hy.1
  rw [← ht.2.2 s hs, ← hty.2.2 s hs]
  exact hv.2 _ (preFixed_push h hr hty hy) _ (by rw [h.n_owners]; exact h.maps s hs)

/-- the value is unique on `0..n-1` -/
theorem isValue_unique {v w : Array K} (hv : C01.IsValue g v) (hw : C01.IsValue g w) :
    ∀ s < g.owners.size, v.getD s 0 = w.getD s 0 :=
  fun s hs => le_antisymm (hv.2 w hw.1 s hs) (hw.2 v hv.1 s hs)

/-- well-formedness is presentation independent -/
theorem Presents.wf (h : Presents π ρ g g') (hwf : C01.WF g) : C01.WF g' := by
  have hr := tgtOk_of_wf hwf
  have hr' := h.tgtOk hr
  refine ⟨hr'.1, hr'.2, fun u hu ho => ?_⟩
  rw [h.n_owners] at hu
  obtain ⟨s, hs, rfl⟩ := h.surj u hu
  rw [h.owners s hs] at ho
  obtain ⟨h1, h2⟩ := hwf.2.2 s hs ho
  refine ⟨fun t' ht' => ?_, ?_⟩
  · obtain ⟨t, ht, rfl⟩ := List.mem_map.mp ((h.rows s hs).mem_iff.mp ht')
    exact h1 t ht
  · rw [((h.rows s hs).map _).sum_eq, List.map_map]
    exact h2

/-! ### graph reachability -/

theorem getD_targets (g : Game K) (u : Nat) :
    (targets g).getD u [] = (g.tl.getD u []).map (·.tgt) := by
  unfold targets
  by_cases hu : u < g.tl.size
  · simp [Array.getD, hu, List.getD_eq_getElem?_getD]
  · simp [Array.getD, hu, List.getD_eq_getElem?_getD]

theorem edge_iff (g : Game K) (u v : Nat) :
    C07.Edge (targets g) u v ↔ ∃ t ∈ g.tl.getD u [], t.tgt = v := by
  unfold C07.Edge
  rw [getD_targets]
  simp [List.mem_map]

theorem edge_lt (hr : TgtOk g) {u v : Nat} (hu : u < g.owners.size)
    (he : C07.Edge (targets g) u v) : v < g.owners.size := by
  obtain ⟨t, ht, rfl⟩ := (edge_iff g u v).mp he
  exact hr.2 u hu t ht

theorem reach_lt (hr : TgtOk g) {u v : Nat} (hu : u < g.owners.size)
    (he : C07.Reach (targets g) u v) : v < g.owners.size := by
  induction he with
  | refl => exact hu
  | tail _ hbc ih => exact edge_lt hr ih hbc

theorem edge_push (h : Presents π ρ g g') {s t : Nat} (hs : s < g.owners.size)
    (he : C07.Edge (targets g) s t) : C07.Edge (targets g') (π s) (π t) := by
  obtain ⟨tr, htr, rfl⟩ := (edge_iff g s t).mp he
  exact (edge_iff g' _ _).mpr
    ⟨trMap π ρ tr, (h.rows s hs).mem_iff.mpr (List.mem_map_of_mem htr), rfl⟩

theorem edge_pull (h : Presents π ρ g g') {s w : Nat} (hs : s < g.owners.size)
    (he : C07.Edge (targets g') (π s) w) : ∃ t, w = π t ∧ C07.Edge (targets g) s t := by
  obtain ⟨tr', htr', rfl⟩ := (edge_iff g' _ _).mp he
  obtain ⟨tr, htr, rfl⟩ := List.mem_map.mp ((h.rows s hs).mem_iff.mp htr')
  exact ⟨tr.tgt, rfl, (edge_iff g s _).mpr ⟨tr, htr, rfl⟩⟩

theorem reach_push (h : Presents π ρ g g') (hr : TgtOk g) {s t : Nat} (hs : s < g.owners.size)
    (he : C07.Reach (targets g) s t) : C07.Reach (targets g') (π s) (π t) := by
  induction he with
  | refl => exact Relation.ReflTransGen.refl
  | tail hab hbc ih => exact Relation.ReflTransGen.tail ih (edge_push h (reach_lt hr hs hab) hbc)

theorem reach_pull (h : Presents π ρ g g') (hr : TgtOk g) {s w : Nat} (hs : s < g.owners.size)
    (he : C07.Reach (targets g') (π s) w) :
    ∃ t < g.owners.size, w = π t ∧ C07.Reach (targets g) s t := by
  induction he with
  | refl => exact ⟨s, hs, rfl, Relation.ReflTransGen.refl⟩
  | tail _ hbc ih =>
    obtain ⟨b, hb, rfl, hsb⟩ := ih
    obtain ⟨t, rfl, hbt⟩ := edge_pull h hb hbc
    exact ⟨t, edge_lt hr hb hbt, rfl, Relation.ReflTransGen.tail hsb hbt⟩

theorem targets_inRange (hr : TgtOk g) :
    ∀ row ∈ targets g, ∀ v ∈ row, v < (targets g).length := by
  intro row hrow v hv
  have hlen : (targets g).length = g.owners.size := by simp [targets, hr.1]
  obtain ⟨u, hu, rfl⟩ := List.mem_iff_getElem.mp hrow
  rw [hlen] at hu ⊢
  have : C07.Edge (targets g) u v := by
    unfold C07.Edge
    rw [List.getD_eq_getElem?_getD, List.getElem?_eq_getElem (by rw [hlen]; exact hu)]
    exact hv
  exact edge_lt hr hu this

/-- membership in the search order, in graph terms -/
theorem mem_order_iff (hr : TgtOk g) (s : Nat) :
    s ∈ reverseDfs (targets g) g.finals ↔
      (s ∉ g.finals ∧ ∃ f ∈ g.finals, C07.Reach (targets g) s f) :=
  C07.rdfs_mem _ _ (targets_inRange hr) s

/-- the complement of `order ∪ finals` is closed under successors -/
theorem order_closed (hr : TgtOk g) :
    ∀ s < g.owners.size, s ∉ reverseDfs (targets g) g.finals → s ∉ g.finals →
      ∀ t ∈ g.tl.getD s [], t.tgt ∉ reverseDfs (targets g) g.finals ∧ t.tgt ∉ g.finals := by
  intro s _ hso hsf t ht
  have hedge : C07.Edge (targets g) s t.tgt := (edge_iff g s _).mpr ⟨t, ht, rfl⟩
  have hno : ¬ ∃ f ∈ g.finals, C07.Reach (targets g) s f := fun hex =>
    hso ((mem_order_iff hr s).mpr ⟨hsf, hex⟩)
  refine ⟨fun hto => ?_, fun htf => ?_⟩
  · obtain ⟨_, f, hf, hrf⟩ := (mem_order_iff hr _).mp hto
    exact hno ⟨f, hf, Relation.ReflTransGen.head hedge hrf⟩
  · exact hno ⟨t.tgt, htf, Relation.ReflTransGen.single hedge⟩

/-! ### optimal actions -/

theorem optActsMax_image (h : Presents π ρ g g') (hr : TgtOk g) {v v' : Array K}
    (hv : ∀ s < g.owners.size, v'.getD (π s) 0 = v.getD s 0) {s : Nat}
    (hs : s < g.owners.size) :
    OptActsMax g' v' (π s) = ρ '' OptActsMax g v s := by
  have hval : ∀ t ∈ g.tl.getD s [], v'.getD (π t.tgt) 0 = v.getD t.tgt 0 :=
    fun t ht => hv _ (hr.2 s hs t ht)
  ext b
  constructor
  · rintro ⟨t', ht', rfl, hopt⟩
    obtain ⟨t, ht, rfl⟩ := List.mem_map.mp ((h.rows s hs).mem_iff.mp ht')
    refine ⟨t.act, ⟨t, ht, rfl, fun u hu => ?_⟩, rfl⟩
    have := hopt (trMap π ρ u) ((h.rows s hs).mem_iff.mpr (List.mem_map_of_mem hu))
    simpa [hval t ht, hval u hu] using this
  · rintro ⟨a, ⟨t, ht, rfl, hopt⟩, rfl⟩
    refine ⟨trMap π ρ t, (h.rows s hs).mem_iff.mpr (List.mem_map_of_mem ht), rfl, fun u' hu' => ?_⟩
    obtain ⟨u, hu, rfl⟩ := List.mem_map.mp ((h.rows s hs).mem_iff.mp hu')
    simpa [hval t ht, hval u hu] using hopt u hu

theorem optActsMin_image (h : Presents π ρ g g') (hr : TgtOk g) {v v' : Array K}
    (hv : ∀ s < g.owners.size, v'.getD (π s) 0 = v.getD s 0) {s : Nat}
    (hs : s < g.owners.size) :
    OptActsMin g' v' (π s) = ρ '' OptActsMin g v s := by
  have hval : ∀ t ∈ g.tl.getD s [], v'.getD (π t.tgt) 0 = v.getD t.tgt 0 :=
    fun t ht => hv _ (hr.2 s hs t ht)
  ext b
  constructor
  · rintro ⟨t', ht', rfl, hopt⟩
    obtain ⟨t, ht, rfl⟩ := List.mem_map.mp ((h.rows s hs).mem_iff.mp ht')
    refine ⟨t.act, ⟨t, ht, rfl, fun u hu => ?_⟩, rfl⟩
    have := hopt (trMap π ρ u) ((h.rows s hs).mem_iff.mpr (List.mem_map_of_mem hu))
    simpa [hval t ht, hval u hu] using this
  · rintro ⟨a, ⟨t, ht, rfl, hopt⟩, rfl⟩
    refine ⟨trMap π ρ t, (h.rows s hs).mem_iff.mpr (List.mem_map_of_mem ht), rfl, fun u' hu' => ?_⟩
    obtain ⟨u, hu, rfl⟩ := List.mem_map.mp ((h.rows s hs).mem_iff.mp hu')
    simpa [hval t ht, hval u hu] using hopt u hu

theorem Presents.ρ_injective (h : Presents π ρ g g') : Function.Injective ρ :=
  fun a b hab => h.ρ_inj a b hab

/-! ### the conditioned rows -/

theorem filter_perm_map {r' r : List (Tr K)} {f : Tr K → Tr K} (hp : r'.Perm (r.map f))
    (q' q : Tr K → Bool) (hq : ∀ t ∈ r, q' (f t) = q t) :
    (r'.filter q').Perm ((r.filter q).map f) := by
  refine (hp.filter q').trans ?_
  rw [List.filter_map]
  have : r.filter (q' ∘ f) = r.filter q :=
    List.filter_congr (fun t ht => by simpa using hq t ht)
  rw [this]

theorem foldl_add_eq_sum (l : List K) (a : K) : l.foldl (· + ·) a = a + l.sum := by
  induction l generalizing a with
  | nil => simp
  | cons b l ih => simp only [List.foldl_cons, List.sum_cons, ih, add_assoc]

/-- the total probability of the dead transitions of a permuted (and renamed) row is the same -/
theorem removedMass_eq {reach reach' : Array K} {r' r : List (Tr K)}
    (hp : r'.Perm (r.map (trMap π ρ)))
    (hd : ∀ t ∈ r, dead reach' (trMap π ρ t) = dead reach t) :
    ((r'.filter (dead reach')).map (·.p)).sum = ((r.filter (dead reach)).map (·.p)).sum := by
  have := (filter_perm_map hp (dead reach') (dead reach) hd).map (·.p)
  rw [this.sum_eq, List.map_map]
  rfl

/-- the surviving total of a permuted (and renamed) row is the same: addition in a field is
commutative, so the order in which Python's `sum` adds does not matter -/
theorem keptMass_eq {reach reach' : Array K} {r' r : List (Tr K)}
    (hp : r'.Perm (r.map (trMap π ρ)))
    (hd : ∀ t ∈ r, dead reach' (trMap π ρ t) = dead reach t) :
    keptMass reach' r' = keptMass reach r := by
  rw [keptMass_eq_sum, keptMass_eq_sum]
  have := (filter_perm_map hp (fun t => !dead reach' t) (fun t => !dead reach t)
    (fun t ht => by simp only [hd t ht])).map (·.p)
  rw [this.sum_eq, List.map_map]
  rfl

theorem condRow_perm (h : Presents π ρ g g') (hr : TgtOk g) {reach reach' : Array K}
    (hx : ∀ s < g.owners.size, reach'.getD (π s) 0 = reach.getD s 0)
    {st st' : Array Strat} (hst : StratRel π ρ g.owners.size st st') {s : Nat}
    (hs : s < g.owners.size) :
    (condRow g' st' reach' (π s)).Perm ((condRow g st reach s).map (trMap π ρ)) := by
  have hrow := h.rows s hs
  have hd : ∀ t ∈ g.tl.getD s [], dead reach' (trMap π ρ t) = dead reach t := by
    intro t ht
    unfold dead
    rw [trMap_tgt, hx _ (hr.2 s hs t ht)]
  have hnd : ∀ t ∈ g.tl.getD s [],
      (fun t => !dead reach' t) (trMap π ρ t) = (fun t => !dead reach t) t := by
    intro t ht; simp only [hd t ht]
  have ho := h.owners s hs
  unfold condRow
  cases hog : g.owners.getD s .prob with
  | p2 => simp only [ho.trans hog]; exact hrow
  | p1 =>
    simp only [ho.trans hog]
    refine filter_perm_map (filter_perm_map hrow _ _ (fun t _ => ?_)) _ _ (fun t ht => ?_)
    · exact hst s hs t.act
    · exact hnd t (List.mem_of_mem_filter ht)
  | prob =>
    simp only [ho.trans hog]
    have hlive := filter_perm_map hrow (fun t => !dead reach' t) (fun t => !dead reach t) hnd
    have hl1 : ((g'.tl.getD (π s) []).filter (fun t => !dead reach' t)).length
        = ((g.tl.getD s []).filter (fun t => !dead reach t)).length := by
      rw [hlive.length_eq, List.length_map]
    have hl2 : (g'.tl.getD (π s) []).length = (g.tl.getD s []).length := by
      rw [hrow.length_eq, List.length_map]
    have hk : ((g'.tl.getD (π s) []).filter (fun t => !dead reach' t)).foldl
          (fun acc t => acc + t.p) 0
        = ((g.tl.getD s []).filter (fun t => !dead reach t)).foldl (fun acc t => acc + t.p) 0 :=
      keptMass_eq hrow hd
    rw [hl1, hl2, hk]
    split
    · exact hrow
    · refine (hlive.map _).trans ?_
      rw [List.map_map, List.map_map]
      exact List.Perm.of_eq (List.map_congr_left (fun t _ => rfl))

/-! ### the reported strategy lists (same rounding function, vectors related exactly) -/

theorem runMax_perm {β : Type} (key : β → Int) {r₁ r₂ : List β} (hp : r₁.Perm r₂) (m : Int) :
    runMax key m r₁ = runMax key m r₂ := by
  unfold runMax
  exact hp.foldl_eq' (fun a _ b _ z => max_right_comm z (key a) (key b)) m

theorem runMin_perm {β : Type} (key : β → Int) {r₁ r₂ : List β} (hp : r₁.Perm r₂) (m : Int) :
    runMin key m r₁ = runMin key m r₂ := by
  unfold runMin
  exact hp.foldl_eq' (fun a _ b _ z => min_right_comm z (key a) (key b)) m

theorem runMax_map {β : Type} (key key' : β → Int) (f : β → β) (row : List β)
    (hk : ∀ t ∈ row, key' (f t) = key t) (m : Int) :
    runMax key' m (row.map f) = runMax key m row := by
  induction row generalizing m with
  | nil => rfl
  | cons t row ih =>
    rw [List.map_cons, runMax_cons, runMax_cons, hk t (List.mem_cons_self ..),
      ih (fun t' ht' => hk t' (List.mem_cons_of_mem _ ht'))]

theorem runMin_map {β : Type} (key key' : β → Int) (f : β → β) (row : List β)
    (hk : ∀ t ∈ row, key' (f t) = key t) (m : Int) :
    runMin key' m (row.map f) = runMin key m row := by
  induction row generalizing m with
  | nil => rfl
  | cons t row ih =>
    rw [List.map_cons, runMin_cons, runMin_cons, hk t (List.mem_cons_self ..),
      ih (fun t' ht' => hk t' (List.mem_cons_of_mem _ ht'))]

theorem bestStrat_perm (rnd : K → Int) {v v' : Array K} {r' r : List (Tr K)}
    (hp : r'.Perm (r.map (trMap π ρ)))
    (hv : ∀ t ∈ r, v'.getD (π t.tgt) 0 = v.getD t.tgt 0) :
    (bestStrat rnd v' r').Perm ((bestStrat rnd v r).map ρ) := by
  have hk : ∀ t ∈ r, rkey rnd v' (trMap π ρ t) = rkey rnd v t := fun t ht => by
    show rnd (v'.getD (π t.tgt) 0) = rnd (v.getD t.tgt 0)
    rw [hv t ht]
  have hM : runMax (rkey rnd v') 0 r' = runMax (rkey rnd v) 0 r := by
    rw [runMax_perm _ hp, runMax_map _ _ _ _ hk]
  rw [bestStrat_eq, bestStrat_eq, hM]
  have := (filter_perm_map hp (fun t => rkey rnd v' t == runMax (rkey rnd v) 0 r)
    (fun t => rkey rnd v t == runMax (rkey rnd v) 0 r)
    (fun t ht => by simp only [hk t ht])).map (·.act)
  refine this.trans (List.Perm.of_eq ?_)
  rw [List.map_map, List.map_map]; rfl

theorem worstStratFrom_perm (rnd : K → Int) (start : Int) {v v' : Array K} {r' r : List (Tr K)}
    (hp : r'.Perm (r.map (trMap π ρ)))
    (hv : ∀ t ∈ r, v'.getD (π t.tgt) 0 = v.getD t.tgt 0) :
    (worstStratFrom rnd start v' r').Perm ((worstStratFrom rnd start v r).map ρ) := by
  have hk : ∀ t ∈ r, rkey rnd v' (trMap π ρ t) = rkey rnd v t := fun t ht => by
    show rnd (v'.getD (π t.tgt) 0) = rnd (v.getD t.tgt 0)
    rw [hv t ht]
  have hM : runMin (rkey rnd v') start r' = runMin (rkey rnd v) start r := by
    rw [runMin_perm _ hp, runMin_map _ _ _ _ hk]
  rw [worstStratFrom_eq, worstStratFrom_eq, hM]
  have := (filter_perm_map hp (fun t => rkey rnd v' t == runMin (rkey rnd v) start r)
    (fun t => rkey rnd v t == runMin (rkey rnd v) start r)
    (fun t ht => by simp only [hk t ht])).map (·.act)
  refine this.trans (List.Perm.of_eq ?_)
  rw [List.map_map, List.map_map]; rfl

theorem reachStrategies_perm (h : Presents π ρ g g') (hr : TgtOk g) (rnd : K → Int)
    {x x' : Array K} (hx : ∀ s < g.owners.size, x'.getD (π s) 0 = x.getD s 0) {s : Nat}
    (hs : s < g.owners.size) :
    StratPerm ρ ((reachStrategies rnd g.owners g.tl x).getD s none)
      ((reachStrategies rnd g'.owners g'.tl x').getD (π s) none) := by
  have hrow : ∀ t ∈ g.tl.getD s [], x'.getD (π t.tgt) 0 = x.getD t.tgt 0 :=
    fun t ht => hx _ (hr.2 s hs t ht)
  rw [reachStrategies_getD, reachStrategies_getD, h.owners s hs]
  cases hog : g.owners.getD s .prob with
  | p1 => exact bestStrat_perm rnd (h.rows s hs) hrow
  | p2 => exact worstStratFrom_perm rnd _ (h.rows s hs) hrow
  | prob => trivial

theorem stratPerm_contains (hρ : Function.Injective ρ) {st st' : Strat} (h : StratPerm ρ st st')
    (a : String) : (st'.getD []).contains (ρ a) = (st.getD []).contains a := by
  cases st with
  | none => cases st' with
    | none => rfl
    | some l' => exact absurd h id
  | some l => cases st' with
    | none => exact absurd h id
    | some l' =>
      have hp : l'.Perm (l.map ρ) := h
      rw [Bool.eq_iff_iff]
      simp only [Option.getD_some, List.contains_iff_mem, hp.mem_iff]
      exact List.mem_map_of_injective hρ

end CR.Present
