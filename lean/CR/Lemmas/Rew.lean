/-
Helper lemmas for the total-reward value iteration of `CR/Model/Solver.lean`
(`stepRew`, `sweepRew`, `viRew`, the reward phase of `solve`) over a linearly ordered field.

Contents
* `Brew`: the reward Bellman operator of a game given by transition lists, defined without
  reference to `stepRew`; `NodesWF`: rows of probabilistic states are empty or distributions;
* closed forms of `stepRew` for the four cases (empty row, probabilistic, Player 1, Player 2) in
  terms of the selection folds `selMax` / `selMin` ("last maximal / last minimal successor");
* `Brew` is non-negative on non-negative vectors and non-expansive in the sup norm;
* the Gauss–Seidel sweep `sweepRew` started from an arbitrary accumulator (`sweepRewFrom`):
  sizes, untouched coordinates, the reported change bounds the change of every coordinate of all
  three vectors, and the "exposure" lemma: the value written at a swept state `s` is `stepRew` of
  an intermediate state that is within the reported change of the result;
* the `while diff > thr` loop `viRew` with an invariant;
* full inversion of `solve`.
-/
import CR.Lemmas.VI
import CR.Lemmas.Strat
import CR.Lemmas.Prune
import CR.Props.C01
import CR.Props.C03

set_option linter.unusedSectionVars false

namespace CR.Rew

open CR CR.VI

variable {K : Type} [Field K] [LinearOrder K] [IsStrictOrderedRing K]

/-! ### definitions used in the statements -/

/-- the reward Bellman operator of the game whose transition lists are `nodes`:
`0` for a state without transitions; otherwise the state's reward plus the weighted sum
(probabilistic state), the maximum clamped below by `0` (Player 1), the minimum (Player 2) of the
successor values -/
def Brew (owners : Array Owner) (rewards : Array K) (nodes : Array (List (Tr K))) (x : Array K)
    (s : Nat) : K :=
  match nodes.getD s [] with
  | [] => 0
  | t0 :: rest =>
    rewards.getD s 0 +
      match owners.getD s .prob with
      | .prob => ((t0 :: rest).map (fun t => x.getD t.tgt 0 * t.p)).sum
      | .p1 => (t0 :: rest).foldl (fun m t => max m (x.getD t.tgt 0)) 0
      | .p2 => rest.foldl (fun m t => min m (x.getD t.tgt 0)) (x.getD t0.tgt 0)

/-- every row of a probabilistic state is empty or a probability distribution -/
def NodesWF (owners : Array Owner) (nodes : Array (List (Tr K))) : Prop :=
  ∀ s < owners.size, owners.getD s .prob = .prob →
    nodes.getD s [] = [] ∨
      ((∀ t ∈ nodes.getD s [], 0 ≤ t.p) ∧ ((nodes.getD s []).map (·.p)).sum = 1)

/-- `t` is the LAST transition of `row` whose successor value is maximal -/
def IsLastMax (x : Array K) (row : List (Tr K)) (t : Tr K) : Prop :=
  ∃ pre post, row = pre ++ t :: post ∧ (∀ u ∈ pre, x.getD u.tgt 0 ≤ x.getD t.tgt 0) ∧
    ∀ u ∈ post, x.getD u.tgt 0 < x.getD t.tgt 0

/-- `t` is the LAST transition of `row` whose successor value is minimal -/
def IsLastMin (x : Array K) (row : List (Tr K)) (t : Tr K) : Prop :=
  ∃ pre post, row = pre ++ t :: post ∧ (∀ u ∈ pre, x.getD t.tgt 0 ≤ x.getD u.tgt 0) ∧
    ∀ u ∈ post, x.getD t.tgt 0 < x.getD u.tgt 0

theorem IsLastMax.mem {x : Array K} {row : List (Tr K)} {t : Tr K} (h : IsLastMax x row t) :
    t ∈ row := by
  obtain ⟨pre, post, rfl, _, _⟩ := h; simp

theorem IsLastMin.mem {x : Array K} {row : List (Tr K)} {t : Tr K} (h : IsLastMin x row t) :
    t ∈ row := by
  obtain ⟨pre, post, rfl, _, _⟩ := h; simp

theorem IsLastMax.ge {x : Array K} {row : List (Tr K)} {t : Tr K} (h : IsLastMax x row t) :
    ∀ u ∈ row, x.getD u.tgt 0 ≤ x.getD t.tgt 0 := by
  obtain ⟨pre, post, rfl, h1, h2⟩ := h
  intro u hu
  simp only [List.mem_append, List.mem_cons] at hu
  rcases hu with hu | rfl | hu
  · exact h1 u hu
  · exact le_rfl
  · exact le_of_lt (h2 u hu)

theorem IsLastMin.le {x : Array K} {row : List (Tr K)} {t : Tr K} (h : IsLastMin x row t) :
    ∀ u ∈ row, x.getD t.tgt 0 ≤ x.getD u.tgt 0 := by
  obtain ⟨pre, post, rfl, h1, h2⟩ := h
  intro u hu
  simp only [List.mem_append, List.mem_cons] at hu
  rcases hu with hu | rfl | hu
  · exact h1 u hu
  · exact le_rfl
  · exact le_of_lt (h2 u hu)

/-! ### the selection folds of `stepRew` -/

/-- the Player-1 fold of `stepRew`: running maximum with `≥`, remembering the transition -/
def selMax (x : Array K) (row : List (Tr K)) (acc : K × Option (Tr K)) : K × Option (Tr K) :=
  row.foldl (fun (acc : K × Option (Tr K)) t =>
    let y := x.getD t.tgt 0
    if y ≥ acc.1 then (y, some t) else acc) acc

/-- the Player-2 fold of `stepRew`: running minimum with `≤`, remembering the transition -/
def selMin (x : Array K) (row : List (Tr K)) (acc : K × Tr K) : K × Tr K :=
  row.foldl (fun (acc : K × Tr K) t =>
    let y := x.getD t.tgt 0
    if y ≤ acc.1 then (y, t) else acc) acc

@[simp] theorem selMax_nil (x : Array K) (acc : K × Option (Tr K)) : selMax x [] acc = acc := rfl
@[simp] theorem selMin_nil (x : Array K) (acc : K × Tr K) : selMin x [] acc = acc := rfl

theorem selMax_cons (x : Array K) (t : Tr K) (row : List (Tr K)) (acc : K × Option (Tr K)) :
    selMax x (t :: row) acc =
      selMax x row (if acc.1 ≤ x.getD t.tgt 0 then (x.getD t.tgt 0, some t) else acc) := rfl

theorem selMin_cons (x : Array K) (t : Tr K) (row : List (Tr K)) (acc : K × Tr K) :
    selMin x (t :: row) acc =
      selMin x row (if x.getD t.tgt 0 ≤ acc.1 then (x.getD t.tgt 0, t) else acc) := rfl

theorem selMax_congr (x y : Array K) (h : ∀ j, x.getD j 0 = y.getD j 0) (row : List (Tr K))
    (acc : K × Option (Tr K)) : selMax x row acc = selMax y row acc := by
  unfold selMax; simp only [h]

theorem selMin_congr (x y : Array K) (h : ∀ j, x.getD j 0 = y.getD j 0) (row : List (Tr K))
    (acc : K × Tr K) : selMin x row acc = selMin y row acc := by
  unfold selMin; simp only [h]

theorem selMax_fst (x : Array K) (row : List (Tr K)) (acc : K × Option (Tr K)) :
    (selMax x row acc).1 = maxOver x row acc.1 := by
  induction row generalizing acc with
  | nil => rfl
  | cons t row ih =>
    rw [selMax_cons, ih, maxOver_cons]
    split_ifs with h
    · rw [max_eq_right h]
    · rw [max_eq_left (le_of_lt (not_le.mp h))]

theorem selMin_fst (x : Array K) (row : List (Tr K)) (acc : K × Tr K) :
    (selMin x row acc).1 = minOver x row acc.1 := by
  induction row generalizing acc with
  | nil => rfl
  | cons t row ih =>
    rw [selMin_cons, ih, minOver_cons]
    split_ifs with h
    · rw [min_eq_right h]
    · rw [min_eq_left (le_of_lt (not_le.mp h))]

/-- what the Player-1 fold remembers: either nothing new (every value is below the start value)
or the last maximal transition, whose value is at least the start value -/
theorem selMax_snd (x : Array K) (row : List (Tr K)) (acc : K × Option (Tr K)) :
    ((selMax x row acc).2 = acc.2 ∧ (selMax x row acc).1 = acc.1 ∧
        ∀ u ∈ row, x.getD u.tgt 0 < acc.1) ∨
      ∃ t, (selMax x row acc).2 = some t ∧ (selMax x row acc).1 = x.getD t.tgt 0 ∧
        acc.1 ≤ x.getD t.tgt 0 ∧ IsLastMax x row t := by
  induction row generalizing acc with
  | nil => left; simp
  | cons t row ih =>
    rw [selMax_cons]
    by_cases h : acc.1 ≤ x.getD t.tgt 0
    · rw [if_pos h]
      rcases ih (x.getD t.tgt 0, some t) with ⟨h1, h2, h3⟩ | ⟨u, h1, h2, h3, pre, post, rfl, h4, h5⟩
      · right
        exact ⟨t, h1, h2, h, [], row, rfl, by simp, h3⟩
      · right
        refine ⟨u, h1, h2, le_trans h h3, t :: pre, post, rfl, ?_, h5⟩
        intro w hw
        rcases List.mem_cons.mp hw with rfl | hw
        · exact h3
        · exact h4 w hw
    · rw [if_neg h]
      rcases ih acc with ⟨h1, h2, h3⟩ | ⟨u, h1, h2, h3, pre, post, rfl, h4, h5⟩
      · left
        refine ⟨h1, h2, ?_⟩
        intro w hw
        rcases List.mem_cons.mp hw with rfl | hw
        · exact not_le.mp h
        · exact h3 w hw
      · right
        refine ⟨u, h1, h2, h3, t :: pre, post, rfl, ?_, h5⟩
        intro w hw
        rcases List.mem_cons.mp hw with rfl | hw
        · exact le_trans (le_of_lt (not_le.mp h)) h3
        · exact h4 w hw

/-- what the Player-2 fold remembers -/
theorem selMin_snd (x : Array K) (row : List (Tr K)) (acc : K × Tr K) :
    ((selMin x row acc).2 = acc.2 ∧ (selMin x row acc).1 = acc.1 ∧
        ∀ u ∈ row, acc.1 < x.getD u.tgt 0) ∨
      ((selMin x row acc).1 = x.getD (selMin x row acc).2.tgt 0 ∧
        x.getD (selMin x row acc).2.tgt 0 ≤ acc.1 ∧ IsLastMin x row (selMin x row acc).2) := by
  induction row generalizing acc with
  | nil => left; simp
  | cons t row ih =>
    rw [selMin_cons]
    by_cases h : x.getD t.tgt 0 ≤ acc.1
    · rw [if_pos h]
      rcases ih (x.getD t.tgt 0, t) with ⟨h1, h2, h3⟩ | ⟨h2, h3, pre, post, hrow, h4, h5⟩
      · right
        rw [h1, h2]
        exact ⟨rfl, h, [], row, rfl, by simp, h3⟩
      · right
        refine ⟨h2, le_trans h3 h, t :: pre, post, congrArg (List.cons t) hrow, ?_, h5⟩
        intro w hw
        rcases List.mem_cons.mp hw with rfl | hw
        · exact h3
        · exact h4 w hw
    · rw [if_neg h]
      rcases ih acc with ⟨h1, h2, h3⟩ | ⟨h2, h3, pre, post, hrow, h4, h5⟩
      · left
        refine ⟨h1, h2, ?_⟩
        intro w hw
        rcases List.mem_cons.mp hw with rfl | hw
        · exact not_le.mp h
        · exact h3 w hw
      · right
        refine ⟨h2, h3, t :: pre, post, congrArg (List.cons t) hrow, ?_, h5⟩
        intro w hw
        rcases List.mem_cons.mp hw with rfl | hw
        · exact le_trans h3 (le_of_lt (not_le.mp h))
        · exact h4 w hw

/-- the Player-2 fold of `stepRew` started from the first transition: it remembers the last
minimal transition of the row -/
theorem selMin_start (x : Array K) (t0 : Tr K) (rest : List (Tr K)) :
    (selMin x (t0 :: rest) (x.getD t0.tgt 0, t0)).1 =
        x.getD (selMin x (t0 :: rest) (x.getD t0.tgt 0, t0)).2.tgt 0 ∧
      IsLastMin x (t0 :: rest) (selMin x (t0 :: rest) (x.getD t0.tgt 0, t0)).2 := by
  rcases selMin_snd x (t0 :: rest) (x.getD t0.tgt 0, t0) with ⟨_, _, h3⟩ | ⟨h1, _, h3⟩
  · exact absurd (h3 t0 List.mem_cons_self) (lt_irrefl _)
  · exact ⟨h1, h3⟩

/-! ### closed forms of `stepRew` -/

section Step
variable (rnd : K → Int) (owners : Array Owner) (rewards : Array K)
  (nodes : Array (List (Tr K))) (reach : Array K)

theorem stepRew_nil (v : RewVecs K) (s : Nat) (h : nodes.getD s [] = []) :
    stepRew rnd owners rewards nodes reach v s = .ok (0, 0, 0) := by
  unfold stepRew
  simp [h]

theorem stepRew_prob (v : RewVecs K) (s : Nat) (hne : nodes.getD s [] ≠ [])
    (ho : owners.getD s .prob = .prob) :
    stepRew rnd owners rewards nodes reach v s =
      .ok (rewards.getD s 0 + sumOver v.er (nodes.getD s []),
           rewards.getD s 0 + sumOver v.ermr (nodes.getD s []),
           sumOver v.pmr (nodes.getD s [])) := by
  unfold stepRew
  have h1 : (nodes.getD s []).isEmpty = false := by
    cases hrow : nodes.getD s [] with
    | nil => exact absurd hrow hne
    | cons _ _ => rfl
  simp only [h1, ho, Bool.false_eq_true, if_false]
  rw [foldl_sum_eq, foldl_sum_eq, foldl_sum_eq, zero_add]

theorem stepRew_p1 (v : RewVecs K) (s : Nat) (hne : nodes.getD s [] ≠ [])
    (ho : owners.getD s .prob = .p1) :
    stepRew rnd owners rewards nodes reach v s =
      match (selMax v.er (nodes.getD s []) (0, none)).2 with
      | none => .error .unbound
      | some t => .ok ((selMax v.er (nodes.getD s []) (0, none)).1 + rewards.getD s 0,
          v.ermr.getD t.tgt 0 + rewards.getD s 0, v.pmr.getD t.tgt 0) := by
  unfold stepRew
  have h1 : (nodes.getD s []).isEmpty = false := by
    cases hrow : nodes.getD s [] with
    | nil => exact absurd hrow hne
    | cons _ _ => rfl
  simp only [h1, ho, Bool.false_eq_true, if_false]
  rfl

theorem stepRew_p2 (v : RewVecs K) (s : Nat) (t0 : Tr K) (rest : List (Tr K))
    (hrow : nodes.getD s [] = t0 :: rest) (ho : owners.getD s .prob = .p2) :
    stepRew rnd owners rewards nodes reach v s =
      .ok ((selMin v.er (t0 :: rest) (v.er.getD t0.tgt 0, t0)).1 + rewards.getD s 0,
        p2RewMinReach (rewards.getD s 0) v.ermr (t0 :: rest)
          (worstStratFrom rnd (rnd 1) reach (t0 :: rest)),
        v.pmr.getD (selMin v.er (t0 :: rest) (v.er.getD t0.tgt 0, t0)).2.tgt 0) := by
  unfold stepRew
  simp only [hrow, ho, List.isEmpty_cons, Bool.false_eq_true, if_false]
  rfl

/-- `_expected_rewards_min_reach` is the reward plus the minimum of `ermr` over the transitions
whose action is listed in `strat`, or `0` when there is none -/
theorem p2RewMinReach_eq (r : K) (ermr : Array K) (row : List (Tr K)) (strat : List String) :
    p2RewMinReach r ermr row strat =
      match row.filter (fun t => strat.contains t.act) with
      | [] => 0
      | t0 :: rest => minOver ermr (t0 :: rest) (ermr.getD t0.tgt 0) + r := by
  unfold p2RewMinReach
  split
  · rename_i h; rw [h]
  · rename_i t0 rest h; rw [h]; simp only []; rw [foldl_min_eq]

/-! ### `Brew` -/

theorem Brew_nil (x : Array K) (s : Nat) (h : nodes.getD s [] = []) :
    Brew owners rewards nodes x s = 0 := by
  unfold Brew; rw [h]

theorem Brew_prob (x : Array K) (s : Nat) (hne : nodes.getD s [] ≠ [])
    (ho : owners.getD s .prob = .prob) :
    Brew owners rewards nodes x s = rewards.getD s 0 + sumOver x (nodes.getD s []) := by
  unfold Brew
  cases hrow : nodes.getD s [] with
  | nil => exact absurd hrow hne
  | cons t0 rest => simp only [ho]; rfl

theorem Brew_p1 (x : Array K) (s : Nat) (hne : nodes.getD s [] ≠ [])
    (ho : owners.getD s .prob = .p1) :
    Brew owners rewards nodes x s = rewards.getD s 0 + maxOver x (nodes.getD s []) 0 := by
  unfold Brew
  cases hrow : nodes.getD s [] with
  | nil => exact absurd hrow hne
  | cons t0 rest => simp only [ho]; rfl

theorem Brew_p2 (x : Array K) (s : Nat) (t0 : Tr K) (rest : List (Tr K))
    (hrow : nodes.getD s [] = t0 :: rest) (ho : owners.getD s .prob = .p2) :
    Brew owners rewards nodes x s =
      rewards.getD s 0 + minOver x (t0 :: rest) (x.getD t0.tgt 0) := by
  unfold Brew
  rw [hrow]
  simp only [ho, minOver_cons, min_self]
  rfl

/-- the first component of `stepRew` is the Bellman operator applied to `er` -/
theorem stepRew_fst (v : RewVecs K) (s : Nat) (e m p : K)
    (h : stepRew rnd owners rewards nodes reach v s = .ok (e, m, p)) :
    e = Brew owners rewards nodes v.er s := by
  cases hrow : nodes.getD s [] with
  | nil =>
    rw [stepRew_nil rnd owners rewards nodes reach v s hrow] at h
    rw [Brew_nil owners rewards nodes _ s hrow]
    injection h with h; exact (congrArg Prod.fst h).symm
  | cons t0 rest =>
    have hne : nodes.getD s [] ≠ [] := by rw [hrow]; simp
    cases ho : owners.getD s .prob with
    | prob =>
      rw [stepRew_prob rnd owners rewards nodes reach v s hne ho] at h
      rw [Brew_prob owners rewards nodes _ s hne ho]
      injection h with h; exact (congrArg Prod.fst h).symm
    | p1 =>
      rw [stepRew_p1 rnd owners rewards nodes reach v s hne ho] at h
      rw [Brew_p1 owners rewards nodes _ s hne ho]
      split at h
      · cases h
      · injection h with h
        have h1 : _ = e := congrArg Prod.fst h
        rw [← h1, selMax_fst, add_comm]
    | p2 =>
      rw [stepRew_p2 rnd owners rewards nodes reach v s t0 rest hrow ho] at h
      rw [Brew_p2 owners rewards nodes _ s t0 rest hrow ho]
      injection h with h
      have h1 : _ = e := congrArg Prod.fst h
      rw [← h1, selMin_fst, add_comm]

variable {owners nodes}

/-- `Brew` maps non-negative vectors to non-negative numbers (non-negative rewards, `p ≥ 0`) -/
theorem Brew_nonneg (hr : ∀ j, 0 ≤ rewards.getD j 0) (x : Array K) (s : Nat)
    (hp : owners.getD s .prob = .prob → ∀ t ∈ nodes.getD s [], 0 ≤ t.p)
    (hx : ∀ j, 0 ≤ x.getD j 0) : 0 ≤ Brew owners rewards nodes x s := by
  cases hrow : nodes.getD s [] with
  | nil => rw [Brew_nil owners rewards nodes _ s hrow]
  | cons t0 rest =>
    have hne : nodes.getD s [] ≠ [] := by rw [hrow]; simp
    cases ho : owners.getD s .prob with
    | prob =>
      rw [Brew_prob owners rewards nodes _ s hne ho]
      have := sumOver_lower x (nodes.getD s []) 0 (hp ho) (fun t _ => hx _)
      rw [zero_mul] at this
      linarith [hr s]
    | p1 =>
      rw [Brew_p1 owners rewards nodes _ s hne ho]
      linarith [hr s, le_maxOver_init x (nodes.getD s []) 0]
    | p2 =>
      rw [Brew_p2 owners rewards nodes _ s t0 rest hrow ho]
      linarith [hr s, le_minOver x (t0 :: rest) (x.getD t0.tgt 0) 0 (hx _) (fun t _ => hx _)]

/-- `Brew` is non-expansive in the sup norm (row of a probabilistic state empty or a
distribution) -/
theorem Brew_nonexp (x y : Array K) (s : Nat) (ε : K)
    (hp : owners.getD s .prob = .prob → nodes.getD s [] = [] ∨
      ((∀ t ∈ nodes.getD s [], 0 ≤ t.p) ∧ ((nodes.getD s []).map (·.p)).sum = 1))
    (h : ∀ j, |x.getD j 0 - y.getD j 0| ≤ ε) :
    |Brew owners rewards nodes x s - Brew owners rewards nodes y s| ≤ ε := by
  have hε : 0 ≤ ε := le_trans (abs_nonneg _) (h 0)
  cases hrow : nodes.getD s [] with
  | nil => rw [Brew_nil owners rewards nodes _ s hrow, Brew_nil owners rewards nodes _ s hrow]
           simpa using hε
  | cons t0 rest =>
    have hne : nodes.getD s [] ≠ [] := by rw [hrow]; simp
    cases ho : owners.getD s .prob with
    | prob =>
      rw [Brew_prob owners rewards nodes _ s hne ho, Brew_prob owners rewards nodes _ s hne ho]
      rcases hp ho with h0 | ⟨h1, h2⟩
      · exact absurd h0 hne
      · have := sumOver_nonexp x y (nodes.getD s []) ε h1 (fun t _ => h _)
        rw [show psum (nodes.getD s []) = 1 from h2, mul_one] at this
        rwa [add_sub_add_left_eq_sub]
    | p1 =>
      rw [Brew_p1 owners rewards nodes _ s hne ho, Brew_p1 owners rewards nodes _ s hne ho,
        add_sub_add_left_eq_sub]
      exact maxOver_nonexp _ _ _ _ _ _ (by simpa using hε) (fun t _ => h _)
    | p2 =>
      rw [Brew_p2 owners rewards nodes _ s t0 rest hrow ho,
        Brew_p2 owners rewards nodes _ s t0 rest hrow ho, add_sub_add_left_eq_sub]
      exact minOver_nonexp _ _ _ _ _ _ (h _) (fun t _ => h _)

end Step

/-! ### the Gauss–Seidel sweep -/

/-- the three tracked quantities -/
inductive Comp where
  | er | ermr | pmr

/-- the vector of a tracked quantity -/
def Comp.vec : Comp → RewVecs K → Array K
  | .er, v => v.er
  | .ermr, v => v.ermr
  | .pmr, v => v.pmr

/-- the component of a `stepRew` result belonging to a tracked quantity -/
def Comp.val : Comp → K × K × K → K
  | .er, t => t.1
  | .ermr, t => t.2.1
  | .pmr, t => t.2.2

theorem max3_eq (a b c : K) : max3 a b c = max (max a b) c := by
  unfold max3
  simp only []
  have h1 : (if b > a then b else a) = max a b := by
    split_ifs with h
    · exact (max_eq_right (le_of_lt h)).symm
    · exact (max_eq_left (not_lt.mp h)).symm
  rw [h1]
  split_ifs with h
  · exact (max_eq_right (le_of_lt h)).symm
  · exact (max_eq_left (not_lt.mp h)).symm

section Sweep
variable (rnd : K → Int) (owners : Array Owner) (rewards : Array K)
  (nodes : Array (List (Tr K))) (reach : Array K)

/-- `sweepRew` over an arbitrary list of states, started from an arbitrary accumulator -/
def sweepRewFrom (l : List Nat) (acc : RewVecs K × K) : Except Err (RewVecs K × K) :=
  l.foldlM (fun (acc : RewVecs K × K) s => do
    let (e, m, p) ← stepRew rnd owners rewards nodes reach acc.1 s
    let d := max3 (absv (e - acc.1.er.getD s 0)) (absv (m - acc.1.ermr.getD s 0))
      (absv (p - acc.1.pmr.getD s 0))
    pure ({ er := acc.1.er.setIfInBounds s e, ermr := acc.1.ermr.setIfInBounds s m,
            pmr := acc.1.pmr.setIfInBounds s p }, if d > acc.2 then d else acc.2)) acc

theorem sweepRew_eq (v : RewVecs K) :
    sweepRew rnd owners rewards nodes reach v =
      sweepRewFrom rnd owners rewards nodes reach (List.range owners.size) (v, 0) := rfl

/-- the accumulator after state `s` has been given the values `t` -/
def updAcc (acc : RewVecs K × K) (s : Nat) (t : K × K × K) : RewVecs K × K :=
  ({ er := acc.1.er.setIfInBounds s t.1, ermr := acc.1.ermr.setIfInBounds s t.2.1,
     pmr := acc.1.pmr.setIfInBounds s t.2.2 },
   max acc.2 (max (max |t.1 - acc.1.er.getD s 0| |t.2.1 - acc.1.ermr.getD s 0|)
     |t.2.2 - acc.1.pmr.getD s 0|))

@[simp] theorem sweepRewFrom_nil (acc : RewVecs K × K) :
    sweepRewFrom rnd owners rewards nodes reach [] acc = .ok acc := rfl

theorem sweepRewFrom_cons (s : Nat) (l : List Nat) (acc : RewVecs K × K) :
    sweepRewFrom rnd owners rewards nodes reach (s :: l) acc =
      match stepRew rnd owners rewards nodes reach acc.1 s with
      | .error e => .error e
      | .ok t => sweepRewFrom rnd owners rewards nodes reach l (updAcc acc s t) := by
  unfold sweepRewFrom
  rw [List.foldlM_cons]
  simp only [bind, Except.bind]
  cases hst : stepRew rnd owners rewards nodes reach acc.1 s with
  | error e => rfl
  | ok t =>
    obtain ⟨e, m, p⟩ := t
    simp only [pure, Except.pure, updAcc, max3_eq, absv_eq_abs]
    congr 2
    split_ifs with h
    · exact (max_eq_right (le_of_lt h)).symm
    · exact (max_eq_left (not_lt.mp h)).symm

theorem sweepRewFrom_cons_ok {s : Nat} {l : List Nat} {acc r : RewVecs K × K}
    (h : sweepRewFrom rnd owners rewards nodes reach (s :: l) acc = .ok r) :
    ∃ t, stepRew rnd owners rewards nodes reach acc.1 s = .ok t ∧
      sweepRewFrom rnd owners rewards nodes reach l (updAcc acc s t) = .ok r := by
  rw [sweepRewFrom_cons] at h
  cases hst : stepRew rnd owners rewards nodes reach acc.1 s with
  | error e => rw [hst] at h; cases h
  | ok t => rw [hst] at h; exact ⟨t, rfl, h⟩

theorem vec_updAcc (c : Comp) (acc : RewVecs K × K) (s : Nat) (t : K × K × K) :
    c.vec (updAcc acc s t).1 = (c.vec acc.1).setIfInBounds s (c.val t) := by
  cases c <;> rfl

theorem updAcc_diff_ge (acc : RewVecs K × K) (s : Nat) (t : K × K × K) :
    acc.2 ≤ (updAcc acc s t).2 := le_max_left _ _

theorem updAcc_change_le (c : Comp) (acc : RewVecs K × K) (s : Nat) (t : K × K × K) :
    |c.val t - (c.vec acc.1).getD s 0| ≤ (updAcc acc s t).2 := by
  unfold updAcc
  cases c
  · exact le_trans (le_trans (le_max_left _ _) (le_max_left _ _)) (le_max_right _ _)
  · exact le_trans (le_trans (le_max_right _ _) (le_max_left _ _)) (le_max_right _ _)
  · exact le_trans (le_max_right _ _) (le_max_right _ _)

variable {rnd owners rewards nodes reach}

/-- invariant principle for one sweep -/
theorem sweepRewFrom_inv (P : RewVecs K → Prop) (l : List Nat)
    (hstep : ∀ (x : RewVecs K × K) s t, s ∈ l → P x.1 →
      stepRew rnd owners rewards nodes reach x.1 s = .ok t → P (updAcc x s t).1)
    (acc r : RewVecs K × K) (h : P acc.1)
    (hr : sweepRewFrom rnd owners rewards nodes reach l acc = .ok r) : P r.1 := by
  induction l generalizing acc with
  | nil => rw [sweepRewFrom_nil] at hr; injection hr with hr; rw [← hr]; exact h
  | cons s l ih =>
    obtain ⟨t, hst, hr'⟩ := sweepRewFrom_cons_ok rnd owners rewards nodes reach hr
    exact ih (fun x s' t' hs' => hstep x s' t' (List.mem_cons_of_mem _ hs')) _
      (hstep acc s t List.mem_cons_self h hst) hr'

theorem sweepRewFrom_size (c : Comp) (l : List Nat) (acc r : RewVecs K × K)
    (hr : sweepRewFrom rnd owners rewards nodes reach l acc = .ok r) :
    (c.vec r.1).size = (c.vec acc.1).size :=
  sweepRewFrom_inv (fun x => (c.vec x).size = (c.vec acc.1).size) l
    (fun x s t _ h _ => by rw [vec_updAcc]; simpa using h) acc r rfl hr

/-- coordinates outside the sweep list are not touched -/
theorem sweepRewFrom_untouched (c : Comp) (l : List Nat) (acc r : RewVecs K × K)
    (hr : sweepRewFrom rnd owners rewards nodes reach l acc = .ok r) (j : Nat) (hj : j ∉ l) :
    (c.vec r.1).getD j 0 = (c.vec acc.1).getD j 0 :=
  sweepRewFrom_inv (fun x => (c.vec x).getD j 0 = (c.vec acc.1).getD j 0) l
    (fun x s t hs h _ => by
      rw [vec_updAcc, getD_setIfInBounds]
      have : s ≠ j := fun e => hj (e ▸ hs)
      simp [this, h]) acc r rfl hr

theorem sweepRewFrom_diff_ge (l : List Nat) (acc r : RewVecs K × K)
    (hr : sweepRewFrom rnd owners rewards nodes reach l acc = .ok r) : acc.2 ≤ r.2 := by
  induction l generalizing acc with
  | nil => rw [sweepRewFrom_nil] at hr; injection hr with hr; rw [← hr]
  | cons s l ih =>
    obtain ⟨t, _, hr'⟩ := sweepRewFrom_cons_ok rnd owners rewards nodes reach hr
    exact le_trans (updAcc_diff_ge acc s t) (ih _ hr')

/-- the reported `diff` bounds the change of every coordinate of each of the three vectors
(list without duplicates) -/
theorem sweepRewFrom_change_le (c : Comp) (l : List Nat) (hnd : l.Nodup) (acc r : RewVecs K × K)
    (h0 : 0 ≤ acc.2) (hr : sweepRewFrom rnd owners rewards nodes reach l acc = .ok r) (j : Nat) :
    |(c.vec r.1).getD j 0 - (c.vec acc.1).getD j 0| ≤ r.2 := by
  induction l generalizing acc with
  | nil => rw [sweepRewFrom_nil] at hr; injection hr with hr; rw [← hr]; simpa using h0
  | cons s l ih =>
    obtain ⟨t, _, hr'⟩ := sweepRewFrom_cons_ok rnd owners rewards nodes reach hr
    have hnd' := List.nodup_cons.mp hnd
    have h01 : 0 ≤ (updAcc acc s t).2 := le_trans h0 (updAcc_diff_ge acc s t)
    have ih' := ih hnd'.2 _ h01 hr'
    by_cases hsj : s = j ∧ s < (c.vec acc.1).size
    · obtain ⟨rfl, hlt⟩ := hsj
      rw [sweepRewFrom_untouched c l _ r hr' s hnd'.1, vec_updAcc, getD_setIfInBounds]
      simp only [hlt, and_self, if_true]
      exact le_trans (updAcc_change_le c acc s t) (sweepRewFrom_diff_ge l _ r hr')
    · have : (c.vec (updAcc acc s t).1).getD j 0 = (c.vec acc.1).getD j 0 := by
        rw [vec_updAcc, getD_setIfInBounds]; simp [hsj]
      rw [← this]; exact ih'

/-- exposure of the intermediate state: the value written at a swept in-range state `s` is the
`stepRew` value at an intermediate state `a` of the sweep; every coordinate of every vector of
the result is within the reported `diff` of `a`; and every coordinate of `a.er` is that of the
start vector or that of the result -/
theorem sweepRewFrom_expose (c : Comp) (l : List Nat) (hnd : l.Nodup) (acc r : RewVecs K × K)
    (h0 : 0 ≤ acc.2) (hr : sweepRewFrom rnd owners rewards nodes reach l acc = .ok r) (s : Nat)
    (hs : s ∈ l) (hlt : s < (c.vec acc.1).size) :
    ∃ (a : RewVecs K) (t : K × K × K),
      stepRew rnd owners rewards nodes reach a s = .ok t ∧ (c.vec r.1).getD s 0 = c.val t ∧
      (∀ (c' : Comp) j, |(c'.vec r.1).getD j 0 - (c'.vec a).getD j 0| ≤ r.2) ∧
      (∀ j, a.er.getD j 0 = acc.1.er.getD j 0 ∨ a.er.getD j 0 = r.1.er.getD j 0) := by
  induction l generalizing acc with
  | nil => simp at hs
  | cons s0 l ih =>
    obtain ⟨t, hst, hr'⟩ := sweepRewFrom_cons_ok rnd owners rewards nodes reach hr
    have hnd' := List.nodup_cons.mp hnd
    have h01 : 0 ≤ (updAcc acc s0 t).2 := le_trans h0 (updAcc_diff_ge acc s0 t)
    rcases List.mem_cons.mp hs with rfl | hs'
    · refine ⟨acc.1, t, hst, ?_, ?_, fun j => Or.inl rfl⟩
      · rw [sweepRewFrom_untouched c l _ r hr' s hnd'.1, vec_updAcc, getD_setIfInBounds]
        simp [hlt]
      · intro c' j
        exact sweepRewFrom_change_le c' (s :: l) hnd acc r h0 hr j
    · obtain ⟨a, t', h1, h2, h3, h4⟩ := ih hnd'.2 (updAcc acc s0 t) h01 hr'
        hs' (by rw [vec_updAcc]; simpa using hlt)
      refine ⟨a, t', h1, h2, h3, fun j => ?_⟩
      rcases h4 j with h | h
      · have hv := vec_updAcc Comp.er acc s0 t
        change (updAcc acc s0 t).1.er = acc.1.er.setIfInBounds s0 t.1 at hv
        rw [hv, getD_setIfInBounds] at h
        by_cases hc : s0 = j ∧ s0 < acc.1.er.size
        · right
          obtain ⟨rfl, hlt0⟩ := hc
          have hu := sweepRewFrom_untouched Comp.er l _ r hr' s0 hnd'.1
          change r.1.er.getD s0 0 = (updAcc acc s0 t).1.er.getD s0 0 at hu
          rw [hu, hv, getD_setIfInBounds, h]
        · left; rw [h, if_neg hc]
      · right; exact h

end Sweep

/-! ### non-expansiveness of the diagnostic components of `stepRew` -/

section Diag
variable {rnd : K → Int} {owners : Array Owner} {rewards : Array K}
  {nodes : Array (List (Tr K))} {reach : Array K}

/-- `stepRew` does not raise `UnboundLocalError` when all `er` values are non-negative -/
theorem stepRew_ok_of_nonneg (v : RewVecs K) (s : Nat) (hx : ∀ j, 0 ≤ v.er.getD j 0) :
    ∃ t, stepRew rnd owners rewards nodes reach v s = .ok t := by
  cases hrow : nodes.getD s [] with
  | nil => exact ⟨_, stepRew_nil rnd owners rewards nodes reach v s hrow⟩
  | cons t0 rest =>
    have hne : nodes.getD s [] ≠ [] := by rw [hrow]; simp
    cases ho : owners.getD s .prob with
    | prob => exact ⟨_, stepRew_prob rnd owners rewards nodes reach v s hne ho⟩
    | p2 => exact ⟨_, stepRew_p2 rnd owners rewards nodes reach v s t0 rest hrow ho⟩
    | p1 =>
      rw [stepRew_p1 rnd owners rewards nodes reach v s hne ho]
      rcases selMax_snd v.er (nodes.getD s []) (0, none) with ⟨_, _, h3⟩ | ⟨t, h1, _⟩
      · have := h3 t0 (by rw [hrow]; exact List.mem_cons_self)
        exact absurd (hx t0.tgt) (not_le.mpr this)
      · rw [h1]; exact ⟨_, rfl⟩

theorem p2RewMinReach_nonexp (r : K) (x y : Array K) (row : List (Tr K)) (strat : List String)
    (ε : K) (h : ∀ j, |x.getD j 0 - y.getD j 0| ≤ ε) :
    |p2RewMinReach r x row strat - p2RewMinReach r y row strat| ≤ ε := by
  have hε : 0 ≤ ε := le_trans (abs_nonneg _) (h 0)
  rw [p2RewMinReach_eq, p2RewMinReach_eq]
  cases row.filter (fun t => strat.contains t.act) with
  | nil => simpa using hε
  | cons t0 rest =>
    simp only []
    rw [add_sub_add_right_eq_sub]
    exact minOver_nonexp _ _ _ _ _ _ (h _) (fun t _ => h _)

/-- the "rewards under minimal reachability" component of a Player-2 state is non-expansive in
`ermr` alone (the transitions it ranges over are fixed by the reachability strategy) -/
theorem stepRew_p2_ermr_nonexp (v w : RewVecs K) (s : Nat) (ε : K)
    (ho : owners.getD s .prob = .p2)
    (h2 : ∀ j, |v.ermr.getD j 0 - w.ermr.getD j 0| ≤ ε) (tv tw : K × K × K)
    (hv : stepRew rnd owners rewards nodes reach v s = .ok tv)
    (hw : stepRew rnd owners rewards nodes reach w s = .ok tw) : |tv.2.1 - tw.2.1| ≤ ε := by
  have hε : 0 ≤ ε := le_trans (abs_nonneg _) (h2 0)
  cases hrow : nodes.getD s [] with
  | nil =>
    rw [stepRew_nil rnd owners rewards nodes reach _ s hrow] at hv hw
    injection hv with hv; injection hw with hw
    rw [← hv, ← hw]; simpa using hε
  | cons t0 rest =>
    rw [stepRew_p2 rnd owners rewards nodes reach _ s t0 rest hrow ho] at hv hw
    injection hv with hv; injection hw with hw
    rw [← hv, ← hw]
    exact p2RewMinReach_nonexp _ _ _ _ _ _ h2

/-- both diagnostic components are non-expansive in (`ermr`, `pmr`) provided that, at a player
state, the two `er` vectors agree (so that the same successor is followed) -/
theorem stepRew_diag_nonexp (v w : RewVecs K) (s : Nat) (ε : K)
    (hp : owners.getD s .prob = .prob → nodes.getD s [] = [] ∨
      ((∀ t ∈ nodes.getD s [], 0 ≤ t.p) ∧ ((nodes.getD s []).map (·.p)).sum = 1))
    (her : owners.getD s .prob ≠ .prob → ∀ j, v.er.getD j 0 = w.er.getD j 0)
    (h2 : ∀ j, |v.ermr.getD j 0 - w.ermr.getD j 0| ≤ ε)
    (h3 : ∀ j, |v.pmr.getD j 0 - w.pmr.getD j 0| ≤ ε) (tv tw : K × K × K)
    (hv : stepRew rnd owners rewards nodes reach v s = .ok tv)
    (hw : stepRew rnd owners rewards nodes reach w s = .ok tw) :
    |tv.2.1 - tw.2.1| ≤ ε ∧ |tv.2.2 - tw.2.2| ≤ ε := by
  have hε : 0 ≤ ε := le_trans (abs_nonneg _) (h2 0)
  cases hrow : nodes.getD s [] with
  | nil =>
    rw [stepRew_nil rnd owners rewards nodes reach _ s hrow] at hv hw
    injection hv with hv; injection hw with hw
    rw [← hv, ← hw]; simpa using hε
  | cons t0 rest =>
    have hne : nodes.getD s [] ≠ [] := by rw [hrow]; simp
    cases ho : owners.getD s .prob with
    | prob =>
      rw [stepRew_prob rnd owners rewards nodes reach _ s hne ho] at hv hw
      injection hv with hv; injection hw with hw
      rw [← hv, ← hw]
      rcases hp ho with h0 | ⟨hp1, hp2⟩
      · exact absurd h0 hne
      · have e2 := sumOver_nonexp v.ermr w.ermr (nodes.getD s []) ε hp1 (fun t _ => h2 _)
        have e3 := sumOver_nonexp v.pmr w.pmr (nodes.getD s []) ε hp1 (fun t _ => h3 _)
        rw [show psum (nodes.getD s []) = 1 from hp2, mul_one] at e2 e3
        simp only []
        rw [add_sub_add_left_eq_sub]
        exact ⟨e2, e3⟩
    | p1 =>
      have her' := her (by rw [ho]; simp)
      rw [stepRew_p1 rnd owners rewards nodes reach _ s hne ho] at hv hw
      rw [selMax_congr v.er w.er her'] at hv
      cases hsel : (selMax w.er (nodes.getD s []) (0, none)).2 with
      | none => rw [hsel] at hv; cases hv
      | some t =>
        rw [hsel] at hv hw
        injection hv with hv; injection hw with hw
        rw [← hv, ← hw]
        simp only []
        rw [add_sub_add_right_eq_sub]
        exact ⟨h2 _, h3 _⟩
    | p2 =>
      have her' := her (by rw [ho]; simp)
      refine ⟨stepRew_p2_ermr_nonexp v w s ε ho h2 tv tw hv hw, ?_⟩
      rw [stepRew_p2 rnd owners rewards nodes reach _ s t0 rest hrow ho] at hv hw
      rw [selMin_congr v.er w.er her', her' t0.tgt] at hv
      injection hv with hv; injection hw with hw
      rw [← hv, ← hw]
      exact h3 _

end Diag

/-! ### one full sweep -/

section FullSweep
variable {rnd : K → Int} {owners : Array Owner} {rewards : Array K}
  {nodes : Array (List (Tr K))} {reach : Array K}

theorem sweepRew_size (c : Comp) {v w : RewVecs K} {d : K}
    (h : sweepRew rnd owners rewards nodes reach v = .ok (w, d)) :
    (c.vec w).size = (c.vec v).size :=
  sweepRewFrom_size c _ (v, 0) (w, d) h

theorem sweepRew_diff_nonneg {v w : RewVecs K} {d : K}
    (h : sweepRew rnd owners rewards nodes reach v = .ok (w, d)) : 0 ≤ d :=
  sweepRewFrom_diff_ge _ (v, 0) (w, d) h

/-- the reported `diff` bounds the change of every coordinate of each of the three vectors -/
theorem sweepRew_change_le (c : Comp) {v w : RewVecs K} {d : K}
    (h : sweepRew rnd owners rewards nodes reach v = .ok (w, d)) (j : Nat) :
    |(c.vec w).getD j 0 - (c.vec v).getD j 0| ≤ d :=
  sweepRewFrom_change_le c _ List.nodup_range (v, 0) (w, d) le_rfl h j

theorem sweepRew_expose (c : Comp) {v w : RewVecs K} {d : K}
    (h : sweepRew rnd owners rewards nodes reach v = .ok (w, d)) (s : Nat)
    (hs : s < owners.size) (hlt : s < (c.vec v).size) :
    ∃ (a : RewVecs K) (t : K × K × K),
      stepRew rnd owners rewards nodes reach a s = .ok t ∧ (c.vec w).getD s 0 = c.val t ∧
      (∀ (c' : Comp) j, |(c'.vec w).getD j 0 - (c'.vec a).getD j 0| ≤ d) ∧
      (∀ j, a.er.getD j 0 = v.er.getD j 0 ∨ a.er.getD j 0 = w.er.getD j 0) :=
  sweepRewFrom_expose c _ List.nodup_range (v, 0) (w, d) le_rfl h s (List.mem_range.mpr hs) hlt

/-- Bellman residual after a sweep -/
theorem sweepRew_bellman (hwf : NodesWF owners nodes) {v w : RewVecs K} {d : K}
    (h : sweepRew rnd owners rewards nodes reach v = .ok (w, d)) (s : Nat)
    (hs : s < owners.size) (hlt : s < v.er.size) :
    |Brew owners rewards nodes w.er s - w.er.getD s 0| ≤ d := by
  obtain ⟨a, t, hst, hval, hclose, _⟩ := sweepRew_expose Comp.er h s hs hlt
  obtain ⟨e, m, p⟩ := t
  have he := stepRew_fst rnd owners rewards nodes reach a s e m p hst
  change w.er.getD s 0 = e at hval
  rw [hval, he]
  exact Brew_nonexp rewards _ _ s d (hwf s hs) (fun j => hclose Comp.er j)

/-- after a sweep, a state without transitions carries 0 in all three vectors -/
theorem sweepRew_emptied (c : Comp) {v w : RewVecs K} {d : K}
    (h : sweepRew rnd owners rewards nodes reach v = .ok (w, d)) (s : Nat)
    (hs : s < owners.size) (hrow : nodes.getD s [] = []) : (c.vec w).getD s 0 = 0 := by
  by_cases hlt : s < (c.vec v).size
  · obtain ⟨a, t, hst, hval, _, _⟩ := sweepRew_expose c h s hs hlt
    rw [stepRew_nil rnd owners rewards nodes reach a s hrow] at hst
    injection hst with hst
    rw [hval, ← hst]
    cases c <;> rfl
  · exact getD_of_size_le _ _ _ (by rw [sweepRew_size c h]; exact Nat.le_of_not_lt hlt)

/-- residual of the two diagnostics after a sweep: at a probabilistic state unconditionally, at a
player state provided the sweep left `er` unchanged -/
theorem sweepRew_diag (hwf : NodesWF owners nodes) {v w : RewVecs K} {d : K}
    (h : sweepRew rnd owners rewards nodes reach v = .ok (w, d)) (s : Nat)
    (hs : s < owners.size) (hlt2 : s < v.ermr.size) (hlt3 : s < v.pmr.size)
    (her : owners.getD s .prob ≠ .prob → ∀ j, v.er.getD j 0 = w.er.getD j 0)
    (t : K × K × K) (ht : stepRew rnd owners rewards nodes reach w s = .ok t) :
    |t.2.1 - w.ermr.getD s 0| ≤ d ∧ |t.2.2 - w.pmr.getD s 0| ≤ d := by
  have key : ∀ c : Comp, s < (c.vec v).size → ∃ ta : K × K × K, (c.vec w).getD s 0 = c.val ta ∧
      |t.2.1 - ta.2.1| ≤ d ∧ |t.2.2 - ta.2.2| ≤ d := by
    intro c hlt
    obtain ⟨a, ta, hst, hval, hclose, hera⟩ := sweepRew_expose c h s hs hlt
    refine ⟨ta, hval, ?_⟩
    refine stepRew_diag_nonexp w a s d (hwf s hs) (fun ho j => ?_)
      (fun j => hclose Comp.ermr j) (fun j => hclose Comp.pmr j) t ta ht hst
    rcases hera j with h1 | h1
    · rw [h1, her ho j]
    · exact h1.symm
  obtain ⟨ta, h1, h2, _⟩ := key Comp.ermr hlt2
  obtain ⟨tb, h3, _, h4⟩ := key Comp.pmr hlt3
  change w.ermr.getD s 0 = ta.2.1 at h1
  change w.pmr.getD s 0 = tb.2.2 at h3
  rw [h1, h3]
  exact ⟨h2, h4⟩

/-- residual of the "rewards under minimal reachability" of a Player-2 state: unconditional -/
theorem sweepRew_diag_p2_ermr {v w : RewVecs K} {d : K}
    (h : sweepRew rnd owners rewards nodes reach v = .ok (w, d)) (s : Nat)
    (hs : s < owners.size) (hlt2 : s < v.ermr.size) (ho : owners.getD s .prob = .p2)
    (t : K × K × K) (ht : stepRew rnd owners rewards nodes reach w s = .ok t) :
    |t.2.1 - w.ermr.getD s 0| ≤ d := by
  obtain ⟨a, ta, hst, hval, hclose, _⟩ := sweepRew_expose Comp.ermr h s hs hlt2
  change w.ermr.getD s 0 = ta.2.1 at hval
  rw [hval]
  exact stepRew_p2_ermr_nonexp w a s d ho (fun j => hclose Comp.ermr j) t ta ht hst

end FullSweep

/-! ### the `while diff > thr` loop -/

section Loop
variable {rnd : K → Int} {owners : Array Owner} {rewards : Array K}
  {nodes : Array (List (Tr K))} {reach : Array K}

/-- an `.ok` result of the loop satisfies every sweep invariant of the start vectors; the loop
either never ran or the result is the outcome of a last sweep (started from vectors that also
satisfy the invariant) whose reported `diff` is not above the threshold -/
theorem viRew_spec (P : RewVecs K → Prop)
    (hP : ∀ x y d, P x → sweepRew rnd owners rewards nodes reach x = .ok (y, d) → P y)
    (thr : K) (fuel : Nat) (diff : K) (v : RewVecs K) (i : Nat) (w : RewVecs K) (j : Nat)
    (hv : P v) (h : viRew rnd owners rewards nodes reach thr fuel diff v i = .ok (w, j)) :
    P w ∧ ((¬ diff > thr ∧ w = v ∧ j = i) ∨
      (diff > thr ∧ i + 1 ≤ j ∧ ∃ v' d, P v' ∧
        sweepRew rnd owners rewards nodes reach v' = .ok (w, d) ∧ ¬ d > thr)) := by
  induction fuel generalizing diff v i with
  | zero =>
    unfold viRew at h
    split_ifs at h with hd
    injection h with h
    injection h with h1 h2
    subst h1; subst h2
    exact ⟨hv, Or.inl ⟨hd, rfl, rfl⟩⟩
  | succ fuel ih =>
    unfold viRew at h
    split_ifs at h with hd
    · simp only [bind, Except.bind] at h
      cases hsw : sweepRew rnd owners rewards nodes reach v with
      | error e => rw [hsw] at h; cases h
      | ok r =>
        rw [hsw] at h
        simp only [] at h
        have hr : P r.1 := hP v r.1 r.2 hv hsw
        obtain ⟨hw, hcase⟩ := ih _ _ _ hr h
        refine ⟨hw, Or.inr ⟨hd, ?_⟩⟩
        rcases hcase with ⟨hnd, rfl, rfl⟩ | ⟨_, hij, v', d, hv', hsw', hd'⟩
        · exact ⟨le_rfl, v, r.2, hv, hsw, hnd⟩
        · exact ⟨by omega, v', d, hv', hsw', hd'⟩
    · injection h with h
      injection h with h1 h2
      subst h1; subst h2
      exact ⟨hv, Or.inl ⟨hd, rfl, rfl⟩⟩

end Loop

/-! ### inversion of `solve`, sizes -/

theorem checkGame_ok_rewards (g : Game K) (h : checkGame g = .ok ()) :
    g.rewards.size = g.owners.size := by
  unfold checkGame at h
  simp only [bind, Except.bind, pure, Except.pure, throw, throwThe, MonadExceptOf.throw] at h
  split_ifs at h with h1 h2 h3 h4
  · split at h <;> simp at h
  · split at h <;> simp at h
  · simpa using h2

theorem checkGame_ok_nonneg (g : Game K) (h : checkGame g = .ok ()) :
    ∀ j, 0 ≤ g.rewards.getD j 0 := by
  unfold checkGame at h
  simp only [bind, Except.bind, pure, Except.pure, throw, throwThe, MonadExceptOf.throw] at h
  split_ifs at h with h1 h2 h3 h4
  · split at h <;> simp at h
  · split at h <;> simp at h
  · split at h
    · simp at h
    · simp at h
    · rename_i hneg
      intro j
      unfold anyNeg at hneg
      split_ifs at hneg with h0
      injection hneg with hneg
      by_cases hj : j < g.rewards.size
      · have : g.rewards.getD j 0 = g.rewards[j] := by simp [Array.getD, hj]
        rw [this]
        rw [Array.any_eq_false] at hneg
        have := hneg j hj
        simpa using this
      · rw [getD_of_size_le _ _ _ (Nat.le_of_not_lt hj)]

theorem solve_ok_full {rnd : K → Int} {thr : K} {fuel : Nat} {prune : Bool} {g : Game K}
    {out : SolveOut K} (h : solve rnd thr fuel prune g = .ok out) :
    ∃ ro : ReachOut K,
      solveReach rnd thr fuel prune g = .ok ro ∧ out.probs = ro.probs ∧
      out.reachStrat = ro.strat ∧ out.itReach = ro.iters ∧
      condition prune g out.reachStrat out.probs = .ok out.nodes ∧
      viRew rnd g.owners g.rewards out.nodes out.probs thr fuel 1
        { er := g.rewards, ermr := g.rewards, pmr := out.probs } 0 =
          .ok ({ er := out.rewards, ermr := out.rewMinReach, pmr := out.probMinRew }, out.itRew) ∧
      out.finalStrat = rewardStrategies rnd g.owners out.nodes out.rewards := by
  unfold solve at h
  cases hr : solveReach rnd thr fuel prune g with
  | error e => rw [hr] at h; cases h
  | ok ro =>
    rw [hr] at h
    cases hc : condition prune g ro.strat ro.probs with
    | error e =>
      simp only [bind, Except.bind] at h
      rw [hc] at h; cases h
    | ok nodes =>
      simp only [bind, Except.bind] at h
      rw [hc] at h
      simp only at h
      split at h
      · cases h
      · rename_i x hx
        obtain ⟨v, j⟩ := x
        cases h
        exact ⟨ro, rfl, rfl, rfl, rfl, hc, hx, rfl⟩

/-- all three vectors have one entry per state -/
def Sized (n : Nat) (v : RewVecs K) : Prop := v.er.size = n ∧ v.ermr.size = n ∧ v.pmr.size = n

theorem Sized.vec {n : Nat} {v : RewVecs K} (h : Sized n v) (c : Comp) : (c.vec v).size = n := by
  cases c
  · exact h.1
  · exact h.2.1
  · exact h.2.2

theorem sweepRew_sized {rnd : K → Int} {owners : Array Owner} {rewards : Array K}
    {nodes : Array (List (Tr K))} {reach : Array K} {n : Nat} {v w : RewVecs K} {d : K}
    (hv : Sized n v) (h : sweepRew rnd owners rewards nodes reach v = .ok (w, d)) : Sized n w :=
  ⟨(sweepRew_size Comp.er h).trans hv.1, (sweepRew_size Comp.ermr h).trans hv.2.1,
    (sweepRew_size Comp.pmr h).trans hv.2.2⟩

section Run
variable {rnd : K → Int} {thr : K} {fuel : Nat} {prune : Bool} {g : Game K} {out : SolveOut K}

/-- `check_game` guarantees non-negative state rewards and one row per state -/
theorem solve_checked (H : solve rnd thr fuel prune g = .ok out) :
    (∀ j, 0 ≤ g.rewards.getD j 0) ∧ Shape g := by
  obtain ⟨ro, hro, _⟩ := solve_ok_full H
  have hcg := (solveReach_ok hro).1
  exact ⟨checkGame_ok_nonneg g hcg, (checkGame_ok g hcg).1⟩

theorem init_sized (H : solve rnd thr fuel prune g = .ok out) :
    Sized g.owners.size { er := g.rewards, ermr := g.rewards, pmr := out.probs } := by
  obtain ⟨ro, hro, hprobs, _⟩ := solve_ok_full H
  have hcg := (solveReach_ok hro).1
  have h1 := checkGame_ok_rewards g hcg
  have h2 := CR.C01.reach_size hro
  exact ⟨h1, h1, by rw [hprobs]; exact h2⟩

/-- the handle on the reward phase of an `.ok` run: every sweep invariant `P` of the initial
vectors holds for the reported vectors; either the loop never ran or the reported vectors are the
outcome of a last sweep, from vectors satisfying `P`, with reported `diff` not above `thr` -/
theorem solve_run (H : solve rnd thr fuel prune g = .ok out) (P : RewVecs K → Prop)
    (h0 : P { er := g.rewards, ermr := g.rewards, pmr := out.probs })
    (hP : ∀ x y d, P x →
      sweepRew rnd g.owners g.rewards out.nodes out.probs x = .ok (y, d) → P y) :
    P { er := out.rewards, ermr := out.rewMinReach, pmr := out.probMinRew } ∧
    ((¬ (1 > thr) ∧ out.itRew = 0 ∧
        ({ er := out.rewards, ermr := out.rewMinReach, pmr := out.probMinRew } : RewVecs K) =
          { er := g.rewards, ermr := g.rewards, pmr := out.probs }) ∨
      (1 > thr ∧ 1 ≤ out.itRew ∧ ∃ (v : RewVecs K) (d : K), P v ∧
        sweepRew rnd g.owners g.rewards out.nodes out.probs v =
          .ok ({ er := out.rewards, ermr := out.rewMinReach, pmr := out.probMinRew }, d) ∧
        ¬ (d > thr))) := by
  obtain ⟨ro, _, _, _, _, _, hvi, _⟩ := solve_ok_full H
  obtain ⟨hw, hcase⟩ := viRew_spec P hP thr fuel 1 _ 0 _ _ h0 hvi
  refine ⟨hw, ?_⟩
  rcases hcase with ⟨h1, h2, h3⟩ | ⟨h1, h2, h3⟩
  · exact Or.inl ⟨h1, h3, h2⟩
  · exact Or.inr ⟨h1, by omega, h3⟩

/-- the `er` vector stays non-negative (state rewards are non-negative by `check_game`; `p ≥ 0`
on the conditioned rows of the probabilistic states) -/
theorem solve_er_nonneg
    (hp : ∀ s < g.owners.size, g.owners.getD s .prob = .prob → ∀ t ∈ out.nodes.getD s [], 0 ≤ t.p)
    (H : solve rnd thr fuel prune g = .ok out) : ∀ j, 0 ≤ out.rewards.getD j 0 := by
  have hr := (solve_checked H).1
  have := (solve_run H (fun x => x.er.size = g.owners.size ∧ ∀ j, 0 ≤ x.er.getD j 0)
    ⟨(init_sized H).1, hr⟩ (fun x y d hx h => by
      refine sweepRewFrom_inv (fun x => x.er.size = g.owners.size ∧ ∀ j, 0 ≤ x.er.getD j 0)
        (List.range g.owners.size) ?_ (x, 0) (y, d) hx h
      intro a s t hs ⟨hn, ha⟩ hst
      have hv := vec_updAcc Comp.er a s t
      change (updAcc a s t).1.er = a.1.er.setIfInBounds s t.1 at hv
      rw [hv]
      refine ⟨by simpa using hn, fun j => ?_⟩
      rw [getD_setIfInBounds]
      split_ifs with hc
      · obtain ⟨e, m, p⟩ := t
        rw [stepRew_fst rnd g.owners g.rewards out.nodes out.probs a.1 s e m p hst]
        exact Brew_nonneg g.rewards hr _ s (hp s (List.mem_range.mp hs)) ha
      · exact ha j)).1
  exact this.2

end Run

/-! ### conditioning produces `NodesWF` lists -/

/-- if every probabilistic row of the game is a positive distribution, every probabilistic row
of the conditioned game is empty or a distribution -/
theorem nodesWF_of_condition {prune : Bool} {g : Game K} (hg : Shape g)
    (hrows : ∀ s < g.owners.size, g.owners.getD s .prob = .prob →
      (∀ t ∈ g.tl.getD s [], 0 < t.p) ∧ ((g.tl.getD s []).map (·.p)).sum = 1)
    {strat : Array Strat} {reach : Array K} {nodes : Array (List (Tr K))}
    (h : condition prune g strat reach = .ok nodes) : NodesWF g.owners nodes := by
  intro s hs ho
  obtain ⟨hpos, hsum⟩ := hrows s hs ho
  cases prune with
  | false =>
    rw [CR.C03.condition_false] at h
    injection h with h
    right
    rw [← h, pruneReachability_getD, ho]
    exact ⟨fun t ht => le_of_lt (hpos t ht), hsum⟩
  | true =>
    rcases (CR.C03.cond_exact hg h).2 s hs with hrow | ⟨hnil, _⟩
    · obtain ⟨h1, h2, _⟩ := CR.C03.prob_survivors (strat := strat) (reach := reach) ho hpos hsum
      by_cases hlive : (g.tl.getD s []).filter (fun t => !dead reach t) = []
      · left
        rw [hrow, h1, hlive]; rfl
      · right
        refine ⟨?_, by rw [hrow]; exact h2 hlive⟩
        intro t ht
        rw [hrow, h1] at ht
        obtain ⟨u, hu, rfl⟩ := List.mem_map.mp ht
        have hu' : u ∈ g.tl.getD s [] := (List.mem_filter.mp hu).1
        refine div_nonneg (le_of_lt (hpos u hu')) (List.sum_nonneg ?_)
        intro x hx
        obtain ⟨w, hw, rfl⟩ := List.mem_map.mp hx
        exact le_of_lt (hpos w (List.mem_filter.mp hw).1)
    · left; exact hnil

/-! ### the rounding function of the `Rat` instance is monotone -/

theorem roundHalfEven_near (q : Rat) :
    ((roundHalfEven q : Int) : Rat) - 1/2 ≤ q ∧ q ≤ ((roundHalfEven q : Int) : Rat) + 1/2 := by
  have h1 := Rat.floor_le q
  have h2 := Rat.lt_floor_add_one q
  unfold roundHalfEven
  simp only []
  push_cast at h2 ⊢
  split_ifs with ha hb hc
  · constructor <;> linarith
  · constructor <;> linarith
  · have : q - (q.floor : Rat) = 1/2 := le_antisymm (not_lt.mp ha) (not_lt.mp hb)
    constructor <;> linarith
  · have : q - (q.floor : Rat) = 1/2 := le_antisymm (not_lt.mp ha) (not_lt.mp hb)
    constructor <;> linarith

theorem roundHalfEven_mono {x y : Rat} (h : x ≤ y) : roundHalfEven x ≤ roundHalfEven y := by
  by_contra hlt
  have hlt : roundHalfEven y + 1 ≤ roundHalfEven x := by omega
  have hx := (roundHalfEven_near x).1
  have hy := (roundHalfEven_near y).2
  have hc : ((roundHalfEven y : Int) : Rat) + 1 ≤ ((roundHalfEven x : Int) : Rat) := by
    exact_mod_cast hlt
  have hxy : x = y := le_antisymm h (by linarith)
  subst hxy
  omega

/-- Python's `round(x, digits)` on rationals (scaled integer) is monotone -/
theorem roundRat_mono (d : Nat) (x y : Rat) (h : x ≤ y) : roundRat d x ≤ roundRat d y := by
  unfold roundRat
  apply roundHalfEven_mono
  exact mul_le_mul_of_nonneg_right h (by positivity)

/-! ### concrete data for the non-vacuity examples of C02 / C14 -/

deriving instance DecidableEq for RewVecs

namespace Examples
open CR.Examples

/-- the conditioned lists of the 7-state game `g7` (pruning on): states 2, 4, 6 are emptied -/
def g7nodes : Array (List (Tr Rat)) :=
  #[[tr "alfa" 0 1], [tr "" 1 3], [], [tr "gamma" 0 5], [], [tr "" 1 5], []]

set_option synthInstance.maxSize 400 in
/-- a concrete `.ok` run, with the loop running (3 sweeps) -/
theorem g7_run_aux : ∃ out, solve (roundRat 6) thr 1000 true g7 = .ok out ∧
    ((out.rewards, out.rewMinReach, out.probMinRew), (out.itRew, out.probs),
        (out.nodes, out.finalStrat)) =
      ((#[2, 2, 0, 2, 0, 0, 0], #[2, 2, 0, 2, 0, 0, 0], #[1, 1, 0, 1, 0, 1, 0]),
        (3, #[3/4, 3/4, 1/2, 1, 0, 1, 0]),
        (g7nodes, #[some ["alfa"], none, none, some ["gamma"], none, none, none])) :=
  exists_ok_of_toOption_map (by unfold solve solveReach; rw [g7_ord]; decide +kernel)

/-- the reported vectors of that run -/
def g7vecs : RewVecs Rat :=
  { er := #[2, 2, 0, 2, 0, 0, 0], ermr := #[2, 2, 0, 2, 0, 0, 0], pmr := #[1, 1, 0, 1, 0, 1, 0] }

/-- the reported reachability probabilities of that run -/
def g7probs : Array Rat := #[3/4, 3/4, 1/2, 1, 0, 1, 0]

/-- the same run, field by field -/
theorem g7_run : ∃ out, solve (roundRat 6) thr 1000 true g7 = .ok out ∧
    out.rewards = g7vecs.er ∧ out.rewMinReach = g7vecs.ermr ∧ out.probMinRew = g7vecs.pmr ∧
    out.itRew = 3 ∧ out.probs = g7probs ∧ out.nodes = g7nodes ∧
    out.finalStrat = #[some ["alfa"], none, none, some ["gamma"], none, none, none] := by
  obtain ⟨out, H, h⟩ := g7_run_aux
  simp only [Prod.mk.injEq] at h
  obtain ⟨⟨h1, h2, h3⟩, ⟨h4, h5⟩, h6, h7⟩ := h
  exact ⟨out, H, h1, h2, h3, h4, h5, h6, h7⟩

/-- the reported vectors are reproduced by one more sweep, with change 0 -/
theorem g7_sweep :
    sweepRew (roundRat 6) g7.owners g7.rewards g7nodes g7probs g7vecs = .ok (g7vecs, 0) := by
  decide +kernel

/-- the conditioned lists of the 6-state game `g6` (pruning on); state 1 is Player 2's -/
def g6nodes : Array (List (Tr Rat)) :=
  #[[tr "a" 0 1, tr "b" 0 2, tr "c" 0 3], [tr "x" 0 4, tr "y" 0 2], [tr "" 1 4], [tr "" 1 4],
    [tr "" 1 4], []]

/-- the reported vectors of `solve (roundRat 6) thr 1000 true g6` -/
def g6vecs : RewVecs Rat :=
  { er := #[1, 0, 0, 1, 0, 0], ermr := #[1, 0, 0, 1, 0, 0], pmr := #[1, 1, 1, 1, 1, 0] }

def g6probs : Array Rat := #[1/2, 1/2, 1/2, 1/2, 1, 0]

/-- `NodesWF` holds for these conditioned lists -/
theorem g7_wf : NodesWF g7.owners g7nodes := by
  intro s hs ho
  have hs' : s < 7 := hs
  have : s = 0 ∨ s = 1 ∨ s = 2 ∨ s = 3 ∨ s = 4 ∨ s = 5 ∨ s = 6 := by omega
  rcases this with rfl | rfl | rfl | rfl | rfl | rfl | rfl <;>
    simp [g7, g7nodes, tr] at ho ⊢

end Examples

end CR.Rew
