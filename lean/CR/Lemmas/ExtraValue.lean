/-
Helper lemmas for `CR/Props/C01Value.lean` (existence of the value of a well-formed game), over an
arbitrary linearly ordered field: the Bellman operator `Bell` is monotone and maps `(-∞,1]`-vectors
into `(-∞,1]`; the all-ones vector is a pre-fixed point; clamping a pre-fixed point at 1 gives a
pre-fixed point.  Over the reals: the family `Cand` of pre-fixed points with entries `≤ 1` and the
sets `Vals g s` of their values at coordinate `s` (non-empty, bounded below by 0).
-/
import CR.Props.C01
import Mathlib.Algebra.Order.Archimedean.Real.Basic

set_option linter.unusedSectionVars false

namespace CR.C01

open CR CR.VI

variable {K : Type} [Field K] [LinearOrder K] [IsStrictOrderedRing K]

theorem getD_ofFn_dflt {n : Nat} (f : Fin n → K) (j : Nat) :
    (Array.ofFn f).getD j 0 = if h : j < n then f ⟨j, h⟩ else 0 := by
  by_cases h : j < n <;> simp [Array.getD, h]

theorem WF.rowNonneg_pub {g : Game K} (h : WF g) {s : Nat} (hs : s < g.owners.size) :
    RowNonneg g.owners g.tl s := fun ho => (h.2.2 s hs ho).1

theorem WF.rowSumOne_pub {g : Game K} (h : WF g) {s : Nat} (hs : s < g.owners.size) :
    RowSumOne g.owners g.tl s := fun ho => (h.2.2 s hs ho).2

/-- `Bell` is monotone -/
theorem Bell_mono {g : Game K} (hwf : WF g) {s : Nat} (hs : s < g.owners.size) (x y : Array K)
    (h : ∀ j, x.getD j 0 ≤ y.getD j 0) : Bell g x s ≤ Bell g y s := by
  unfold Bell
  split
  · exact le_rfl
  · exact stepReach_mono (hwf.rowNonneg_pub hs) x y h

/-- `Bell` of a vector with entries `≤ 1` is `≤ 1` -/
theorem Bell_le_one {g : Game K} (hwf : WF g) {s : Nat} (hs : s < g.owners.size) (x : Array K)
    (h : ∀ j, x.getD j 0 ≤ 1) : Bell g x s ≤ 1 := by
  unfold Bell
  split
  · exact le_rfl
  · exact stepReach_le_one (hwf.rowNonneg_pub hs) (hwf.rowSumOne_pub hs) x h

/-- the all-ones vector -/
def ones (g : Game K) : Array K := Array.ofFn (n := g.owners.size) (fun _ => 1)

theorem ones_getD_le (g : Game K) (j : Nat) : (ones g).getD j 0 ≤ 1 := by
  unfold ones
  rw [getD_ofFn_dflt]
  split
  · exact le_rfl
  · exact zero_le_one

/-- the all-ones vector is a pre-fixed point of a well-formed game -/
theorem ones_prefixed {g : Game K} (hwf : WF g) : PreFixed g (ones g) := by
  refine ⟨by simp [ones], fun s hs => ?_, fun s hs => ?_⟩
  · unfold ones; rw [getD_ofFn_dflt, dif_pos hs]; exact zero_le_one
  · have : (ones g).getD s 0 = 1 := by unfold ones; rw [getD_ofFn_dflt, dif_pos hs]
    rw [this]
    exact Bell_le_one hwf hs _ (ones_getD_le g)

/-- clamp a vector at 1 -/
def clamp (g : Game K) (y : Array K) : Array K :=
  Array.ofFn (n := g.owners.size) (fun s => min (y.getD s.val 0) 1)

theorem clamp_getD (g : Game K) (y : Array K) (j : Nat) :
    (clamp g y).getD j 0 = if j < g.owners.size then min (y.getD j 0) 1 else 0 := by
  unfold clamp
  rw [getD_ofFn_dflt]
  split <;> rfl

theorem clamp_le_one (g : Game K) (y : Array K) (j : Nat) : (clamp g y).getD j 0 ≤ 1 := by
  rw [clamp_getD]
  split
  · exact min_le_right _ _
  · exact zero_le_one

theorem clamp_le {g : Game K} {y : Array K} (hy : y.size = g.owners.size) (j : Nat) :
    (clamp g y).getD j 0 ≤ y.getD j 0 := by
  rw [clamp_getD]
  split
  · exact min_le_left _ _
  · rename_i h
    rw [getD_of_size_le y j 0 (by rw [hy]; exact Nat.le_of_not_lt h)]

/-- clamping a pre-fixed point at 1 gives a pre-fixed point -/
theorem clamp_prefixed {g : Game K} (hwf : WF g) {y : Array K} (hy : PreFixed g y) :
    PreFixed g (clamp g y) := by
  refine ⟨by simp [clamp], fun s hs => ?_, fun s hs => ?_⟩
  · rw [clamp_getD, if_pos hs]
    exact le_min (hy.2.1 s hs) zero_le_one
  · rw [clamp_getD, if_pos hs]
    refine le_min ?_ (Bell_le_one hwf hs _ (clamp_le_one g y))
    exact le_trans (Bell_mono hwf hs _ _ (clamp_le hy.1)) (hy.2.2 s hs)

/-! ### the reals: the candidate family of `value_exists` -/

/-- the pre-fixed points with entries `≤ 1` -/
def Cand (g : Game ℝ) : Set (Array ℝ) := { y | PreFixed g y ∧ ∀ j, y.getD j 0 ≤ 1 }

/-- the values taken at coordinate `s` by those pre-fixed points -/
def Vals (g : Game ℝ) (s : Nat) : Set ℝ := { r | ∃ y ∈ Cand g, r = y.getD s 0 }

theorem vals_nonempty (g : Game ℝ) (hwf : WF g) (s : Nat) : (Vals g s).Nonempty :=
  ⟨_, ones g, ⟨ones_prefixed hwf, ones_getD_le g⟩, rfl⟩

theorem vals_nonneg (g : Game ℝ) {s : Nat} (hs : s < g.owners.size) :
    ∀ r ∈ Vals g s, 0 ≤ r := by
  rintro r ⟨y, hy, rfl⟩
  exact hy.1.2.1 s hs

theorem vals_bdd (g : Game ℝ) {s : Nat} (hs : s < g.owners.size) :
    BddBelow (Vals g s) := ⟨0, fun r hr => vals_nonneg g hs r hr⟩

/-! ### example data -/

/-- the three-state example game of `CR/Props/C01.lean`, over the reals -/
noncomputable def exGameR : Game ℝ where
  rewards := #[0, 0, 0]
  owners := #[.prob, .prob, .prob]
  tl := #[[⟨"a", 3/4, 0⟩, ⟨"a", 1/8, 1⟩, ⟨"a", 1/8, 2⟩], [⟨"a", 1, 1⟩], [⟨"a", 1, 2⟩]]
  finals := [1]

theorem exGameR_wf : WF exGameR := by
  refine ⟨rfl, ?_, ?_⟩
  · intro s hs
    have hs' : s < 3 := hs
    have : s = 0 ∨ s = 1 ∨ s = 2 := by omega
    rcases this with rfl | rfl | rfl <;> simp [exGameR]
  · intro s hs
    have hs' : s < 3 := hs
    have : s = 0 ∨ s = 1 ∨ s = 2 := by omega
    rcases this with rfl | rfl | rfl <;> intro _ <;> simp [exGameR]
    norm_num

end CR.C01
